(* Model of the poisoning pattern `Result<_, Error>` of every component a connection error is fanned
   out to by qconnection::Components::enter_closing / enter_draining:

     DataStreams::on_conn_error   (qrecovery/src/streams/raw.rs, io.rs, listener.rs,
                                   send/outgoing.rs + sender.rs + writer.rs,
                                   recv/incoming.rs + recver.rs + reader.rs, qbase/src/sid/local_sid.rs)
     DatagramFlow::on_conn_error  (qdatagram/src/lib.rs, reader.rs, writer.rs)
     ArcParameters::on_conn_error (qbase/src/param.rs)
     FlowController::on_conn_error (qbase/src/flow.rs; nothing in qconnection calls it)

   with every waker slot explicit.  Application operations are TASKS identified by a number; a task
   whose poll is Pending is parked and registered in exactly the slot the Rust code stores its waker
   in; a wake moves the task number into [c_woken]; the executor re-polls woken parked tasks.
   The data plane is reduced to in-order byte counters (the peer of the stream is well behaved), the
   full data plane is Model/StreamCtl.v.  [fix23] selects the repaired DataStreams::on_conn_error
   (wakes the stream-id waiters).  Definitions only. *)
From Coq Require Import List NArith ZArith Bool.
From GQ Require Export Lib.Base.
Import ListNotations.
Local Open Scope N_scope.

Definition tid := N.
Definition err := N.

(* ---------------------------------------------------------------- one sending half *)
Inductive sstate := SOpen (* Ready | Sending *) | SDataSent | SDataRcvd | SResetSent.
Record sender := mksn {
  sn_st : sstate; sn_written : N; sn_window : N; sn_sent : N; sn_acked : N;
  sn_wwrite : option tid; sn_wflush : option tid; sn_wshut : option tid;   (* the three waker slots *)
  sn_handed : bool;                  (* the application holds the Writer *)
  sn_inset : bool;                   (* still in DataStreams.output *)
  sn_err : option err }.             (* ArcSender's Result is Err(e) *)

Definition sn_live (s : sender) : bool :=
  match sn_st s with SOpen | SDataSent => true | _ => false end.
(* member of DataStreams.output: removed exactly when all data and the FIN are acknowledged
   ([sn_inset] records the same fact at the place where the Rust removes the entry) *)
Definition in_set (s : sender) : bool :=
  match sn_st s with SDataRcvd => false | _ => true end.

Definition new_sender (window : N) (handed : bool) : sender :=
  mksn SOpen 0 window 0 0 None None None handed true None.

(* ---------------------------------------------------------------- one receiving half *)
Inductive rphase := RRecv | RSizeKnown | RDataRcvd | RDataRead | RResetRcvd | RResetRead.
Record recver := mkrc {
  rc_ph : rphase; rc_rcvd : N; rc_read : N; rc_final : option N;
  rc_wread : option tid;
  rc_handed : bool;
  rc_err : option err;
  (* the harness' stand-in for the peer: what it has sent so far *)
  tk_rcvd : N; tk_fin : option N; tk_reset : bool; tk_known : bool }.

Definition rc_live (r : recver) : bool :=
  match rc_ph r with RRecv | RSizeKnown => true | _ => false end.

Definition new_recver (handed : bool) : recver :=
  mkrc RRecv 0 0 None None handed None 0 None false true.

(* ---------------------------------------------------------------- tasks *)
Inductive kind :=
| KOpen (d : N) | KAccept (d : N) | KWrite (sid len : N) | KFlush (sid : N) | KShutdown (sid : N)
| KRead (sid n : N) | KDgRecv | KPReady.

Definition slot_of (k : kind) : option (N * N) :=
  match k with
  | KOpen _ | KPReady => None
  | KAccept d => Some (2, d)
  | KWrite s _ => Some (3, s)
  | KFlush s => Some (4, s)
  | KShutdown s => Some (5, s)
  | KRead s _ => Some (6, s)
  | KDgRecv => Some (7, 0)
  end.

Definition slot_eqb (a b : option (N * N)) : bool :=
  match a, b with
  | Some (x, y), Some (u, v) => (x =? u) && (y =? v)
  | _, _ => false
  end.

(* ---------------------------------------------------------------- the connection *)
Record cm := mkcm {
  c_fix23 : bool;
  c_role : N;                              (* 0 client, 1 server *)
  c_mem : bool;                            (* remembered (0-RTT) parameters still in force *)
  c_peer_max : N * N; c_peer_sd : N;       (* the peer's real parameters *)
  c_hs : bool;                             (* the harness delivered the handshake *)
  (* DataStreams *)
  c_snd : list (N * sender);
  c_rcv : list (N * recver);
  c_out_err : option err;                  (* ArcOutput / ArcInput / ArcListener are poisoned together *)
  c_lq : list N * list N; c_wbi : option tid; c_wuni : option tid;
  c_max : N * N; c_next : N * N; c_wsid : list tid * list tid;   (* LocalStreamIds *)
  c_peer_next : N * N;
  (* Parameters *)
  c_pready : bool; c_wparams : list tid; c_perr : option err;
  (* DatagramFlow *)
  c_dgin : list N; c_wdg : option tid; c_dgin_err : option err;
  c_dgout : list N; c_dgout_err : option err;
  (* FlowController (send side) *)
  c_fmax : N; c_fsent : N; c_ferr : option err;
  (* executor *)
  c_tasks : list (tid * kind);             (* parked tasks, ascending *)
  c_woken : list tid }.

Definition pget (p : N * N) (d : N) : N := if d =? 0 then fst p else snd p.
Definition pset (p : N * N) (d : N) (v : N) : N * N := if d =? 0 then (v, snd p) else (fst p, v).
Definition lget {A} (p : list A * list A) (d : N) : list A := if d =? 0 then fst p else snd p.
Definition lset {A} (p : list A * list A) (d : N) (v : list A) : list A * list A :=
  if d =? 0 then (v, snd p) else (fst p, v).

Fixpoint alookup {A} (l : list (N * A)) (k : N) : option A :=
  match l with
  | [] => None
  | (k', v) :: t => if k' =? k then Some v else alookup t k
  end.
Fixpoint aupdate {A} (l : list (N * A)) (k : N) (v : A) : list (N * A) :=
  match l with
  | [] => []
  | (k', v') :: t => if k' =? k then (k, v) :: t else (k', v') :: aupdate t k v
  end.

(* setters *)
Definition set_snd (m : cm) (x : list (N * sender)) : cm :=
  mkcm (c_fix23 m) (c_role m) (c_mem m) (c_peer_max m) (c_peer_sd m) (c_hs m) x (c_rcv m) (c_out_err m)
       (c_lq m) (c_wbi m) (c_wuni m) (c_max m) (c_next m) (c_wsid m) (c_peer_next m)
       (c_pready m) (c_wparams m) (c_perr m) (c_dgin m) (c_wdg m) (c_dgin_err m) (c_dgout m) (c_dgout_err m)
       (c_fmax m) (c_fsent m) (c_ferr m) (c_tasks m) (c_woken m).
Definition set_rcv (m : cm) (x : list (N * recver)) : cm :=
  mkcm (c_fix23 m) (c_role m) (c_mem m) (c_peer_max m) (c_peer_sd m) (c_hs m) (c_snd m) x (c_out_err m)
       (c_lq m) (c_wbi m) (c_wuni m) (c_max m) (c_next m) (c_wsid m) (c_peer_next m)
       (c_pready m) (c_wparams m) (c_perr m) (c_dgin m) (c_wdg m) (c_dgin_err m) (c_dgout m) (c_dgout_err m)
       (c_fmax m) (c_fsent m) (c_ferr m) (c_tasks m) (c_woken m).
Definition set_listener (m : cm) (q : list N * list N) (wb wu : option tid) : cm :=
  mkcm (c_fix23 m) (c_role m) (c_mem m) (c_peer_max m) (c_peer_sd m) (c_hs m) (c_snd m) (c_rcv m) (c_out_err m)
       q wb wu (c_max m) (c_next m) (c_wsid m) (c_peer_next m)
       (c_pready m) (c_wparams m) (c_perr m) (c_dgin m) (c_wdg m) (c_dgin_err m) (c_dgout m) (c_dgout_err m)
       (c_fmax m) (c_fsent m) (c_ferr m) (c_tasks m) (c_woken m).
Definition set_sid (m : cm) (mx nx : N * N) (w : list tid * list tid) : cm :=
  mkcm (c_fix23 m) (c_role m) (c_mem m) (c_peer_max m) (c_peer_sd m) (c_hs m) (c_snd m) (c_rcv m) (c_out_err m)
       (c_lq m) (c_wbi m) (c_wuni m) mx nx w (c_peer_next m)
       (c_pready m) (c_wparams m) (c_perr m) (c_dgin m) (c_wdg m) (c_dgin_err m) (c_dgout m) (c_dgout_err m)
       (c_fmax m) (c_fsent m) (c_ferr m) (c_tasks m) (c_woken m).
Definition set_params (m : cm) (mem ready : bool) (w : list tid) (e : option err) : cm :=
  mkcm (c_fix23 m) (c_role m) mem (c_peer_max m) (c_peer_sd m) (c_hs m) (c_snd m) (c_rcv m) (c_out_err m)
       (c_lq m) (c_wbi m) (c_wuni m) (c_max m) (c_next m) (c_wsid m) (c_peer_next m)
       ready w e (c_dgin m) (c_wdg m) (c_dgin_err m) (c_dgout m) (c_dgout_err m)
       (c_fmax m) (c_fsent m) (c_ferr m) (c_tasks m) (c_woken m).
Definition set_dgin (m : cm) (q : list N) (w : option tid) (e : option err) : cm :=
  mkcm (c_fix23 m) (c_role m) (c_mem m) (c_peer_max m) (c_peer_sd m) (c_hs m) (c_snd m) (c_rcv m) (c_out_err m)
       (c_lq m) (c_wbi m) (c_wuni m) (c_max m) (c_next m) (c_wsid m) (c_peer_next m)
       (c_pready m) (c_wparams m) (c_perr m) q w e (c_dgout m) (c_dgout_err m)
       (c_fmax m) (c_fsent m) (c_ferr m) (c_tasks m) (c_woken m).
Definition set_dgout (m : cm) (q : list N) (e : option err) : cm :=
  mkcm (c_fix23 m) (c_role m) (c_mem m) (c_peer_max m) (c_peer_sd m) (c_hs m) (c_snd m) (c_rcv m) (c_out_err m)
       (c_lq m) (c_wbi m) (c_wuni m) (c_max m) (c_next m) (c_wsid m) (c_peer_next m)
       (c_pready m) (c_wparams m) (c_perr m) (c_dgin m) (c_wdg m) (c_dgin_err m) q e
       (c_fmax m) (c_fsent m) (c_ferr m) (c_tasks m) (c_woken m).
Definition set_flow (m : cm) (mx snt : N) (e : option err) : cm :=
  mkcm (c_fix23 m) (c_role m) (c_mem m) (c_peer_max m) (c_peer_sd m) (c_hs m) (c_snd m) (c_rcv m) (c_out_err m)
       (c_lq m) (c_wbi m) (c_wuni m) (c_max m) (c_next m) (c_wsid m) (c_peer_next m)
       (c_pready m) (c_wparams m) (c_perr m) (c_dgin m) (c_wdg m) (c_dgin_err m) (c_dgout m) (c_dgout_err m)
       mx snt e (c_tasks m) (c_woken m).
Definition set_exec (m : cm) (t : list (tid * kind)) (w : list tid) : cm :=
  mkcm (c_fix23 m) (c_role m) (c_mem m) (c_peer_max m) (c_peer_sd m) (c_hs m) (c_snd m) (c_rcv m) (c_out_err m)
       (c_lq m) (c_wbi m) (c_wuni m) (c_max m) (c_next m) (c_wsid m) (c_peer_next m)
       (c_pready m) (c_wparams m) (c_perr m) (c_dgin m) (c_wdg m) (c_dgin_err m) (c_dgout m) (c_dgout_err m)
       (c_fmax m) (c_fsent m) (c_ferr m) t w.
Definition set_misc (m : cm) (hsd : bool) (oe : option err) (pn : N * N) : cm :=
  mkcm (c_fix23 m) (c_role m) (c_mem m) (c_peer_max m) (c_peer_sd m) hsd (c_snd m) (c_rcv m) oe
       (c_lq m) (c_wbi m) (c_wuni m) (c_max m) (c_next m) (c_wsid m) pn
       (c_pready m) (c_wparams m) (c_perr m) (c_dgin m) (c_wdg m) (c_dgin_err m) (c_dgout m) (c_dgout_err m)
       (c_fmax m) (c_fsent m) (c_ferr m) (c_tasks m) (c_woken m).

(* waker.wake(): the task number becomes runnable *)
Definition wake (m : cm) (t : tid) : cm := set_exec m (c_tasks m) (c_woken m ++ [t]).
Definition wake_opt (m : cm) (t : option tid) : cm := match t with Some x => wake m x | None => m end.
Definition wake_list (m : cm) (l : list tid) : cm := set_exec m (c_tasks m) (c_woken m ++ l).

Definition opt_list {A} (o : option A) : list A := match o with Some x => [x] | None => [] end.

(* ---------------------------------------------------------------- stream ids *)
Definition local_sid (m : cm) (d idx : N) : N := idx * 4 + d * 2 + c_role m.
Definition peer_sid (m : cm) (d idx : N) : N := idx * 4 + d * 2 + (1 - c_role m).
Definition is_peer_sid (m : cm) (sid : N) : bool := (sid mod 2) =? (1 - c_role m).
Definition sid_is_bi (sid : N) : bool := ((sid / 2) mod 2) =? 0.

(* LocalStreamIds::increase_limit *)
Definition sid_increase (m : cm) (d v : N) : cm :=
  if pget (c_max m) d <? v then
    wake_list (set_sid m (pset (c_max m) d v) (c_next m) (lset (c_wsid m) d [])) (lget (c_wsid m) d)
  else m.

(* ---------------------------------------------------------------- polls (one poll of one task) *)
Definition res := (Z * Z)%type.
Definition PENDING : res := (0, 0)%Z.
Definition r_err (e : err) : res := (2%Z, Z.of_N e).

Definition upd_snd (m : cm) (sid : N) (s : sender) : cm := set_snd m (aupdate (c_snd m) sid s).
Definition upd_rcv (m : cm) (sid : N) (r : recver) : cm := set_rcv m (aupdate (c_rcv m) sid r).

Definition with_slots (s : sender) (ww wf ws : option tid) : sender :=
  mksn (sn_st s) (sn_written s) (sn_window s) (sn_sent s) (sn_acked s) ww wf ws (sn_handed s) (sn_inset s) (sn_err s).
Definition with_sn (s : sender) (st : sstate) (written window sent acked : N) (inset : bool) : sender :=
  mksn st written window sent acked (sn_wwrite s) (sn_wflush s) (sn_wshut s) (sn_handed s) inset (sn_err s).

Definition handed_sender (m : cm) (sid : N) : option sender :=
  match alookup (c_snd m) sid with
  | Some s => if sn_handed s then Some s else None
  | None => None
  end.
Definition handed_recver (m : cm) (sid : N) : option recver :=
  match alookup (c_rcv m) sid with
  | Some r => if rc_handed r then Some r else None
  | None => None
  end.

(* Writer::poll_write *)
Definition poll_write (m : cm) (t : tid) (sid len : N) : cm * res :=
  match handed_sender m sid with
  | None => (m, (9, 0)%Z)
  | Some s =>
    match sn_err s with
    | Some e => (m, r_err e)
    | None =>
      match sn_st s with
      | SOpen =>
        match sn_wshut s with
        | Some _ => (m, (3, 1)%Z)                                   (* EosSent *)
        | None =>
          if sn_window s <=? sn_written s
          then (upd_snd m sid (with_slots s (Some t) (sn_wflush s) (sn_wshut s)), PENDING)
          else (upd_snd m sid (with_sn s SOpen (sn_written s + len) (sn_window s) (sn_sent s) (sn_acked s) (sn_inset s)),
                (1%Z, Z.of_N len))
        end
      | SDataSent | SDataRcvd => (m, (3, 1)%Z)
      | SResetSent => (m, (3, 2)%Z)
      end
    end
  end.

(* Writer::poll_flush *)
Definition poll_flush (m : cm) (t : tid) (sid : N) : cm * res :=
  match handed_sender m sid with
  | None => (m, (9, 0)%Z)
  | Some s =>
    match sn_err s with
    | Some e => (m, r_err e)
    | None =>
      match sn_st s with
      | SOpen =>
        if sn_acked s =? sn_written s then (m, (1, 0)%Z)
        else (upd_snd m sid (with_slots s (sn_wwrite s) (Some t) (sn_wshut s)), PENDING)
      | SDataSent => (upd_snd m sid (with_slots s (sn_wwrite s) (Some t) (sn_wshut s)), PENDING)
      | SDataRcvd => (m, (1, 0)%Z)
      | SResetSent => (m, (3, 2)%Z)
      end
    end
  end.

(* Writer::poll_shutdown *)
Definition poll_shutdown (m : cm) (t : tid) (sid : N) : cm * res :=
  match handed_sender m sid with
  | None => (m, (9, 0)%Z)
  | Some s =>
    match sn_err s with
    | Some e => (m, r_err e)
    | None =>
      match sn_st s with
      | SOpen | SDataSent => (upd_snd m sid (with_slots s (sn_wwrite s) (sn_wflush s) (Some t)), PENDING)
      | SDataRcvd => (m, (1, 0)%Z)
      | SResetSent => (m, (3, 2)%Z)
      end
    end
  end.

Definition with_rc (r : recver) (ph : rphase) (rcvd rd : N) (fin : option N) (w : option tid) : recver :=
  mkrc ph rcvd rd fin w (rc_handed r) (rc_err r) (tk_rcvd r) (tk_fin r) (tk_reset r) (tk_known r).

(* Reader::poll_read into n bytes *)
Definition poll_read (m : cm) (t : tid) (sid n : N) : cm * res :=
  match handed_recver m sid with
  | None => (m, (9, 0)%Z)
  | Some r =>
    match rc_err r with
    | Some e => (m, r_err e)
    | None =>
      let avail := rc_rcvd r - rc_read r in
      let k := N.min n avail in
      match rc_ph r with
      | RRecv | RSizeKnown =>
        if rc_read r <? rc_rcvd r
        then (upd_rcv m sid (with_rc r (rc_ph r) (rc_rcvd r) (rc_read r + k) (rc_final r) (rc_wread r)), (1%Z, Z.of_N k))
        else (upd_rcv m sid (with_rc r (rc_ph r) (rc_rcvd r) (rc_read r) (rc_final r) (Some t)), PENDING)
      | RDataRcvd =>
        let ph := if rc_read r + k =? rc_rcvd r then RDataRead else RDataRcvd in
        (upd_rcv m sid (with_rc r ph (rc_rcvd r) (rc_read r + k) (rc_final r) (rc_wread r)), (1%Z, Z.of_N k))
      | RDataRead => (m, (1, 0)%Z)
      | RResetRcvd => (upd_rcv m sid (with_rc r RResetRead (rc_rcvd r) (rc_read r) (rc_final r) (rc_wread r)), (3, 2)%Z)
      | RResetRead => (m, (3, 2)%Z)
      end
    end
  end.

(* the send window a freshly opened stream gets: remembered parameters, else the peer's, else wait *)
Definition open_window (m : cm) : option N :=
  if c_mem m then Some (c_peer_sd m) else if c_pready m then Some (c_peer_sd m) else None.

(* DataStreams::poll_open_{bi,uni}_stream *)
Definition poll_open (m : cm) (t : tid) (d : N) : cm * res :=
  match c_out_err m with
  | Some e => (m, r_err e)
  | None =>
    match c_perr m with
    | Some e => (m, r_err e)
    | None =>
      match open_window m with
      | None => (set_params m (c_mem m) (c_pready m) (c_wparams m ++ [t]) (c_perr m), PENDING)
      | Some w =>
        let nx := pget (c_next m) d in
        if nx <? pget (c_max m) d then
          let sid := local_sid m d nx in
          let m1 := set_sid m (c_max m) (pset (c_next m) d (nx + 1)) (c_wsid m) in
          let m2 := set_snd m1 (c_snd m1 ++ [(sid, new_sender w true)]) in
          let m3 := if d =? 0 then set_rcv m2 (c_rcv m2 ++ [(sid, new_recver true)]) else m2 in
          (m3, (1%Z, Z.of_N sid))
        else
          (set_sid m (c_max m) (c_next m) (lset (c_wsid m) d (lget (c_wsid m) d ++ [t])), PENDING)
      end
    end
  end.

Definition hand_sender (m : cm) (sid : N) (w : N) : cm :=
  match alookup (c_snd m) sid with
  | Some s =>
    let win := if sn_window s <? w then w else sn_window s in
    upd_snd m sid (mksn (sn_st s) (sn_written s) win (sn_sent s) (sn_acked s)
                        (sn_wwrite s) (sn_wflush s) (sn_wshut s) true (sn_inset s) (sn_err s))
  | None => m
  end.
Definition hand_recver (m : cm) (sid : N) : cm :=
  match alookup (c_rcv m) sid with
  | Some r => upd_rcv m sid (mkrc (rc_ph r) (rc_rcvd r) (rc_read r) (rc_final r) (rc_wread r) true (rc_err r)
                                   (tk_rcvd r) (tk_fin r) (tk_reset r) (tk_known r))
  | None => m
  end.

(* ArcListener::poll_accept_{bi,uni}_stream *)
Definition poll_accept (m : cm) (t : tid) (d : N) : cm * res :=
  match c_out_err m with
  | Some e => (m, r_err e)
  | None =>
    if d =? 0 then
      match c_perr m with
      | Some e => (m, r_err e)
      | None =>
        if c_pready m then
          match fst (c_lq m) with
          | sid :: q =>
            let m1 := set_listener m (q, snd (c_lq m)) (c_wbi m) (c_wuni m) in
            (hand_recver (hand_sender m1 sid (c_peer_sd m)) sid, (1%Z, Z.of_N sid))
          | [] => (set_listener m (c_lq m) (Some t) (c_wuni m), PENDING)
          end
        else (set_params m (c_mem m) (c_pready m) (c_wparams m ++ [t]) (c_perr m), PENDING)
      end
    else
      match snd (c_lq m) with
      | sid :: q => (hand_recver (set_listener m (fst (c_lq m), q) (c_wbi m) (c_wuni m)) sid, (1%Z, Z.of_N sid))
      | [] => (set_listener m (c_lq m) (c_wbi m) (Some t), PENDING)
      end
  end.

(* DatagramReader::poll_recv *)
Definition poll_dgrecv (m : cm) (t : tid) : cm * res :=
  match c_dgin_err m with
  | Some e => (m, r_err e)
  | None =>
    match c_dgin m with
    | l :: q => (set_dgin m q (c_wdg m) None, (1%Z, Z.of_N l))
    | [] => (set_dgin m [] (Some t) None, PENDING)
    end
  end.

(* ArcParameters::remote_ready *)
Definition poll_pready (m : cm) (t : tid) : cm * res :=
  match c_perr m with
  | Some e => (m, r_err e)
  | None =>
    if c_pready m then (m, (1, 0)%Z)
    else (set_params m (c_mem m) (c_pready m) (c_wparams m ++ [t]) (c_perr m), PENDING)
  end.

Definition poll (m : cm) (t : tid) (k : kind) : cm * res :=
  match k with
  | KOpen d => poll_open m t d
  | KAccept d => poll_accept m t d
  | KWrite s l => poll_write m t s l
  | KFlush s => poll_flush m t s
  | KShutdown s => poll_shutdown m t s
  | KRead s n => poll_read m t s n
  | KDgRecv => poll_dgrecv m t
  | KPReady => poll_pready m t
  end.

(* ---------------------------------------------------------------- on_conn_error *)
(* {Ready,Sending,DataSent}Sender::wake_all *)
Definition sn_wakers (s : sender) : list tid :=
  opt_list (sn_wwrite s) ++ opt_list (sn_wflush s) ++ opt_list (sn_wshut s).

(* Outgoing::on_conn_error on one member of the output set: (new sender, tasks woken) *)
Definition snd_conn_error (e : err) (s : sender) : sender * list tid :=
  if in_set s then
    match sn_err s with
    | Some _ => (s, [])
    | None =>
      if sn_live s then
        (mksn (sn_st s) (sn_written s) (sn_window s) (sn_sent s) (sn_acked s) None None None
              (sn_handed s) (sn_inset s) (Some e), sn_wakers s)
      else (s, [])
    end
  else (s, []).

(* Incoming::on_conn_error on one member of the input set *)
Definition rcv_conn_error (e : err) (r : recver) : recver * list tid :=
  match rc_err r with
  | Some _ => (r, [])
  | None =>
    if rc_live r then
      (mkrc (rc_ph r) (rc_rcvd r) (rc_read r) (rc_final r) None (rc_handed r) (Some e)
            (tk_rcvd r) (tk_fin r) (tk_reset r) (tk_known r), opt_list (rc_wread r))
    else (r, [])
  end.

Fixpoint map_err {A} (f : A -> A * list tid) (l : list (N * A)) : list (N * A) * list tid :=
  match l with
  | [] => ([], [])
  | (k, v) :: t =>
    let '(v', w) := f v in
    let '(t', w') := map_err f t in
    ((k, v') :: t', w ++ w')
  end.

(* DataStreams::on_conn_error *)
Definition ds_conn_error (e : err) (m : cm) : cm :=
  match c_out_err m with
  | Some _ => m
  | None =>
    let '(snd', w1) := map_err (snd_conn_error e) (c_snd m) in
    let '(rcv', w2) := map_err (rcv_conn_error e) (c_rcv m) in
    let m1 := set_misc (set_rcv (set_snd m snd') rcv') (c_hs m) (Some e) (c_peer_next m) in
    let m2 := wake_list m1 (w1 ++ w2 ++ opt_list (c_wbi m) ++ opt_list (c_wuni m)) in
    let m3 := set_listener m2 (c_lq m2) None None in
    if c_fix23 m then
      wake_list (set_sid m3 (c_max m3) (c_next m3) ([], [])) (fst (c_wsid m3) ++ snd (c_wsid m3))
    else m3
  end.

(* DatagramFlow::on_conn_error *)
Definition dg_conn_error (e : err) (m : cm) : cm :=
  let m1 := match c_dgin_err m with
            | Some _ => m
            | None => wake_opt (set_dgin m (c_dgin m) None (Some e)) (c_wdg m)
            end in
  match c_dgout_err m1 with
  | Some _ => m1
  | None => set_dgout m1 (c_dgout m1) (Some e)
  end.

(* ArcParameters::on_conn_error: the Parameters value is dropped, its Drop impl wakes every waiter *)
Definition params_conn_error (e : err) (m : cm) : cm :=
  match c_perr m with
  | Some _ => m
  | None => wake_list (set_params m (c_mem m) (c_pready m) [] (Some e)) (c_wparams m)
  end.

(* Components::enter_closing / enter_draining: data_streams, datagram_flow, parameters *)
Definition conn_error (e : err) (m : cm) : cm :=
  params_conn_error e (dg_conn_error e (ds_conn_error e m)).

Definition flow_conn_error (e : err) (m : cm) : cm :=
  match c_ferr m with Some _ => m | None => set_flow m (c_fmax m) (c_fsent m) (Some e) end.

(* every task number stored in a waker slot of a component that is still Ok *)
Definition snd_registered (s : sender) : list tid :=
  if in_set s && sn_live s && match sn_err s with None => true | _ => false end then sn_wakers s else [].
Definition rcv_registered (r : recver) : list tid :=
  if rc_live r && match rc_err r with None => true | _ => false end then opt_list (rc_wread r) else [].
Definition registered (m : cm) : list tid :=
  flat_map (fun x => snd_registered (snd x)) (c_snd m) ++
  flat_map (fun x => rcv_registered (snd x)) (c_rcv m) ++
  opt_list (c_wbi m) ++ opt_list (c_wuni m) ++
  fst (c_wsid m) ++ snd (c_wsid m) ++
  c_wparams m ++ opt_list (c_wdg m).
(* the same without the stream-id waiters (the class of F23) *)
Definition registered_but_sid (m : cm) : list tid :=
  flat_map (fun x => snd_registered (snd x)) (c_snd m) ++
  flat_map (fun x => rcv_registered (snd x)) (c_rcv m) ++
  opt_list (c_wbi m) ++ opt_list (c_wuni m) ++
  c_wparams m ++ opt_list (c_wdg m).

(* ---------------------------------------------------------------- transport-side operations *)
Definition handshake (m : cm) : cm * list Z :=
  if c_hs m then (m, [(-2)%Z]) else
  let m0 := set_misc m true (c_out_err m) (c_peer_next m) in
  (* recv_remote_params + initial_scid_from_peer_need_equal: ready, remembered dropped, wake all *)
  let m1 := match c_perr m0 with
            | Some _ => m0
            | None => wake_list (set_params m0 false true [] None) (c_wparams m0)
            end in
  (* DataStreams::revise_params (windows unchanged: same values), revise_max_streams *)
  let m2 := match c_out_err m1 with
            | Some _ => m1
            | None => sid_increase (sid_increase m1 0 (fst (c_peer_max m1))) 1 (snd (c_peer_max m1))
            end in
  (* flow_ctrl.sender.revise_max_data *)
  let m3 := match c_ferr m2 with
            | Some _ => m2
            | None => set_flow m2 (N.max (c_fmax m2) 1000000) (c_fsent m2) None
            end in
  (m3, [1%Z]).

(* DataStreams::try_accept_sid for the peer's next stream + the empty STREAM frame *)
Definition peer_open (m : cm) (d : N) : cm * list Z :=
  let idx := pget (c_peer_next m) d in
  let sid := peer_sid m d idx in
  let m0 := set_misc m (c_hs m) (c_out_err m) (pset (c_peer_next m) d (idx + 1)) in
  match c_out_err m0 with
  | Some _ =>
    (* the harness still tracks the peer's stream *)
    (set_rcv m0 (c_rcv m0 ++ [(sid, mkrc RRecv 0 0 None None false (c_out_err m0) 0 None false true)]), [0%Z; Z.of_N sid])
  | None =>
    let m1 := set_rcv m0 (c_rcv m0 ++ [(sid, new_recver false)]) in
    let m2 := if d =? 0 then set_snd m1 (c_snd m1 ++ [(sid, new_sender 0 false)]) else m1 in
    let m3 := if d =? 0
              then wake_opt (set_listener m2 (fst (c_lq m2) ++ [sid], snd (c_lq m2)) None (c_wuni m2)) (c_wbi m2)
              else wake_opt (set_listener m2 (fst (c_lq m2), snd (c_lq m2) ++ [sid]) (c_wbi m2) None) (c_wuni m2) in
    (m3, [0%Z; Z.of_N sid])
  end.

Definition with_tk (r : recver) (rcvd : N) (fin : option N) (reset : bool) : recver :=
  mkrc (rc_ph r) (rc_rcvd r) (rc_read r) (rc_final r) (rc_wread r) (rc_handed r) (rc_err r) rcvd fin reset (tk_known r).

(* may the peer send on this stream: it is the peer's, or our bidirectional one; and the harness tracks it *)
Definition peer_may_send (m : cm) (sid : N) : option recver :=
  if is_peer_sid m sid || sid_is_bi sid then
    match alookup (c_rcv m) sid with
    | Some r => if tk_known r && negb (tk_reset r) then Some r else None
    | None => None
    end
  else None.

Definition live_in_set (m : cm) (r : recver) : bool :=
  match c_out_err m, rc_err r with None, None => rc_live r | _, _ => false end.

(* STREAM frame, in order *)
Definition peer_data (m : cm) (sid len : N) (fin : bool) : cm * list Z :=
  match peer_may_send m sid with
  | None => (m, [(-1)%Z; 9%Z])
  | Some r =>
    let room := N.min (match tk_fin r with Some f => f - tk_rcvd r | None => 1000000000 end)
                      (50000 - N.min (tk_rcvd r) 50000) in
    let l := N.min len room in
    let f := fin && match tk_fin r with Some f => f =? tk_rcvd r + l | None => true end in
    let r1 := with_tk r (tk_rcvd r + l) (if f then Some (tk_rcvd r + l) else tk_fin r) (tk_reset r) in
    if live_in_set m r then
      let rcvd' := rc_rcvd r + l in
      let final' := if f then Some rcvd' else rc_final r1 in
      let done := match final' with Some x => x =? rcvd' | None => false end in
      let wk := (f && match rc_ph r with RRecv => true | _ => false end) || (rc_read r <? rcvd') in
      let r2 := with_rc r1 (if done then RDataRcvd else match final' with Some _ => RSizeKnown | None => rc_ph r end)
                        rcvd' (rc_read r) final' (if wk then None else rc_wread r) in
      (wake_list (upd_rcv m sid r2) (if wk then opt_list (rc_wread r) else []), [Z.of_N l; 0%Z])
    else (upd_rcv m sid r1, [Z.of_N l; 0%Z])
  end.

(* empty FIN frame at offset rcvd + g *)
Definition peer_fingap (m : cm) (sid g : N) : cm * list Z :=
  match peer_may_send m sid with
  | None => (m, [(-1)%Z; 9%Z])
  | Some r =>
    match tk_fin r with
    | Some _ => (m, [(-1)%Z; 0%Z])
    | None =>
      let gg := N.min g 1000 in
      let r1 := with_tk r (tk_rcvd r) (Some (tk_rcvd r + gg)) (tk_reset r) in
      if live_in_set m r then
        let final := rc_rcvd r + gg in
        let r2 := with_rc r1 (if gg =? 0 then RDataRcvd else RSizeKnown) (rc_rcvd r) (rc_read r) (Some final) None in
        (wake_list (upd_rcv m sid r2) (opt_list (rc_wread r)), [Z.of_N gg; 0%Z])
      else (upd_rcv m sid r1, [Z.of_N gg; 0%Z])
    end
  end.

(* RESET_STREAM *)
Definition peer_reset (m : cm) (sid : N) : cm * list Z :=
  match peer_may_send m sid with
  | None => (m, [(-1)%Z; 9%Z])
  | Some r =>
    let fin := match tk_fin r with Some f => f | None => tk_rcvd r end in
    let r1 := with_tk r (tk_rcvd r) (tk_fin r) true in
    if live_in_set m r then
      let r2 := with_rc r1 RResetRcvd (rc_rcvd r) (rc_read r) (rc_final r) None in
      (wake_list (upd_rcv m sid r2) (opt_list (rc_wread r)), [Z.of_N fin; 0%Z])
    else (upd_rcv m sid r1, [Z.of_N fin; 0%Z])
  end.

(* may the peer address the sending half of this stream *)
Definition peer_may_ctl (m : cm) (sid : N) : bool :=
  if is_peer_sid m sid
  then sid_is_bi sid && (sid / 4 <? fst (c_peer_next m))
  else match handed_sender m sid with Some _ => true | None => false end.

Definition sender_in_set (m : cm) (sid : N) : option sender :=
  match c_out_err m with
  | Some _ => None
  | None => match alookup (c_snd m) sid with
            | Some s => if in_set s then match sn_err s with None => Some s | Some _ => None end else None
            | None => None
            end
  end.

(* STOP_SENDING: Outgoing::be_stopped *)
Definition peer_stop (m : cm) (sid : N) : cm * list Z :=
  if peer_may_ctl m sid then
    match sender_in_set m sid with
    | Some s =>
      if sn_live s then
        (wake_list (upd_snd m sid (mksn SResetSent (sn_written s) (sn_window s) (sn_sent s) (sn_acked s)
                                        None None None (sn_handed s) (sn_inset s) None)) (sn_wakers s), [0%Z])
      else (m, [0%Z])
    | None => (m, [0%Z])
    end
  else (m, [9%Z]).

(* MAX_STREAM_DATA: Outgoing::update_window *)
Definition peer_maxsd (m : cm) (sid v : N) : cm * list Z :=
  if peer_may_ctl m sid then
    match sender_in_set m sid with
    | Some s =>
      let w := N.min v 90000 in
      match sn_st s with
      | SOpen =>
        if sn_window s <? w then
          let wk := sn_written s <? w in
          (wake_list (upd_snd m sid (mksn SOpen (sn_written s) w (sn_sent s) (sn_acked s)
                                          (if wk then None else sn_wwrite s) (sn_wflush s) (sn_wshut s)
                                          (sn_handed s) (sn_inset s) None))
                     (if wk then opt_list (sn_wwrite s) else []), [0%Z])
        else (m, [0%Z])
      | _ => (m, [0%Z])
      end
    | None => (m, [0%Z])
    end
  else (m, [9%Z]).

(* try_load_data_into until nothing more goes out: (senders, bytes, fins) *)
Fixpoint load_senders (l : list (N * sender)) : list (N * sender) * N * N :=
  match l with
  | [] => ([], 0, 0)
  | (k, s) :: t =>
    let '(t', b, f) := load_senders t in
    if in_set s && match sn_err s with None => true | _ => false end then
      match sn_st s with
      | SOpen =>
        let target := N.min (sn_written s) (sn_window s) in
        let sendable := target - sn_sent s in
        let sent' := sn_sent s + sendable in
        let eos := match sn_wshut s with Some _ => sent' =? sn_written s | None => false end in
        ((k, with_sn s (if eos then SDataSent else SOpen) (sn_written s) (sn_window s) sent' (sn_acked s) true) :: t',
         b + sendable, if eos then f + 1 else f)
      | _ => ((k, s) :: t', b, f)
      end
    else ((k, s) :: t', b, f)
  end.

Definition load (m : cm) : cm * list Z :=
  let '(m1, b, f) :=
    match c_out_err m, c_ferr m with
    | None, None =>
      let '(s', b, f) := load_senders (c_snd m) in
      (set_flow (set_snd m s') (c_fmax m) (c_fsent m + b) None, b, f)
    | _, _ => (m, 0, 0)
    end in
  let '(m2, dn) :=
    match c_dgout_err m1 with
    | None => (set_dgout m1 [] None, lenN (c_dgout m1))
    | Some _ => (m1, 0)
    end in
  (m2, [Z.of_N b; Z.of_N f; Z.of_N dn]).

(* every STREAM frame of that stream emitted so far is acknowledged *)
Definition ack (m : cm) (sid : N) : cm * list Z :=
  match sender_in_set m sid with
  | Some s =>
    if (sn_acked s <? sn_sent s) || match sn_st s with SDataSent => true | _ => false end then
      match sn_st s with
      | SOpen =>
        let all := sn_sent s =? sn_written s in
        (wake_list (upd_snd m sid (mksn SOpen (sn_written s) (sn_window s) (sn_sent s) (sn_sent s)
                                        (sn_wwrite s) (if all then None else sn_wflush s) (sn_wshut s)
                                        (sn_handed s) true None))
                   (if all then opt_list (sn_wflush s) else []), [0%Z])
      | SDataSent =>
        (wake_list (upd_snd m sid (mksn SDataRcvd (sn_written s) (sn_window s) (sn_sent s) (sn_sent s)
                                        (sn_wwrite s) None None (sn_handed s) false None))
                   (opt_list (sn_wflush s) ++ opt_list (sn_wshut s)), [0%Z])
      | _ => (m, [0%Z])
      end
    else (m, [0%Z])
  | None => (m, [0%Z])
  end.

Definition dgram_in (m : cm) (len : N) : cm * list Z :=
  match c_dgin_err m with
  | Some e => (m, [2%Z; Z.of_N e])
  | None => (wake_opt (set_dgin m (c_dgin m ++ [N.min len 1000]) None None) (c_wdg m), [0%Z])
  end.

(* DatagramWriter::send_bytes: the frame form with the length field, 1 + varint(len) + len bytes, must
   fit the peer's max_datagram_frame_size (1200 in the stream) *)
Definition dg_vsz (v : N) : N :=
  if v <? 64 then 1 else if v <? 16384 then 2 else if v <? 1073741824 then 4 else 8.
Definition dgram_send (m : cm) (len : N) : cm * list Z :=
  match c_dgout_err m with
  | Some e => (m, [2%Z; Z.of_N e])
  | None => if 1200 <? 1 + dg_vsz len + len then (m, [3; 0]%Z) else (set_dgout m (c_dgout m ++ [len]) None, [1; 0]%Z)
  end.

Definition credit (m : cm) (n : N) : cm * list Z :=
  match c_ferr m with
  | Some e => (m, [2%Z; Z.of_N e])
  | None => (m, [1%Z; Z.of_N (N.min (c_fmax m - c_fsent m) n)])
  end.

(* ---------------------------------------------------------------- executor and the stream *)
Fixpoint mem_tid (t : tid) (l : list tid) : bool :=
  match l with [] => false | x :: r => (x =? t) || mem_tid t r end.

Definition slot_busy (m : cm) (k : kind) : bool :=
  existsb (fun tk => slot_eqb (slot_of (snd tk)) (slot_of k)) (c_tasks m).

Definition start_task (m : cm) (t : tid) (k : kind) : cm * list Z :=
  if slot_busy m k then (m, [8; 0]%Z) else
  let '(m1, (code, val)) := poll m t k in
  let m2 := if (code =? 0)%Z then set_exec m1 (c_tasks m1 ++ [(t, k)]) (c_woken m1) else m1 in
  (m2, [code; val]).

(* re-poll the woken parked tasks in task order; returns the completions *)
Fixpoint repoll (m : cm) (todo : list (tid * kind)) : cm * list Z * N :=
  match todo with
  | [] => (m, [], 0)
  | (t, k) :: rest =>
    let '(m1, (code, val)) := poll m t k in
    let m2 := if (code =? 0)%Z then m1
              else set_exec m1 (filter (fun tk => negb (fst tk =? t)) (c_tasks m1)) (c_woken m1) in
    let '(m3, w, n) := repoll m2 rest in
    if (code =? 0)%Z then (m3, w, n) else (m3, [Z.of_N t; code; val] ++ w, n + 1)
  end.

Definition settle (m : cm) (self : tid) : cm * list Z :=
  let ready := filter (fun tk => mem_tid (fst tk) (c_woken m)) (c_tasks m) in
  let shown := filter (fun tk => negb (fst tk =? self)) ready in
  let m0 := set_exec m (c_tasks m) [] in
  let '(m1, w, n) := repoll m0 ready in
  (set_exec m1 (c_tasks m1) [],
   [(-1)%Z; Z.of_N (lenN shown)] ++ map (fun tk => Z.of_N (fst tk)) shown ++ [(-2)%Z; Z.of_N n] ++ w).

(* RACE (stream op 24): one poll of open / accept racing the connection error, in the one schedule a
   sequential history cannot express: the poll has entered its critical section (it holds the stream /
   listener guards and has seen the components healthy) when DataStreams::on_conn_error begins.
   Granularity = lock-protected sections.  Everything on_conn_error does - poisoning the output, input
   and listener tables AND draining the stream-id waiters - happens under those guards, so the close is
   serialised after the poll's section: the poll completes against the healthy state (and may park its
   waker), then the whole fan-out runs and finds that waker.  The harness forces exactly this schedule
   on the real code with two threads; a fan-out step that ran outside the guards would run BEFORE the
   poll parks and show up as a difference. *)
Definition race_kind (t : N) (a : list Z) : option kind :=
  match t, a with
  | 1, [d] => Some (KOpen (N.min (Z.to_N d) 1))
  | 2, [d] => Some (KAccept (N.min (Z.to_N d) 1))
  | _, _ => None
  end.

Definition race (m : cm) (idx : N) (e : err) (t : N) (a : list Z) : cm * list Z :=
  match race_kind t a with
  | Some k => let '(m1, o) := start_task m idx k in (conn_error e m1, o)
  | None => (m, [(-99)%Z])
  end.

Definition cm_op (m : cm) (idx : N) (tag : N) (a : list Z) : cm * list Z :=
  match tag, a with
  | 0, [] => handshake m
  | 1, [d] => start_task m idx (KOpen (N.min (Z.to_N d) 1))
  | 2, [d] => start_task m idx (KAccept (N.min (Z.to_N d) 1))
  | 3, [s; l] => start_task m idx (KWrite (Z.to_N s) (Z.to_N l))
  | 4, [s] => start_task m idx (KFlush (Z.to_N s))
  | 5, [s] => start_task m idx (KShutdown (Z.to_N s))
  | 6, [s; n] => start_task m idx (KRead (Z.to_N s) (Z.to_N n))
  | 7, [] => start_task m idx KDgRecv
  | 8, [l] => dgram_send m (Z.to_N l)
  | 10, [] => start_task m idx KPReady
  | 11, [d] => peer_open m (N.min (Z.to_N d) 1)
  | 12, [s; l; f] => peer_data m (Z.to_N s) (Z.to_N l) (negb (f =? 0)%Z)
  | 13, [s; g] => peer_fingap m (Z.to_N s) (Z.to_N g)
  | 14, [s] => peer_reset m (Z.to_N s)
  | 15, [s] => peer_stop m (Z.to_N s)
  | 16, [s; v] => peer_maxsd m (Z.to_N s) (Z.to_N v)
  | 17, [d; v] => (sid_increase m (if (d =? 0)%Z then 0 else 1) (N.min (Z.to_N v) 64), [0%Z])
  | 18, [] => load m
  | 19, [s] => ack m (Z.to_N s)
  | 20, [l] => dgram_in m (Z.to_N l)
  | 21, [e] => (conn_error (Z.to_N e) m, [0%Z])
  | 22, [e] => (flow_conn_error (Z.to_N e) m, [0%Z])
  | 23, [n] => credit m (Z.to_N n)
  | 24, e :: t :: a' => race m idx (Z.to_N e) (Z.to_N t) a'
  | _, _ => (m, [(-99)%Z])
  end.

Definition cm_step (m : cm) (idx : N) (tag : N) (a : list Z) : cm * list Z :=
  let '(m1, o) := cm_op m idx tag a in
  match o with
  | [(-99)%Z] => (m1, o)
  | _ => let '(m2, w) := settle m1 idx in (m2, o ++ w)
  end.

Fixpoint cm_run (m : cm) (idx : N) (ops : list (N * list Z)) : list (list Z) :=
  match ops with
  | [] => []
  | (t, a) :: r => let '(m', o) := cm_step m idx t a in o :: cm_run m' (idx + 1) r
  end.

Fixpoint cm_exec (m : cm) (idx : N) (ops : list (N * list Z)) : cm :=
  match ops with
  | [] => m
  | (t, a) :: r => cm_exec (fst (cm_step m idx t a)) (idx + 1) r
  end.

Definition cm_init (fix23 : bool) (cfg : list Z) : option cm :=
  match cfg with
  | [role; mem; mb; mu; sd] =>
    let r := if (role =? 0)%Z then 0 else 1 in
    let remembered := (mem =? 1)%Z && (r =? 0) in
    let pm := (Z.to_N mb, Z.to_N mu) in
    Some (mkcm fix23 r remembered pm (Z.to_N sd) false [] [] None ([], []) None None
               (if remembered then pm else (0, 0)) (0, 0) ([], []) (0, 0)
               false [] None [] None None [] None
               (if remembered then 1000000 else 0) 0 None [] [])
  | _ => None
  end.

Definition run_connerr_with (fix23 : bool) (cfg : list Z) (ops : list (N * list Z)) : list (list Z) :=
  match cm_init fix23 cfg with
  | Some m => cm_run m 0 ops
  | None => []
  end.

(* the repaired tree (default) and the tree as it stood (F23) *)
Definition run_connerr : list Z -> list (N * list Z) -> list (list Z) := run_connerr_with true.
Definition run_connerr_asis : list Z -> list (N * list Z) -> list (list Z) := run_connerr_with false.
