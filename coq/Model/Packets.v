(* Model of the packet-header codec and the first look at a datagram:
   qbase/src/packet/type.rs, type/long.rs, type/long/v1.rs, type/short.rs, header.rs, header/long.rs,
   header/short.rs, packet/io.rs (be_payload, be_packet), packet.rs (PacketReader).  Definitions only. *)
From Coq Require Import List ZArith NArith Bool.
From GQ Require Export Model.Frames.
Import ListNotations.
Local Open Scope Z_scope.

(* long packet types of version 1, in the order of the two type bits (0x00,0x10,0x20,0x30) *)
Inductive v1type := V1Initial | V1ZeroRtt | V1Handshake | V1Retry.

Inductive pkttype :=
| TyVN                       (* long header, version 0 *)
| TyV1 (t : v1type)
| TyShort (spin : bool).

(* packet::error::Error as far as be_packet produces it *)
Inductive perr :=
| PEUnsupportedVersion (v : Z)
| PEInvalidFixedBit
| PEIncompleteType
| PEIncompleteHeader
| PEUnderSampling (n : Z).

Definition bit_set (b mask : Z) : bool := negb ((b / mask) mod 2 =? 0).   (* mask is a power of two *)

(* r#type::io::be_packet_type ; Ok / Err *)
Inductive tres := TOk (t : pkttype) (rest : list Z) | TErr (e : perr).

Definition be_packet_type (bs : list Z) : tres :=
  match bs with
  | [] => TErr PEIncompleteType
  | ty :: r =>
    if negb (bit_set ty 128) then TOk (TyShort (bit_set ty 32)) r
    else match get_be 4 0 r with
         | None => TErr PEIncompleteType
         | Some (ver, r') =>
           if ver =? 0 then TOk TyVN r'
           else if ver =? 1 then
             if negb (bit_set ty 64) then TErr PEInvalidFixedBit
             else let k := (ty / 16) mod 4 in
                  TOk (TyV1 (if k =? 0 then V1Initial else if k =? 1 then V1ZeroRtt
                             else if k =? 2 then V1Handshake else V1Retry)) r'
           else TErr (PEUnsupportedVersion ver)
         end
  end.

Definition v1_bits (t : v1type) : Z :=
  match t with V1Initial => 0 | V1ZeroRtt => 16 | V1Handshake => 32 | V1Retry => 48 end.

(* put_packet_type *)
Definition put_packet_type (t : pkttype) : list Z :=
  match t with
  | TyVN => 128 :: put_be 4 0
  | TyV1 v => (128 + 64 + v1_bits v) :: put_be 4 1
  | TyShort spin => [64 + (if spin then 32 else 0)]
  end.

Inductive header :=
| HVN (dcid scid : list Z) (versions : list Z)
| HRetry (dcid scid token integrity : list Z)
| HInitial (dcid scid token : list Z)
| HZeroRtt (dcid scid : list Z)
| HHandshake (dcid scid : list Z)
| HOneRtt (spin : bool) (dcid : list Z).

Definition header_type (h : header) : pkttype :=
  match h with
  | HVN _ _ _ => TyVN | HRetry _ _ _ _ => TyV1 V1Retry | HInitial _ _ _ => TyV1 V1Initial
  | HZeroRtt _ _ => TyV1 V1ZeroRtt | HHandshake _ _ => TyV1 V1Handshake | HOneRtt s _ => TyShort s
  end.

Fixpoint put_versions (vs : list Z) : list Z :=
  match vs with [] => [] | v :: r => put_be 4 v ++ put_versions r end.

(* WriteHeader::put_header *)
Definition put_header (h : header) : list Z :=
  put_packet_type (header_type h) ++
  match h with
  | HVN d s vs => put_cid d ++ put_cid s ++ put_versions vs
  | HRetry d s tok integ => put_cid d ++ put_cid s ++ tok ++ integ
  | HInitial d s tok => put_cid d ++ put_cid s ++ put_varint (zlen tok) ++ tok
  | HZeroRtt d s | HHandshake d s => put_cid d ++ put_cid s
  | HOneRtt _ d => d
  end.

(* EncodeHeader::size *)
Definition header_size (h : header) : Z :=
  match h with
  | HVN d s vs => 5 + 1 + zlen d + 1 + zlen s
  | HRetry d s _ _ => 5 + 1 + zlen d + 1 + zlen s
  | HInitial d s tok => 5 + 1 + zlen d + 1 + zlen s + varint_size (zlen tok) + zlen tok
  | HZeroRtt d s | HHandshake d s => 5 + 1 + zlen d + 1 + zlen s
  | HOneRtt _ d => 1 + zlen d
  end.

(* many_till(be_u32, eof): all of the input, in 4-byte groups *)
Fixpoint be_versions (fuel : nat) (bs : list Z) : res (list Z) :=
  match bs with
  | [] => Ok [] []
  | _ => match fuel with
         | O => Incomplete
         | S f => match get_be 4 0 bs with
                  | None => Incomplete
                  | Some (v, r) => match be_versions f r with
                                   | Ok vs r' => Ok (v :: vs) r'
                                   | e => e
                                   end
                  end
         end
  end.

(* nom::multi::length_data(be_varint) *)
Definition length_data : parser (list Z) := n <- be_varint ;; take_s n.

(* header::io::be_header *)
Definition be_header (t : pkttype) (dcid_len : Z) : parser header :=
  match t with
  | TyShort spin => d <- take_s dcid_len ;; ret (HOneRtt spin d)
  | TyVN => d <- be_cid ;; s <- be_cid ;; (fun bs => match be_versions (S (length bs)) bs with
                                                     | Ok vs r => Ok (HVN d s vs) r
                                                     | Incomplete => Incomplete
                                                     | Bad k => Bad k
                                                     | Panic st => Panic st end)
  | TyV1 V1Retry =>
      d <- be_cid ;; s <- be_cid ;;
      (fun bs => if zlen bs <? 16 then Incomplete
                 else let n := zlen bs - 16 in
                      Ok (HRetry d s (firstn (Z.to_nat n) bs) (skipn (Z.to_nat n) bs)) [])
  | TyV1 V1Initial => d <- be_cid ;; s <- be_cid ;; tok <- length_data ;; ret (HInitial d s tok)
  | TyV1 V1ZeroRtt => d <- be_cid ;; s <- be_cid ;; ret (HZeroRtt d s)
  | TyV1 V1Handshake => d <- be_cid ;; s <- be_cid ;; ret (HHandshake d s)
  end.

(* result of be_packet: the packet occupies the first [total] bytes of the datagram; for data packets
   [offset] is where the (protected) packet number starts *)
Inductive pres :=
| POk (h : header) (total offset : Z)
| PErr (e : perr)
| PPanic (site : N).

(* packet/io.rs be_packet, with the header-error mapping of the repaired code
   (a nom Error such as a connection-id length above 20 is reported as IncompleteHeader) *)
Definition be_packet (dcid_len : Z) (dg : list Z) : pres :=
  match be_packet_type dg with
  | TErr e => PErr e
  | TOk t remain =>
    match be_header t dcid_len remain with
    | Incomplete => PErr PEIncompleteHeader
    | Bad _ => PErr PEIncompleteHeader
    | Panic s => PPanic s
    | Ok h remain' =>
      match h with
      | HVN _ _ _ | HRetry _ _ _ _ => POk h (zlen dg) (zlen dg)
      | HOneRtt _ _ =>
          if zlen remain' <? 20 then PErr (PEUnderSampling (zlen remain'))
          else POk h (zlen dg) (zlen dg - zlen remain')
      | _ =>
          match length_data remain' with
          | Ok payload rest =>
              if zlen payload <? 20 then PErr (PEUnderSampling (zlen payload))
              else let total := zlen dg - zlen rest in POk h total (total - zlen payload)
          | Incomplete => PErr PEIncompleteHeader
          | Bad _ => PErr PEIncompleteHeader
          | Panic s => PPanic s
          end
      end
    end
  end.

(* PacketReader: packets are split off the datagram one after the other; an error clears the rest *)
Fixpoint read_packets (fuel : nat) (dcid_len : Z) (dg : list Z) : list pres :=
  match fuel with
  | O => []
  | S f =>
    match dg with
    | [] => []
    | _ => match be_packet dcid_len dg with
           | POk h total off => POk h total off :: read_packets f dcid_len (skipn (Z.to_nat total) dg)
           | r => [r]
           end
    end
  end.
Definition packets_of (dcid_len : Z) (dg : list Z) : list pres := read_packets (S (length dg)) dcid_len dg.
