#!/usr/bin/env python3
"""Translator for C17: regenerates coq/Generated/StateTable.v from qconnection/src/state.rs
(and the one `update` call of qconnection/src/events.rs) on every run.

Extracted: the `mapping!` table (state name -> numeric code), which state every `enter_*`
method targets, the state `enter_draining` compares the old state with, the two literals of the
`try_entry_attempted` compare_exchange, the comparison of the `update` loop, and the state the
`Terminated` event moves to.  Anything unexpected raises TableError (fail closed).  The file is
written only when its content changes."""
import os
import re
import sys

sys.path.insert(0, os.path.dirname(os.path.abspath(__file__)))
from extract_tables import TableError, read, strip_comments, write_if_changed, block_after  # noqa: E402

STATE_RS = "qconnection/src/state.rs"
EVENTS_RS = "qconnection/src/events.rs"


def ident(kind, name):
    return "S_%s_%s" % (kind, name)


def fn_body(src, name):
    return block_after(src, r"pub fn %s\s*(<[^>]*>)?\s*\(" % name, "fn " + name)


def target_of(body, what):
    m = re.search(r"self\s*\.\s*update\(\s*(Base|Granular)ConnectionStates::(\w+)\.into\(\)\s*\)", body)
    if not m:
        raise TableError("%s: cannot find the state passed to self.update" % what)
    return ident(m.group(1), m.group(2))


def state_table_text():
    src = strip_comments(read(STATE_RS))
    # ---- mapping! { A::B(C::D) => n, ... }  (the invocation, not the macro_rules definition)
    m = re.search(r"\bmapping!\s*\{", src)
    if not m:
        raise TableError("mapping! invocation not found in " + STATE_RS)
    blk = block_after(src, r"\bmapping!\s*\{", "mapping! table")
    rows = []
    rest = blk
    for mm in re.finditer(r"QlogConnectionState::(Base|Granular)\(\s*(Base|Granular)ConnectionStates::(\w+)\s*\)\s*=>\s*(\d+)\s*,", blk):
        if mm.group(1) != mm.group(2):
            raise TableError("mapping!: %s(%sConnectionStates::…) mismatched wrapper" % (mm.group(1), mm.group(2)))
        rows.append((mm.group(1), mm.group(3), int(mm.group(4))))
        rest = rest.replace(mm.group(0), "", 1)
    if rest.strip():
        raise TableError("mapping!: unparsed text %r" % rest.strip()[:80])
    if not rows:
        raise TableError("mapping!: empty table")
    codes = [r[2] for r in rows]
    names = [ident(r[0], r[1]) for r in rows]
    if len(set(codes)) != len(codes) or len(set(names)) != len(names):
        raise TableError("mapping!: duplicate code or state")
    if any(c <= 0 or c > 255 for c in codes):
        raise TableError("mapping!: code outside 1..255 (0 is the initial word, the word is an AtomicU8)")
    # macro shape: decode = first-match on the literal, encode = match on the state, fall-through arm unreachable!
    mac = block_after(src, r"macro_rules!\s*mapping\s*\{", "macro_rules! mapping")
    if not re.search(r"\$\s*number\s*=>\s*Some\(\s*\$a::\$b\(\$c::\$d\)\s*\)", mac) or \
       not re.search(r"\$a::\$b\(\$c::\$d\)\s*=>\s*\$number", mac) or "unreachable!" not in mac:
        raise TableError("macro_rules! mapping has an unexpected shape")
    # ---- update loop
    upd = fn_body(src, "update")
    if not re.search(r"if\s+new_state_code\s*<=\s*old_state_code\s*\{\s*return\s+None\s*;", upd):
        raise TableError("update: the rejection test `new_state_code <= old_state_code` was not found")
    if not re.search(r"compare_exchange\(\s*old_state_code\s*,\s*new_state_code\s*,", upd):
        raise TableError("update: compare_exchange(old_state_code, new_state_code, …) not found")
    if not re.search(r"Err\(\s*current_state_code\s*\)\s*=>\s*old_state_code\s*=\s*current_state_code", upd):
        raise TableError("update: the retry arm was not found")
    m = re.search(r"decode\(old_state_code\)\s*\.unwrap_or\(\s*(Base|Granular)ConnectionStates::(\w+)\.into\(\)\s*\)", upd)
    if not m:
        raise TableError("update: decode(old).unwrap_or(…) not found")
    unwrap_default = ident(m.group(1), m.group(2))
    # ---- enter_*
    hs = fn_body(src, "enter_handshaked")
    cl = fn_body(src, "enter_closing")
    dr = fn_body(src, "enter_draining")
    if not re.search(r"self\.handshaked\s*\.set\(\(\)\)\s*\.expect\(", hs):
        raise TableError("enter_handshaked: handshaked.set(()).expect(…) not found")
    if len(re.findall(r"\.set\(", cl)) != 1 or not re.search(r"self\.terminated\s*\.set\([^;]*\)\s*\.expect\(", cl, re.S):
        raise TableError("enter_closing: exactly one terminated.set(…).expect(…) expected")
    if len(re.findall(r"\.set\(", dr)) != 1 or not re.search(r"self\.terminated\s*\.set\([^;]*\)\s*\.expect\(", dr, re.S):
        raise TableError("enter_draining: exactly one terminated.set(…).expect(…) expected")
    m = re.search(r"if\s+old_state\s*!=\s*QlogConnectionState::(Base|Granular)\(\s*(?:Base|Granular)ConnectionStates::(\w+)\s*\)\s*\{", dr)
    if not m:
        raise TableError("enter_draining: the `old_state != …` guard was not found")
    draining_skip = ident(m.group(1), m.group(2))
    # ---- try_entry_attempted
    ta = fn_body(src, "try_entry_attempted")
    m = re.search(r"let\s+attempted\s*=\s*encode\(\s*(Base|Granular)ConnectionStates::(\w+)\.into\(\)\s*\)", ta)
    m2 = re.search(r"compare_exchange\(\s*(\d+)\s*,\s*attempted\s*,", ta)
    if not m or not m2:
        raise TableError("try_entry_attempted: compare_exchange(<literal>, attempted, …) not found")
    attempted = ident(m.group(1), m.group(2))
    attempted_from = int(m2.group(1))
    # ---- the CLOSED constant
    m = re.search(r"pub\s+const\s+CLOSED\s*:\s*QlogConnectionState\s*=\s*QlogConnectionState::(Base|Granular)\(\s*(?:Base|Granular)ConnectionStates::(\w+)\s*\)", src)
    closed_const = ident(m.group(1), m.group(2)) if m else None
    # ---- every public state constant
    public = []
    for mm in re.finditer(r"pub\s+const\s+(\w+)\s*:\s*QlogConnectionState\s*=\s*QlogConnectionState::(Base|Granular)\(\s*(Base|Granular)ConnectionStates::(\w+)\s*\)", src):
        if mm.group(2) != mm.group(3):
            raise TableError("pub const %s: mismatched wrapper" % mm.group(1))
        public.append((mm.group(1), ident(mm.group(2), mm.group(4))))
    if len(public) != len(re.findall(r"pub\s+const\s+\w+\s*:\s*QlogConnectionState\b", src)):
        raise TableError("a `pub const …: QlogConnectionState` has an unexpected right-hand side")
    # ---- events.rs: Event::Terminated
    ev = strip_comments(read(EVENTS_RS))
    m = re.search(r"Event::Terminated\s*=>\s*\{\s*let\s+terminated_state\s*=\s*(Base|Granular)ConnectionStates::(\w+)\s*;\s*self\.conn_state\.update\(terminated_state\.into\(\)\)", ev)
    if not m:
        raise TableError("events.rs: the Terminated arm (conn_state.update(<state>)) was not found")
    terminated_state = ident(m.group(1), m.group(2))

    targets = {"enter_handshaked_target": target_of(hs, "enter_handshaked"),
               "enter_closing_target": target_of(cl, "enter_closing"),
               "enter_draining_target": target_of(dr, "enter_draining"),
               "draining_skip_state": draining_skip,
               "attempted_state": attempted,
               "terminated_event_state": terminated_state,
               "unwrap_default_state": unwrap_default}
    all_names = list(names)
    extra = []
    for v in list(targets.values()) + ([closed_const] if closed_const else []) + [v for _, v in public]:
        if v not in all_names and v not in extra:
            extra.append(v)       # a state without a mapping! row: encode() hits unreachable!()
    out = ["(* GENERATED by tools/extract_state.py from qconnection/src/state.rs and events.rs — do not edit. *)",
           "From Coq Require Import NArith List.", "Import ListNotations.", "Local Open Scope N_scope.", "",
           "(* one constructor per row of the mapping! table, in source order; then the states named by the",
           "   code that have no row (encode() reaches unreachable!() for them) *)",
           "Inductive cstate :=", "".join("| %s\n" % n for n in all_names + extra).rstrip() + ".", "",
           "Definition state_table : list (cstate * N) :=",
           "  [" + ";\n   ".join("(%s, %d)" % (n, c) for n, c in zip(names, codes)) + "].", "",
           "(* encode: None = the unreachable!() fall-through arm *)",
           "Definition encode (s : cstate) : option N :=", "  match s with"]
    for n, c in zip(names, codes):
        out.append("  | %s => Some %d" % (n, c))
    for n in extra:
        out.append("  | %s => None" % n)
    out += ["  end.", "", "Definition decode (c : N) : option cstate :=", "  match c with"]
    for n, c in zip(names, codes):
        out.append("  | %d => Some %s" % (c, n))
    out += ["  | _ => None", "  end.", "", "Definition initial_word : N := %d." % 0,
            "Definition attempted_from : N := %d." % attempted_from]
    for k, v in targets.items():
        out.append("Definition %s : cstate := %s." % (k, v))
    out.append("Definition closed_const : option cstate := %s." % ("Some " + closed_const if closed_const else "None"))
    out.append("(* the `pub const …: QlogConnectionState` items: %s *)" % ", ".join(n for n, _ in public))
    out.append("Definition public_consts : list cstate := [%s]." % "; ".join(v for _, v in public))
    out.append("Definition all_states : list cstate := [%s]." % "; ".join(all_names + extra))
    out.append("(* update(): `if new_state_code <= old_state_code { return None }` then compare_exchange(old, new) *)")
    out.append("Definition update_rejects (new old : N) : bool := new <=? old.")
    return "\n".join(out) + "\n"


def regen():
    text = state_table_text()
    return write_if_changed("StateTable.v", text)


if __name__ == "__main__":
    try:
        print("StateTable.v", "changed" if regen() else "unchanged")
    except TableError as e:
        print("TABLE ERROR:", e)
        sys.exit(1)
