(* Proofs about Model/Flow.v: the connection-level send budget and the advertised receive limit. *)
From Coq Require Import List NArith ZArith Bool Lia.
From GQ Require Import Model.Flow.
Import ListNotations.
Local Open Scope N_scope.
Arguments N.add : simpl never.
Arguments N.sub : simpl never.
Arguments N.min : simpl never.
Arguments N.max : simpl never.
Arguments N.div : simpl never.
Arguments N.pow : simpl never.

(* ---------------------------------------------------------------- send side *)
Inductive sop :=
| SCredit (quota : N)            (* ArcSendControler::credit *)
| SPost (i : nat) (n : N)        (* Credit::post_sent on the i-th credit *)
| SDrop (i : nat)                (* drop of the i-th credit *)
| SIncrease (v : N)              (* MAX_DATA frame *)
| SRevise (rejected : bool) (v : N).

(* controller, outstanding credits (None = dropped), bytes posted as fresh so far *)
Record sst := mkss { ss_c : sctl; ss_cr : list (option N); ss_posted : N }.

(* None = an arithmetic panic of the Rust (u64 underflow) *)
Definition s_step (st : sst) (o : sop) : option sst :=
  match o with
  | SCredit q =>
    match sc_credit (ss_c st) q with
    | Some (c', av, _) => Some (mkss c' (ss_cr st ++ [Some av]) (ss_posted st))
    | None => None
    end
  | SPost i n =>
    match nth_error (ss_cr st) i with
    | Some (Some av) =>
      match credit_post av n with
      | Some av' => Some (mkss (ss_c st) (set_nth (ss_cr st) i (Some av')) (ss_posted st + n))
      | None => None
      end
    | _ => Some st
    end
  | SDrop i =>
    match nth_error (ss_cr st) i with
    | Some (Some av) =>
      match sc_return_back (ss_c st) av with
      | Some c' => Some (mkss c' (set_nth (ss_cr st) i None) (ss_posted st))
      | None => None
      end
    | _ => Some st
    end
  | SIncrease v => Some (mkss (sc_increase_limit (ss_c st) v) (ss_cr st) (ss_posted st))
  | SRevise rej v => Some (mkss (sc_revise (ss_c st) rej v) (ss_cr st) (ss_posted st))
  end.

Fixpoint s_exec (st : sst) (ops : list sop) : option sst :=
  match ops with
  | [] => Some st
  | o :: rest => match s_step st o with Some st' => s_exec st' rest | None => None end
  end.

Fixpoint outstanding (l : list (option N)) : N :=
  match l with
  | [] => 0
  | Some v :: t => v + outstanding t
  | None :: t => outstanding t
  end.

(* the accounting identity: every charged byte is either posted as fresh or still held by a live
   credit; and the charge never exceeds the limit, so `max_data - sent_data` cannot underflow *)
Definition Sinv (st : sst) : Prop :=
  sent_data (ss_c st) = ss_posted st + outstanding (ss_cr st)
  /\ sent_data (ss_c st) <= max_data (ss_c st).

Definition sop_ok (o : sop) : Prop := match o with SRevise true _ => False | _ => True end.

Lemma outstanding_app l x : outstanding (l ++ [Some x]) = outstanding l + x.
Proof. induction l as [|[v|] t IH]; cbn [outstanding app]; lia. Qed.

Lemma outstanding_set l i av v :
  nth_error l i = Some (Some av) ->
  outstanding (set_nth l i v) + av = outstanding l + match v with Some x => x | None => 0 end.
Proof.
  revert i. induction l as [|h t IH]; intros [|i] H; cbn in H; try discriminate.
  - inversion H; subst. cbn [set_nth outstanding]. destruct v; lia.
  - cbn [set_nth]. specialize (IH i H). destruct h; cbn [outstanding]; lia.
Qed.

Lemma Sinv_step st o st' : sop_ok o -> Sinv st -> s_step st o = Some st' -> Sinv st'.
Proof.
  intros OK [Hs Hle] H. destruct o as [q|i n|i|v|rej v]; cbn [s_step] in H.
  - unfold sc_credit, sc_available in H.
    destruct (N.leb_spec (sent_data (ss_c st)) (max_data (ss_c st))); [|lia].
    unfold sc_commit, sc_available in H. cbn [sent_data max_data flow_limited] in H.
    set (qq := N.min (max_data (ss_c st) - sent_data (ss_c st)) q) in *.
    assert (Hq : qq <= max_data (ss_c st) - sent_data (ss_c st)) by (unfold qq; lia).
    clearbody qq.
    destruct (N.leb_spec (sent_data (ss_c st) + qq) (max_data (ss_c st))); [|lia].
    destruct ((max_data (ss_c st) - (sent_data (ss_c st) + qq) =? 0) && negb (flow_limited (ss_c st)));
      inversion H; subst; unfold Sinv; cbn [ss_c ss_cr ss_posted sent_data max_data];
      rewrite outstanding_app; lia.
  - destruct (nth_error (ss_cr st) i) as [[av|]|] eqn:E; try (inversion H; subst; split; assumption).
    unfold credit_post in H. destruct (N.leb_spec n av); [|discriminate].
    inversion H; subst. unfold Sinv. cbn [ss_c ss_cr ss_posted].
    pose proof (outstanding_set _ _ _ (Some (av - n)) E). cbn in H1. lia.
  - destruct (nth_error (ss_cr st) i) as [[av|]|] eqn:E; try (inversion H; subst; split; assumption).
    unfold sc_return_back in H. destruct (N.leb_spec av (sent_data (ss_c st))); [|discriminate].
    unfold sc_available in H. cbn [sent_data max_data] in H.
    destruct (N.leb_spec (sent_data (ss_c st) - av) (max_data (ss_c st))); [|discriminate].
    inversion H; subst. unfold Sinv. cbn [ss_c ss_cr ss_posted sent_data max_data].
    pose proof (outstanding_set _ _ _ None E). cbn in H2. lia.
  - inversion H; subst. unfold Sinv, sc_increase_limit. cbn [ss_c ss_cr ss_posted].
    destruct (N.ltb_spec (max_data (ss_c st)) v); cbn [sent_data max_data]; lia.
  - destruct rej; [contradiction|]. inversion H; subst. unfold Sinv, sc_revise, sc_increase_limit.
    cbn [ss_c ss_cr ss_posted].
    destruct (N.ltb_spec (max_data (ss_c st)) v); cbn [sent_data max_data]; lia.
Qed.

(* under the invariant the controller itself never hits an arithmetic panic: the only way to get
   None is a caller posting more than the credit it holds *)
Lemma s_step_total st o :
  Sinv st -> s_step st o = None ->
  exists i n av, o = SPost i n /\ nth_error (ss_cr st) i = Some (Some av) /\ av < n.
Proof.
  intros [Hs Hle] H. destruct o as [q|i n|i|v|rej v]; cbn [s_step] in H; try discriminate.
  - exfalso. unfold sc_credit, sc_available in H.
    destruct (N.leb_spec (sent_data (ss_c st)) (max_data (ss_c st))); [|lia].
    unfold sc_commit, sc_available in H. cbn [sent_data max_data flow_limited] in H.
    set (qq := N.min (max_data (ss_c st) - sent_data (ss_c st)) q) in *.
    assert (Hq : qq <= max_data (ss_c st) - sent_data (ss_c st)) by (unfold qq; lia).
    clearbody qq.
    destruct (N.leb_spec (sent_data (ss_c st) + qq) (max_data (ss_c st))); [|lia].
    destruct ((max_data (ss_c st) - (sent_data (ss_c st) + qq) =? 0) && negb (flow_limited (ss_c st)));
      discriminate.
  - destruct (nth_error (ss_cr st) i) as [[av|]|] eqn:E; try discriminate.
    unfold credit_post in H. destruct (N.leb_spec n av); [discriminate|].
    exists i, n, av. auto.
  - exfalso. destruct (nth_error (ss_cr st) i) as [[av|]|] eqn:E; try discriminate.
    assert (av <= outstanding (ss_cr st)).
    { clear -E. revert i E. induction (ss_cr st) as [|h t IH]; intros [|i] E; cbn in E; try discriminate.
      - inversion E; subst. cbn [outstanding]. lia.
      - specialize (IH i E). destruct h; cbn [outstanding]; lia. }
    unfold sc_return_back in H. destruct (N.leb_spec av (sent_data (ss_c st))); [|lia].
    unfold sc_available in H. cbn [sent_data max_data] in H.
    destruct (N.leb_spec (sent_data (ss_c st) - av) (max_data (ss_c st))); [discriminate|lia].
Qed.

Definition s_init (initial : N) : sst := mkss (sctl_new initial) [] 0.

Lemma Sinv_init m : Sinv (s_init m).
Proof. unfold Sinv, s_init, sctl_new. cbn. lia. Qed.

Lemma p_c11_conn_limit ops m st :
  Forall sop_ok ops -> s_exec (s_init m) ops = Some st ->
  Sinv st /\ ss_posted st <= max_data (ss_c st)
  /\ sc_available (ss_c st) = Some (max_data (ss_c st) - sent_data (ss_c st))
  /\ (outstanding (ss_cr st) = 0 -> sent_data (ss_c st) = ss_posted st).
Proof.
  intros F H.
  assert (I : Sinv st).
  { pose proof (Sinv_init m) as I0. revert I0 H. generalize (s_init m).
    induction F as [|o rest Ho F IH]; intros s0 I0 H; cbn [s_exec] in H.
    - inversion H; subst; assumption.
    - destruct (s_step s0 o) eqn:E; [|discriminate]. eapply IH; [|exact H]. eapply Sinv_step; eauto. }
  split; [exact I|]. destruct I as [Hs Hle].
  split; [lia|]. split.
  - unfold sc_available. destruct (N.leb_spec (sent_data (ss_c st)) (max_data (ss_c st))); [reflexivity|lia].
  - intro Hz. lia.
Qed.

(* no panic along the way either, as long as callers post within their credit *)
Lemma p_c11_conn_no_underflow ops m :
  Forall sop_ok ops -> s_exec (s_init m) ops = None ->
  exists pre i n rest st av, ops = pre ++ SPost i n :: rest /\ s_exec (s_init m) pre = Some st
                             /\ nth_error (ss_cr st) i = Some (Some av) /\ av < n.
Proof.
  intros F. pose proof (Sinv_init m) as I0. revert I0. generalize (s_init m).
  induction F as [|o rest Ho F IH]; intros s0 I0 H; cbn [s_exec] in H; [discriminate|].
  destruct (s_step s0 o) as [s1|] eqn:E.
  - destruct (IH s1 (Sinv_step _ _ _ Ho I0 E) H) as (pre & i & n & rest' & st & av & -> & Hp & Hn & Hl).
    exists (o :: pre), i, n, rest', st, av. cbn [app s_exec]. rewrite E. auto.
  - destruct (s_step_total _ _ I0 E) as (i & n & av & -> & Hn & Hl).
    exists [], i, n, rest, s0, av. cbn. auto.
Qed.

(* a retransmission is posted as 0 fresh bytes: it moves nothing *)
Lemma p_c11_retransmission_free st i st' :
  s_step st (SPost i 0) = Some st' -> ss_posted st' = ss_posted st /\ ss_c st' = ss_c st.
Proof.
  cbn [s_step]. destruct (nth_error (ss_cr st) i) as [[av|]|]; intro H.
  - unfold credit_post in H. destruct (N.leb_spec 0 av); [|lia]. inversion H; subst. cbn. split; [lia|reflexivity].
  - inversion H; subst; auto.
  - inversion H; subst; auto.
Qed.

(* limit only grows outside rejection *)
Lemma p_c11_send_limit_monotone st o st' :
  sop_ok o -> s_step st o = Some st' -> max_data (ss_c st) <= max_data (ss_c st').
Proof.
  intros OK H. destruct o as [q|i n|i|v|rej v]; cbn [s_step] in H.
  - unfold sc_credit in H. destruct (sc_available (ss_c st)); [|discriminate].
    unfold sc_commit in H. destruct (sc_available _); [|discriminate].
    destruct (_ && _); inversion H; subst; cbn; lia.
  - destruct (nth_error (ss_cr st) i) as [[av|]|]; try (inversion H; subst; lia).
    destruct (credit_post av n); inversion H; subst; cbn; lia.
  - destruct (nth_error (ss_cr st) i) as [[av|]|]; try (inversion H; subst; lia).
    unfold sc_return_back in H. destruct (av <=? sent_data (ss_c st)); [|discriminate].
    destruct (sc_available _); inversion H; subst; cbn; lia.
  - inversion H; subst. cbn. unfold sc_increase_limit.
    destruct (N.ltb_spec (max_data (ss_c st)) v); cbn; lia.
  - destruct rej; [contradiction|]. inversion H; subst. cbn. unfold sc_revise, sc_increase_limit.
    destruct (N.ltb_spec (max_data (ss_c st)) v); cbn; lia.
Qed.

(* ---------------------------------------------------------------- receive side *)
Fixpoint r_exec (s : rctl) (amounts : list N) : rctl * list rcv_res :=
  match amounts with
  | [] => (s, [])
  | a :: rest =>
    let '(s1, r) := on_new_rcvd s a in
    let '(s2, rs) := r_exec s1 rest in (s2, r :: rs)
  end.

(* cumulative new data beyond the advertised limit is a flow-control error; within it, it is not *)
Lemma p_c11_recv_detects_conn s a :
  (rmax_data s < rcvd_data s + a -> snd (on_new_rcvd s a) = RcvFlowControl)
  /\ (rcvd_data s + a <= rmax_data s -> snd (on_new_rcvd s a) <> RcvFlowControl).
Proof.
  unfold on_new_rcvd. split; intro H.
  - destruct (N.leb_spec (rcvd_data s + a) (rmax_data s)); [lia|reflexivity].
  - destruct (N.leb_spec (rcvd_data s + a) (rmax_data s)); [|lia].
    destruct (rmax_data s <=? rcvd_data s + a + rstep s); [destruct (VARINT_MAX <? _)|]; cbn; discriminate.
Qed.

(* the advertised MAX_DATA never decreases, and a MAX_DATA frame carries the new limit *)
Lemma p_c11_advertised_monotone_step s a :
  rmax_data s <= rmax_data (fst (on_new_rcvd s a))
  /\ (forall m, snd (on_new_rcvd s a) = RcvOk (Some m) -> m = rmax_data (fst (on_new_rcvd s a)) /\ rmax_data s <= m)
  /\ rstep (fst (on_new_rcvd s a)) = rstep s
  /\ rcvd_data (fst (on_new_rcvd s a)) = rcvd_data s + a.
Proof.
  unfold on_new_rcvd.
  destruct (N.leb_spec (rcvd_data s + a) (rmax_data s)).
  - destruct (N.leb_spec (rmax_data s) (rcvd_data s + a + rstep s)).
    + destruct (N.ltb_spec VARINT_MAX (rmax_data s + rstep s)); cbn [fst snd rmax_data rstep rcvd_data];
      (split; [lia|]); (split; [intros m Hm; inversion Hm; subst; lia|]); auto.
    + cbn [fst snd rmax_data rstep rcvd_data]. split; [lia|]. split; [intros m Hm; discriminate|]. auto.
  - cbn [fst snd rmax_data rstep rcvd_data]. split; [lia|]. split; [intros m Hm; discriminate|]. auto.
Qed.

Lemma p_c11_advertised_monotone s amounts :
  rmax_data s <= rmax_data (fst (r_exec s amounts)).
Proof.
  revert s. induction amounts as [|a rest IH]; intro s; cbn [r_exec]; [cbn; lia|].
  pose proof (p_c11_advertised_monotone_step s a) as (H1 & _).
  destruct (on_new_rcvd s a) as [s1 r] eqn:E. cbn [fst] in H1.
  specialize (IH s1). destruct (r_exec s1 rest) as [s2 rs]. cbn [fst] in *. lia.
Qed.

(* the VarInt `expect` in on_new_rcvd cannot fire while rcvd + initial stays below 2^62 *)
Lemma p_c11_recv_no_panic init amounts :
  let s := fst (r_exec (rctl_new init) amounts) in
  rmax_data s <= init + rcvd_data s + 2 * (init / 2) .
Proof.
  assert (G : forall amounts s, rmax_data s <= init + rcvd_data s + 2 * rstep s -> rstep s = init / 2 ->
                                 let s' := fst (r_exec s amounts) in
                                 rmax_data s' <= init + rcvd_data s' + 2 * rstep s' /\ rstep s' = init / 2).
  { induction amounts0 as [|a rest IH]; intros s H Hs; cbn [r_exec]; [cbn; auto|].
    pose proof (p_c11_advertised_monotone_step s a) as (_ & _ & Hst & Hr).
    assert (Hm : rmax_data (fst (on_new_rcvd s a)) <= init + rcvd_data (fst (on_new_rcvd s a)) + 2 * rstep s).
    { rewrite Hr. unfold on_new_rcvd.
      destruct (N.leb_spec (rcvd_data s + a) (rmax_data s));
      [destruct (N.leb_spec (rmax_data s) (rcvd_data s + a + rstep s));
       [destruct (N.ltb_spec VARINT_MAX (rmax_data s + rstep s))|]|]; cbn [fst rmax_data]; lia. }
    destruct (on_new_rcvd s a) as [s1 r] eqn:E. cbn [fst] in *.
    specialize (IH s1). rewrite Hst in IH. specialize (IH Hm Hs).
    destruct (r_exec s1 rest) as [s2 rs]. cbn [fst] in *. exact IH. }
  intro s. destruct (G amounts (rctl_new init)) as [H1 H2].
  - unfold rctl_new; cbn [rmax_data rcvd_data rstep]. generalize (init / 2); intro x; lia.
  - reflexivity.
  - fold s in H1, H2. rewrite H2 in H1. exact H1.
Qed.

(* ---------------------------------------------------------------- specs used by the composed model *)
Lemma sc_credit_spec s quota :
  sent_data s <= max_data s ->
  exists s' blk, sc_credit s quota = Some (s', N.min (max_data s - sent_data s) quota, blk)
                 /\ sent_data s' = sent_data s + N.min (max_data s - sent_data s) quota
                 /\ max_data s' = max_data s.
Proof.
  intro H. unfold sc_credit, sc_available.
  destruct (N.leb_spec (sent_data s) (max_data s)); [|lia].
  set (q := N.min (max_data s - sent_data s) quota).
  assert (Hq : q <= max_data s - sent_data s) by (unfold q; lia). clearbody q.
  unfold sc_commit, sc_available. cbn [sent_data max_data flow_limited].
  destruct (N.leb_spec (sent_data s + q) (max_data s)); [|lia].
  destruct ((max_data s - (sent_data s + q) =? 0) && negb (flow_limited s)); eexists _, _; cbn; eauto.
Qed.

Lemma sc_return_spec s x :
  x <= sent_data s -> sent_data s - x <= max_data s ->
  sc_return_back s x = Some (mksctl (sent_data s - x) (max_data s) (flow_limited s)).
Proof.
  intros H1 H2. unfold sc_return_back, sc_available. cbn [sent_data max_data].
  destruct (N.leb_spec x (sent_data s)); [|lia].
  destruct (N.leb_spec (sent_data s - x) (max_data s)); [reflexivity|lia].
Qed.
