(* C04 — hostile but well-formed frames cost bounded work and get the RFC's error.
   Statements only; proofs are in Proofs/C04.v and Proofs/C04Cid.v.

   Cost unit: one loop iteration, one allocated cell or one frame queued for sending.
   [deliver] is the dispatcher + Ack*Space::recv_frame of the FIXED code (ACK validated against the
   sent journal before any consumer sees it, `>=`, parser check); the three theorems `…_f7/f8/f22
   _refuted` show what the same model yields with one fix switched off.
   K = 2^16 in the finding classes; the conditional theorems are stated for every K. *)
From Coq Require Import List ZArith NArith Bool.
From GQ Require Import Model.RcvdJournal Model.SentJournal Model.C04Cid Model.C04Handlers Proofs.C04Cid Proofs.C04.
From GQ Require Lib.Wire Lib.FrameTypes Model.Varint Model.Frames Model.StreamCtl Model.Sid.
Import ListNotations.
Local Open Scope Z_scope.

(* ---------------------------------------------------------------- ACK *)
(* every ACK the parser lets through costs at most (packets ever sent) x (tracked window + 4) plus
   the tracked state — whatever its field values; it is either processed or, if it names an
   unsent packet, rejected before anything iterated over it *)
Theorem c04_ack_cost : forall cc_len now rj sj f rs,
  0 <= cc_len -> 0 <= a_first f -> ranges_nonneg (a_ranges f) -> 0 <= s_off sj ->
  ack_iter f = Some rs ->
  let o := deliver cc_len now rj sj f in
  ao_panic o = false /\
  (ao_err o = 0 \/ ao_err o = E_PROTOCOL_VIOLATION /\ ao_ticks o = 0 /\ ao_collected o = 0) /\
  ao_cost o <= s_next sj * (sj_len sj + 4) + 2 * (sj_len sj + cc_len + r_len rj) + zlen (r_incl rj) + 6.
Proof. exact p_c04_ack_cost. Qed.

(* largest acknowledged >= next unsent packet number: PROTOCOL_VIOLATION, one unit of work, no
   consumer iterates, no journal changes *)
Theorem c04_ack_unsent_rejected : forall cc_len now rj sj f,
  s_next sj <= a_largest f ->
  deliver cc_len now rj sj f = mkao false E_PROTOCOL_VIOLATION 0 0 0 1 0 0 /\
  apply_ack true true now rj sj f = (rj, sj).
Proof. exact p_c04_ack_unsent_rejected. Qed.

(* an ACK-typed frame one of whose computed packet numbers is negative is a parse error
   (FRAME_ENCODING_ERROR by C03's mapping) … *)
Theorem c04_ack_negative_rejected : forall p code ecn bs rest l d fr rs e r,
  Varint.be_varint bs = Wire.Ok code rest ->
  Frames.ft_of_code code = Some (FrameTypes.TAck ecn) ->
  Frames.belongs (FrameTypes.TAck ecn) p = true ->
  Frames.be_ack ecn rest = Wire.Ok (Frames.Ack l d fr rs e) r ->
  ack_iter (mkack l d fr rs) = None ->
  Frames.be_frame p bs = Frames.FErr FrameTypes.EParseError.
Proof. exact p_c04_ack_negative_rejected. Qed.

(* … a parse error costs one unit and no handler acts on it … *)
Theorem c04_parse_error_inert : forall s cc_len bs e,
  parse_frame (h_f7 s) bs = Frames.FErr e ->
  frame_outcome s cc_len bs = mko [0; E_FRAME_ENCODING] 1 0 0 true 0 /\ frame_apply s bs = s.
Proof. exact p_c04_parse_error. Qed.

(* … and every ACK frame that does reach the consumers iterates without underflow *)
Theorem c04_ack_delivered_nonnegative : forall bs c l d fr rs e t,
  parse_frame true bs = Frames.FOk c (Frames.Ack l d fr rs e) t ->
  (match t with FrameTypes.TAck _ => True | _ => False end) ->
  ack_iter (mkack l d fr rs) <> None.
Proof. exact p_c04_ack_negative_no_panic. Qed.

Theorem c04_ack_iter_in_range : forall f rs, 0 <= a_first f -> ranges_nonneg (a_ranges f) ->
  ack_iter f = Some rs ->
  0 <= covered rs <= a_largest f + 1 /\ Forall (range_ok (a_largest f)) rs.
Proof. exact ack_iter_covered. Qed.

(* [covered], the driver of every ACK cost term, is the number of packet numbers the Rust
   `iter().flat_map(|r| r.rev())` yields *)
Theorem c04_covered_counts_numbers : forall rs top, Forall (range_ok top) rs ->
  Z.of_nat (length (expand rs)) = covered rs.
Proof. exact p_c04_covered_is_expansion. Qed.

(* the code before the fixes, same model with one switch off (witnesses replayed on the real code) *)
Theorem c04_f7_refuted :
  exists bs, parse_frame false bs <> parse_frame true bs /\
    o_words (frame_outcome (after_5_sent [1; 2; 3; 3; 0; 1]) 1 bs) = [PANIC_W] /\
    o_words (frame_outcome (after_5_sent [1; 2; 3; 3; 1; 1]) 1 bs) = [0; E_FRAME_ENCODING].
Proof. exact p_c04_f7_refuted. Qed.

Theorem c04_f8_refuted :
  exists sj f, s_next sj <= a_largest f /\ ao_err (deliver_ack true false 1 0 (rj_new None) sj f) = 0.
Proof. exact p_c04_f8_refuted. Qed.

Theorem c04_f22_refuted :
  exists sj f, s_next sj <= a_largest f /\
    let o := deliver_ack false true 1 0 (rj_new None) sj f in
    ao_err o = E_PROTOCOL_VIOLATION /\ ao_ticks o = 2^62 /\ 2^62 < ao_cost o.
Proof. exact p_c04_f22_refuted. Qed.

(* ---------------------------------------------------------------- packet-number jump (F9) *)
Theorem c04_pn_jump_cost_refuted : forall c c', 0 <= c -> 0 <= c' ->
  exists pn, 0 <= pn /\ c * (4 + r_len (rj_new None)) + c' < pn_cost (rj_new None) pn.
Proof. exact p_c04_pn_jump_cost_refuted. Qed.

Theorem c04_pn_jump_value_bound : forall j pn, pn_cost j pn <= Z.max 0 (pn - r_next j + 1) + 2.
Proof. exact p_c04_pn_jump_value_bound. Qed.

(* outside the class (jump of more than K numbers) *)
Theorem c04_pn_jump_cost : forall K j pn, 0 <= K -> pn - r_next j <= K -> pn_cost j pn <= K + 3.
Proof. exact p_c04_pn_jump_cost. Qed.

(* the cost counts exactly the records the journal model appends *)
Theorem c04_pn_cells : forall j now pn el pto j',
  0 <= r_off j -> on_rcvd_pn j now pn el pto = Some j' ->
  r_len j' = r_len j + pn_cells j pn /\ r_off j' = r_off j.
Proof. exact p_c04_pn_cells. Qed.

(* ---------------------------------------------------------------- NEW_CONNECTION_ID (F10) *)
Theorem c04_new_cid_cost_refuted : forall c c', 0 <= c -> 0 <= c' ->
  exists seq rpt, 0 <= rpt <= seq /\ seq - rpt <= rc_limit (rc_init 2) /\
    c * (54 + rc_size (rc_init 2)) + c' < rc_new_cost (rc_init 2) seq rpt /\
    c * (54 + rc_size (rc_init 2)) + c' < rc_new_frames (rc_init 2) seq rpt.
Proof. exact p_c04_new_cid_cost_refuted. Qed.

Theorem c04_new_cid_value_bound : forall s seq rpt,
  rc_wf s -> 0 <= rpt <= seq ->
  rc_new_cost s seq rpt <=
    Z.max 0 (seq - (rc_off s + rc_len s)) + Z.max 0 (rpt - rc_off s) + Z.max 0 (rpt - rc_roff s)
    + 2 * rc_nready s + zlen (rc_pending s) + 5.
Proof. exact p_c04_new_cid_value_bound. Qed.

Theorem c04_new_cid_cost : forall K s seq rpt,
  rc_wf s -> 0 <= rpt <= seq -> 0 <= K ->
  seq - (rc_off s + rc_len s) <= K -> rpt - rc_off s <= K -> rpt - rc_roff s <= K ->
  rc_new_cost s seq rpt <= 3 * K + 2 * rc_size s + 5.
Proof. exact p_c04_new_cid_cost. Qed.

Theorem c04_retire_prior_cost : forall K s seq rpt,
  rc_wf s -> rc_off s <= seq -> 0 <= K -> rpt - rc_off s <= K -> rpt - rc_roff s <= K ->
  rc_retire_cost s seq rpt <= 2 * K + rc_nready s + 1.
Proof. exact p_c04_retire_prior_cost. Qed.

Theorem c04_new_cid_cells : forall s seq rpt,
  rc_wf s -> 0 <= rpt <= seq -> rc_over_limit s seq rpt = false -> rc_off s <= seq ->
  rc_len (rc_new_apply s seq rpt) = rc_len s + rc_new_cells s seq rpt + (if rc_len s + rc_off s <=? seq then 1 else 0)
                                    - rc_drained s seq rpt /\
  rc_off (rc_new_apply s seq rpt) = rc_off_after s seq rpt.
Proof. exact p_c04_new_cid_cells. Qed.

(* ---------------------------------------------------------------- active_connection_id_limit (F11) *)
Theorem c04_set_limit_cost_refuted : forall c c', 0 <= c -> 0 <= c' ->
  exists n, c * (8 + lc_len lc_init) + c' < lc_set_cost lc_init n /\
            c * (8 + lc_len lc_init) + c' < lc_set_frames lc_init n.
Proof. exact p_c04_set_limit_cost_refuted. Qed.

Theorem c04_set_limit_value_bound : forall s n, lc_wf s -> lc_set_cost s n <= Z.max 0 n + 1.
Proof. exact p_c04_set_limit_value_bound. Qed.

Theorem c04_set_limit_cost : forall K s n, lc_wf s -> 0 <= K -> n <= K -> lc_set_cost s n <= K + 1.
Proof. exact p_c04_set_limit_cost. Qed.

Theorem c04_set_limit_cells : forall s n, 2 <= n -> lc_len (lc_set_apply s n) = lc_len s + lc_set_frames s n.
Proof. exact p_c04_set_limit_cells. Qed.

Theorem c04_retire_cid_cost : forall s seq, lc_retire_cost s seq <= lc_len s + 2.
Proof. exact p_c04_retire_cid_cost. Qed.

(* ---------------------------------------------------------------- streams *)
Theorem c04_implicit_open_cost : forall d f,
  streams_created d f <=
    Z.of_N (N.max (fst (Sid.r_max (StreamCtl.d_r d))) (snd (Sid.r_max (StreamCtl.d_r d)))) + 1.
Proof. exact p_c04_implicit_open_cost. Qed.

(* ---------------------------------------------------------------- the prescribed errors *)
Theorem c04_limits :
  (* MAX_STREAMS above 2^60 - 1 is refused by the parser *)
  (forall u bs f rest, Frames.be_body (FrameTypes.TMaxStreams u) bs = Wire.Ok f rest ->
     match f with Frames.MaxStreams _ v => v <= Frames.MAX_STREAMS_LIMIT | _ => True end) /\
  (* a peer stream whose index is above the limit: STREAM_LIMIT_ERROR, connection failed *)
  (forall d sid off len fin,
     StreamCtl.d_closed d = false -> Sid.role_eqb (Sid.sid_role sid) (StreamCtl.d_role d) = false ->
     (Sid.pget (Sid.r_max (StreamCtl.d_r d)) (Sid.sid_dir sid) < Sid.sid_idx sid)%N ->
     hd 0 (snd (StreamCtl.ds_step StreamCtl.fixed d (StreamCtl.OStream sid off len fin))) = E_STREAM_LIMIT /\
     StreamCtl.d_closed (fst (StreamCtl.ds_step StreamCtl.fixed d (StreamCtl.OStream sid off len fin))) = true) /\
  (* RETIRE_CONNECTION_ID of a sequence number never issued: an error, one unit, nothing changes *)
  (forall s seq, lc_next s <= seq ->
     lc_retire_err false s seq = E_CONNECTION_ID_LIMIT /\ lc_retire_cost s seq = 1 /\ lc_retire_apply s seq = s) /\
  (* NEW_CONNECTION_ID with more than active_connection_id_limit IDs between retire_prior_to and seq *)
  (forall s seq rpt, rc_limit s < seq - rpt ->
     rc_new_err s seq rpt = E_CONNECTION_ID_LIMIT /\ rc_new_cost s seq rpt = 1 /\
     rc_new_frames s seq rpt = 0 /\ rc_new_apply s seq rpt = s) /\
  (* active_connection_id_limit below 2 *)
  (forall s n, n < 2 -> lc_set_err s n = E_TRANSPORT_PARAMETER /\ lc_set_cost s n = 1 /\ lc_set_apply s n = s).
Proof.
  split; [exact p_c04_max_streams_limit|]. split; [exact p_c04_stream_limit|].
  split; [intros s seq H; destruct (p_c04_retire_unissued s seq H) as (_ & A & _ & B & C); auto|].
  split; [exact p_c04_new_cid_limit|exact p_c04_set_limit_small].
Qed.

(* F55: the KIND of the RETIRE error is not the one RFC 9000 19.16 prescribes *)
Theorem c04_retire_kind_refuted :
  exists s seq, lc_next s <= seq /\ lc_retire_err false s seq <> E_PROTOCOL_VIOLATION.
Proof. exact p_c04_retire_kind_refuted. Qed.

(* ---------------------------------------------------------------- non-vacuity / the replayed witnesses *)
Example c04_ack_nonvacuous :
  let o := deliver 5 0 (rj_new None) sj5 (mkack 4 0 1 [(0, 1)]) in
  ack_iter (mkack 4 0 1 [(0, 1)]) = Some [(3, 4); (0, 1)] /\ ao_err o = 0 /\ ao_ticks o = 4 /\
  ao_collected o = 4 /\ ao_fed o = 4 /\ ao_cost o = 48.
Proof. vm_compute. repeat split; reflexivity. Qed.

(* the bound of c04_ack_cost really depends on the packets ever sent, not on the tracked window: with
   an empty window at offset 10^6 an ACK of [0, 10^6 - 1] is stepped through number by number
   (replayed on the real code: 640 packets sent, acknowledged and expired, then ACK [0,639]:
   640 controller iterations, 640 numbers collected, window length 1) *)
Example c04_ack_cost_tracks_packets_sent :
  let sj := mksj [] 1000000 [] 0 in
  let o := deliver 1 0 (rj_new None) sj (mkack 999999 0 999999 []) in
  sj_len sj = 0 /\ ao_err o = 0 /\ ao_ticks o = 1000000 /\ ao_collected o = 1000000 /\ 3000000 < ao_cost o.
Proof. vm_compute. repeat split; reflexivity. Qed.

Example c04_f9_witness :
  decode_pn rj01 (U32 65536) = DpnOk 65536 /\ pn_cells rj01 65536 = 65535 /\
  decode_pn rj01 (U32 (2^31 - 1)) = DpnOk (2^31 - 1) /\ pn_cells rj01 (2^31 - 1) = 2^31 - 2.
Proof. exact p_c04_f9_witness. Qed.

Example c04_f10_witness :
  rc_new_err (rc_new_apply (rc_init 2) 1 0) 1000000 1000000 = 0 /\
  rc_new_frames (rc_new_apply (rc_init 2) 1 0) 1000000 1000000 = 1000000 /\
  rc_new_cells (rc_new_apply (rc_init 2) 1 0) 1000000 1000000 = 999998.
Proof. vm_compute. repeat split; reflexivity. Qed.

Example c04_f11_witness : lc_set_err lc_init 200000 = 0 /\ lc_set_frames lc_init 200000 = 199998.
Proof. vm_compute. split; reflexivity. Qed.

Print Assumptions c04_ack_cost.
Print Assumptions c04_ack_unsent_rejected.
Print Assumptions c04_ack_negative_rejected.
Print Assumptions c04_parse_error_inert.
Print Assumptions c04_ack_delivered_nonnegative.
Print Assumptions c04_ack_iter_in_range.
Print Assumptions c04_covered_counts_numbers.
Print Assumptions c04_f7_refuted.
Print Assumptions c04_f8_refuted.
Print Assumptions c04_f22_refuted.
Print Assumptions c04_pn_jump_cost_refuted.
Print Assumptions c04_pn_jump_value_bound.
Print Assumptions c04_pn_jump_cost.
Print Assumptions c04_pn_cells.
Print Assumptions c04_new_cid_cost_refuted.
Print Assumptions c04_new_cid_value_bound.
Print Assumptions c04_new_cid_cost.
Print Assumptions c04_retire_prior_cost.
Print Assumptions c04_new_cid_cells.
Print Assumptions c04_set_limit_cost_refuted.
Print Assumptions c04_set_limit_value_bound.
Print Assumptions c04_set_limit_cost.
Print Assumptions c04_set_limit_cells.
Print Assumptions c04_retire_cid_cost.
Print Assumptions c04_implicit_open_cost.
Print Assumptions c04_limits.
Print Assumptions c04_retire_kind_refuted.
Print Assumptions c04_ack_nonvacuous.
Print Assumptions c04_ack_cost_tracks_packets_sent.
Print Assumptions c04_f9_witness.
Print Assumptions c04_f10_witness.
Print Assumptions c04_f11_witness.
