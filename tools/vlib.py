#!/usr/bin/env python3
"""Shared machinery of ./check: Coq build + audit, harness/driver builds, correspondence
runs (implementation vs extracted model on identical operation sequences), property oracles,
shrinking, known findings, evidence and VIOLATION reporting.  Standard library only."""
import hashlib
import json
import os
import random
import re
import shutil
import subprocess
import sys
import time

ROOT = os.path.dirname(os.path.dirname(os.path.abspath(__file__)))
BUILD = os.path.join(ROOT, ".build")
COQ = os.path.join(ROOT, "coq")
REPO = os.environ.get("VERIF_REPO") or os.path.realpath(os.path.join(ROOT, "rp"))
NPROC = min(16, os.cpu_count() or 4)
GUARD = "gmquic_verif"

ENV = dict(os.environ)
ENV.setdefault("VERIF_CASE_TIMEOUT_MS", "5000")
ENV.update({"CARGO_NET_OFFLINE": "true", "CARGO_TARGET_DIR": os.path.join(BUILD, "cargo"),
            "RUSTFLAGS": "--cfg " + GUARD, "CARGO_TERM_COLOR": "never"})

TRUSTED_BASE_COMMON = [
    "Coq 8.16.1 kernel (coqc, full .vo build; no native_compute; vm_compute only in closed finite computations)",
    "no Axiom/Parameter/Admitted in the development (tools audit greps every run); Print Assumptions of every property theorem parsed against an allow-list",
    "extraction: ExtrOcamlBasic only (bool/option/list/prod/unit/sumbool -> OCaml types), nat/positive/N/Z extracted as Coq datatypes, no Extract Constant; OCaml 4.13.1; ocaml/driver.ml line parser/printer",
    "correspondence harness (harness/*, tools/*.py): generators, canonical printers and the Python property oracle are trusted test code",
    "the model is hand-written: it is tied to /repo only by the correspondence run of this check (same operation sequences, implementation vs the extracted model, compared observation by observation)",
]

ALLOWED_AXIOMS = {
    # standard-library axioms only (none is needed so far; kept explicit for the audit)
    "functional_extensionality_dep", "FunctionalExtensionality.functional_extensionality_dep",
    "Eqdep.Eq_rect_eq.eq_rect_eq", "eq_rect_eq", "JMeq_eq", "JMeq.JMeq_eq",
    "proof_irrelevance", "ProofIrrelevance.proof_irrelevance", "classic", "Classical_Prop.classic",
}


import contextlib, fcntl


@contextlib.contextmanager
def build_lock():
    """serialises the phases that rewrite shared build products (coq .vo files, coq/Generated, the extracted driver)
    between concurrent runs of ./check; re-entrant within one process"""
    if getattr(build_lock, "depth", 0) > 0:
        build_lock.depth += 1
        try:
            yield
        finally:
            build_lock.depth -= 1
        return
    os.makedirs(BUILD, exist_ok=True)
    f = open(os.path.join(BUILD, "lock"), "w")
    fcntl.flock(f, fcntl.LOCK_EX)
    build_lock.depth = 1
    try:
        yield
    finally:
        build_lock.depth = 0
        fcntl.flock(f, fcntl.LOCK_UN)
        f.close()


def log(*a):
    print(*a, file=sys.stderr, flush=True)


def sh(cmd, cwd=None, timeout=None, env=None, stdin=None):
    """run, return (rc, stdout+stderr)"""
    try:
        p = subprocess.run(cmd, cwd=cwd, timeout=timeout, env=env or ENV, input=stdin,
                           stdout=subprocess.PIPE, stderr=subprocess.STDOUT, text=True,
                           shell=isinstance(cmd, str))
        return p.returncode, p.stdout
    except subprocess.TimeoutExpired as e:
        out = e.stdout if isinstance(e.stdout, str) else (e.stdout or b"").decode("utf8", "replace")
        return 124, out + "\n[timeout]"


# --------------------------------------------------------------------------------------
# Coq
# --------------------------------------------------------------------------------------

COQ_DIRS = ["Lib", "Generated", "Model", "Proofs", "Properties"]


def coq_project_text():
    files = []
    for d in COQ_DIRS:
        for root, _, fs in os.walk(os.path.join(COQ, d)):
            for f in fs:
                if f.endswith(".v"):
                    files.append(os.path.relpath(os.path.join(root, f), COQ))
    return "-Q . GQ\n-arg -w -arg -deprecated-hint-without-locality,-deprecated-instance-without-locality\n" + \
           "\n".join(sorted(files)) + "\n"


def write_if_changed(path, text):
    try:
        if open(path).read() == text:
            return False
    except OSError:
        pass
    with open(path, "w") as f:
        f.write(text)
    return True


def ensure_makefile():
    """coq/_CoqProject is generated from the directory listing (Lib, Generated, Model, Proofs, Properties)"""
    cp = os.path.join(COQ, "_CoqProject")
    mk = os.path.join(COQ, "Makefile")
    changed = write_if_changed(cp, coq_project_text())
    if changed or not os.path.exists(mk):
        rc, out = sh(["coq_makefile", "-f", "_CoqProject", "-o", "Makefile"], cwd=COQ, timeout=120)
        if rc != 0:
            raise RuntimeError("coq_makefile failed: " + out)
        for f in (".Makefile.d",):
            try:
                os.remove(os.path.join(COQ, f))
            except OSError:
                pass


def load_streams():
    d = os.path.join(ROOT, "streams")
    out = []
    for fn in sorted(os.listdir(d)):
        if fn.endswith(".json"):
            out.append(json.load(open(os.path.join(d, fn))))
    return out


def extract_text():
    st = load_streams()
    mods = sorted(set(x["model"] for x in st))
    runs = [x["run"] for x in st]
    return ("(* GENERATED by tools/vlib.py from streams/*.json — extraction of the executable models.\n"
            "   ExtrOcamlBasic only: bool/option/list/prod/unit/sumbool map to OCaml's own types;\n"
            "   nat, positive, N and Z stay the Coq datatypes.  No Extract Constant. *)\n"
            "From Coq Require Import ExtrOcamlBasic ZArith NArith.\n"
            + "".join("From GQ Require %s.\n" % m for m in mods) +
            "Extraction Language OCaml.\n"
            "Extraction \"model.ml\"\n  Z.add Z.mul Z.opp Z.div_eucl Z.of_N Z.to_N N.of_nat\n  "
            + "\n  ".join("%s.%s" % (x["model"], x["run"]) for x in st) + ".\n")


def streams_ml_text():
    st = load_streams()
    return "(* GENERATED *)\nlet table = [\n" + "".join('  ("%s", Model.%s);\n' % (x["stream"], x["run"]) for x in st) + "]\n"


def strip_coq_comments(src):
    out = []
    depth = 0
    i = 0
    n = len(src)
    while i < n:
        if src.startswith("(*", i):
            depth += 1
            i += 2
        elif src.startswith("*)", i) and depth > 0:
            depth -= 1
            i += 2
        else:
            if depth == 0:
                out.append(src[i])
            elif src[i] == "\n":
                out.append("\n")
            i += 1
    return "".join(out)


FORBIDDEN = [r"\bAdmitted\b", r"\badmit\b", r"\bAxiom\b", r"\bAxioms\b", r"\bParameter\b", r"\bParameters\b",
             r"\bConjecture\b", r"\bAdmit\s+Obligations\b", r"Unset\s+Guard", r"bypass_check", r"type-in-type",
             r"impredicative-set", r"Unset\s+Universe\s+Checking", r"Unset\s+Positivity", r"native_compute"]


def audit_sources():
    """greps the whole development (comments stripped). returns list of problems."""
    problems = []
    files = []
    for d, _, fs in os.walk(COQ):
        for f in fs:
            if f.endswith(".v"):
                files.append(os.path.join(d, f))
    files.append(os.path.join(COQ, "_CoqProject"))
    for path in sorted(files):
        try:
            src = open(path).read()
        except OSError:
            continue
        body = strip_coq_comments(src) if path.endswith(".v") else src
        for pat in FORBIDDEN:
            for m in re.finditer(pat, body):
                line = body.count("\n", 0, m.start()) + 1
                problems.append("%s:%d: forbidden token %s" % (os.path.relpath(path, ROOT), line, m.group(0)))
        if path.endswith(".v"):
            # Variable / Hypothesis / Context only inside a Section
            depth = 0
            for ln, line in enumerate(body.split("\n"), 1):
                if re.match(r"\s*Section\s+\w+", line):
                    depth += 1
                elif re.match(r"\s*End\s+\w+", line) and depth > 0:
                    depth -= 1
                elif re.match(r"\s*(Variable|Variables|Hypothesis|Hypotheses|Context)\b", line) and depth == 0:
                    problems.append("%s:%d: %s outside a Section" % (os.path.relpath(path, ROOT), ln, line.strip()))
    return problems


def parse_assumptions(output):
    """splits coqc output into the Print Assumptions blocks; returns list of lists of axiom names"""
    blocks = []
    cur = None
    for line in output.split("\n"):
        if line.startswith("Closed under the global context"):
            blocks.append([])
            cur = None
        elif line.startswith("Axioms:"):
            cur = []
            blocks.append(cur)
        elif cur is not None:
            m = re.match(r"^([A-Za-z_][\w.']*)\s*:", line)
            if m:
                cur.append(m.group(1))
            elif line.strip() == "" or not line.startswith(" "):
                if line.strip() and not line.startswith(" "):
                    cur = None
    return blocks


def _coq_check_unlocked(prop_file, timeout=1500):
    """builds everything Properties/<prop_file> needs, then re-checks that file itself with output.
    returns dict(ok, obligations, discharged, theorems, assumptions, log, failed_target)"""
    ensure_makefile()
    target = prop_file[:-2] + ".vo"
    res = {"ok": False, "obligations": 0, "discharged": 0, "theorems": [], "assumptions": [], "log": "",
           "failed_target": None, "checker_cmd": "make -C coq %s  (coqc 8.16.1, full .vo)" % target}
    src = strip_coq_comments(open(os.path.join(COQ, prop_file)).read())
    thms = re.findall(r"^\s*(?:Theorem|Example|Lemma|Corollary)\s+([\w']+)", src, re.M)
    prints = re.findall(r"^\s*Print\s+Assumptions\s+([\w'.]+)\s*\.", src, re.M)
    res["theorems"] = thms
    res["obligations"] = len(thms)
    missing = [t for t in thms if t not in prints]
    try:
        os.remove(os.path.join(COQ, target))
    except OSError:
        pass
    t0 = time.time()
    rc, out = sh("make -j%d %s 2>&1" % (NPROC, target), cwd=COQ, timeout=timeout)
    res["log"] = out[-6000:]
    res["coq_wall_s"] = round(time.time() - t0, 1)
    if rc != 0:
        m = re.search(r'File "\./([^"]+)", line (\d+)', out)
        res["failed_target"] = ("%s:%s" % (m.group(1), m.group(2))) if m else target
        return res
    blocks = parse_assumptions(out)
    if missing:
        res["failed_target"] = "missing Print Assumptions for: " + ",".join(missing)
        return res
    if len(blocks) != len(prints):
        res["failed_target"] = "could not parse Print Assumptions output (%d blocks for %d prints)" % (len(blocks), len(prints))
        return res
    bad = []
    assum = []
    for name, axs in zip(prints, blocks):
        assum.append({"theorem": name, "axioms": axs})
        for a in axs:
            if a not in ALLOWED_AXIOMS:
                bad.append("%s depends on %s" % (name, a))
    res["assumptions"] = assum
    if bad:
        res["failed_target"] = "; ".join(bad)
        return res
    res["discharged"] = len(thms)
    res["ok"] = True
    return res

def coq_check(prop_file, timeout=1500):
    with build_lock():
        return _coq_check_unlocked(prop_file, timeout)



def _coqchk_unlocked(prop_file, timeout=3000):
    """independent re-check of the compiled property file and everything it depends on (coqchk -o);
    returns dict(ok, axioms, problem)"""
    modname = "GQ." + prop_file[:-2].replace("/", ".")
    rc, out = sh("coqchk -silent -o -Q . GQ %s 2>&1" % modname, cwd=COQ, timeout=timeout)
    res = {"ok": False, "axioms": [], "cmd": "coqchk -silent -o -Q coq GQ %s" % modname, "problem": None}
    if rc != 0:
        res["problem"] = "coqchk failed (rc %d): %s" % (rc, out[-400:])
        return res
    m = re.search(r"\* Axioms:(.*?)\n\s*\n\* Constants/Inductives relying on type-in-type:(.*?)\n\s*\n\* Constants/Inductives relying on unsafe \(co\)fixpoints:(.*?)\n\s*\n\* Inductives whose positivity is assumed:(.*?)\n", out + "\n\n", re.S)
    if not m:
        res["problem"] = "coqchk summary not understood: " + out[-400:]
        return res
    ax = [a.strip() for a in m.group(1).replace("<none>", "").split("\n") if a.strip()]
    res["axioms"] = ax
    bad = [a for a in ax if a.split(".")[-1] not in {x.split(".")[-1] for x in ALLOWED_AXIOMS}]
    for k, label in ((2, "type-in-type"), (3, "unsafe fixpoints"), (4, "assumed positivity")):
        if m.group(k).strip() != "<none>":
            bad.append("%s: %s" % (label, m.group(k).strip()))
    if bad:
        res["problem"] = "coqchk reports: " + "; ".join(bad)
        return res
    res["ok"] = True
    return res

def coqchk(prop_file, timeout=3000):
    with build_lock():
        return _coqchk_unlocked(prop_file, timeout)



# --------------------------------------------------------------------------------------
# builds of the two executables
# --------------------------------------------------------------------------------------

_harness_cache = {}


def build_harness(pkg, binname, profile="debug"):
    """(re)builds one harness binary from /repo's current working tree; returns path"""
    if (pkg, binname, profile) in _harness_cache:
        return _harness_cache[(pkg, binname, profile)]
    hdir = os.path.join(ROOT, "harness")
    lock_src = os.path.join(REPO, "Cargo.lock")
    lock_dst = os.path.join(hdir, "Cargo.lock")
    if not os.path.exists(lock_dst):
        shutil.copy(lock_src, lock_dst)
    cmd = ["cargo", "build", "--offline", "-q", "-p", pkg, "--bin", binname]
    if profile == "release":
        cmd.append("--release")
    rc, out = sh(cmd, cwd=hdir, timeout=3000)
    if rc != 0:
        # a stale lock file (repo dependencies changed) is the one recoverable cause
        shutil.copy(lock_src, lock_dst)
        rc, out = sh(cmd, cwd=hdir, timeout=3000)
    if rc != 0:
        raise RuntimeError("cargo build failed for %s/%s (%s):\n%s" % (pkg, binname, profile, out[-4000:]))
    _harness_cache[(pkg, binname, profile)] = os.path.join(BUILD, "cargo", profile, binname)
    return _harness_cache[(pkg, binname, profile)]


_driver_cache = {}


def _build_driver_unlocked():
    """generates coq/Extract.v from the stream registry, extracts the models and compiles ocaml/driver.ml"""
    if "drv" in _driver_cache:
        return _driver_cache["drv"]
    odir = os.path.join(BUILD, "ocaml")
    os.makedirs(odir, exist_ok=True)
    ensure_makefile()
    write_if_changed(os.path.join(COQ, "Extract.v"), extract_text())
    write_if_changed(os.path.join(odir, "streams.ml"), streams_ml_text())
    mods = sorted(set(x["model"] for x in load_streams()))
    targets = sorted(set(m.replace(".", "/") + ".vo" for m in mods))
    rc, out = sh("make -j%d %s 2>&1" % (NPROC, " ".join(targets)), cwd=COQ, timeout=1500)
    if rc != 0:
        raise RuntimeError("coq model build failed:\n" + out[-4000:])
    drv = os.path.join(odir, "driver")
    stamp = os.path.join(odir, "stamp")
    deps = [os.path.join(COQ, "Extract.v"), os.path.join(ROOT, "ocaml", "driver.ml"), os.path.join(odir, "streams.ml")] + \
           [os.path.join(COQ, t) for t in targets]
    newest = max(os.path.getmtime(p) for p in deps)
    if not (os.path.exists(drv) and os.path.exists(stamp) and os.path.getmtime(stamp) >= newest):
        rc, out = sh(["coqc", "-Q", COQ, "GQ", os.path.join(COQ, "Extract.v")], cwd=odir, timeout=600)
        if rc != 0:
            raise RuntimeError("extraction failed:\n" + out[-4000:])
        shutil.copy(os.path.join(ROOT, "ocaml", "driver.ml"), os.path.join(odir, "driver.ml"))
        rc, out = sh("ocamlfind ocamlopt -w -a model.mli model.ml streams.ml driver.ml -o driver.new 2>&1", cwd=odir, timeout=900)
        if rc != 0:
            raise RuntimeError("ocaml build failed:\n" + out[-4000:])
        os.replace(os.path.join(odir, "driver.new"), drv)      # a running driver keeps its old inode
        open(stamp, "w").write("ok")
    _driver_cache["drv"] = drv
    return drv

def build_driver():
    with build_lock():
        return _build_driver_unlocked()



# --------------------------------------------------------------------------------------
# cases
# --------------------------------------------------------------------------------------

class Case:
    __slots__ = ("name", "cfg", "ops", "meta")

    def __init__(self, name, ops, cfg=(), meta=None):
        self.name = name
        self.cfg = list(cfg)     # extra words on the CASE line
        self.ops = ops           # list of (tag, [args]) ; an arg is int or bytes
        self.meta = meta or {}

    def lines(self):
        out = ["CASE " + " ".join([self.name] + [str(c) for c in self.cfg])]
        for tag, args in self.ops:
            toks = [str(tag)]
            for a in args:
                if isinstance(a, (bytes, bytearray)):
                    toks.append("x" + bytes(a).hex())
                else:
                    toks.append(str(a))
            out.append(" ".join(toks))
        out.append("END")
        return out

    def key(self):
        h = hashlib.sha1()
        h.update(" ".join(str(c) for c in self.cfg).encode())
        for line in self.lines()[1:]:
            h.update(line.encode())
            h.update(b"\n")
        return h.hexdigest()

    def with_ops(self, ops, name=None):
        return Case(name or self.name, ops, self.cfg, dict(self.meta))

    def subset(self, keep, name=None):
        """the case restricted to the op indices in `keep`; per-op metadata (meta["m"], aligned with ops) follows"""
        meta = dict(self.meta)
        m = meta.get("m")
        if isinstance(m, list) and len(m) == len(self.ops):
            meta["m"] = [m[i] for i in keep]
        return Case(name or self.name, [self.ops[i] for i in keep], self.cfg, meta)


def parse_output(text):
    """-> dict name -> list of observation lines (strings without the leading '= ')"""
    res = {}
    cur = None
    for line in text.split("\n"):
        if line.startswith("CASE "):
            cur = []
            res[line[5:].strip()] = cur
        elif line == "END":
            cur = None
        elif cur is not None and line:
            cur.append(line[2:] if line.startswith("= ") else (line[1:].strip() if line == "=" else line))
    return res


# stream name -> fn(cases) -> cases : lets a props module feed implementation-side inputs that are
# deliberately outside the model (e.g. C13's floating-point RTT filter) to the extracted model: the
# hook is applied to every batch handed to the model driver (run_stream, shrink, replay alike).
MODEL_INPUT_HOOKS = {}


def run_binary(cmd, cases, shards=NPROC, timeout=1800, tag="run", depth=0):
    """runs `cmd` over the cases split in shards, in parallel; returns (dict name->obs lines, problems)"""
    if not cases:
        return {}, []
    if len(cmd) == 2 and cmd[0] == _driver_cache.get("drv") and cmd[1] in MODEL_INPUT_HOOKS:
        cases = MODEL_INPUT_HOOKS[cmd[1]](cases)
    shards = max(1, min(shards, (len(cases) + 49) // 50)) if depth == 0 else 1
    tmpd = os.path.join(BUILD, "tmp")
    os.makedirs(tmpd, exist_ok=True)
    procs = []
    for k in range(shards):
        part = cases[k::shards]
        path = os.path.join(tmpd, "%s.%d.%d.in" % (tag, os.getpid(), k))
        with open(path, "w") as f:
            for c in part:
                f.write("\n".join(c.lines()))
                f.write("\n")
        fin = open(path)
        p = subprocess.Popen(cmd, stdin=fin, stdout=subprocess.PIPE, stderr=subprocess.DEVNULL, env=ENV, text=True)
        procs.append((p, fin, path, part))
    results = {}
    problems = []
    deadline = time.time() + timeout
    for p, fin, path, part in procs:
        try:
            out, _ = p.communicate(timeout=max(1, deadline - time.time()))
        except subprocess.TimeoutExpired:
            p.kill()
            out, _ = p.communicate()
            problems.append("timeout")
        fin.close()
        res = parse_output(out)
        results.update(res)
        if p.returncode not in (0, None):
            problems.append("exit %s" % p.returncode)
            # a hang / crash stops the shard at some case: run what follows it as a new batch (a few times at
            # most, so that a decoder that hangs on many inputs cannot stall the whole check); the case that
            # stopped the shard keeps its `! hang` / truncated observation, unexplored ones become `! missing`
            done = set(res.keys())
            rest = [c for c in part if c.name not in done]
            if rest and depth < 4:
                r2, pr2 = run_binary(cmd, rest, shards=1, timeout=max(60, min(timeout, 600)), tag=tag + "r", depth=depth + 1)
                results.update(r2)
        try:
            os.remove(path)
        except OSError:
            pass
    return results, problems


# --------------------------------------------------------------------------------------
# known findings
# --------------------------------------------------------------------------------------

def load_known(prop):
    path = os.path.join(ROOT, "known_findings.json")
    if not os.path.exists(path):
        return []
    data = json.load(open(path))
    return [e for e in data.get("findings", []) if e.get("property") == prop and e.get("status", "open") == "open"]


# --------------------------------------------------------------------------------------
# the generic correspondence + oracle run for one stream
# --------------------------------------------------------------------------------------

class StreamResult:
    def __init__(self):
        self.evaluations = 0
        self.distinct_nontrivial = 0
        self.histogram = {}
        self.samples = []
        self.disagreements = []      # (case, impl_obs, model_obs, profile)
        self.oracle_failures = []    # (case, msg, profile)
        self.known_hits = {}         # finding id -> (case, msg)
        self.problems = []
        self.traces = 0


def first_diff(a, b):
    for i in range(max(len(a), len(b))):
        x = a[i] if i < len(a) else None
        y = b[i] if i < len(b) else None
        if x != y:
            return i
    return None


def run_stream(spec, cases, profiles=("debug",), open_ids=None):
    """spec: dict(name, pkg, bin, oracle(case, obs)->None|str, nontrivial(case)->bool,
                  classify(case, msg, obs)->finding id|None, hist(case)->list of labels)"""
    res = StreamResult()
    drv = build_driver()
    model_out, mp = run_binary([drv, spec["name"]], cases, tag="model-" + spec["name"])
    res.problems += ["model: " + p for p in mp]
    seen = set()
    for c in cases:
        res.evaluations += 1
        k = c.key()
        if k not in seen:
            seen.add(k)
            if spec["nontrivial"](c):
                res.distinct_nontrivial += 1
        for label in spec.get("hist", lambda c: [])(c):
            res.histogram[label] = res.histogram.get(label, 0) + 1
    for prof in profiles:
        binp = build_harness(spec["pkg"], spec["bin"], prof)
        impl_out, ip = (spec["impl_run"](binp, cases, prof) if "impl_run" in spec
                        else run_binary([binp], cases, tag="impl-%s-%s" % (spec["name"], prof)))
        res.problems += ["impl(%s): %s" % (prof, p) for p in ip]
        for c in cases:
            io = impl_out.get(c.name)
            mo = model_out.get(c.name)
            if io is None:
                io = ["! missing"]
            if mo is None:
                mo = ["! missing-model"]
            res.traces += 1
            msg = spec["oracle"](c, io)
            if msg is not None:
                fid = spec.get("classify", lambda *a: None)(c, msg, io)
                # only findings listed as OPEN may absorb a failure; a repaired (or unlisted) class is a violation again
                if fid is not None and (open_ids is None or fid in open_ids):
                    res.known_hits.setdefault(fid, (c, msg))
                else:
                    res.oracle_failures.append((c, msg, prof, io))
            if io != mo:
                fid = spec.get("classify_diff", lambda *a: None)(c, io, mo)
                # a finding id (F<n>) only absorbs a disagreement while that finding is open; other markers
                # (e.g. "by-design" for streams whose two sides print different things) always do
                is_finding = fid is not None and re.match(r"F\d", str(fid)) is not None
                if fid is None or (is_finding and open_ids is not None and fid not in open_ids):
                    res.disagreements.append((c, io, mo, prof))
    return res, model_out


def _coq_z(tok):
    v = int(tok)
    return "(%d)" % v if v < 0 else str(v)


def _coq_args(toks):
    out = []
    for t in toks:
        if t.startswith("x"):
            h = t[1:]
            out += [str(int(h[i:i + 2], 16)) for i in range(0, len(h) - 1, 2)]
        else:
            out.append(_coq_z(t))
    return "[" + "; ".join(out) + "]"


def _kernel_eval_unlocked(stream, cases, model_out, timeout=600, max_tokens=4000):
    """Evaluates the Gallina run function of `stream` INSIDE Coq (vm_compute, checked by the kernel through
    `reflexivity`/Qed) on the given cases and compares with what the extracted OCaml driver printed: ties the
    extraction + OCaml driver to the definitions the theorems are about.
    returns (number checked, [names that differ], problem or None)"""
    reg = [x for x in load_streams() if x["stream"] == stream]
    if not reg or not cases:
        return 0, [], None
    reg = reg[0]
    if stream in MODEL_INPUT_HOOKS:
        cases = MODEL_INPUT_HOOKS[stream](cases)
    lines = ["From GQ Require %s." % reg["model"], "Require Import ZArith List.", "Import ListNotations.", "Open Scope Z_scope.", ""]
    where = {}
    n = 0
    for c in cases:
        mo = model_out.get(c.name)
        if mo is None or any(l.startswith("!") for l in mo):
            continue
        ls = c.lines()
        if sum(len(l) for l in ls) > max_tokens * 4:
            continue
        cfg = _coq_args(ls[0].split()[2:])
        ops = []
        for l in ls[1:-1]:
            w = l.split()
            ops.append("(%s%%N, %s)" % (w[0], _coq_args(w[1:])))
        exp = "[" + "; ".join("[" + "; ".join(_coq_z(t) for t in l.split()) + "]" for l in mo) + "]"
        where[len(lines) + 1] = c.name
        lines.append("Goal GQ.%s.%s %s [%s] = %s." % (reg["model"], reg["run"], cfg, "; ".join(ops), exp))
        lines.append("Proof. vm_compute. reflexivity. Qed.")
        n += 1
    if n == 0:
        return 0, [], None
    tmpd = os.path.join(BUILD, "tmp")
    os.makedirs(tmpd, exist_ok=True)
    fn = os.path.join(tmpd, "kernel_%s_%d.v" % (stream, os.getpid()))
    bad = []
    problem = None
    remaining = lines
    # a failing Goal stops coqc: drop it and continue so that every differing case is named (at most a few rounds)
    for _ in range(4):
        open(fn, "w").write("\n".join(remaining) + "\n")
        try:
            rc, out = sh("coqc -noglob -Q . GQ %s 2>&1" % fn, cwd=COQ, timeout=timeout)
        except Exception as e:
            problem = "kernel evaluation did not finish: %s" % e
            break
        if rc == 0:
            break
        if rc == 124:
            problem = "kernel evaluation timed out after %ds" % timeout
            break
        m = re.search(r'line (\d+), characters', out)
        if not m:
            problem = "kernel evaluation could not be run: " + out[-300:]
            break
        ln = int(m.group(1))
        start = ln if remaining[ln - 1].startswith("Goal") else ln - 1
        name = None
        # map back by content: the Goal line is unique per case
        goal_line = remaining[start - 1]
        for k0, nm in where.items():
            if lines[k0 - 1] == goal_line:
                name = nm
        bad.append(name or "line %d" % ln)
        remaining = remaining[:start - 1] + remaining[start + 1:]
    for ext in (".v", ".vo", ".vok", ".vos"):
        try:
            os.remove(fn[:-2] + ext)
        except OSError:
            pass
    return n, bad, problem

def kernel_eval(stream, cases, model_out, timeout=600, max_tokens=4000):
    with build_lock():
        return _kernel_eval_unlocked(stream, cases, model_out, timeout, max_tokens)



def shrink(spec, case, still_bad, profile="debug", rounds=40):
    """greedy delta debugging on the operation list; still_bad(case, impl_obs, model_obs)->bool"""
    drv = build_driver()
    binp = build_harness(spec["pkg"], spec["bin"], profile)
    cur = case
    chunk = max(1, len(cur.ops) // 2)
    for _ in range(rounds):
        if len(cur.ops) <= 1:
            break
        cands = []
        i = 0
        while i < len(cur.ops):
            keep = list(range(0, i)) + list(range(i + chunk, len(cur.ops)))
            if keep:
                cands.append(cur.subset(keep, name="s%d" % len(cands)))
            i += chunk
        if not cands:
            break
        io, _ = run_binary([binp], cands, tag="shr-i")
        mo, _ = run_binary([drv, spec["name"]], cands, tag="shr-m")
        hit = None
        for c in cands:
            if still_bad(c, io.get(c.name, ["! missing"]), mo.get(c.name, ["! missing-model"])):
                hit = c
                break
        if hit is not None:
            cur = hit.subset(list(range(len(hit.ops))), name=case.name + "-shrunk")
            chunk = max(1, min(chunk, len(cur.ops) // 2))
        elif chunk > 1:
            chunk //= 2
        else:
            break
    return cur


# --------------------------------------------------------------------------------------
# reporting
# --------------------------------------------------------------------------------------

def write_replay(prop, kind, payload):
    d = os.path.join(ROOT, "replays")
    os.makedirs(d, exist_ok=True)
    stamp = time.strftime("%Y%m%d-%H%M%S")
    path = os.path.join(d, "%s-%s-%s-%d.txt" % (prop, kind, stamp, os.getpid()))
    n = 0
    while os.path.exists(path):
        n += 1
        path = os.path.join(d, "%s-%s-%s-%d-%d.txt" % (prop, kind, stamp, os.getpid(), n))
    with open(path, "w") as f:
        f.write(payload)
    return path


def write_evidence(prop, tier, seed, coverage, assumptions, wall_s, violations):
    d = os.path.join(ROOT, "evidence")
    os.makedirs(d, exist_ok=True)
    ev = {"property_id": prop, "tier": tier, "seed": seed, "level": "proof", "coverage": coverage,
          "assumptions": assumptions, "wall_s": round(wall_s, 1), "violations": violations}
    tmp = os.path.join(d, prop + ".json.tmp")
    with open(tmp, "w") as f:
        json.dump(ev, f, indent=1, sort_keys=True)
    os.replace(tmp, os.path.join(d, prop + ".json"))


def case_sample(c, obs=None, limit=14):
    s = {"case": c.name, "ops": [l for l in c.lines()[1:-1]][:limit]}
    if len(c.ops) > limit:
        s["ops_total"] = len(c.ops)
    if obs is not None:
        s["impl_obs"] = [o if len(o) < 200 else o[:200] + "…" for o in obs[:limit]]
    return s


def load_corpus(prop, stream):
    """corpus/<prop>/<stream>/*.case : files in the CASE/ops/END line format"""
    d = os.path.join(ROOT, "corpus", prop, stream)
    out = []
    if not os.path.isdir(d):
        return out
    for fn in sorted(os.listdir(d)):
        if not fn.endswith(".case"):
            continue
        out += parse_case_file(os.path.join(d, fn), prefix="corpus-" + fn[:-5])
    return out


def parse_case_file(path, prefix=None):
    out = []
    name = None
    cfg = []
    ops = []
    for line in open(path):
        line = line.strip()
        if not line or line.startswith("#"):
            continue
        if line.startswith("CASE"):
            w = line.split()[1:]
            name = (prefix + "-" if prefix else "") + (w[0] if w else "c")
            cfg = w[1:]
            ops = []
        elif line == "END":
            if name is not None:
                out.append(Case(name, ops, cfg))
            name = None
        elif name is not None:
            toks = line.split()
            args = []
            for t in toks[1:]:
                if t.startswith("x"):
                    args.append(bytes.fromhex(t[1:]))
                else:
                    args.append(int(t))
            ops.append((int(toks[0]), args))
    return out
