(* Proofs for Model/Wakers.v (property C16): per protocol the `discipline` instance (three local
   obligations), from which Lib/Interleave.no_lost_wakeup gives the invariant over every reachable
   state; for the protocols that violate the property, a reachable counterexample. *)
From Coq Require Import List NArith ZArith Bool Arith Lia.
From GQ Require Import Lib.Interleave Model.Wakers.
Import ListNotations.

(* small automation --------------------------------------------------------------------- *)

Ltac inv H := inversion H; subst; clear H.

Ltac break_if :=
  match goal with
  | H : context [if ?c then _ else _] |- _ => destruct c eqn:?
  | H : context [match ?c with _ => _ end] |- _ => destruct c eqn:?
  end.

Lemma single_0 w : single w = true -> w = 0.
Proof. unfold single. intro H. apply Nat.eqb_eq in H. exact H. Qed.

Lemma in_take_waker w o : In w (take_waker o) <-> o = Some w.
Proof.
  destruct o as [x|]; cbn; split; intro H.
  - destruct H as [->|[]]. reflexivity.
  - inv H. left; reflexivity.
  - destruct H.
  - discriminate.
Qed.

(* ==================================================================================== *)
(* 1. SendWaker                                                                          *)

Lemma sig_disj_not a : sig_disj (sig_not a) a = true.
Proof.
  unfold sig_disj, sig_not. apply forallb_forall. intros i _. destruct (a i); reflexivity.
Qed.

Lemma sig_disj_ext a a' b : (forall i, In i nbits -> a i = a' i) -> sig_disj a b = sig_disj a' b.
Proof.
  intro H. unfold sig_disj. induction nbits as [|i l IH]; [reflexivity|].
  cbn [forallb]. rewrite (H i) by (left; reflexivity). f_equal. apply IH. intros j Hj. apply H. right; exact Hj.
Qed.

Lemma sig_sub_or b st : sig_sub b st = true -> forall i, In i nbits -> sig_or st b i = st i.
Proof.
  unfold sig_sub, sig_or. intros H i Hi. rewrite forallb_forall in H. specialize (H i Hi).
  destruct (b i), (st i); cbn in *; congruence.
Qed.

Definition sw_inv (o : swobj) : Prop := forall w, sw_waker o = Some w -> w = 0.

Lemma sendwaker_discipline : discipline sendwaker_proto sw_cond.
Proof.
  refine (Build_discipline sendwaker_proto sw_cond sw_inv (fun o w _ => sw_waker o = Some w) _ _ _ _ _ _).
  - intros w H. discriminate.
  - intros o w a o' wk r HI H. cbn [poll sendwaker_proto] in H. destruct (single w) eqn:Es; [|discriminate].
    unfold sw_poll in H. destruct (sig_disj (sw_state o) a); inv H; intros x Hx; cbn [sw_waker] in Hx.
    + inv Hx. apply single_0; exact Es.
    + apply HI; exact Hx.
  - intros o op o' wk r HI H. destruct op as [b]. cbn [oper sendwaker_proto] in H. unfold sw_wake in H. inv H. exact HI.
  - intros o w a o' wk HI H Hn. cbn [poll sendwaker_proto] in H. destruct (single w); [|discriminate].
    unfold sw_poll in H. destruct (sig_disj (sw_state o) a); inv H. split; [reflexivity|].
    unfold sw_cond. cbn [sw_state]. rewrite sig_disj_not. discriminate.
  - intros o w' a' o' wk r w a HI H Hne Hr _ _. cbn [poll sendwaker_proto] in H. destruct (single w') eqn:Es; [|discriminate].
    apply single_0 in Es. apply HI in Hr. congruence.
  - intros o op o' wk r w a HI H Hr Hc Hn. destruct op as [b]. cbn [oper sendwaker_proto] in H. unfold sw_wake in H.
    inv H. split; [exact Hr|].
    destruct (sig_sub b (sw_state o)) eqn:Es.
    + unfold sw_cond in *. cbn [sw_state]. rewrite (sig_disj_ext _ (sw_state o)); [exact Hc|]. apply sig_sub_or; exact Es.
    + exfalso; apply Hn. rewrite Hr. left; reflexivity.
Qed.

Lemma p_c16_sendwaker : NoLostWakeup sendwaker_proto sw_cond.
Proof. exact (no_lost_wakeup _ _ sendwaker_discipline). Qed.

Lemma p_c16_sendwaker_observes : Observes sendwaker_proto sw_cond.
Proof.
  intros [o t] _ w a o' wk r Hc H. cbn [fst snd poll sendwaker_proto] in *. destruct (single w); [|discriminate].
  unfold sw_poll, sw_cond in *. rewrite Hc in H. inv H. discriminate.
Qed.

(* ==================================================================================== *)
(* 2. AsyncDeque                                                                         *)

Definition ad_inv (o : adobj) : Prop := forall w, ad_w o = Some w -> w = 0.

Lemma asyncdeque_discipline : discipline asyncdeque_proto ad_cond.
Proof.
  refine (Build_discipline asyncdeque_proto ad_cond ad_inv (fun o w _ => ad_w o = Some w) _ _ _ _ _ _).
  - intros w H. discriminate.
  - intros o w a o' wk r HI H. cbn in H. destruct (single w) eqn:Es; [|discriminate]. apply single_0 in Es.
    unfold ad_poll in H. repeat break_if; inv H; intros x Hx; cbn in Hx; try (apply HI; assumption); congruence.
  - intros o op o' wk r HI H. cbn in H. unfold ad_oper in H.
    destruct op; destruct (ad_q o); inv H; intros x Hx; cbn in Hx; try discriminate; apply HI; assumption.
  - intros o w a o' wk HI H Hn. cbn in H. destruct (single w); [|discriminate].
    unfold ad_poll in H. repeat break_if; inv H; cbn; unfold ad_cond; cbn; auto.
  - intros o w' a' o' wk r w a HI H Hne Hr _ _. cbn in H. destruct (single w') eqn:Es; [|discriminate].
    apply single_0 in Es. apply HI in Hr. congruence.
  - intros o op o' wk r w a HI H Hr Hc Hn. cbn in H. unfold ad_oper in H. unfold ad_cond in Hc.
    destruct (ad_q o) as [[|v q]|] eqn:Eq; try (exfalso; apply Hc; exact I).
    destruct op; inv H; exfalso; apply Hn; apply in_take_waker; exact Hr.
Qed.

Lemma p_c16_asyncdeque : NoLostWakeup asyncdeque_proto ad_cond.
Proof. exact (no_lost_wakeup _ _ asyncdeque_discipline). Qed.

Lemma p_c16_asyncdeque_observes : Observes asyncdeque_proto ad_cond.
Proof.
  intros [o t] _ w a o' wk r Hc H. cbn in *. destruct (single w); [|discriminate].
  unfold ad_poll, ad_cond in *. destruct (ad_q o) as [[|v q]|]; try contradiction; inv H; discriminate.
Qed.

(* closing wakes: after `close` the condition holds for ever, so every sleeper has a pending wake *)
Lemma p_c16_asyncdeque_close : forall s, reach (lift asyncdeque_proto) s -> ad_q (fst s) = None ->
  forall w, t_sleep (snd s w) = true -> t_pend (snd s w) = true.
Proof.
  intros s Hr Hq w Hs. apply (p_c16_asyncdeque s Hr w Hs). unfold ad_cond. rewrite Hq. exact I.
Qed.

(* ==================================================================================== *)
(* 3. Receiving                                                                          *)

(* 3a. the code as it is: refuted (finding F1) *)

Definition f1_trace : list (lbl receiving_proto) := [@LPoll receiving_proto 0 tt; @LOp receiving_proto (RcRecv 7)].

Lemma p_c16_receiving_refuted :
  exists tr s, run (lift receiving_proto) (linit receiving_proto) tr = Some s /\
               t_sleep (snd s 0) = true /\ rc_cond (fst s) (t_arg (snd s 0)) /\ t_pend (snd s 0) = false.
Proof.
  exists f1_trace. eexists. split; [vm_compute; reflexivity|]. cbn. repeat split.
Qed.

Lemma p_c16_receiving_not_nlw : ~ NoLostWakeup receiving_proto rc_cond.
Proof.
  intro H. destruct p_c16_receiving_refuted as (tr & s & Hrun & Hs & Hc & Hp).
  apply run_init_reach in Hrun. specialize (H s Hrun 0 Hs Hc). congruence.
Qed.

(* second half of F1: a second recv_frame erases the frame that was waiting to be read *)
Lemma p_c16_receiving_erase_refuted :
  exists tr s, run (lift receiving_proto) (linit receiving_proto) tr = Some s /\
               fst s = RcPending /\
               tr = [@LOp receiving_proto (RcRecv 7); @LOp receiving_proto (RcRecv 8)].
Proof. eexists. eexists. split; [|split; [|reflexivity]]; vm_compute; reflexivity. Qed.

(* what does hold for the code as it is: a poll made while there is something to observe returns it *)
Lemma p_c16_receiving_observes : Observes receiving_proto rc_cond.
Proof.
  intros [o t] _ w a o' wk r Hc H. cbn in *. destruct (single w); [|discriminate].
  unfold rc_cond in Hc. destruct o; try contradiction; inv H; discriminate.
Qed.

(* F1 class: a task parked on the slot.  Outside it the statement holds (vacuously: the defect is
   total, `poll` never stores a Waker, so EVERY sleeper is in the class). *)
Definition f1_class (s : lstate receiving_proto) (w : wid) : Prop := t_sleep (snd s w) = true.

Lemma p_c16_receiving_cond : forall s, reach (lift receiving_proto) s ->
  forall w, ~ f1_class s w ->
  t_sleep (snd s w) = true -> rc_cond (fst s) (t_arg (snd s w)) -> t_pend (snd s w) = true.
Proof. intros s _ w Hn Hs. contradiction. Qed.

(* 3b. the repaired code *)

Definition rc_inv (o : rcobj) : Prop := forall w, o = RcWaiting w -> w = 0.

Lemma receiving_fixed_discipline : discipline receiving_fixed_proto rc_cond.
Proof.
  refine (Build_discipline receiving_fixed_proto rc_cond rc_inv (fun o w _ => o = RcWaiting w) _ _ _ _ _ _).
  - intros w H. discriminate.
  - intros o w a o' wk r HI H. cbn in H. destruct (single w) eqn:Es; [|discriminate]. apply single_0 in Es.
    destruct o; inv H; intros x Hx; inv Hx; reflexivity.
  - intros o op o' wk r HI H. cbn in H. destruct op, o; inv H; intros x Hx; try discriminate; try (apply HI; exact Hx).
  - intros o w a o' wk HI H Hn. cbn in H. destruct (single w); [|discriminate].
    destruct o; inv H; cbn; auto.
  - intros o w' a' o' wk r w a HI H Hne Hr _ _. cbn in H. destruct (single w') eqn:Es; [|discriminate].
    apply single_0 in Es. apply HI in Hr. congruence.
  - intros o op o' wk r w a HI H Hr Hc Hn. subst o. cbn in H. destruct op; inv H; exfalso; apply Hn; left; reflexivity.
Qed.

Lemma p_c16_receiving_fixed : NoLostWakeup receiving_fixed_proto rc_cond.
Proof. exact (no_lost_wakeup _ _ receiving_fixed_discipline). Qed.

Lemma p_c16_receiving_fixed_observes : Observes receiving_fixed_proto rc_cond.
Proof.
  intros [o t] _ w a o' wk r Hc H. cbn in *. destruct (single w); [|discriminate].
  unfold rc_cond in Hc. destruct o; try contradiction; inv H; discriminate.
Qed.

(* the repaired recv_frame never erases: once there is something to observe there always is *)
Lemma p_c16_receiving_fixed_keeps : forall o op o' wk r,
  oper receiving_fixed_proto o op = Some (o', wk, r) -> rc_cond o tt -> rc_cond o' tt.
Proof. intros o op o' wk r H Hc. cbn in H. destruct op, o; inv H; cbn in *; auto. Qed.

(* ==================================================================================== *)
(* 4. Wakers / WakerVec                                                                  *)

Lemma wakervec_discipline : discipline wakervec_proto wv_cond.
Proof.
  refine (Build_discipline wakervec_proto wv_cond (fun _ => True)
            (fun o w _ => In w (wv_regs o) /\ wv_closed o = false) _ _ _ _ _ _); auto.
  - intros o w a o' wk Hi H Hn. cbn [poll wakervec_proto] in H. unfold wv_poll in H.
    destruct (wv_closed o) eqn:Ec; [inv H|].
    destruct (wv_flag o) eqn:Ef; inv H. cbn [wv_regs wv_closed]. split; [split; [|reflexivity]|].
    + destruct (existsb (Nat.eqb w) (wv_regs o)) eqn:Ee.
      * apply existsb_exists in Ee. destruct Ee as (x & Hx & Hxe). apply Nat.eqb_eq in Hxe. subst x. exact Hx.
      * apply in_or_app. right. left. reflexivity.
    + unfold wv_cond. cbn. intros [X|X]; discriminate.
  - intros o w' a' o' wk r w a _ H Hne [Hr Hcl] Hc Hn. cbn [poll wakervec_proto] in H. unfold wv_poll in H.
    rewrite Hcl in H. inv H. cbn [wv_regs wv_closed]. split; [split; [|reflexivity]|].
    + destruct (existsb (Nat.eqb w') (wv_regs o)); [exact Hr|]. apply in_or_app. left. exact Hr.
    + unfold wv_cond in *. cbn. intros [X|X]; [|discriminate]. apply Hc. left. exact X.
  - intros o op o' wk r w a _ H [Hr Hcl] Hc Hn. cbn [oper wakervec_proto] in H. unfold wv_oper in H.
    rewrite Hcl in H. destruct op; inv H; contradiction.
Qed.

Lemma p_c16_wakervec : NoLostWakeup wakervec_proto wv_cond.
Proof. exact (no_lost_wakeup _ _ wakervec_discipline). Qed.

Lemma p_c16_wakervec_observes : Observes wakervec_proto wv_cond.
Proof.
  intros [o t] _ w a o' wk r Hc H. cbn [fst poll wakervec_proto] in *. unfold wv_poll, wv_cond in *.
  destruct (wv_closed o); [inv H; discriminate|]. destruct Hc as [Hc|Hc]; [|discriminate].
  rewrite Hc in H. inv H. discriminate.
Qed.

(* ==================================================================================== *)
(* 5. Parameters                                                                         *)

Lemma params_discipline : discipline params_proto pm_cond.
Proof.
  refine (Build_discipline params_proto pm_cond (fun _ => True)
            (fun o w _ => In w (pm_wakers o)) _ _ _ _ _ _); auto.
  - intros o w a o' wk _ H Hn. cbn [poll params_proto] in H. unfold pm_poll in H.
    destruct (pm_err o); [inv H|]. destruct (pm_ready o); inv H. cbn. split.
    + apply in_or_app. right. left. reflexivity.
    + unfold pm_cond. cbn. intros [X|X]; discriminate.
  - intros o w' a' o' wk r w a _ H Hne Hr Hc Hn. cbn [poll params_proto] in H. unfold pm_poll in H.
    unfold pm_cond in *.
    destruct (pm_err o) eqn:Ee; [exfalso; apply Hc; right; reflexivity|].
    destruct (pm_ready o) eqn:Er; [exfalso; apply Hc; left; reflexivity|]. inv H. cbn. split.
    + apply in_or_app. left. exact Hr.
    + intros [X|X]; discriminate.
  - intros o op o' wk r w a _ H Hr Hc Hn. cbn [oper params_proto] in H. unfold pm_oper in H. unfold pm_cond in *.
    destruct (pm_err o) eqn:Ee; [exfalso; apply Hc; right; reflexivity|].
    destruct (pm_ready o) eqn:Er; [exfalso; apply Hc; left; reflexivity|].
    destruct op as [good| |]; cbn [orb] in H.
    + destruct (pm_got o); [discriminate|]. destruct (pm_scid o); [destruct good|]; inv H; cbn;
        try contradiction; (split; [exact Hr|intros [X|X]; discriminate]).
    + destruct (pm_scid o); [discriminate|]. destruct (pm_got o); [destruct (pm_bad o)|]; inv H; cbn;
        try contradiction; (split; [exact Hr|intros [X|X]; discriminate]).
    + inv H. contradiction.
Qed.

Lemma p_c16_params : NoLostWakeup params_proto pm_cond.
Proof. exact (no_lost_wakeup _ _ params_discipline). Qed.

Lemma p_c16_params_observes : Observes params_proto pm_cond.
Proof.
  intros [o t] _ w a o' wk r Hc H. cbn [fst poll params_proto] in *. unfold pm_poll, pm_cond in *.
  destruct (pm_err o); [inv H; discriminate|]. destruct Hc as [Hc|Hc]; [|discriminate].
  rewrite Hc in H. inv H. discriminate.
Qed.

(* ==================================================================================== *)
(* 7. KeysState                                                                          *)

Definition ky_inv (o : kyobj) : Prop := forall w, o = KyPending (Some w) -> w = 0.

Lemma keys_discipline : discipline keys_proto ky_cond.
Proof.
  refine (Build_discipline keys_proto ky_cond ky_inv (fun o w _ => o = KyPending (Some w)) _ _ _ _ _ _).
  - intros w H. discriminate.
  - intros o w a o' wk r HI H. cbn [poll keys_proto] in H. destruct (single w) eqn:Es; [|discriminate].
    apply single_0 in Es. unfold ky_poll in H. destruct o as [[w'|]| |]; try destruct (Nat.eqb w' w); inv H;
      intros x Hx; inv Hx; reflexivity.
  - intros o op o' wk r HI H. cbn [oper keys_proto] in H. destruct op, o; inv H; intros x Hx; discriminate.
  - intros o w a o' wk HI H Hn. cbn [poll keys_proto] in H. destruct (single w); [|discriminate].
    unfold ky_poll in H. destruct o as [[w'|]| |]; try destruct (Nat.eqb w' w); inv H; cbn; auto.
  - intros o w' a' o' wk r w a HI H Hne Hr _ _. cbn [poll keys_proto] in H. destruct (single w') eqn:Es; [|discriminate].
    apply single_0 in Es. apply HI in Hr. congruence.
  - intros o op o' wk r w a HI H Hr Hc Hn. subst o. cbn [oper keys_proto] in H.
    destruct op; inv H; exfalso; apply Hn; left; reflexivity.
Qed.

Lemma p_c16_keys : NoLostWakeup keys_proto ky_cond.
Proof. exact (no_lost_wakeup _ _ keys_discipline). Qed.

Lemma p_c16_keys_observes : Observes keys_proto ky_cond.
Proof.
  intros [o t] _ w a o' wk r Hc H. cbn [fst poll keys_proto] in *. destruct (single w); [|discriminate].
  unfold ky_cond in Hc. destruct o; try contradiction; inv H; discriminate.
Qed.

(* ==================================================================================== *)
(* 13. DatagramReader                                                                    *)

Definition dg_inv (o : dgobj) : Prop := forall w, dg_w o = Some w -> w = 0.

Lemma datagram_discipline : discipline datagram_proto dg_cond.
Proof.
  refine (Build_discipline datagram_proto dg_cond dg_inv (fun o w _ => dg_w o = Some w) _ _ _ _ _ _).
  - intros w H. discriminate.
  - intros o w a o' wk r HI H. cbn [poll datagram_proto] in H. destruct (single w) eqn:Es; [|discriminate].
    apply single_0 in Es. unfold dg_poll in H. destruct (dg_err o); [|destruct (dg_q o)]; inv H; intros x Hx; cbn in Hx;
      try (apply HI; exact Hx). inv Hx. reflexivity.
  - intros o op o' wk r HI H. cbn [oper datagram_proto] in H. unfold dg_oper in H.
    destruct (dg_err o); [|destruct op]; inv H; intros x Hx; cbn in Hx; try discriminate. apply HI; exact Hx.
  - intros o w a o' wk HI H Hn. cbn [poll datagram_proto] in H. destruct (single w); [|discriminate].
    unfold dg_poll in H. destruct (dg_err o); [inv H|]. destruct (dg_q o); inv H. cbn. split; [reflexivity|].
    unfold dg_cond. cbn. intros [X|X]; [discriminate|apply X; reflexivity].
  - intros o w' a' o' wk r w a HI H Hne Hr _ _. cbn [poll datagram_proto] in H. destruct (single w') eqn:Es; [|discriminate].
    apply single_0 in Es. apply HI in Hr. congruence.
  - intros o op o' wk r w a HI H Hr Hc Hn. cbn [oper datagram_proto] in H. unfold dg_oper in H. unfold dg_cond in Hc.
    destruct (dg_err o) eqn:Ee; [exfalso; apply Hc; left; reflexivity|].
    destruct op; inv H; exfalso; apply Hn; apply in_take_waker; exact Hr.
Qed.

Lemma p_c16_datagram : NoLostWakeup datagram_proto dg_cond.
Proof. exact (no_lost_wakeup _ _ datagram_discipline). Qed.

Lemma p_c16_datagram_observes : Observes datagram_proto dg_cond.
Proof.
  intros [o t] _ w a o' wk r Hc H. cbn [fst poll datagram_proto] in *. destruct (single w); [|discriminate].
  unfold dg_poll, dg_cond in *. destruct (dg_err o); [inv H; discriminate|].
  destruct Hc as [Hc|Hc]; [discriminate|]. destruct (dg_q o); [contradiction|]. inv H. discriminate.
Qed.

(* ==================================================================================== *)
(* SendWaker facts used by the composite protocols                                      *)

Lemma in_nbits k : k < 16 -> In k nbits.
Proof. intro H. unfold nbits. apply in_seq. lia. Qed.

Lemma sig_disj_bit st k : In k nbits -> sig_disj st (sig_bit k) = negb (st k).
Proof.
  intro Hin. destruct (sig_disj st (sig_bit k)) eqn:E.
  - unfold sig_disj in E. rewrite forallb_forall in E. specialize (E k Hin). unfold sig_bit in E.
    rewrite Nat.eqb_refl, andb_true_r in E. symmetry. exact E.
  - destruct (st k) eqn:Ek; [reflexivity|]. exfalso.
    assert (X : sig_disj st (sig_bit k) = true).
    { unfold sig_disj. apply forallb_forall. intros i _. unfold sig_bit.
      destruct (Nat.eqb_spec i k) as [->|N]; [rewrite Ek; reflexivity|rewrite andb_false_r; reflexivity]. }
    congruence.
Qed.

Lemma sig_sub_bit st k : In k nbits -> sig_sub (sig_bit k) st = st k.
Proof.
  intro Hin. destruct (sig_sub (sig_bit k) st) eqn:E.
  - unfold sig_sub in E. rewrite forallb_forall in E. specialize (E k Hin). unfold sig_bit in E.
    rewrite Nat.eqb_refl in E. cbn in E. symmetry. exact E.
  - destruct (st k) eqn:Ek; [|reflexivity]. exfalso.
    assert (X : sig_sub (sig_bit k) st = true).
    { unfold sig_sub. apply forallb_forall. intros i _. unfold sig_bit.
      destruct (Nat.eqb_spec i k) as [->|N]; [rewrite Ek; reflexivity|reflexivity]. }
    congruence.
Qed.

(* poll_wait_for(bit k) *)
Lemma sw_poll_bit sw k : In k nbits ->
  sw_poll sw 0 (sig_bit k) =
  if sw_state sw k then (mkSw (sw_waker sw) sig_none, Ready 1)
  else (mkSw (Some 0) (sig_not (sig_bit k)), Pending).
Proof. intro H. unfold sw_poll. rewrite (sig_disj_bit _ _ H). destruct (sw_state sw k); reflexivity. Qed.

(* wake_by(bit k) *)
Lemma sw_wake_bit sw k : In k nbits ->
  sw_wake sw (sig_bit k) =
  (mkSw (sw_waker sw) (sig_or (sw_state sw) (sig_bit k)),
   if sw_state sw k then [] else take_waker (sw_waker sw)).
Proof. intro H. unfold sw_wake. rewrite (sig_sub_bit _ _ H). reflexivity. Qed.

Lemma sig_or_bit_same st k : sig_or st (sig_bit k) k = true.
Proof. unfold sig_or, sig_bit. rewrite Nat.eqb_refl. apply orb_true_r. Qed.

Lemma sig_not_bit_same k : sig_not (sig_bit k) k = false.
Proof. unfold sig_not, sig_bit. rewrite Nat.eqb_refl. reflexivity. Qed.

(* ==================================================================================== *)
(* 6. CidCell + SendWaker                                                                *)

Lemma cid_in : In CIDBIT nbits.
Proof. apply in_nbits. unfold CIDBIT. lia. Qed.

Record cc_inv (s : ccst) : Prop := {
  cci_cw : cc_cw s = true -> cc_alloc s = false /\ cc_ret s = false;
  cci_need : cc_pc s = CNeed -> cc_cw s = true \/ sw_state (cc_sw s) CIDBIT = true;
  cci_need_awake : cc_pc s = CNeed -> t_sleep (cc_t s) = false;
  cci_sleep : t_sleep (cc_t s) = true -> t_pend (cc_t s) = false ->
              cc_cw s = true /\ sw_waker (cc_sw s) = Some 0 /\ sw_state (cc_sw s) CIDBIT = false;
  cci_pend : t_sleep (cc_t s) = true -> t_pend (cc_t s) = true -> sw_state (cc_sw s) CIDBIT = true
}.

(* saturate with the invariant's implications, then close by congruence *)
Ltac use_inv :=
  repeat match goal with
  | H : ?a = ?a -> _ |- _ => specialize (H eq_refl)
  | H : ?P -> _, H' : ?P |- _ => specialize (H H')
  | H : _ /\ _ |- _ => destruct H
  end.
Ltac fin := intros; use_inv; try discriminate; try congruence; auto;
            try (repeat match goal with H : _ \/ _ |- _ => destruct H end; try discriminate; try congruence; auto).

Lemma cc_inv_reach : forall s, reach cidcell_sys s -> cc_inv s.
Proof.
  apply invariant_rule.
  - constructor; cbn; intros; try discriminate; auto.
  - intros s l s' _ [Ia Ib Ic Id Ie] Hs. cbn [step cidcell_sys] in Hs.
    destruct (cc_exec s l) as [[s1 c]|] eqn:E; inv Hs. destruct l; unfold cc_exec in E.
    + (* borrow_cid *)
      destruct (cc_pc s) eqn:Epc; [|discriminate].
      destruct (cc_ret s) eqn:Er; [|destruct (cc_alloc s) eqn:Ea]; inv E; constructor; cbn; fin.
    + (* wait_for: first poll, or re-poll of the parked future *)
      destruct (t_sleep (cc_t s)) eqn:Esl; destruct (t_pend (cc_t s)) eqn:Epe;
      destruct (cc_pc s) eqn:Epc; try discriminate; rewrite (sw_poll_bit _ _ cid_in) in E;
      destruct (sw_state (cc_sw s) CIDBIT) eqn:Eb; inv E; constructor; cbn; fin.
    + (* assign *)
      destruct (Nat.leb 8 (cc_seq s)); [discriminate|].
      destruct (cc_alloc s || cc_ret s) eqn:Eo.
      * inv E. constructor; cbn; auto.
      * apply orb_false_elim in Eo. destruct Eo as [Ea Er]. unfold cc_wake in E.
        destruct (cc_cw s) eqn:Ecw.
        -- rewrite (sw_wake_bit _ _ cid_in) in E. inv E.
           destruct (sw_state (cc_sw s) CIDBIT) eqn:Eb; [|destruct (sw_waker (cc_sw s)) eqn:Ew];
             constructor; cbn; rewrite ?sig_or_bit_same; fin.
        -- inv E. constructor; cbn; fin.
    + (* retire *)
      destruct (cc_ret s) eqn:Er; [inv E; constructor; rewrite ?Er; assumption|]. unfold cc_wake in E.
      destruct (cc_cw s) eqn:Ecw.
      * rewrite (sw_wake_bit _ _ cid_in) in E. inv E.
        destruct (sw_state (cc_sw s) CIDBIT) eqn:Eb; [|destruct (sw_waker (cc_sw s)) eqn:Ew];
          constructor; cbn; rewrite ?sig_or_bit_same; fin.
      * inv E. constructor; cbn; fin.
    + (* the task is dropped *)
      inv E. constructor; cbn; fin.
Qed.

(* a sleeping task whose connection id has been assigned (or whose cell was retired) has a pending wake *)
Lemma p_c16_cidcell : forall s, reach cidcell_sys s ->
  t_sleep (cc_t s) = true -> cc_cond s -> t_pend (cc_t s) = true.
Proof.
  intros s Hr Hs Hc. destruct (cc_inv_reach s Hr) as [Ia _ _ Id _].
  destruct (t_pend (cc_t s)) eqn:Ep; [reflexivity|]. destruct (Id Hs eq_refl) as (Hcw & _).
  destruct (Ia Hcw) as [X Y]. destruct Hc; congruence.
Qed.

(* between borrow_cid and wait_for: if the condition has become true, wait_for returns at once *)
Lemma p_c16_cidcell_observes : forall s, reach cidcell_sys s ->
  cc_pc s = CNeed -> cc_cond s -> exists s', cc_exec s CcWait = Some (s', 4%Z).
Proof.
  intros s Hr Hp Hc. destruct (cc_inv_reach s Hr) as [Ia Ib _ _ _].
  destruct (Ib Hp) as [X|X].
  - destruct (Ia X). destruct Hc; congruence.
  - unfold cc_exec. rewrite Hp. rewrite (sw_poll_bit _ _ cid_in). rewrite X. eexists. reflexivity.
Qed.

(* ==================================================================================== *)
(* 8. LocalStreamIds under DataStreams                                                   *)

(* 8a. holds for the code as it is AND the repaired code: raising the limit never loses a wake-up *)
Lemma sid_limit_discipline fixed m0 : discipline (sid_gen_proto fixed m0) sd_cond_limit.
Proof.
  refine (Build_discipline (sid_gen_proto fixed m0) sd_cond_limit (fun _ => True)
            (fun o w _ => In w (sd_wk o)) _ _ _ _ _ _); auto.
  - intros o w a o' wk _ H Hn. cbn [poll sid_gen_proto] in H. unfold sd_poll in H.
    destruct (sd_closed o); [inv H|]. destruct (sd_un o <? sd_max o)%N eqn:El; inv H. cbn. split.
    + apply in_or_app. right. left. reflexivity.
    + unfold sd_cond_limit. cbn. apply N.ltb_ge in El. lia.
  - intros o w' a' o' wk r w a _ H Hne Hr Hc Hn. cbn [poll sid_gen_proto] in H. unfold sd_poll in H.
    unfold sd_cond_limit in *.
    destruct (sd_closed o); [inv H; auto|]. destruct (sd_un o <? sd_max o)%N eqn:El.
    + apply N.ltb_lt in El. contradiction.
    + inv H. cbn. split; [apply in_or_app; left; exact Hr|exact Hc].
  - intros o op o' wk r w a _ H Hr Hc Hn. cbn [oper sid_gen_proto] in H. unfold sd_oper in H.
    unfold sd_cond_limit in *. destruct op.
    + destruct (sd_max o <? n)%N; inv H; [contradiction|auto].
    + destruct (sd_closed o); [inv H; auto|]. destruct fixed; inv H; [contradiction|]. cbn. auto.
Qed.

Lemma p_c16_sid_limit fixed m0 : NoLostWakeup (sid_gen_proto fixed m0) sd_cond_limit.
Proof. exact (no_lost_wakeup _ _ (sid_limit_discipline fixed m0)). Qed.

(* 8b. the code as it is: a task parked on the stream limit is not woken by the connection error (F23) *)
Definition f23_trace : list (lbl (sid_proto 0)) := [@LPoll (sid_proto 0) 0 tt; @LOp (sid_proto 0) SdConnError].

Lemma p_c16_sid_close_refuted :
  exists tr s, run (lift (sid_proto 0)) (linit (sid_proto 0)) tr = Some s /\
               t_sleep (snd s 0) = true /\ sd_cond (fst s) (t_arg (snd s 0)) /\ t_pend (snd s 0) = false.
Proof.
  exists f23_trace. eexists. split; [vm_compute; reflexivity|]. cbn. repeat split. left. reflexivity.
Qed.

(* F23 class: the connection has failed.  Outside it the full statement holds. *)
Definition f23_class (s : lstate (sid_proto 0)) : Prop := sd_closed (fst s) = true.

Lemma p_c16_sid_cond m0 : forall s, reach (lift (sid_proto m0)) s ->
  sd_closed (fst s) = false ->
  forall w, t_sleep (snd s w) = true -> sd_cond (fst s) (t_arg (snd s w)) -> t_pend (snd s w) = true.
Proof.
  intros s Hr Hc w Hs [X|X]; [congruence|]. exact (p_c16_sid_limit false m0 s Hr w Hs X).
Qed.

(* 8c. the repaired code: full statement, including the connection error *)
Lemma sid_fixed_discipline m0 : discipline (sid_fixed_proto m0) sd_cond.
Proof.
  refine (Build_discipline (sid_fixed_proto m0) sd_cond (fun _ => True)
            (fun o w _ => In w (sd_wk o)) _ _ _ _ _ _); auto.
  - intros o w a o' wk _ H Hn. cbn [poll sid_fixed_proto sid_gen_proto] in H. unfold sd_poll in H.
    destruct (sd_closed o); [inv H|]. destruct (sd_un o <? sd_max o)%N eqn:El; inv H. cbn. split.
    + apply in_or_app. right. left. reflexivity.
    + unfold sd_cond. cbn. apply N.ltb_ge in El. intros [X|X]; [discriminate|lia].
  - intros o w' a' o' wk r w a _ H Hne Hr Hc Hn. cbn [poll sid_fixed_proto sid_gen_proto] in H. unfold sd_poll in H.
    unfold sd_cond in *.
    destruct (sd_closed o) eqn:Ecl; [exfalso; apply Hc; left; reflexivity|].
    destruct (sd_un o <? sd_max o)%N eqn:El.
    + apply N.ltb_lt in El. exfalso; apply Hc; right; exact El.
    + inv H. cbn. split; [apply in_or_app; left; exact Hr|]. intros [X|X]; [discriminate|apply Hc; right; exact X].
  - intros o op o' wk r w a _ H Hr Hc Hn. cbn [oper sid_fixed_proto sid_gen_proto] in H. unfold sd_oper in H.
    unfold sd_cond in *. destruct op.
    + destruct (sd_max o <? n)%N; inv H; [contradiction|auto].
    + destruct (sd_closed o) eqn:Ecl; [exfalso; apply Hc; left; reflexivity|]. inv H. contradiction.
Qed.

Lemma p_c16_sid_fixed m0 : NoLostWakeup (sid_fixed_proto m0) sd_cond.
Proof. exact (no_lost_wakeup _ _ (sid_fixed_discipline m0)). Qed.

Lemma p_c16_sid_observes fixed m0 : Observes (sid_gen_proto fixed m0) sd_cond.
Proof.
  intros [o t] _ w a o' wk r Hc H. cbn [fst poll sid_gen_proto] in *. unfold sd_poll, sd_cond in *.
  destruct (sd_closed o); [inv H; discriminate|]. destruct Hc as [Hc|Hc]; [discriminate|].
  apply N.ltb_lt in Hc. rewrite Hc in H. inv H. discriminate.
Qed.

(* ==================================================================================== *)
(* 11. crypto stream, sending side                                                       *)

Definition f24_trace : list (lbl crypto_send_proto) :=
  [@LPoll crypto_send_proto 0 CsWrite; @LPoll crypto_send_proto 0 CsFlush; @LOp crypto_send_proto CsLoadAck].

Lemma p_c16_crypto_flush_refuted :
  exists tr s, run (lift crypto_send_proto) (linit crypto_send_proto) tr = Some s /\
               t_sleep (snd s 0) = true /\ cs_cond (fst s) (t_arg (snd s 0)) /\ t_pend (snd s 0) = false.
Proof.
  exists f24_trace. eexists. split; [vm_compute; reflexivity|]. cbn. repeat split.
Qed.

(* F24 class: the task's last poll was poll_flush.  poll_write never parks, so outside the class
   nobody sleeps: the statement holds (vacuously -- every sleeper on this object is in the class). *)
Definition f24_class (s : lstate crypto_send_proto) (w : wid) : Prop := t_arg (snd s w) = CsFlush.

Lemma cs_write_never_parks : forall s, reach (lift crypto_send_proto) s ->
  forall w, t_sleep (snd s w) = true -> t_arg (snd s w) = CsFlush.
Proof.
  apply (invariant_rule (lift crypto_send_proto)
           (fun s => forall w, t_sleep (snd s w) = true -> t_arg (snd s w) = CsFlush)).
  - intros w H. discriminate.
  - intros [o t] l [o' t'] _ IH Hs. cbn in Hs. unfold lstep, lexec in Hs. destruct l as [w a|op|w].
    + destruct (poll crypto_send_proto o w a) as [[[o1 wk] r]|] eqn:E; [|discriminate]. inv Hs.
      cbn [poll crypto_send_proto crypto_send_gen_proto] in E. destruct (single w); [|discriminate].
      destruct a; cbn in E; [|destruct (cs_a o =? cs_w o)%N]; inv E; cbn [snd wake_all fold_left]; intros x Hx;
        unfold set_polled in *; (destruct (Nat.eq_dec x w) as [->|Nx];
          [rewrite upd_same in *; cbn in *; try discriminate; reflexivity|rewrite upd_other in * by exact Nx; apply IH; exact Hx]).
    + destruct (oper crypto_send_proto o op) as [[[o1 wk] r]|] eqn:E; [|discriminate]. inv Hs.
      cbn [snd]. intros x Hx. rewrite wake_all_sleep in Hx. rewrite wake_all_arg. apply IH. exact Hx.
    + inv Hs. cbn [snd]. intros x Hx. unfold set_dropped in *. destruct (Nat.eq_dec x w) as [->|Nx].
      * rewrite upd_same in Hx. cbn in Hx. discriminate.
      * rewrite upd_other in * by exact Nx. apply IH. exact Hx.
Qed.

Lemma p_c16_crypto_flush_cond : forall s, reach (lift crypto_send_proto) s ->
  forall w, ~ f24_class s w ->
  t_sleep (snd s w) = true -> cs_cond (fst s) (t_arg (snd s w)) -> t_pend (snd s w) = true.
Proof. intros s Hr w Hn Hs _. exfalso. apply Hn. exact (cs_write_never_parks s Hr w Hs). Qed.

Definition cs_inv (o : csobj) : Prop := forall w, cs_fw o = Some w -> w = 0.

Lemma crypto_send_fixed_discipline : discipline crypto_send_fixed_proto cs_cond.
Proof.
  refine (Build_discipline crypto_send_fixed_proto cs_cond cs_inv
            (fun o w a => a = CsFlush /\ cs_fw o = Some w) _ _ _ _ _ _).
  - intros w H. discriminate.
  - intros o w a o' wk r HI H. cbn [poll crypto_send_fixed_proto crypto_send_gen_proto] in H.
    destruct (single w) eqn:Es; [|discriminate]. apply single_0 in Es.
    destruct a; cbn in H; [|destruct (cs_a o =? cs_w o)%N]; inv H; intros x Hx; cbn in Hx; try (apply HI; exact Hx).
    inv Hx. reflexivity.
  - intros o op o' wk r HI H. cbn [oper crypto_send_fixed_proto crypto_send_gen_proto] in H.
    destruct op; cbn in H; unfold cs_acked in H; cbn [andb] in H;
      try destruct (_ =? cs_w o)%N; inv H; intros x Hx; cbn in Hx; try discriminate; apply HI; exact Hx.
  - intros o w a o' wk HI H Hn. cbn [poll crypto_send_fixed_proto crypto_send_gen_proto] in H.
    destruct (single w); [|discriminate].
    destruct a; cbn in H; [inv H|]. destruct (cs_a o =? cs_w o)%N eqn:E; inv H. cbn. split; [auto|].
    apply N.eqb_neq in E. exact E.
  - intros o w' a' o' wk r w a HI H Hne [_ Hr] _ _. cbn [poll crypto_send_fixed_proto crypto_send_gen_proto] in H.
    destruct (single w') eqn:Es; [|discriminate]. apply single_0 in Es. apply HI in Hr. congruence.
  - intros o op o' wk r w a HI H [Ha Hr] Hc Hn. subst a. cbn [oper crypto_send_fixed_proto crypto_send_gen_proto] in H.
    unfold cs_cond in *. destruct op; cbn in H; unfold cs_acked in H; cbn [andb] in H.
    + inv H. cbn. auto.
    + destruct (cs_s o =? cs_w o)%N eqn:E; inv H; cbn.
      * exfalso. apply Hn. apply in_take_waker. exact Hr.
      * apply N.eqb_neq in E. auto.
    + rewrite N.eqb_refl in H. inv H. exfalso. apply Hn. apply in_take_waker. exact Hr.
Qed.

Lemma p_c16_crypto_flush_fixed : NoLostWakeup crypto_send_fixed_proto cs_cond.
Proof. exact (no_lost_wakeup _ _ crypto_send_fixed_discipline). Qed.

Lemma p_c16_crypto_send_observes fixed : Observes (crypto_send_gen_proto fixed) cs_cond.
Proof.
  intros [o t] _ w a o' wk r Hc H. cbn [fst poll crypto_send_gen_proto] in *. destruct (single w); [|discriminate].
  destruct a; cbn in *; [inv H; discriminate|]. rewrite Hc, N.eqb_refl in H. inv H. discriminate.
Qed.

(* ==================================================================================== *)
(* 12. crypto stream, receiving side                                                     *)

Definition cr_inv (o : crobj) : Prop := forall w, cr_w o = Some w -> w = 0.

Lemma crypto_recv_discipline : discipline crypto_recv_proto cr_cond.
Proof.
  refine (Build_discipline crypto_recv_proto cr_cond cr_inv (fun o w _ => cr_w o = Some w) _ _ _ _ _ _).
  - intros w H. discriminate.
  - intros o w a o' wk r HI H. cbn [poll crypto_recv_proto] in H. destruct (single w) eqn:Es; [|discriminate].
    apply single_0 in Es. unfold cr_poll in H. destruct (0 <? cr_avail o)%N; inv H; intros x Hx; cbn in Hx.
    + apply HI; exact Hx.
    + inv Hx. reflexivity.
  - intros o op o' wk r HI H. cbn [oper crypto_recv_proto] in H. destruct op. unfold cr_oper in H.
    destruct (0 <? cr_avail o + len)%N; inv H; intros x Hx; cbn in Hx; [discriminate|apply HI; exact Hx].
  - intros o w a o' wk HI H Hn. cbn [poll crypto_recv_proto] in H. destruct (single w); [|discriminate].
    unfold cr_poll in H. destruct (0 <? cr_avail o)%N; inv H. cbn. split; [reflexivity|]. unfold cr_cond. cbn. lia.
  - intros o w' a' o' wk r w a HI H Hne Hr _ _. cbn [poll crypto_recv_proto] in H. destruct (single w') eqn:Es; [|discriminate].
    apply single_0 in Es. apply HI in Hr. congruence.
  - intros o op o' wk r w a HI H Hr Hc Hn. cbn [oper crypto_recv_proto] in H. destruct op. unfold cr_oper in H.
    destruct (0 <? cr_avail o + len)%N eqn:E; inv H.
    + exfalso. apply Hn. apply in_take_waker. exact Hr.
    + auto.
Qed.

Lemma p_c16_crypto_recv : NoLostWakeup crypto_recv_proto cr_cond.
Proof. exact (no_lost_wakeup _ _ crypto_recv_discipline). Qed.

Lemma p_c16_crypto_recv_observes : Observes crypto_recv_proto cr_cond.
Proof.
  intros [o t] _ w a o' wk r Hc H. cbn [fst poll crypto_recv_proto] in *. destruct (single w); [|discriminate].
  unfold cr_poll, cr_cond in *. apply N.ltb_lt in Hc. rewrite Hc in H. inv H. discriminate.
Qed.

(* ==================================================================================== *)
(* 10. stream receiver                                                                   *)

Definition rv_inv (o : rvobj) : Prop := forall w, rv_w o = Some w -> w = 0.

Lemma rv_wake_if_readable_inv o st av be o' wk r :
  rv_inv o -> rv_wake_if_readable o st av be = (o', wk, r) -> rv_inv o'.
Proof.
  unfold rv_wake_if_readable. intros HI H. destruct (0 <? av)%N; inv H; intros x Hx; cbn in Hx;
    [discriminate|apply HI; exact Hx].
Qed.

(* a frame that does not wake the registered reader leaves it registered with nothing to read *)
Lemma rv_wake_if_readable_keeps o st av be o' wk r w :
  rv_wake_if_readable o st av be = (o', wk, r) -> rv_w o = Some w -> ~ In w wk ->
  rv_w o' = Some w /\ rv_st o' = st /\ rv_avail o' = 0%N.
Proof.
  unfold rv_wake_if_readable. intros H Hr Hn. destruct (0 <? av)%N eqn:E; inv H.
  - exfalso. apply Hn. apply in_take_waker. exact Hr.
  - cbn. apply N.ltb_ge in E. split; [exact Hr|split; [reflexivity|lia]].
Qed.

Lemma recver_discipline : discipline recver_proto rv_cond.
Proof.
  refine (Build_discipline recver_proto rv_cond rv_inv (fun o w _ => rv_w o = Some w) _ _ _ _ _ _).
  - intros w H. discriminate.
  - intros o w a o' wk r HI H. cbn [poll recver_proto] in H. destruct (single w) eqn:Es; [|discriminate].
    apply single_0 in Es. unfold rv_poll, rv_set in H. destruct (rv_st o); try destruct (0 <? rv_avail o)%N; inv H;
      intros x Hx; cbn in Hx; try discriminate; try (apply HI; exact Hx); inv Hx; reflexivity.
  - intros o op o' wk r HI H. cbn [oper recver_proto] in H. unfold rv_oper, rv_set in H.
    destruct op; repeat break_if; try discriminate;
      try (inv H; intros x Hx; cbn in Hx; try discriminate; apply HI; exact Hx);
      inv H; eapply rv_wake_if_readable_inv; eauto.
  - intros o w a o' wk HI H Hn. cbn [poll recver_proto] in H. destruct (single w); [|discriminate].
    unfold rv_poll, rv_set in H. destruct (rv_st o) eqn:Est; try destruct (0 <? rv_avail o)%N; inv H; cbn;
      (split; [reflexivity|]); unfold rv_cond; cbn; rewrite ?Est; lia.
  - intros o w' a' o' wk r w a HI H Hne Hr _ _. cbn [poll recver_proto] in H. destruct (single w') eqn:Es; [|discriminate].
    apply single_0 in Es. apply HI in Hr. congruence.
  - intros o op o' wk r w a HI H Hr Hc Hn. cbn [oper recver_proto] in H. unfold rv_oper, rv_set in H. unfold rv_cond in *.
    assert (Hw : forall l, ~ In w (take_waker (rv_w o) ++ l) -> False).
    { intros l X. apply X. apply in_or_app. left. apply in_take_waker. exact Hr. }
    assert (Hw0 : ~ In w (take_waker (rv_w o)) -> False).
    { intros X. apply X. apply in_take_waker. exact Hr. }
    destruct (rv_st o) eqn:Est; try (exfalso; apply Hc; exact I);
      (destruct op; cbn [rv_live] in H; repeat break_if; try discriminate;
       try (inv H; exfalso; apply Hw0; exact Hn);
       try (inv H; cbn; rewrite ?Est; split; [exact Hr|exact Hc]);
       try (inv H; edestruct rv_wake_if_readable_keeps as (A & B & C); eauto; rewrite B, C; split; [exact A|lia])).
Qed.

Lemma p_c16_recver : NoLostWakeup recver_proto rv_cond.
Proof. exact (no_lost_wakeup _ _ recver_discipline). Qed.

Lemma p_c16_recver_observes : Observes recver_proto rv_cond.
Proof.
  intros [o t] _ w a o' wk r Hc H. cbn [fst poll recver_proto] in *. destruct (single w); [|discriminate].
  unfold rv_poll, rv_cond in *. destruct (rv_st o); try (inv H; discriminate);
    apply N.ltb_lt in Hc; rewrite Hc in H; inv H; discriminate.
Qed.

(* SizeKnown is a resting state: the reader does park there (with a hole in front of the FIN), and
   RESET_STREAM / the retransmission / the connection error find it there *)
Lemma p_c16_recver_sizeknown_rests :
  exists s, run (lift recver_proto) (linit recver_proto)
              [@LOp recver_proto (RvLose 2); @LOp recver_proto (RvFin 2); @LPoll recver_proto 0 tt] = Some s /\
            rv_st (fst s) = RvSizeKnown /\ rv_w (fst s) = Some 0 /\ t_sleep (snd s 0) = true /\ t_pend (snd s 0) = false.
Proof. eexists. split; [vm_compute; reflexivity|]. cbn. repeat split. Qed.

(* closing clause, stated directly on one step: RESET_STREAM, the connection error and the
   retransmission of the missing frame invoke the Waker of whoever is parked in Recv / SizeKnown *)
Lemma p_c16_recver_end_wakes : forall o op o' wk r w,
  oper recver_proto o op = Some (o', wk, r) ->
  rv_live (rv_st o) = true -> rv_w o = Some w ->
  op = RvReset \/ op = RvConnError \/ op = RvRetx ->
  In w wk /\ rv_w o' = None.
Proof.
  intros o op o' wk r w H Hl Hr Hop. cbn [oper recver_proto] in H. unfold rv_oper, rv_set in H.
  destruct Hop as [->|[->| ->]]; try rewrite Hl in H.
  - inv H. split; [apply in_take_waker; exact Hr|reflexivity].
  - inv H. split; [apply in_take_waker; exact Hr|reflexivity].
  - destruct (0 <? rv_hole o)%N; [|discriminate].
    destruct (rv_st o); try discriminate; inv H; (split; [apply in_take_waker; exact Hr|reflexivity]).
Qed.

(* ==================================================================================== *)
(* 17. Wakers::combine_with over an event source                                        *)

Lemma cb_register_in regs w : In w (cb_register regs w).
Proof.
  unfold cb_register. destruct (existsb (Nat.eqb w) regs) eqn:Ee.
  - apply existsb_exists in Ee. destruct Ee as (x & Hx & Hxe). apply Nat.eqb_eq in Hxe. subst x. exact Hx.
  - apply in_or_app. right. left. reflexivity.
Qed.

Lemma cb_register_mono regs w x : In x regs -> In x (cb_register regs w).
Proof.
  unfold cb_register. intro H. destruct (existsb (Nat.eqb w) regs); [exact H|]. apply in_or_app. left. exact H.
Qed.

Lemma combine_discipline : discipline combine_proto cb_cond.
Proof.
  refine (Build_discipline combine_proto cb_cond (fun _ => True)
            (fun o w _ => In w (cb_regs o) /\ cb_slot o = true /\ cb_closed o = false) _ _ _ _ _ _); auto.
  - intros o w a o' wk _ H Hn. cbn [poll combine_proto] in H. unfold cb_poll in H.
    destruct (cb_closed o) eqn:Ec; [inv H|].
    pose proof (cb_register_in (cb_regs o) w) as Hin.
    destruct a; try (inv H; contradiction);
      destruct (0 <? cb_ready o)%N eqn:Er; inv H; try contradiction.
    cbn. split; [split; [exact Hin|split; reflexivity]|]. unfold cb_cond. cbn. intros [X|X]; [discriminate|lia].
  - intros o w' a' o' wk r w a _ H Hne (Hr & Hs & Hcl) Hc Hn. cbn [poll combine_proto] in H. unfold cb_poll in H.
    rewrite Hcl in H. pose proof (cb_register_mono (cb_regs o) w' w Hr) as Hin.
    assert (Hz : (0 <? cb_ready o)%N = false).
    { apply N.ltb_ge. unfold cb_cond in Hc. destruct (cb_ready o); [lia|]. exfalso. apply Hc. right. lia. }
    destruct a'; try (inv H; contradiction); rewrite Hz in H; inv H; try contradiction.
    cbn. split; [split; [exact Hin|split; reflexivity]|]. unfold cb_cond. cbn. intros [X|X]; [discriminate|lia].
  - intros o op o' wk r w a _ H (Hr & Hs & Hcl) Hc Hn. cbn [oper combine_proto] in H. unfold cb_oper, cb_fire in H.
    rewrite Hcl, Hs in H. destruct op; inv H; contradiction.
Qed.

Lemma p_c16_combine : NoLostWakeup combine_proto cb_cond.
Proof. exact (no_lost_wakeup _ _ combine_discipline). Qed.

Lemma p_c16_combine_observes : Observes combine_proto cb_cond_obs.
Proof.
  intros [o t] _ w a o' wk r Hc H. cbn [fst poll combine_proto] in *. unfold cb_poll, cb_cond_obs, cb_cond in *.
  destruct (cb_closed o) eqn:Ec; [inv H; discriminate|].
  destruct a; try (destruct Hc as [Hc|Hc]; [discriminate|]; apply N.ltb_lt in Hc; rewrite Hc in H; inv H; discriminate).
  discriminate.
Qed.

(* whenever the waker handed to the inner poll is invoked before combine_with returns Pending
   (throttling, a datagram or a close racing with the registration), the calling task itself is
   among the woken: it was registered BEFORE the inner poll *)
Lemma p_c16_combine_inner_wake : forall o w a o' wk,
  poll combine_proto o w a = Some (o', wk, Pending) -> a <> CbPlain -> In w wk.
Proof.
  intros o w a o' wk H Ha. cbn [poll combine_proto] in H. unfold cb_poll in H.
  destruct (cb_closed o); [inv H|]. pose proof (cb_register_in (cb_regs o) w) as Hin.
  destruct a; [contradiction| | |]; try (inv H; exact Hin);
    destruct (0 <? cb_ready o)%N; inv H; exact Hin.
Qed.

(* ==================================================================================== *)
(* 15. SendBuffer + SendWaker                                                            *)

Lemma tr_in : In TRBIT nbits.
Proof. apply in_nbits. unfold TRBIT. lia. Qed.

Definition sb_cond (s : sbst) : Prop := sb_item s = true.

(* 15a. the code as it is (wake, then store): the frame is in the buffer, every writer has
   returned, the sending task sleeps and nobody will wake it (finding F36).
   The witness: the task is parked; a writer's wake_by wakes it; it runs (wait_for Ready, buffer
   still empty, wait_for Pending) and parks again; only then the writer stores the frame. *)
Definition f36_trace : list sblbl :=
  [SbLoad; SbWait; SbWrite1; SbWait; SbLoad; SbWait; SbWrite2].

Lemma p_c16_sendbuffer_refuted :
  exists tr s, run sendbuffer_sys sb_init tr = Some s /\
               t_sleep (sb_t s) = true /\ sb_cond s /\ sb_nw s = 0 /\ t_pend (sb_t s) = false.
Proof. exists f36_trace. eexists. split; [vm_compute; reflexivity|]. cbn. repeat split. Qed.

(* F36 class: some writer is, or has been, between its wake_by and its store while the task ran.
   In terms of the stream: a NOTIFY of kind 1 (write with the task scheduled between the two
   locks).  At method granularity (writes atomic) the protocol is sound -- that is the repaired
   order below with `sb_nw = 0` throughout. *)

(* 15b. store, then wake *)
Record sbf_inv (s : sbst) : Prop := {
  sbi_need : sb_pc s = CNeed -> sb_item s = true -> sw_state (sb_sw s) TRBIT = true \/ 0 < sb_nw s;
  sbi_need_awake : sb_pc s = CNeed -> t_sleep (sb_t s) = false;
  sbi_sleep : t_sleep (sb_t s) = true -> t_pend (sb_t s) = false ->
              sw_waker (sb_sw s) = Some 0 /\ sw_state (sb_sw s) TRBIT = false /\ (sb_item s = true -> 0 < sb_nw s);
  sbi_pend : t_sleep (sb_t s) = true -> t_pend (sb_t s) = true -> sw_state (sb_sw s) TRBIT = true
}.

Lemma sbf_inv_reach : forall s, reach sendbuffer_fixed_sys s -> sbf_inv s.
Proof.
  apply invariant_rule.
  - constructor; cbn; intros; try discriminate; auto.
  - intros s l s' _ [Ib Ic Id Ie] Hs. cbn [step sendbuffer_fixed_sys sendbuffer_gen_sys] in Hs.
    destruct (sb_exec true s l) as [[s1 c]|] eqn:E; inv Hs. destruct l; unfold sb_exec in E.
    + destruct (sb_pc s) eqn:Epc; [|discriminate].
      destruct (sb_item s) eqn:Ei; inv E; constructor; cbn; fin.
    + destruct (t_sleep (sb_t s)) eqn:Esl; destruct (t_pend (sb_t s)) eqn:Epe;
      destruct (sb_pc s) eqn:Epc; try discriminate; rewrite (sw_poll_bit _ _ tr_in) in E;
      destruct (sw_state (sb_sw s) TRBIT) eqn:Eb; inv E; constructor; cbn; rewrite ?sig_not_bit_same; fin;
      try (repeat split; auto; intro Hi; destruct (Ib Hi) as [X|X]; [discriminate|exact X]).
    + inv E. constructor; cbn; fin; try (right; lia); try (repeat split; auto; lia).
    + destruct (sb_nw s) eqn:En; [discriminate|]. unfold sb_do_wake in E. rewrite (sw_wake_bit _ _ tr_in) in E.
      inv E. destruct (sw_state (sb_sw s) TRBIT) eqn:Eb; [|destruct (sw_waker (sb_sw s)) eqn:Ew];
        constructor; cbn; rewrite ?sig_or_bit_same; fin.
    + inv E. constructor; cbn; fin.
Qed.

(* with the repaired order: a sleeping task with a frame in the buffer has a pending wake, or a
   writer is still between its two steps (and will call wake_by); at quiescence: a pending wake *)
Lemma p_c16_sendbuffer_fixed : forall s, reach sendbuffer_fixed_sys s ->
  t_sleep (sb_t s) = true -> sb_cond s -> t_pend (sb_t s) = true \/ 0 < sb_nw s.
Proof.
  intros s Hr Hs Hc. destruct (sbf_inv_reach s Hr) as [_ _ Id _].
  destruct (t_pend (sb_t s)) eqn:Ep; [left; reflexivity|]. right.
  destruct (Id Hs eq_refl) as (_ & _ & X). exact (X Hc).
Qed.

Lemma p_c16_sendbuffer_fixed_quiescent : forall s, reach sendbuffer_fixed_sys s ->
  sb_nw s = 0 -> t_sleep (sb_t s) = true -> sb_cond s -> t_pend (sb_t s) = true.
Proof.
  intros s Hr Hq Hs Hc. destruct (p_c16_sendbuffer_fixed s Hr Hs Hc) as [X|X]; [exact X|lia].
Qed.

(* ==================================================================================== *)
(* 14. AntiAmplifier + SendWaker (atomic granularity)                                    *)

Lemma cr_in : In CRBIT nbits.
Proof. apply in_nbits. unfold CRBIT. lia. Qed.

Lemma fl_step_spec i : forall fl x a b, fl_step i fl = Some (x, a, b) -> fl = a ++ x :: b.
Proof.
  induction i as [|i IH]; intros fl x a b H; destruct fl as [|y fl]; cbn in H; try discriminate.
  - inv H. reflexivity.
  - destruct (fl_step i fl) as [[[z a'] b']|] eqn:E; [|discriminate]. inv H. cbn. f_equal. apply IH. exact E.
Qed.

Definition aa_bit (s : aaobj) : bool := sw_state (aa_sw s) CRBIT.
Definition aa_checking (p : aapc) : Prop := p = APRecheck \/ p = APNeed.

Record aa_inv (s : aaobj) : Prop := {
  aai_credit : aa_checking (aa_pc s) -> (0 < aa_credit s)%N -> aa_bit s = true \/ In FlWake (aa_fl s);
  aai_state : aa_pc s = APNeed -> aa_state s <> AaNormal -> aa_bit s = true \/ In FlWake (aa_fl s);
  aai_awake : aa_pc s <> APIdle -> t_sleep (aa_t s) = false;
  aai_sleep : t_sleep (aa_t s) = true -> t_pend (aa_t s) = false ->
              sw_waker (aa_sw s) = Some 0 /\ aa_bit s = false /\ (aa_cond s -> In FlWake (aa_fl s));
  aai_pend : t_sleep (aa_t s) = true -> t_pend (aa_t s) = true -> aa_bit s = true
}.

Ltac aa_fin :=
  unfold aa_checking, aa_cond, aa_bit in *; cbn in *; intros;
  try match goal with Ic : ?p <> APIdle -> _ |- _ => specialize (Ic ltac:(discriminate)) end;
  use_inv;
  try discriminate; try congruence; try lia; auto;
  try (repeat match goal with
              | H : _ \/ _ |- _ => destruct H
              | H : _ /\ _ |- _ => destruct H
              end; try discriminate; try congruence; try lia; auto).

Lemma aa_inv_reach : forall s, reach aa_sys s -> aa_inv s.
Proof.
  apply invariant_rule.
  - constructor; aa_fin.
  - intros s l s' _ [Ia Ib Ic Id Ie] Hs. cbn [step aa_sys] in Hs.
    destruct (aa_exec s l) as [[s1 c]|] eqn:E; inv Hs. destruct l; unfold aa_exec in E.
    + (* B1: state.load *)
      destruct (aa_pc s) eqn:Epc; try discriminate. destruct (aa_state s) eqn:Est; inv E; constructor; aa_fin.
    + (* B2: credit.load *)
      destruct (aa_pc s) eqn:Epc; try discriminate.
      destruct (aa_credit s =? 0)%N eqn:Ec; inv E; constructor; aa_fin;
        try (apply N.eqb_eq in Ec; lia).
    + (* B3: state.load again *)
      destruct (aa_pc s) eqn:Epc; try discriminate. destruct (aa_state s) eqn:Est; inv E; constructor; aa_fin.
    + (* the self wake_by of balance() *)
      destruct (aa_pc s) eqn:Epc; try discriminate. unfold aa_do_wake in E. rewrite (sw_wake_bit _ _ cr_in) in E.
      assert (Hsl : t_sleep (aa_t s) = false) by (apply Ic; congruence).
      inv E. destruct (sw_state (aa_sw s) CRBIT) eqn:Eb; [|destruct (sw_waker (aa_sw s)) eqn:Ew];
        constructor; aa_fin.
    + (* wait_for *)
      destruct (t_sleep (aa_t s)) eqn:Esl; destruct (t_pend (aa_t s)) eqn:Epe;
      destruct (aa_pc s) eqn:Epc; try discriminate; rewrite (sw_poll_bit _ _ cr_in) in E;
      destruct (sw_state (aa_sw s) CRBIT) eqn:Eb; inv E; constructor;
      unfold aa_checking, aa_cond, aa_bit in *; cbn; rewrite ?sig_not_bit_same; intros; try discriminate;
      try solve [aa_fin].
      all: try (repeat split; auto; intros [Hx|Hx];
                [destruct (Ia (or_intror eq_refl) Hx) as [X|X]; [congruence|exact X]
                |destruct (Ib eq_refl Hx) as [X|X]; [congruence|exact X]]).
      all: try (destruct (Id eq_refl eq_refl) as (X1 & X2 & X3); repeat split; auto).
      all: try (specialize (Ie eq_refl eq_refl); congruence).
    + (* on_sent: state.load *)
      destruct (aa_pc s) eqn:Epc; try discriminate. destruct (t_sleep (aa_t s)) eqn:Esl; [discriminate|].
      destruct (aa_state s) eqn:Est; inv E; constructor; aa_fin.
    + (* on_sent: fetch_sub *)
      destruct (aa_pc s) eqn:Epc; try discriminate. destruct (n <=? aa_credit s)%N; [|discriminate].
      assert (Hsl : t_sleep (aa_t s) = false) by (apply Ic; congruence).
      inv E. constructor; aa_fin.
    + (* on_rcvd: state.load *)
      destruct (aa_state s) eqn:Est; inv E;
        [|constructor; first [assumption|rewrite Est; assumption]..].
      constructor; unfold aa_checking, aa_cond, aa_bit in *; cbn; intros;
        try assumption; try (apply Ia; assumption); try (apply Ib; assumption); try (apply Ic; assumption);
        try (apply Ie; assumption).
      * destruct (Ia H H0) as [X|X]; [left; exact X|right; apply in_or_app; left; exact X].
      * destruct (Ib H H0) as [X|X]; [left; exact X|right; apply in_or_app; left; exact X].
      * destruct (Id H H0) as (X1 & X2 & X3). repeat split; auto. intro Hc. apply in_or_app. left. apply X3. rewrite ?Est. exact Hc.
    + (* grant: CAS *)
      destruct (aa_state s) eqn:Est; inv E;
        [|constructor; first [assumption|rewrite Est; assumption]..].
      constructor; unfold aa_checking, aa_cond, aa_bit in *; cbn; intros; try (apply Ic; assumption); try (apply Ie; assumption);
        try (right; apply in_or_app; right; left; reflexivity).
      destruct (Id H H0) as (X1 & X2 & X3). repeat split; auto. intros _. apply in_or_app. right. left. reflexivity.
    + (* abort: CAS *)
      destruct (aa_state s) eqn:Est; inv E;
        [|constructor; first [assumption|rewrite Est; assumption]..].
      constructor; unfold aa_checking, aa_cond, aa_bit in *; cbn; intros; try (apply Ic; assumption); try (apply Ie; assumption);
        try (right; apply in_or_app; right; left; reflexivity).
      destruct (Id H H0) as (X1 & X2 & X3). repeat split; auto. intros _. apply in_or_app. right. left. reflexivity.
    + (* a call in flight takes its next step *)
      destruct (fl_step i (aa_fl s)) as [[[x a] b]|] eqn:Ef; [|discriminate].
      apply fl_step_spec in Ef. destruct x.
      * (* fetch_add *)
        inv E. constructor; unfold aa_checking, aa_cond, aa_bit in *; cbn; intros;
          try (apply Ic; assumption); try (apply Ie; assumption);
          try (right; apply in_or_app; right; left; reflexivity).
        destruct (Id H H0) as (X1 & X2 & X3). repeat split; auto. intros _. apply in_or_app. right. left. reflexivity.
      * (* wake_by *)
        unfold aa_do_wake in E. rewrite (sw_wake_bit _ _ cr_in) in E. inv E.
        destruct (sw_state (aa_sw s) CRBIT) eqn:Eb; [|destruct (sw_waker (aa_sw s)) eqn:Ew];
          constructor; unfold aa_checking, aa_cond, aa_bit in *; cbn; rewrite ?sig_or_bit_same; intros; auto;
          try (apply Ic; assumption); try discriminate.
        -- destruct (t_pend (aa_t s)) eqn:Ep; [discriminate|]. destruct (Id H eq_refl) as (_ & X & _). congruence.
        -- destruct (Id H H0) as (X & _). discriminate.
    + (* the task is dropped *)
      destruct (aa_pc s) eqn:Epc; inv E; constructor; aa_fin.
Qed.

(* in every reachable state: a sleeping task whose credit is positive (or whose path was granted /
   aborted) has a pending wake, or a notifier call is still in flight before its wake_by *)
Lemma p_c16_aa : forall s, reach aa_sys s ->
  t_sleep (aa_t s) = true -> aa_cond s -> t_pend (aa_t s) = true \/ In FlWake (aa_fl s).
Proof.
  intros s Hr Hs Hc. destruct (aa_inv_reach s Hr) as [_ _ _ Id _].
  destruct (t_pend (aa_t s)) eqn:Ep; [left; reflexivity|]. right.
  destruct (Id Hs eq_refl) as (_ & _ & X). exact (X Hc).
Qed.

Lemma p_c16_aa_quiescent : forall s, reach aa_sys s ->
  aa_fl s = [] -> t_sleep (aa_t s) = true -> aa_cond s -> t_pend (aa_t s) = true.
Proof.
  intros s Hr Hq Hs Hc. destruct (p_c16_aa s Hr Hs Hc) as [X|X]; [exact X|]. rewrite Hq in X. destruct X.
Qed.

(* ==================================================================================== *)
(* 9. stream sender                                                                      *)

Definition sn_alive (st : snstage) : Prop := st = SnReady \/ st = SnSending \/ st = SnDataSent.

Definition sn_reg (o : snobj) (w : wid) (a : sn_arg) : Prop :=
  match a with
  | SnWrite => sn_ww o = Some w /\ sn_live (sn_st o) = true
  | SnFlush => sn_fw o = Some w /\ sn_alive (sn_st o)
  | SnShutdown => sn_sw o = Some w /\ sn_alive (sn_st o)
  end.

Definition sn_inv (o : snobj) : Prop :=
  (forall w, sn_ww o = Some w -> w = 0) /\ (forall w, sn_fw o = Some w -> w = 0) /\ (forall w, sn_sw o = Some w -> w = 0).

Ltac sn_cases :=
  repeat match goal with
  | H : context [match ?x with _ => _ end] |- _ => destruct x eqn:?
  end.

Ltac inv_pairs := repeat match goal with H : (_, _) = (_, _) |- _ => inv H end.

Ltac some_facts :=
  repeat match goal with
  | H : is_some ?x = _ |- _ => destruct x; cbn in H; try discriminate; clear H
  end.

Ltac n_facts :=
  repeat match goal with
  | H : _ && _ = true |- _ => apply andb_true_iff in H; destruct H
  | H : (_ <? _)%N = true |- _ => apply N.ltb_lt in H
  | H : (_ <? _)%N = false |- _ => apply N.ltb_ge in H
  | H : (_ =? _)%N = true |- _ => apply N.eqb_eq in H
  | H : (_ =? _)%N = false |- _ => apply N.eqb_neq in H
  end.

Lemma sender_discipline m0 : discipline (sender_proto m0) sn_cond.
Proof.
  refine (Build_discipline (sender_proto m0) sn_cond sn_inv sn_reg _ _ _ _ _ _).
  - repeat split; intros w H; discriminate.
  - intros o w a o' wk r (I1 & I2 & I3) H. cbn [poll sender_proto] in H. destruct (single w) eqn:Es; [|discriminate].
    apply single_0 in Es. subst w. unfold sn_poll in H.
    destruct a; sn_cases; inv H; inv_pairs; repeat split; cbn; intros x Hx; try (inv Hx; reflexivity); eauto.
  - intros o op o' wk r (I1 & I2 & I3) H. cbn [oper sender_proto] in H. unfold sn_oper in H.
    destruct op; sn_cases; inv H; inv_pairs; repeat split; cbn; intros x Hx; try discriminate; eauto.
  - intros o w a o' wk (I1 & I2 & I3) H Hn. cbn [poll sender_proto] in H. destruct (single w); [|discriminate].
    unfold sn_poll in H. unfold sn_reg, sn_cond, sn_alive.
    destruct a; sn_cases; inv H; inv_pairs; cbn; n_facts; split; auto; try tauto;
      try (intro X; destruct X as [X|X]; [assumption|destruct (sn_sw o); [discriminate|apply X; reflexivity]|lia]);
      try (split; [reflexivity|tauto]); try congruence.
  - intros o w' a' o' wk r w a (I1 & I2 & I3) H Hne Hr _ _. cbn [poll sender_proto] in H.
    destruct (single w') eqn:Es; [|discriminate]. apply single_0 in Es. subst w'.
    exfalso. apply Hne. destruct a; destruct Hr as [Hr _]; [apply I1|apply I2|apply I3]; exact Hr.
  - intros o op o' wk r w a (I1 & I2 & I3) H Hr Hc Hn. cbn [oper sender_proto] in H. unfold sn_oper, sn_wake_all in H.
    unfold sn_reg, sn_cond, sn_alive in *. clear I1 I2 I3.
    destruct (sn_st o) eqn:Est; destruct a; destruct Hr as [Hr Hst]; cbn [sn_live] in *;
      try discriminate; try (exfalso; destruct Hst as [X|[X|X]]; discriminate); try (exfalso; apply Hc; exact I);
      destruct op; cbn [sn_live andb] in H; sn_cases; inv H; inv_pairs; rewrite ?Est in *; cbn in *; n_facts; some_facts;
      rewrite ?Hr in *; cbn in *;
      solve [ intuition (try congruence; try lia)
            | exfalso; apply Hn; rewrite ?in_app_iff; cbn; intuition congruence ].
Qed.

Lemma p_c16_sender m0 : NoLostWakeup (sender_proto m0) sn_cond.
Proof. exact (no_lost_wakeup _ _ (sender_discipline m0)). Qed.

Lemma p_c16_sender_observes m0 : Observes (sender_proto m0) sn_cond.
Proof.
  intros [o t] _ w a o' wk r Hc H. cbn [fst poll sender_proto] in *. destruct (single w); [|discriminate].
  unfold sn_poll, sn_cond in *.
  destruct a; destruct (sn_st o) eqn:Est; cbn [sn_live] in *; sn_cases; inv H; inv_pairs; try discriminate;
    n_facts; some_facts; try contradiction; try congruence;
    try (destruct (Hc eq_refl) as [X|X]; [congruence|lia]).
Qed.
