(* QUIC variable-length integers (RFC 9000 §16) as far as the DATAGRAM code needs them:
   `VarInt::encoding_size` (1/2/4/8 bytes by the thresholds 2^6, 2^14, 2^30, 2^62), the big-endian
   encoder with the 2-bit length prefix, the decoder, and their basic laws.  qbase/src/varint.rs. *)
From Coq Require Import List NArith ZArith Lia.
From GQ Require Import Lib.Base Lib.Slice.
Import ListNotations.
Local Open Scope N_scope.

Definition VARINT_MAX : N := 2 ^ 62.

Definition varint_size (v : N) : N :=
  if v <? 2 ^ 6 then 1 else if v <? 2 ^ 14 then 2 else if v <? 2 ^ 30 then 4 else 8.

(* n bytes of v, most significant first *)
Fixpoint be_bytes (n : nat) (v : N) : list Z :=
  match n with
  | O => []
  | S k => Z.of_N ((v / 256 ^ N.of_nat k) mod 256) :: be_bytes k v
  end.

Definition varint_enc (v : N) : list Z :=
  if v <? 2 ^ 6 then be_bytes 1 v
  else if v <? 2 ^ 14 then be_bytes 2 (v + 2 ^ 14)
  else if v <? 2 ^ 30 then be_bytes 4 (v + 2 ^ 31)
  else be_bytes 8 (v + 2 ^ 63 + 2 ^ 62).

Definition be_value (acc : N) (bs : list Z) : N :=
  fold_left (fun a b => a * 256 + Z.to_N b) bs acc.

(* number of bytes that follow the first one, from its two top bits *)
Definition varint_follow (b0 : N) : N :=
  match b0 / 64 with 0 => 0 | 1 => 1 | 2 => 3 | _ => 7 end.

Definition varint_dec (bs : list Z) : option (N * list Z) :=
  match bs with
  | [] => None
  | b0 :: tl =>
      let k := varint_follow (Z.to_N b0) in
      if lenN tl <? k then None
      else Some (be_value (Z.to_N b0 mod 64) (takeN k tl), dropN k tl)
  end.

(* ---- laws ---- *)

Lemma varint_size_cases v :
  (v < 2 ^ 6 /\ varint_size v = 1) \/ (2 ^ 6 <= v < 2 ^ 14 /\ varint_size v = 2) \/
  (2 ^ 14 <= v < 2 ^ 30 /\ varint_size v = 4) \/ (2 ^ 30 <= v /\ varint_size v = 8).
Proof.
  unfold varint_size.
  destruct (N.ltb_spec v (2 ^ 6)); [left; split; [assumption | reflexivity] |].
  destruct (N.ltb_spec v (2 ^ 14)); [right; left; repeat split; assumption |].
  destruct (N.ltb_spec v (2 ^ 30)); [right; right; left; repeat split; assumption |].
  right; right; right; split; [assumption | reflexivity].
Qed.

Lemma varint_size_bounds v : 1 <= varint_size v <= 8.
Proof. destruct (varint_size_cases v) as [[_ H] | [[_ H] | [[_ H] | [_ H]]]]; rewrite H; lia. Qed.

Lemma be_bytes_length n v : length (be_bytes n v) = n.
Proof. induction n; cbn [be_bytes length]; congruence. Qed.

Lemma varint_enc_length v : lenN (varint_enc v) = varint_size v.
Proof.
  unfold varint_enc, varint_size, lenN.
  destruct (v <? 2 ^ 6); [rewrite be_bytes_length; reflexivity |].
  destruct (v <? 2 ^ 14); [rewrite be_bytes_length; reflexivity |].
  destruct (v <? 2 ^ 30); rewrite be_bytes_length; reflexivity.
Qed.
