(* Operation interface of the `protect` correspondence stream (C06): the model of Protect.v
   instantiated with the TOY cipher, and the key-phase machine of KeyPhase.v.
   Harness side: harness/hq/src/bin/impl_protect.rs (same op numbers).

   For the ops that use REAL rustls keys on the implementation side (7, 8, 9, 10) the model computes
   the same packet with toy keys (key id 1000 + generation, resp. 500) and only lengths, outcome
   classes, recovered fields and key generations are observed — never bytes. *)
From Coq Require Import List ZArith NArith Bool.
From GQ Require Import Lib.Base.
From GQ Require Export Model.Protect Model.KeyPhase.
Import ListNotations.
Local Open Scope Z_scope.

Definition tbuild_r := build_r Z Z toy_enc toy_mask.
Definition tbuild := tbuild_r 0.
Definition trecv {S} := @recv Z Z toy_dec toy_mask S.

Definition cbytes (base n : Z) : list Z := slice content (Z.to_N base) (Z.to_N n).

Definition mk_header (ty dl sl tl ps : Z) : header :=
  if ty =? 0 then HInitial (cbytes 0 dl) (cbytes 100 sl) (cbytes 200 tl)
  else if ty =? 1 then HZeroRtt (cbytes 0 dl) (cbytes 100 sl)
  else if ty =? 2 then HHandshake (cbytes 0 dl) (cbytes 100 sl)
  else HOneRtt (bit_set ps 2) (cbytes 0 dl).

(* w = 0: PacketNumber::encode(pn, la); 1..4: explicit width *)
Definition mk_epn (w pn la : Z) : option pnum :=
  if w =? 0 then match encode pn la with EncOk p => Some p | _ => None end
  else Some (mk_pnum w (pn mod 2 ^ (8 * (if 4 <? w then 4 else w)))).

Definition print_build (r : build_res) : list Z :=
  match r with
  | BOk p => 0 :: p
  | BSignal => [1]
  | BNoFit => [2]
  | BPanic _ => [3]
  end.

Definition bytes_of (r : build_res) : option (list Z) := match r with BOk p => Some p | _ => None end.

(* the arguments of a toy build, kept so that op 11 can make the same packet with reserved bits set *)
Definition bargs := (header * bool * Z * pnum * list Z * Z * Z * Z)%type.

Definition do_build_args (ty dl sl tl w pn la plen ps bufsz kid hid : Z) : option bargs :=
  match mk_epn w pn la with
  | None => None
  | Some e => Some (mk_header ty dl sl tl ps, bit_set ps 1, pn, e, cbytes 1000 plen, bufsz, kid, hid)
  end.
Definition build_of (rsv : Z) (a : bargs) : build_res :=
  let '(h, ph, pn, e, body, bufsz, kid, hid) := a in
  tbuild_r (Z.land rsv (reserved_mask (is_short h))) h ph pn e body bufsz kid hid.

Definition do_build (ty dl sl tl w pn la plen ps bufsz kid hid : Z) : build_res + unit :=
  match do_build_args ty dl sl tl w pn la plen ps bufsz kid hid with
  | None => inr tt
  | Some a => inl (build_of 0 a)
  end.

Definition hkind (h : header) : Z :=
  match h with HVN _ _ _ => 0 | HRetry _ _ _ _ => 1 | HInitial _ _ _ => 2 | HZeroRtt _ _ => 3
             | HHandshake _ _ => 4 | HOneRtt _ _ => 5 end.
Definition hspin (h : header) : Z := match h with HOneRtt true _ => 1 | _ => 0 end.

Definition perr_code (e : perr) : list Z :=
  match e with
  | PEUnsupportedVersion v => [0; v]
  | PEInvalidFixedBit => [1]
  | PEIncompleteType => [2]
  | PEIncompleteHeader => [3]
  | PEUnderSampling n => [4; n]
  end.

Definition print_rx (r : rx) : list Z :=
  match r with
  | RxAccept h total pn phase body => [0; hkind h; total; pn; (if phase then 1 else 0); hspin h] ++ body
  | RxParse e => 1 :: perr_code e
  | RxConnErr => [3]
  | RxInvalidPn => [4]
  | RxDecrypt => [5]
  | RxNotData k => [6; k]
  | RxPanic s => [8; Z.of_N s]
  end.

(* merged form used where the implementation runs real keys *)
Definition print_rx_short (r : rx) : list Z :=
  match r with
  | RxAccept h total pn phase body => if hkind h =? 5 then 0 :: pn :: body else [1]
  | RxConnErr => [3]
  | _ => [1]
  end.
Definition print_rx_long (r : rx) : list Z :=
  match r with
  | RxAccept h total pn phase body => if hkind h =? 5 then [1] else 0 :: hkind h :: pn :: body
  | RxConnErr => [3]
  | _ => [1]
  end.

Definition flip_bit (l : list Z) (i : Z) : list Z :=
  let q := Z.to_nat (i / 8) in
  firstn q l ++ match skipn q l with
                | b :: r => Z.lxor b (2 ^ (7 - i mod 8)) :: r
                | [] => []
                end.

Record pstate := mkP { p_last : option (list Z); p_dl : Z; p_a : kstate; p_b : kstate; p_args : option bargs }.
Definition p_init : pstate := mkP None 0 k_init k_init None.

Definition side_get (s : pstate) (side : Z) : kstate := if Z.odd side then p_b s else p_a s.
Definition side_set (s : pstate) (side : Z) (k : kstate) : pstate :=
  if Z.odd side then mkP (p_last s) (p_dl s) (p_a s) k (p_args s) else mkP (p_last s) (p_dl s) k (p_b s) (p_args s).
(* a new packet: only a successful toy build (op 0) leaves arguments for op 11 *)
Definition set_last (s : pstate) (l : option (list Z)) (dl : Z) : pstate := mkP l dl (p_a s) (p_b s) None.
Definition set_flipped (s : pstate) (l : list Z) : pstate := mkP (Some l) (p_dl s) (p_a s) (p_b s) (p_args s).
Definition set_toy (s : pstate) (l : option (list Z)) (dl : Z) (a : option bargs) : pstate :=
  mkP l dl (p_a s) (p_b s) (match l with Some _ => a | None => None end).

Definition b2z' (b : bool) : Z := if b then 1 else 0.
Definition print_local (k : kstate) : list Z := [b2z' (k_cur k); Z.of_N (k_loc k)].

Definition REAL_HID : Z := 77.
Definition real_kid (g : N) : Z := 1000 + Z.of_N g.
Definition INITIAL_KID : Z := 500.
Definition INITIAL_HID : Z := 78.

(* OneRttPacketKeys::get_remote as the key selector of decrypt_short_packet *)
Definition sel_b (b : kstate) (phase : bool) (pn : Z) : option Z * kstate :=
  let r := k_get_remote b phase in
  (match fst r with GKey g => Some (real_kid g) | GPanic => None end, snd r).

Definition protect_step (s : pstate) (t : N) (a : list Z) : pstate * list Z :=
  match t, a with
  | 0%N, [ty; dl; sl; tl; w; pn; la; plen; ps; bufsz; kid; hid] =>
      match do_build ty dl sl tl w pn la plen ps bufsz kid hid with
      | inl r => (set_toy s (bytes_of r) dl (do_build_args ty dl sl tl w pn la plen ps bufsz kid hid), print_build r)
      | inr _ => (set_last s None dl, [4])
      end
  | 11%N, [r] =>
      match p_args s with
      | Some a => match build_of r a with
                  | BOk p => (set_flipped s p, [zlen p])
                  | _ => (s, [-1])
                  end
      | None => (s, [-1])
      end
  | 1%N, dlrx :: exp :: kid :: hid :: bs => (s, print_rx (recv1 Z Z toy_dec toy_mask kid hid dlrx exp bs))
  | 4%N, [dlrx; exp; kid; hid] =>
      (s, print_rx (recv1 Z Z toy_dec toy_mask kid hid dlrx exp (match p_last s with Some l => l | None => [] end)))
  | 2%N, [i] =>
      match p_last s with
      | Some l => if (0 <=? i) && (i <? 8 * zlen l) then (set_flipped s (flip_bit l i), [zlen l]) else (s, [-1])
      | None => (s, [-1])
      end
  | 3%N, [side] => let k := k_update (side_get s side) in (side_set s side k, print_local k)
  | 5%N, [side] => let k := k_phase_out (side_get s side) in (side_set s side k, print_local k)
  | 6%N, [side; ph; pn] =>
      let r := k_get_remote (side_get s side) (Z.odd ph) in
      match fst r with
      | GKey g => (side_set s side (snd r), Z.of_N g :: print_local (snd r))
      | GPanic => (side_set s side (snd r), [9])
      end
  | 7%N, [dl; w; pn; la; plen; spin; bufsz] =>
      let '(ph, g) := k_get_local (p_a s) in
      match do_build 3 dl 0 0 w pn la plen ((if Z.odd spin then 2 else 0) + b2z' ph) bufsz (real_kid g) REAL_HID with
      | inl (BOk p) => (set_last s (Some p) dl, [0; zlen p; b2z' ph; Z.of_N g])
      | inl r => (set_last s None dl, print_build r)
      | inr _ => (set_last s None dl, [4])
      end
  | 8%N, [exp] =>
      let r := trecv 0 sel_b (p_b s) REAL_HID (p_dl s) exp (match p_last s with Some l => l | None => [] end) in
      (mkP (p_last s) (p_dl s) (p_a s) (snd r) (p_args s), print_rx_short (fst r))
  | 9%N, [ty; dl; sl; tl; w; pn; la; plen; bufsz] =>
      match do_build (Z.min ty 2) dl sl tl w pn la plen 0 bufsz INITIAL_KID INITIAL_HID with
      | inl (BOk p) => (set_last s (Some p) dl, [0; zlen p])
      | inl r => (set_last s None dl, print_build r)
      | inr _ => (set_last s None dl, [4])
      end
  | 10%N, [exp] =>
      (s, print_rx_long (recv1 Z Z toy_dec toy_mask INITIAL_KID INITIAL_HID (p_dl s) exp
                                (match p_last s with Some l => l | None => [] end)))
  | _, _ => (s, [-99])
  end.

Fixpoint protect_run (s : pstate) (l : list (N * list Z)) : list (list Z) :=
  match l with
  | [] => []
  | o :: r => let '(s', obs) := protect_step s (fst o) (snd o) in obs :: protect_run s' r
  end.

Definition run_protect (cfg : list Z) (l : list (N * list Z)) : list (list Z) := protect_run p_init l.
