(* C20 — proofs about the telemetry model (Model/QlogSpan.v): logging a packet never panics, whatever the
   exporter, the receiver's lifetime and the payload; what the dispatcher is handed does not depend on the
   exporter; nothing reaches anybody unless the exporter passes the scheme and somebody listens; narrowed
   fields are in range. *)
From Coq Require Import List ZArith NArith Bool Lia.
From GQ Require Import Model.QlogSpan Proofs.FramesTotal.
Import ListNotations.
Local Open Scope Z_scope.

(* ------------------------------------------------------------------ what the frame reader delivers *)

Definition frame_valid (f : frame) : Prop :=
  match f with Ack l _ fr rs _ => ack_valid l fr rs = true | _ => True end.

Definition post {A} (P : A -> Prop) (p : parser A) : Prop := forall bs v r, p bs = Ok v r -> P v.

Lemma post_ret {A} (P : A -> Prop) v : P v -> post P (ret v).
Proof. intros H bs v' r E. unfold ret in E. inversion E; subst. exact H. Qed.

Lemma post_bad {A} (P : A -> Prop) k : post P (fun _ : list Z => @Bad A k).
Proof. intros bs v r E. discriminate. Qed.

Lemma post_bind {A B} (P : B -> Prop) (p : parser A) (f : A -> parser B) :
  (forall x, post P (f x)) -> post P (bind p f).
Proof.
  intros H bs v r E. unfold bind in E. destruct (p bs) as [x rest| | |]; try discriminate.
  exact (H x rest v r E).
Qed.

Lemma post_if {A} (P : A -> Prop) (b : bool) (p q : parser A) : post P p -> post P q -> post P (if b then p else q).
Proof. destruct b; auto. Qed.

Ltac post_auto :=
  repeat first [ apply post_ret; exact I | apply post_bad | apply post_bind; intro | apply post_if ].

Lemma post_be_body t : post frame_valid (be_body t).
Proof.
  destruct t; cbn [be_body]; try solve [post_auto].
  - (* ACK: the verify step *)
    apply post_bind. intro f. unfold ack_verify. destruct f; try (apply post_ret; exact I).
    destruct (ack_valid largest first ranges) eqn:V; [apply post_ret; exact V|apply post_bad].
  - (* CRYPTO *)
    apply post_bind; intro o. apply post_bind; intro n. apply post_if; [apply post_bad|].
    intros bs v r E. destruct (zlen bs <? n); [discriminate|]. inversion E; subst. exact I.
  - (* STREAM *)
    apply post_bind; intro s. apply post_bind; intro o.
    intros bs v r E.
    destruct (if len then be_varint bs else Ok (zlen bs) bs) as [n rest| | |]; try discriminate.
    destruct (VARINT_MAX <? o + n); [discriminate|]. destruct (zlen rest <? n); [discriminate|].
    inversion E; subst. exact I.
  - (* NEW_CONNECTION_ID *)
    unfold be_new_cid. apply post_bind; intro s. apply post_bind; intro r. apply post_if; [apply post_bad|].
    apply post_bind; intro cid. destruct cid; [apply post_bad|]. post_auto.
  - (* CONNECTION_CLOSE *)
    destruct app.
    + unfold be_close_app. post_auto.
    + unfold be_close_quic. apply post_bind; intro k. apply post_if; [apply post_bad|].
      intros bs v r E. destruct (be_varint bs) as [ft rest| | |]; try discriminate.
      destruct (ft_of_code ft); [|discriminate].
      revert E. generalize rest v r. change (post frame_valid (n <- be_varint ;; r0 <- take_c n ;; ret (CloseQuic k ft r0))).
      post_auto.
  - (* DATAGRAM *)
    destruct with_len.
    + apply post_bind; intro n. intros bs v r E. destruct (zlen bs <? n); [discriminate|]. inversion E; subst. exact I.
    + intros bs v r E. inversion E; subst. exact I.
Qed.

Lemma be_frame_valid p bs c f t : be_frame p bs = FOk c f t -> frame_valid f.
Proof.
  unfold be_frame. destruct (be_varint bs) as [code rest| | |]; try discriminate.
  destruct (ft_of_code code) as [t'|]; [|discriminate].
  destruct (negb (belongs t' p)); [discriminate|].
  destruct (be_body t' rest) as [f' r| | |] eqn:Eb; try discriminate.
  intro H. inversion H; subst. exact (post_be_body _ _ _ _ Eb).
Qed.

Lemma read_frames_valid : forall fuel p bs, Forall frame_valid (seen (read_frames fuel p bs)).
Proof.
  induction fuel as [|n IH]; intros p bs; cbn [read_frames seen]; [constructor|].
  destruct bs as [|b bs']; [constructor|].
  destruct (be_frame p (b :: bs')) as [c f t| |] eqn:E; cbn [seen]; try constructor.
  - exact (be_frame_valid _ _ _ _ _ E).
  - apply IH.
Qed.

(* ------------------------------------------------------------------ the conversion is total on what the reader delivers *)

Lemma conv_ranges_valid : forall rs prev, ack_ranges_valid prev rs = true -> exists t, conv_ranges prev rs = inl t.
Proof.
  induction rs as [|[g a] r IH]; intros prev H; cbn [conv_ranges ack_ranges_valid] in *.
  - now exists [].
  - destruct (prev <? g); [discriminate|]. destruct (prev - g <? 2); [discriminate|].
    destruct (prev - g - 2 <? a); [discriminate|].
    destruct (IH _ H) as [t E]. rewrite E. eauto.
Qed.

Lemma p_c20_conv_total raw wd f : frame_valid f -> exists q, conv raw wd f = QOk q.
Proof.
  destruct f; intro V; cbn [conv]; try (eexists; reflexivity).
  cbn [frame_valid] in V. unfold ack_valid in V.
  destruct (largest <? first); [discriminate|].
  destruct (conv_ranges_valid _ _ V) as [t E]. rewrite E. eauto.
Qed.

Lemma collect_total raw wd : forall fs acc, Forall frame_valid fs -> exists l, collect raw wd acc fs = COk l.
Proof.
  induction fs as [|f r IH]; intros acc H; cbn [collect].
  - eauto.
  - inversion H; subst. destruct (p_c20_conv_total raw wd f H2) as [q E]. rewrite E. apply IH. assumption.
Qed.

(* the ACK conversion does panic on a frame the reader would have refused: the validity check is what keeps it safe *)
Lemma p_c20_conv_needs_valid : conv false true (Ack 0 0 1 [] None) = QPanic 1 /\ conv false true (Ack 5 0 0 [(4, 0)] None) = QPanic 2.
Proof. split; reflexivity. Qed.

(* ------------------------------------------------------------------ the clauses *)

(* logging never panics: every exporter state (none, no-op, channel, filtered, file; receiver alive or gone),
   both paths, every packet type, every payload *)
Lemma p_c20_never_panics s scheme wd p bs : exists app log, packet s scheme wd p bs = Obs app log.
Proof.
  unfold packet. destruct (negb (passes s scheme)); [eauto|].
  destruct (collect_total (wants_raw s) wd (seen (frames_of (ptype_of p) bs)) []) as [l E].
  - apply read_frames_valid.
  - rewrite E. destruct (oks _); [destruct (visible s)|]; eauto.
Qed.

(* purely observational: the dispatcher's view of a payload is the frame reader's, whatever the span's exporter *)
Lemma p_c20_observational s scheme wd p bs app log :
  packet s scheme wd p bs = Obs app log -> app = print_all (frames_of (ptype_of p) bs).
Proof.
  unfold packet. destruct (negb (passes s scheme)); [intro H; inversion H; reflexivity|].
  destruct (collect _ _ _ _); [|discriminate].
  destruct (oks _); [destruct (visible s)|]; intro H; inversion H; reflexivity.
Qed.

Lemma p_c20_same_behaviour s1 s2 sc1 sc2 wd1 wd2 p bs a1 l1 a2 l2 :
  packet s1 sc1 wd1 p bs = Obs a1 l1 -> packet s2 sc2 wd2 p bs = Obs a2 l2 -> a1 = a2.
Proof. intros H1 H2. rewrite (p_c20_observational _ _ _ _ _ _ _ H1), (p_c20_observational _ _ _ _ _ _ _ H2). reflexivity. Qed.

(* nothing reaches anybody when the exporter filters the scheme, when nobody listens, or when the payload is malformed *)
Lemma p_c20_silent s scheme wd p bs app log :
  packet s scheme wd p bs = Obs app log ->
  passes s scheme = false \/ visible s = false \/ oks (frames_of (ptype_of p) bs) = None -> log = [0].
Proof.
  unfold packet. destruct (passes s scheme) eqn:P; cbn [negb]; [|intros H _; inversion H; reflexivity].
  destruct (collect _ _ _ _); [|discriminate].
  destruct (oks _) eqn:O; [destruct (visible s) eqn:V|]; intros H [C|[C|C]]; inversion H; subst; try reflexivity; discriminate.
Qed.

(* ... and one event with the group id of the span does when the exporter passes it and the receiver lives *)
Lemma p_c20_delivered s scheme wd p bs app log :
  packet s scheme wd p bs = Obs app log -> passes s scheme = true -> visible s = true ->
  oks (frames_of (ptype_of p) bs) <> None ->
  exists frames, collect (wants_raw s) wd [] (seen (frames_of (ptype_of p) bs)) = COk frames /\
                 log = [1; b2z (group_present s); 1; zlen frames] ++ concat frames.
Proof.
  unfold packet. intros H P V O. rewrite P, V in H. cbn [negb] in H.
  destruct (collect _ _ _ _) as [frames|]; [|discriminate].
  destruct (oks _); [|now elim O]. inversion H; subst. eauto.
Qed.

(* the exporters that never let anything through: no span at all, the no-op logger *)
Lemma p_c20_disabled s scheme : kind s = 0 \/ kind s = 1 -> passes s scheme = false.
Proof. unfold passes. intros [E|E]; rewrite E; reflexivity. Qed.

(* the narrowed fields hold the low 32 bits and are in the range of their qlog type, for every 62-bit wire value *)
Lemma u32_range v : 0 <= u32 v < 2 ^ 32.
Proof. unfold u32. apply Z.mod_pos_bound. reflexivity. Qed.

Lemma p_c20_narrowed raw wd s e fs seq rpt cid tok c r :
  conv raw wd (ResetStream s e fs) = QOk [3; s / 4; u32 e; fs] /\
  conv raw wd (StopSending s e) = QOk [4; s / 4; u32 e] /\
  conv raw wd (NewConnectionId seq rpt cid tok) = QOk [14; u32 seq; u32 rpt; zlen cid] /\
  conv raw wd (RetireConnectionId seq) = QOk [15; u32 seq] /\
  conv raw wd (CloseApp c r) = QOk [18; 1; u32 c; -1] /\
  0 <= u32 e < 2 ^ 32 /\ 0 <= u32 seq < 2 ^ 32 /\ 0 <= u32 rpt < 2 ^ 32 /\ 0 <= u32 c < 2 ^ 32.
Proof. repeat split; try reflexivity; apply u32_range. Qed.

(* whole histories: no operation of any history ever prints the crash record *)
Lemma step_no_crash s op site : snd (step s op) <> [-98; Z.of_N site].
Proof.
  assert (P : forall sc wd p bs, print_out (packet s sc wd p bs) <> [-98; Z.of_N site]).
  { intros sc wd p bs. destruct (p_c20_never_panics s sc wd p bs) as [app [log E]]. rewrite E. cbn [print_out].
    rewrite (p_c20_observational _ _ _ _ _ _ _ E).
    destruct (frames_of (ptype_of p) bs) as [|[c f t0|e|st] r]; cbn; discriminate. }
  destruct op as [t args]. unfold step.
  repeat match goal with
         | |- context [match ?x with _ => _ end] => destruct x; cbn [snd]
         end; try discriminate; apply P.
Qed.

Lemma p_c20_run_no_crash : forall ops s site, ~ In [-98; Z.of_N site] (run_from s ops).
Proof.
  induction ops as [|op r IH]; intros s site; cbn [run_from]; [intros []|].
  pose proof (step_no_crash s op site) as H. destruct (step s op) as [s' o]. cbn [snd] in H.
  intros [E|E]; [exact (H E)|exact (IH _ _ E)].
Qed.
