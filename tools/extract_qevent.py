#!/usr/bin/env python3
"""Translator for C20: regenerates coq/Generated/QeventSchema.v (the serde schema of every
Serialize/Deserialize type of the qevent crate) from qevent/src/*.rs.

Deliberately dumb and fail-closed: a brace/bracket matcher, an attribute splitter and a table of
the serde attributes qevent uses.  Anything else (an unknown serde attribute, a hand-written
Serialize impl that is not in KNOWN_MANUAL with a matching fingerprint, an unknown default
function, a recursive type, ...) raises SchemaError naming the type.

Schema trees (python side, mirrored 1:1 by the Coq terms):
  ("int", lo, hi) ("float",) ("bool",) ("str",) ("hex", lo, hi|None) ("hexsuffix", prefix)
  ("opt", s) ("seq", s) ("arr", n, s) ("any",)
  ("struct", [(key, skip, default|None, s)], [flat s], any)      skip in never/none/empty
  ("enum", tagging, [(name, untag, shape)])   tagging: ("ext",) ("int",tag) ("adj",tag,content) ("untagged",)
                                               shape: ("unit",) ("new", s) ("struct", fields)
  ("refine", pid, s) ("named", path, s)
Default values use the model's value constructors:
  ("VInt",z) ("VFloat",bits) ("VBool",b) ("VStr",text) ("VSeq",[]) ("VMap",[]) ("VNone",) ("VEnum",i,v) ...
"""
import os
import re
import sys

HERE = os.path.dirname(os.path.abspath(__file__))
ROOT = os.path.dirname(HERE)
REPO = os.environ.get("VERIF_REPO") or os.path.realpath(os.path.join(ROOT, "rp"))
GEN = os.path.join(ROOT, "coq", "Generated")

# module path (crate relative) -> source file
MODULES = [
    ("", "qevent/src/lib.rs"),
    ("loglevel", "qevent/src/loglevel.rs"),
    ("quic", "qevent/src/quic.rs"),
    ("quic::connectivity", "qevent/src/quic/connectivity.rs"),
    ("quic::transport", "qevent/src/quic/transport.rs"),
    ("quic::recovery", "qevent/src/quic/recovery.rs"),
    ("quic::security", "qevent/src/quic/security.rs"),
    ("legacy", "qevent/src/legacy.rs"),
    ("legacy::quic", "qevent/src/legacy/quic.rs"),
]

INT_RANGES = {"u8": (0, 2**8 - 1), "u16": (0, 2**16 - 1), "u32": (0, 2**32 - 1), "u64": (0, 2**64 - 1),
              "usize": (0, 2**64 - 1)}


class SchemaError(Exception):
    pass


# ------------------------------------------------------------------------------------------
# lexical helpers
# ------------------------------------------------------------------------------------------
def strip_comments(src):
    out = []
    i, n = 0, len(src)
    while i < n:
        c = src[i]
        if c == '"':
            j = i + 1
            while j < n and src[j] != '"':
                j += 2 if src[j] == "\\" else 1
            out.append(src[i:j + 1])
            i = j + 1
        elif src.startswith("r#\"", i):
            j = src.index("\"#", i + 3)
            out.append(src[i:j + 2])
            i = j + 2
        elif src.startswith("//", i):
            j = src.find("\n", i)
            i = n if j < 0 else j
        elif src.startswith("/*", i):
            j = src.index("*/", i + 2)
            i = j + 2
        elif c == "'" and i + 2 < n and (src[i + 2] == "'" or (src[i + 1] == "\\" and src.find("'", i + 2) in (i + 3, i + 4))):
            j = src.index("'", i + 2)
            out.append(src[i:j + 1])
            i = j + 1
        else:
            out.append(c)
            i += 1
    return "".join(out)


OPEN = {"(": ")", "[": "]", "{": "}"}


def match_close(src, i):
    """index of the delimiter closing the one at src[i] (strings skipped)"""
    depth = 0
    n = len(src)
    j = i
    while j < n:
        c = src[j]
        if c == '"':
            j += 1
            while src[j] != '"':
                j += 2 if src[j] == "\\" else 1
        elif c in "([{":
            depth += 1
        elif c in ")]}":
            depth -= 1
            if depth == 0:
                return j
        j += 1
    raise SchemaError("unbalanced delimiters near %r" % src[i:i + 40])


def split_top(text, sep=","):
    """split at top-level separators (outside () [] {} <> and strings)"""
    parts, cur, depth, i, n = [], [], 0, 0, len(text)
    while i < n:
        c = text[i]
        if c == '"':
            j = i + 1
            while text[j] != '"':
                j += 2 if text[j] == "\\" else 1
            cur.append(text[i:j + 1])
            i = j + 1
            continue
        if c in "([{<":
            depth += 1
        elif c in ")]}":
            depth -= 1
        elif c == ">" and not (i > 0 and text[i - 1] in "-="):
            depth -= 1
        if c == sep and depth == 0:
            parts.append("".join(cur))
            cur = []
        else:
            cur.append(c)
        i += 1
    if "".join(cur).strip():
        parts.append("".join(cur))
    return [p.strip() for p in parts]


def take_attrs(src, i):
    """reads consecutive #[...] attributes starting at i; returns (list of inner texts, next index)"""
    attrs = []
    n = len(src)
    while True:
        while i < n and src[i].isspace():
            i += 1
        if src.startswith("#[", i):
            j = match_close(src, i + 1)
            attrs.append(src[i + 2:j].strip())
            i = j + 1
        else:
            return attrs, i


def parse_meta(text, where):
    """`a, b = "x", c(d = "y")` -> list of (name, value|None, nested|None)"""
    out = []
    for part in split_top(text):
        m = re.match(r"^([A-Za-z_][\w:]*)\s*(?:=\s*(.+)|\((.*)\))?$", part, re.S)
        if not m:
            raise SchemaError("%s: cannot parse attribute argument %r" % (where, part))
        val = m.group(2)
        if val is not None:
            val = val.strip()
            if not (val.startswith('"') and val.endswith('"')):
                raise SchemaError("%s: attribute value is not a string literal: %r" % (where, part))
            val = val[1:-1]
        out.append((m.group(1), val, m.group(3)))
    return out


def snake(name):
    out = []
    for i, ch in enumerate(name):
        if ch.isupper():
            if i > 0:
                out.append("_")
            out.append(ch.lower())
        else:
            out.append(ch)
    return "".join(out)


# ------------------------------------------------------------------------------------------
# item scanner
# ------------------------------------------------------------------------------------------
class Item:
    def __init__(self, mod, kind, name, attrs, body, form):
        self.mod, self.kind, self.name, self.attrs, self.body, self.form = mod, kind, name, attrs, body, form

    @property
    def path(self):
        return (self.mod + "::" if self.mod else "") + self.name


def scan_module(mod, src):
    """top-level items of one file: structs / enums (with attributes), use declarations, manual impls"""
    items, uses, impls, defaults = [], {}, {}, set()
    i, n = 0, len(src)
    while i < n:
        attrs, i = take_attrs(src, i)
        if i >= n:
            break
        m = re.compile(r"\s*(pub(?:\([^)]*\))?\s+)?(struct\b|enum\b|use\b|impl\b|mod\b|macro_rules!|const\b|static\b|trait\b|fn\b|type\b)").match(src, i)
        if not m:
            # macro invocation such as `crate::gen_builder_method! { .. }` / `imp_be_events! { .. }`
            m2 = re.compile(r"\s*[\w:]+!\s*").match(src, i)
            if m2:
                j = m2.end()
                if src[j] in "({[":
                    i = match_close(src, j) + 1
                    if i < n and src[i] == ";":
                        i += 1
                    continue
            if src[i:].strip() == "":
                break
            raise SchemaError("module %r: cannot classify item near %r" % (mod, src[i:i + 60]))
        kw = m.group(2)
        j = m.end()
        if kw == "use":
            e = src.index(";", j)
            for name, full in expand_use(src[j:e].strip(), mod):
                uses[name] = full
            i = e + 1
        elif kw in ("struct", "enum"):
            m3 = re.compile(r"\s*([A-Za-z_]\w*)\s*(<[^>{(;]*>)?\s*").match(src, j)
            name = m3.group(1)
            p = m3.end()
            if src[p] == "{":
                e = match_close(src, p)
                items.append(Item(mod, kw, name, attrs, src[p + 1:e], "named"))
                i = e + 1
            elif src[p] == "(":
                e = match_close(src, p)
                items.append(Item(mod, kw, name, attrs, src[p + 1:e], "tuple"))
                i = src.index(";", e) + 1
            elif src[p] == ";":
                items.append(Item(mod, kw, name, attrs, "", "unit"))
                i = p + 1
            else:
                raise SchemaError("%s::%s: unexpected declaration form" % (mod, name))
        elif kw == "impl":
            p = src.index("{", j)
            head = src[j:p]
            e = match_close(src, p)
            mm = re.search(r"\b(Serialize|Deserialize<'de>|Deserialize)\s+for\s+([A-Za-z_]\w*)", head)
            if mm:
                impls.setdefault(mm.group(2), {})[mm.group(1)[:2]] = re.sub(r"\s+", " ", src[p:e + 1])
            md = re.search(r"\bDefault\s+for\s+([A-Za-z_]\w*)", head)
            if md:
                defaults.add(md.group(1))
            mt = re.search(r"\bTryFrom<\s*([A-Za-z_]\w*)\s*>\s+for\s+([A-Za-z_]\w*)", head)
            if mt:
                impls.setdefault(mt.group(2), {})["TryFrom<%s>" % mt.group(1)] = re.sub(r"\s+", " ", src[p:e + 1])
            i = e + 1
        elif kw in ("mod", "trait", "fn", "macro_rules!"):
            k2 = j
            while src[k2] not in "{;":
                k2 += 1
            i = k2 + 1 if src[k2] == ";" else match_close(src, k2) + 1
        else:  # const / static / type
            i = src.index(";", j) + 1
    return items, uses, impls, defaults


def expand_use(text, mod):
    """`a::{b, c::D}` -> [(D, full path)...]; paths are made crate-relative where they start with crate/super/self"""
    out = []

    def rec(prefix, t):
        t = t.strip()
        if "{" in t:
            p = t.index("{")
            e = match_close(t, p)
            head = t[:p].strip()
            if head.endswith("::"):
                head = head[:-2]
            for part in split_top(t[p + 1:e]):
                rec(prefix + ([head] if head else []), part)
        else:
            segs = prefix + [s.strip() for s in t.split("::") if s.strip()]
            if not segs or segs[-1] in ("*", "self"):
                return
            name = segs[-1]
            m = re.match(r"^(\w+)\s+as\s+(\w+)$", name)
            if m:
                segs[-1], name = m.group(1), m.group(2)
            out.append((name, segs))
    rec([], text)
    res = []
    for name, segs in out:
        if segs[0] == "crate":
            res.append((name, "::".join(segs[1:])))
        elif segs[0] == "super":
            parent = mod.split("::")[:-1] if mod else []
            res.append((name, "::".join(parent + segs[1:])))
        elif segs[0] == "self":
            res.append((name, "::".join(([mod] if mod else []) + segs[1:])))
        else:
            # a child module of this module (`use quic::ConnectionID`) or an external crate
            res.append((name, "?" + "::".join(segs)))
    return res


# ------------------------------------------------------------------------------------------
# hand-written impls and helper functions the translator knows (fingerprints must still match)
# ------------------------------------------------------------------------------------------
KNOWN_MANUAL = {
    "quic::QuicVersion": (("hex", 4, 4), ["serde_with::hex::Hex", "[u8; 4]", "to_be_bytes"], ["serde_with::hex::Hex", "[u8; 4]", "from_be_bytes"]),
    "quic::ConnectionID": (("hex", 0, 20), ["serde_with::hex::Hex", "&'b [u8]", "self.0.as_ref()"],
                           ["serde_with::hex::Hex", "Vec<u8>", "bytes.len() > qbase::cid::MAX_CID_SIZE", "ConnectionId::from_slice(&bytes)"]),
    "quic::CryptoError": (("hexsuffix", "crypto_error_0x1"), ["serializer.serialize_str(&self.to_string())"],
                          ['strip_prefix("crypto_error_0x1")', "u8::from_str_radix(s, 16)"]),
    "legacy::quic::CryptoError": (("hexsuffix", "crypto_error_0x1"), ['format!("crypto_error_0x1{:02x}", self.0)'],
                                  ['strip_prefix("crypto_error_0x1")', "u8::from_str_radix(s, 16)"]),
    "legacy::quic::StreamDataLocation": (
        ("enum", ("ext",), [("user", False, ("unit",)), ("application", False, ("unit",)), ("transport", False, ("unit",)),
                            ("network", False, ("unit",)), ("Other", True, ("new", ("str",)))]),
        ['StreamDataLocation::User => serializer.serialize_str("user")', 'StreamDataLocation::Application => serializer.serialize_str("application")',
         'StreamDataLocation::Transport => serializer.serialize_str("transport")', 'StreamDataLocation::Network => serializer.serialize_str("network")',
         "StreamDataLocation::Other(s) => serializer.serialize_str(s)"],
        ['s if s == "user" => Ok(StreamDataLocation::User)', 's if s == "application" => Ok(StreamDataLocation::Application)',
         's if s == "transport" => Ok(StreamDataLocation::Transport)', 's if s == "network" => Ok(StreamDataLocation::Network)',
         "s => Ok(StreamDataLocation::Other(s))"]),
}
# the Display impl that quic::CryptoError's Serialize goes through
KNOWN_DISPLAY = {"quic::CryptoError": 'write!(f, "crypto_error_0x1{:02x}", self.0)'}

# #[serde(default = "path")] functions: (module, path) -> (required source text, model value)
KNOWN_DEFAULT_FNS = {
    ("quic::connectivity", "ConnectionStarted::default_protocol"): ('pub fn default_protocol() -> String { String::from("QUIC") }', ("VStr", "QUIC")),
    ("legacy::quic", "ConnectivityConnectionStarted::default_protocol"): ('pub fn default_protocol() -> String { "QUIC".to_string() }', ("VStr", "QUIC")),
    ("legacy", "QlogFileSeq::default_format"): ('pub fn default_format() -> String { "JSON-SEQ".to_string() }', ("VStr", "JSON-SEQ")),
    ("legacy", "QlogFileSeq::default_qlog_version"): ('pub fn default_qlog_version() -> String { QLOG_VERSION.to_string() }', ("VStr", "0.3")),
    ("legacy::quic", "TransportParametersSet::default_aead_key_length"): ("pub fn default_aead_key_length() -> u8 { 16 }", ("VInt", 16)),
}
KNOWN_CONSTS = {("legacy", 'pub const QLOG_VERSION: &str = "0.3";')}

# hand-written `impl Default` whose value a #[serde(default)] field may take: path -> (required text, value)
KNOWN_TYPE_DEFAULTS = {
    "TimeEpoch": ("impl Default for TimeEpoch { fn default() -> Self { Self::RFC3339DateTime(Default::default()) } }",
                  ("VEnum", 1, ("VStr", "1970-01-01T00:00:00.000Z"))),
    "RFC3339DateTime": ('impl Default for RFC3339DateTime { fn default() -> Self { Self("1970-01-01T00:00:00.000Z".to_owned()) } }',
                        ("VStr", "1970-01-01T00:00:00.000Z")),
}

# #[serde(try_from = "X")] validators: type path -> (validator number in Model/Serde.v refine_pred, shadow type, required condition text)
KNOWN_TRY_FROM = {
    "ReferenceTime": (0, "UncheckedReferenceTime",
                      "if value.clock_type == TimeClockType::Monotaonic && value.epoch != TimeEpoch::Unknow { return Err("),
}
# #[builder(field(build = ".."))]: a builder that computes the stored field instead of storing what it was given.
# field -> (attribute text without white space, validator/builder number of Model/Serde.v build_norm that the enclosing
# validated type gets).  Any other `field(..)` builder attribute is refused (fail closed): it changes what builders produce.
KNOWN_BUILD_NORM = {
    "ReferenceTime.epoch": ('builder(field(build="ifself.clock_type==Some(TimeClockType::Monotaonic){TimeEpoch::Unknow}'
                            'else{self.epoch.clone().unwrap_or_default()}"))', 1),
}

SERDE_DERIVES = ("Serialize", "Deserialize")


# ------------------------------------------------------------------------------------------
# the translation proper
# ------------------------------------------------------------------------------------------
class Translator:
    def __init__(self, repo=None):
        self.repo = repo or REPO
        self.items = {}       # path -> Item
        self.uses = {}        # module -> {name: path}
        self.impls = {}       # path -> {...}
        self.manual_default = {}  # path -> True
        self.srcs = {}
        self.schemas = {}     # path -> schema (memo)
        self.public_builder = set()  # types that get `builder()` / `build()` from gen_builder_method!
        self.field_info = {}  # path or path::Variant -> list of per-field dicts (Rust names/types, builder flags)
        self.rust = {}        # path -> dict(kind, form, derives, builder, variants, newtype)
        self.order = []       # dependency order
        self.busy = set()
        self.build_norm = {}  # struct path -> validator/builder number chosen by a known #[builder(field(build = ..))]
        for mod, rel in MODULES:
            with open(os.path.join(self.repo, rel)) as f:
                src = strip_comments(f.read())
            self.srcs[mod] = re.sub(r"\s+", " ", src)
            for blk in re.findall(r"gen_builder_method!\s*\{([^{}]*)\}", src):
                for bname, ename in re.findall(r"(\w+)\s*=>\s*(\w+)\s*;", blk):
                    if bname == ename + "Builder":
                        self.public_builder.add((mod + "::" if mod else "") + ename)
            items, uses, impls, defaults = scan_module(mod, src)
            for it in items:
                if it.path in self.items:
                    raise SchemaError("duplicate type %s" % it.path)
                self.items[it.path] = it
            self.uses[mod] = uses
            for name, d in impls.items():
                self.impls[(mod + "::" if mod else "") + name] = d
            for name in defaults:
                self.manual_default[(mod + "::" if mod else "") + name] = True

    # ---- attributes
    def container_attrs(self, it):
        info = {"derives": set(), "serde": [], "skip_none": False, "serde_as": False}
        seen_derive = False
        for a in it.attrs:
            if a.startswith("derive"):
                seen_derive = True
                inner = a[a.index("(") + 1:a.rindex(")")]
                info["derives"].update(x.strip().split("::")[-1] for x in inner.split(","))
            elif re.match(r"^serde\s*\(", a):
                info["serde"] += parse_meta(a[a.index("(") + 1:a.rindex(")")], it.path)
            elif a.startswith("serde_with::skip_serializing_none"):
                # only effective when it is expanded before the derives
                if not seen_derive:
                    info["skip_none"] = True
            elif a.startswith("serde_with::serde_as"):
                info["serde_as"] = True
            elif re.match(r"^(builder|allow|doc|enum_dispatch|default|non_exhaustive|rustfmt|cfg_attr|repr)\b", a):
                pass
            else:
                raise SchemaError("%s: unknown container attribute #[%s]" % (it.path, a))
        return info

    def resolve(self, mod, tyname):
        """crate-relative path of a named type used inside module `mod`"""
        segs = tyname.split("::")
        if segs[0] == "crate":
            cand = ["::".join(segs[1:])]
        elif segs[0] == "super":
            cand = ["::".join((mod.split("::")[:-1] if mod else []) + segs[1:])]
        else:
            cand = []
            if len(segs) == 1 and segs[0] in self.uses.get(mod, {}):
                u = self.uses[mod][segs[0]]
                if u.startswith("?"):
                    cand.append((mod + "::" if mod else "") + u[1:])
                    cand.append(u[1:])
                else:
                    cand.append(u)
            cand.append((mod + "::" if mod else "") + tyname)
            if len(segs) > 1 and segs[0] in self.uses.get(mod, {}):
                u = self.uses[mod][segs[0]].lstrip("?")
                cand.append("::".join([u] + segs[1:]))
        for c in cand:
            if c in self.items:
                return c
        raise SchemaError("module %r: cannot resolve type %r (tried %s)" % (mod, tyname, cand))

    def type_schema(self, mod, ty, where, hexed=False):
        ty = ty.strip()
        if hexed:
            m = re.match(r"^\[\s*u8\s*;\s*(\d+)\s*\]$", ty)
            if m:
                return ("hex", int(m.group(1)), int(m.group(1)))
            if ty in ("Bytes", "bytes::Bytes", "Vec<u8>"):
                return ("hex", 0, None)
            raise SchemaError("%s: serde_as Hex on unsupported type %r" % (where, ty))
        if ty in INT_RANGES:
            return ("int",) + INT_RANGES[ty]
        if ty == "bool":
            return ("bool",)
        if ty == "String":
            return ("str",)
        if ty in ("f32", "f64"):
            return ("float",)
        m = re.match(r"^Option\s*<(.*)>$", ty, re.S)
        if m:
            return ("opt", self.type_schema(mod, m.group(1), where))
        m = re.match(r"^Vec\s*<(.*)>$", ty, re.S)
        if m:
            return ("seq", self.type_schema(mod, m.group(1), where))
        m = re.match(r"^\[(.*);\s*(\d+)\s*\]$", ty, re.S)
        if m:
            return ("arr", int(m.group(2)), self.type_schema(mod, m.group(1), where))
        m = re.match(r"^HashMap\s*<\s*String\s*,\s*(serde_json::Value|Value)\s*>$", ty)
        if m:
            if m.group(1) == "Value" and not self.uses.get(mod, {}).get("Value", "").endswith("serde_json::Value"):
                raise SchemaError("%s: `Value` is not serde_json::Value here" % where)
            return ("any",)
        if re.match(r"^[A-Za-z_][\w:]*$", ty):
            return self.named(self.resolve(mod, ty))
        raise SchemaError("%s: unsupported field type %r" % (where, ty))

    def type_default(self, mod, ty, where):
        ty = ty.strip()
        if ty in INT_RANGES:
            return ("VInt", 0)
        if ty == "bool":
            return ("VBool", False)
        if ty == "String":
            return ("VStr", "")
        if ty in ("f32", "f64"):
            return ("VFloat", 0)
        if ty.startswith("Option"):
            return ("VNone",)
        if ty.startswith("Vec"):
            return ("VSeq", [])
        if ty.startswith("HashMap"):
            return ("VMap", [])
        path = self.resolve(mod, ty)
        if path in KNOWN_TYPE_DEFAULTS:
            text, val = KNOWN_TYPE_DEFAULTS[path]
            pm = self.items[path].mod
            if text not in self.srcs[pm]:
                raise SchemaError("%s: `impl Default for %s` no longer has the known text" % (where, path))
            return val
        raise SchemaError("%s: do not know the Default value of %s" % (where, path))

    # ---- fields
    def fields(self, mod, body, where, cinfo, struct_default, derives_default, allow_flatten=True):
        regs, flats, any_ = [], [], False
        finfo = []
        self.field_info[where] = finfo
        text = body
        # split into fields keeping attributes
        chunks = split_top(text)
        for ch in chunks:
            if not ch:
                continue
            attrs, p = take_attrs(ch, 0)
            decl = ch[p:].strip()
            m = re.match(r"^(?:pub(?:\([^)]*\))?\s+)?(r#)?([A-Za-z_]\w*)\s*:\s*(.+)$", decl, re.S)
            if not m:
                raise SchemaError("%s: cannot parse field %r" % (where, decl[:50]))
            fname, fty = m.group(2), re.sub(r"\s+", " ", m.group(3).strip())
            fw = "%s.%s" % (where, fname)
            key = fname
            skip = "never"
            default = None
            flatten = False
            hexed = False
            always = False
            for a in attrs:
                if re.match(r"^serde\s*\(", a):
                    for name, val, nested in parse_meta(a[a.index("(") + 1:a.rindex(")")], fw):
                        if name == "rename" and val is not None:
                            key = val
                        elif name == "flatten" and val is None and nested is None:
                            flatten = True
                        elif name == "default" and nested is None:
                            if val is None:
                                default = self.type_default(mod, fty, fw)
                            else:
                                if (mod, val) not in KNOWN_DEFAULT_FNS:
                                    raise SchemaError("%s: unknown default function %r" % (fw, val))
                                text_req, dv = KNOWN_DEFAULT_FNS[(mod, val)]
                                if text_req not in self.srcs[mod]:
                                    raise SchemaError("%s: default function %s no longer has the known body" % (fw, val))
                                default = dv
                        elif name == "skip_serializing_if" and val is not None:
                            if val == "Option::is_none" and fty.startswith("Option"):
                                skip = "none"
                            elif val == "Vec::is_empty" and fty.startswith("Vec"):
                                skip = "empty"
                            elif val == "HashMap::is_empty" and fty.startswith("HashMap"):
                                skip = "empty"
                            else:
                                raise SchemaError("%s: unsupported skip_serializing_if = %r on %s" % (fw, val, fty))
                        else:
                            raise SchemaError("%s: unsupported serde field attribute %s%s" % (fw, name, "(%s)" % nested if nested else ""))
                elif re.match(r"^serde_as\s*\(", a):
                    if not cinfo["serde_as"]:
                        raise SchemaError("%s: #[serde_as] without #[serde_with::serde_as] on the container" % fw)
                    if re.sub(r"\s+", "", a) != 'serde_as(as="serde_with::hex::Hex")':
                        raise SchemaError("%s: unsupported %s" % (fw, a))
                    hexed = True
                elif a.startswith("serialize_always"):
                    always = True
                elif re.match(r"^builder\b", a) and re.search(r"\bfield\s*\(", a):
                    known = KNOWN_BUILD_NORM.get(fw)
                    if known is None or re.sub(r"\s+", "", a) != known[0]:
                        raise SchemaError("%s: builder attribute that the translator does not know: #[%s]" % (fw, a))
                    self.build_norm[where] = known[1]
                elif re.match(r"^(builder|doc|allow)\b", a):
                    pass
                else:
                    raise SchemaError("%s: unknown field attribute #[%s]" % (fw, a))
            if cinfo["skip_none"] and re.match(r"^(std::option::|core::option::)?Option\s*<", fty) and not always and skip == "never":
                skip = "none"
            if default is None and struct_default:
                if not derives_default:
                    raise SchemaError("%s: container #[serde(default)] with a hand-written Default impl" % where)
                default = self.type_default(mod, fty, fw)
            if cinfo.get("rename_all_fields"):
                raise SchemaError("%s: rename_all on named fields is not supported" % where)
            s = self.type_schema(mod, fty, fw, hexed)
            battr = " ".join(a for a in attrs if a.startswith("builder"))
            finfo.append({"name": ("r#" if m.group(1) else "") + fname, "key": key, "ty": fty, "hexed": hexed,
                          "kind": ("any" if s == ("any",) else "flat") if flatten else "reg",
                          "bdefault": bool(re.search(r"\bdefault\b", battr)), "custom": "setter(custom)" in battr.replace(" ", "")})
            if flatten:
                if not allow_flatten:
                    raise SchemaError("%s: flatten inside an enum variant" % fw)
                if s == ("any",):
                    if any_:
                        raise SchemaError("%s: two flattened maps" % where)
                    any_ = True
                else:
                    if skip != "never":
                        raise SchemaError("%s: skip_serializing_if on a flattened non-map field" % fw)
                    flats.append(s)
            else:
                regs.append((key, skip, default, s))
        return regs, flats, any_

    # ---- named types
    def named(self, path):
        if path in self.schemas:
            return self.schemas[path]
        if path in self.busy:
            raise SchemaError("%s: recursive type" % path)
        self.busy.add(path)
        it = self.items[path]
        cinfo = self.container_attrs(it)
        manual = self.impls.get(path, {})
        has_ser = "Serialize" in cinfo["derives"]
        has_de = "Deserialize" in cinfo["derives"]
        if "Se" in manual or "De" in manual:
            if has_ser or has_de or path not in KNOWN_MANUAL:
                raise SchemaError("%s: hand-written Serialize/Deserialize impl that the translator does not know" % path)
            body, ser_fp, de_fp = KNOWN_MANUAL[path]
            for fp, which in ((ser_fp, "Se"), (de_fp, "De")):
                if which not in manual:
                    raise SchemaError("%s: only one of Serialize/Deserialize is hand-written" % path)
                for frag in fp:
                    if re.sub(r"\s+", " ", frag) not in manual[which]:
                        raise SchemaError("%s: hand-written %s impl changed (expected fragment %r)" % (path, which, frag))
            if path in KNOWN_DISPLAY and KNOWN_DISPLAY[path] not in self.srcs[it.mod]:
                raise SchemaError("%s: Display impl used by Serialize changed" % path)
            s = body
        else:
            if not (has_ser and has_de):
                raise SchemaError("%s: referenced from a serialised type but does not derive both Serialize and Deserialize" % path)
            s = self.derived(it, cinfo)
        s = ("named", path, s)
        self.busy.discard(path)
        self.schemas[path] = s
        self.order.append(path)
        return s

    def derived(self, it, cinfo):
        path = it.path
        opts = {"rename_all": None, "transparent": False, "default": False, "tag": None, "content": None,
                "untagged": False, "try_from": None}
        for name, val, nested in cinfo["serde"]:
            if name in ("rename_all", "tag", "content", "try_from") and val is not None:
                opts[name] = val
            elif name in ("transparent", "default", "untagged") and val is None and nested is None:
                opts[name] = True
            else:
                raise SchemaError("%s: unsupported serde container attribute %s" % (path, name))
        if opts["rename_all"] not in (None, "snake_case"):
            raise SchemaError("%s: unsupported rename_all = %r" % (path, opts["rename_all"]))
        derives_default = "Default" in cinfo["derives"] and path not in self.manual_default
        battr = " ".join(a for a in it.attrs if a.startswith("builder")).replace(" ", "").replace("\n", "")
        self.rust[path] = {"kind": it.kind, "form": it.form, "derives": cinfo["derives"], "mod": it.mod,
                           "builder": "Builder" in cinfo["derives"], "strip_option": "strip_option" in battr,
                           "bdefault": bool(re.search(r"builder\((default|.*,default)[,)]", battr)), "variants": []}
        if it.kind == "struct":
            if opts["tag"] or opts["content"] or opts["untagged"]:
                raise SchemaError("%s: enum attributes on a struct" % path)
            if it.form == "tuple":
                parts = split_top(it.body)
                if len(parts) != 1:
                    raise SchemaError("%s: tuple struct with %d fields" % (path, len(parts)))
                attrs, p = take_attrs(parts[0], 0)
                hexed = False
                for a in attrs:
                    if re.sub(r"\s+", "", a) == 'serde_as(as="serde_with::hex::Hex")' and cinfo["serde_as"]:
                        hexed = True
                    else:
                        raise SchemaError("%s: unsupported attribute on the newtype field: %s" % (path, a))
                ty = re.sub(r"^pub(\([^)]*\))?\s+", "", parts[0][p:].strip())
                self.rust[path]["newtype"] = (re.sub(r"\s+", " ", ty), hexed)
                return self.type_schema(it.mod, ty, path, hexed)
            if it.form != "named":
                raise SchemaError("%s: unit struct" % path)
            if opts["transparent"]:
                raise SchemaError("%s: transparent on a struct with named fields" % path)
            regs, flats, any_ = self.fields(it.mod, it.body, path, cinfo, opts["default"], derives_default)
            s = ("struct", regs, flats, any_)
            if opts["try_from"]:
                if path not in KNOWN_TRY_FROM or KNOWN_TRY_FROM[path][1] != opts["try_from"]:
                    raise SchemaError("%s: unknown try_from = %r" % (path, opts["try_from"]))
                pid, shadow, cond = KNOWN_TRY_FROM[path]
                sp = (it.mod + "::" if it.mod else "") + shadow
                impl = self.impls.get(path, {}).get("TryFrom<%s>" % shadow)
                if impl is None or re.sub(r"\s+", " ", cond) not in impl:
                    raise SchemaError("%s: TryFrom<%s> validator changed" % (path, shadow))
                sh = self.items.get(sp)
                if sh is None:
                    raise SchemaError("%s: shadow type %s not found" % (path, sp))
                shc = self.container_attrs(sh)
                if "Deserialize" not in shc["derives"] or shc["serde"]:
                    raise SchemaError("%s: shadow type %s has unexpected attributes" % (path, sp))
                sregs, sflats, sany = self.fields(sh.mod, sh.body, sp, shc, False, False)
                # deserialisation goes through the shadow type: same keys, types and missing-values
                if [(k_, d_, s_) for k_, _, d_, s_ in sregs] != [(k_, d_, s_) for k_, _, d_, s_ in regs] or sflats != flats or sany != any_:
                    raise SchemaError("%s: shadow type %s does not mirror the fields" % (path, sp))
                s = ("refine", self.build_norm.get(path, pid), s)
            elif path in self.build_norm:
                raise SchemaError("%s: normalising builder on a type without validator" % path)
            return s
        # enums
        if opts["transparent"] or opts["default"] or opts["try_from"]:
            raise SchemaError("%s: unsupported container attribute on an enum" % path)
        if opts["untagged"]:
            tagging = ("untagged",)
        elif opts["tag"] and opts["content"]:
            tagging = ("adj", opts["tag"], opts["content"])
        elif opts["tag"]:
            tagging = ("int", opts["tag"])
        elif opts["content"]:
            raise SchemaError("%s: content without tag" % path)
        else:
            tagging = ("ext",)
        variants = []
        seen_untagged = False
        for ch in split_top(it.body):
            if not ch:
                continue
            attrs, p = take_attrs(ch, 0)
            decl = ch[p:].strip()
            m = re.match(r"^([A-Za-z_]\w*)\s*(.*)$", decl, re.S)
            vname = m.group(1)
            rest = m.group(2).strip()
            name = snake(vname) if opts["rename_all"] == "snake_case" else vname
            untag = False
            for a in attrs:
                if re.match(r"^serde\s*\(", a):
                    for an, val, nested in parse_meta(a[a.index("(") + 1:a.rindex(")")], "%s::%s" % (path, vname)):
                        if an == "rename" and val is not None:
                            name = val
                        elif an == "untagged" and val is None and nested is None:
                            untag = True
                        else:
                            raise SchemaError("%s::%s: unsupported serde variant attribute %s" % (path, vname, an))
                elif re.match(r"^(default|doc|allow)\b", a):
                    pass
                else:
                    raise SchemaError("%s::%s: unknown variant attribute #[%s]" % (path, vname, a))
            if seen_untagged and not untag:
                raise SchemaError("%s::%s: tagged variant after an untagged one" % (path, vname))
            seen_untagged = seen_untagged or untag
            vinfo = {"name": vname, "form": "unit", "ty": None}
            self.rust[path]["variants"].append(vinfo)
            if rest == "" or re.match(r"^=\s*\d+$", rest):
                shape = ("unit",)
            elif rest.startswith("("):
                e = match_close(rest, 0)
                parts = split_top(rest[1:e])
                if len(parts) != 1 or rest[e + 1:].strip():
                    raise SchemaError("%s::%s: tuple variant with %d fields" % (path, vname, len(parts)))
                shape = ("new", self.type_schema(it.mod, parts[0], "%s::%s" % (path, vname)))
                vinfo.update(form="new", ty=re.sub(r"\s+", " ", parts[0].strip()))
            elif rest.startswith("{"):
                e = match_close(rest, 0)
                regs, flats, any_ = self.fields(it.mod, rest[1:e], "%s::%s" % (path, vname), cinfo, False, False, allow_flatten=False)
                shape = ("struct", regs)
                vinfo.update(form="struct")
            else:
                raise SchemaError("%s::%s: cannot parse variant" % (path, vname))
            variants.append((name, untag, shape))
        return ("enum", tagging, variants)

    def run(self):
        for path, it in self.items.items():
            cinfo = self.container_attrs(it)
            if ("Serialize" in cinfo["derives"] and "Deserialize" in cinfo["derives"]) or path in KNOWN_MANUAL:
                self.named(path)
        for mod, text in KNOWN_CONSTS:
            if text not in self.srcs[mod]:
                raise SchemaError("constant changed: %s" % text)
        return self


# ------------------------------------------------------------------------------------------
# Coq printer
# ------------------------------------------------------------------------------------------
def coq_str(x):
    # explicit code points (Coq `string` literals would drag Coq's string type into the extracted OCaml)
    note = " (* %s *)" % x if x and all(32 <= ord(c) < 127 and c not in '*()"' for c in x) else ""
    return "[%s]%s" % ("; ".join(str(ord(c)) for c in x), note)


def coq_ident(path):
    return "T_" + re.sub(r"\W+", "_", path) if path else "T_"


def coq_value(v):
    t = v[0]
    if t == "VInt":
        return "(VInt %d)" % v[1]
    if t == "VFloat":
        return "(VFloat %d)" % v[1]
    if t == "VBool":
        return "(VBool %s)" % ("true" if v[1] else "false")
    if t == "VStr":
        return "(VStr %s)" % coq_str(v[1])
    if t == "VSeq":
        return "(VSeq [])"
    if t == "VMap":
        return "(VMap [])"
    if t == "VNone":
        return "VNone"
    if t == "VEnum":
        return "(VEnum %d %s)" % (v[1], coq_value(v[2]))
    raise SchemaError("cannot print value %r" % (v,))


def coq_fields(regs, ind):
    out = "FNil"
    for key, skip, d, s in reversed(regs):
        out = "(FCons %s %s %s\n%s%s\n%s%s)" % (coq_str(key), {"never": "SkNever", "none": "SkNone", "empty": "SkEmpty"}[skip],
                                               "None" if d is None else "(Some %s)" % coq_value(d), ind, coq_schema(s, ind + "  "), ind, out)
    return out


def coq_schema(s, ind=""):
    t = s[0]
    if t == "int":
        return "(SInt %d %d)" % (s[1], s[2])
    if t == "float":
        return "SFloat"
    if t == "bool":
        return "SBool"
    if t == "str":
        return "SStr"
    if t == "hex":
        return "(SHex %d%%nat %s)" % (s[1], "None" if s[2] is None else "(Some %d%%nat)" % s[2])
    if t == "hexsuffix":
        return "(SHexSuffix %s)" % coq_str(s[1])
    if t == "opt":
        return "(SOpt %s)" % coq_schema(s[1], ind)
    if t == "seq":
        return "(SSeq %s)" % coq_schema(s[1], ind)
    if t == "arr":
        return "(SArr %d%%nat %s)" % (s[1], coq_schema(s[2], ind))
    if t == "any":
        return "SAny"
    if t == "named":
        return coq_ident(s[1])
    if t == "refine":
        return "(SRefine %d%%N %s)" % (s[1], coq_schema(s[2], ind))
    if t == "struct":
        fl = "FLNil"
        for f in reversed(s[2]):
            fl = "(FLCons %s %s)" % (coq_schema(f, ind), fl)
        return "(SStruct\n%s%s\n%s%s %s)" % (ind, coq_fields(s[1], ind + "  "), ind, fl, "true" if s[3] else "false")
    if t == "enum":
        tg = s[1]
        tgs = {"ext": "TExt", "untagged": "TUntagged"}.get(tg[0]) or ("(TInt %s)" % coq_str(tg[1]) if tg[0] == "int" else "(TAdj %s %s)" % (coq_str(tg[1]), coq_str(tg[2])))
        vs = "VNil"
        for name, untag, shape in reversed(s[2]):
            if shape[0] == "unit":
                sh = "ShUnit"
            elif shape[0] == "new":
                sh = "(ShNew %s)" % coq_schema(shape[1], ind + "  ")
            else:
                sh = "(ShStruct %s)" % coq_fields(shape[1], ind + "    ")
            vs = "(VCons %s %s %s\n%s%s)" % (coq_str(name), "true" if untag else "false", sh, ind, vs)
        return "(SEnum %s\n%s%s)" % (tgs, ind, vs)
    raise SchemaError("cannot print schema %r" % (s,))


def coq_text(tr):
    out = ["(* GENERATED by tools/extract_qevent.py from qevent/src/{lib,loglevel,quic,quic/*,legacy,legacy/quic}.rs — do not edit *)",
           "From Coq Require Import List ZArith Bool NArith String.",
           "From GQ Require Import Model.Serde.",
           "Import ListNotations.",
           "Local Open Scope Z_scope.",
           ""]
    for path in tr.order:
        s = tr.schemas[path]
        out.append("Definition %s : schema :=\n  SNamed %s\n  %s." % (coq_ident(path), coq_str(path), coq_schema(s[2], "    ")))
        out.append("")
    out.append("Definition qevent_types : list (str * schema) := [")
    out.append(";\n".join("  (%s, %s)" % (coq_str(p), coq_ident(p)) for p in tr.order))
    out.append("].")
    out.append("")
    out.append("Definition event_schema : schema := %s." % coq_ident("Event"))
    out.append("Definition legacy_event_schema : schema := %s." % coq_ident("legacy::Event"))
    return "\n".join(out) + "\n"


# ------------------------------------------------------------------------------------------
# Rust side of the correspondence stream: dispatch tables generated from the same parse
#   de_dispatch(name, json)  -> parse / re-serialise / parse again, for every type of the table
#   build_dispatch(name, v)  -> construct the value through the public builders / constructors
#                               (new-format types only), serialise, parse back
# ------------------------------------------------------------------------------------------
def rust_path(path):
    return "qevent::" + path


def rs_ident(path):
    return "mk_" + re.sub(r"\W+", "_", path)


class RustGen:
    def __init__(self, tr):
        self.tr = tr
        self.hints = {}      # path or path::Variant -> {key: "some" | "none"} constraints on generated BUILD values
        self.buildable = []

    def conv(self, mod, ty, e, hexed=False):
        ty = ty.strip()
        if hexed:
            m = re.match(r"^\[\s*u8\s*;\s*(\d+)\s*\]$", ty)
            if m:
                return "<[u8; %s]>::try_from(%s.bytes()).unwrap()" % (m.group(1), e)
            return "bytes::Bytes::from(%s.bytes())" % e
        if ty in INT_RANGES:
            return "(%s.int() as %s)" % (e, ty)
        if ty == "bool":
            return "%s.boolean()" % e
        if ty == "String":
            return "%s.string()" % e
        if ty == "f32":
            return "(f64::from_bits(%s.float()) as f32)" % e
        if ty == "f64":
            return "f64::from_bits(%s.float())" % e
        m = re.match(r"^Option\s*<(.*)>$", ty, re.S)
        if m:
            return "%s.opt().map(|x| %s)" % (e, self.conv(mod, m.group(1), "x"))
        m = re.match(r"^Vec\s*<(.*)>$", ty, re.S)
        if m:
            return "%s.seq().iter().map(|x| %s).collect::<Vec<_>>()" % (e, self.conv(mod, m.group(1), "x"))
        m = re.match(r"^\[(.*);\s*(\d+)\s*\]$", ty, re.S)
        if m:
            return "<[%s; %s]>::try_from(%s.seq().iter().map(|x| %s).collect::<Vec<_>>()).ok().unwrap()" % (
                m.group(1).strip(), m.group(2), e, self.conv(mod, m.group(1), "x"))
        if ty.startswith("HashMap"):
            return "%s.map()" % e
        return "%s(%s)" % (rs_ident(self.tr.resolve(mod, ty)), e)

    def struct_body(self, path, where, mod, target, info):
        """statements filling builder `b` from `v` (a V::Struct) for the fields of `where`"""
        out = []
        hints = self.hints.setdefault(where, {})
        ri = 0
        fi = 0
        for f in self.tr.field_info[where]:
            if f["kind"] == "reg":
                e = "&r[%d]" % ri
                ri += 1
            elif f["kind"] == "flat":
                e = "&fl[%d]" % fi
                fi += 1
            else:
                out.append("    b.%s(ex.iter().cloned().collect::<std::collections::HashMap<String, Value>>());" % f["name"])
                continue
            ty = f["ty"]
            mo = re.match(r"^Option\s*<(.*)>$", ty, re.S)
            if f["custom"]:
                hints[f["key"]] = "none"
                continue
            if mo and info["strip_option"]:
                out.append("    if let Some(x) = (%s).opt() { b.%s(%s); }" % (e, f["name"], self.conv(mod, mo.group(1), "x")))
                if not (f["bdefault"] or info["bdefault"]):
                    hints[f["key"]] = "some"
            else:
                out.append("    b.%s(%s);" % (f["name"], self.conv(mod, ty, "(%s)" % e, f["hexed"])))
        return out

    def gen(self):
        tr = self.tr
        fns = []
        for path in tr.order:
            if path.startswith("legacy"):
                continue
            T = rust_path(path)
            name = rs_ident(path)
            head = "#[allow(non_snake_case, unused_variables, unused_mut, clippy::all)]\nfn %s(v: &V) -> %s {" % (name, T)
            if path in KNOWN_MANUAL:
                if path == "quic::QuicVersion":
                    body = ["    %s::from(u32::from_be_bytes(<[u8; 4]>::try_from(v.bytes()).unwrap()))" % T]
                elif path == "quic::ConnectionID":
                    body = ["    %s::from(qbase::cid::ConnectionId::from_slice(&v.bytes()))" % T]
                elif path == "quic::CryptoError":
                    body = ['    serde_json::from_value(Value::String(format!("crypto_error_0x1{:02x}", v.int() as u8))).unwrap()']
                else:
                    continue
            else:
                info = tr.rust[path]
                if info["kind"] == "struct" and info["form"] == "tuple":
                    ty, hexed = info["newtype"]
                    inner = self.conv(info["mod"], ty, "v", hexed)
                    if "From" in info["derives"]:
                        body = ["    %s::from(%s)" % (T, inner)]
                    else:
                        # no public constructor: the only way in is deserialisation of the inner value
                        body = ["    serde_json::from_value(serde_json::to_value(%s).unwrap()).unwrap()" % inner]
                elif info["kind"] == "struct":
                    if info["builder"] and path in tr.public_builder:
                        body = ["    let (r, fl, ex) = v.parts();", "    let mut b = %s::builder();" % T]
                        body += self.struct_body(path, path, info["mod"], T, info)
                        body.append("    b.build()")
                    else:
                        # no public builder (fields private): the only public way in is deserialisation
                        body = ["    let (r, fl, ex) = v.parts();", "    let mut m = serde_json::Map::new();"]
                        ri = 0
                        for f in tr.field_info[path]:
                            if f["kind"] != "reg":
                                raise SchemaError("%s: flatten in a struct without public builder" % path)
                            body.append('    m.insert("%s".to_owned(), serde_json::to_value(%s).unwrap());' % (
                                f["key"], self.conv(info["mod"], f["ty"], "(&r[%d])" % ri, f["hexed"])))
                            ri += 1
                        body.append("    serde_json::from_value(Value::Object(m)).unwrap()")
                else:
                    body = ["    let (i, p) = v.variant();", "    match i {"]
                    for k_, vi in enumerate(info["variants"]):
                        if vi["form"] == "unit":
                            body.append("        %d => %s::%s," % (k_, T, vi["name"]))
                        elif vi["form"] == "new":
                            body.append("        %d => %s::%s(%s)," % (k_, T, vi["name"], self.conv(info["mod"], vi["ty"], "p")))
                        else:
                            fs = tr.field_info["%s::%s" % (path, vi["name"])]
                            inits = ", ".join("%s: %s" % (f["name"], self.conv(info["mod"], f["ty"], "(&r[%d])" % j, f["hexed"])) for j, f in enumerate(fs))
                            body.append("        %d => { let (r, _fl, _ex) = p.parts(); %s::%s { %s } }" % (k_, T, vi["name"], inits))
                    body.append('        _ => panic!("variant index"),')
                    body.append("    }")
            fns.append(head + "\n" + "\n".join(body) + "\n}\n")
            self.buildable.append(path)
        de = ["fn de_dispatch(name: &str, j: Value) -> Option<Vec<i128>> {", "    Some(match name {"]
        for path in tr.order:
            de.append('        "%s" => de_rt::<%s>(j),' % (path, rust_path(path)))
        de += ["        _ => return None,", "    })", "}", ""]
        bd = ["fn build_dispatch(name: &str, v: &V) -> Option<Vec<i128>> {", "    Some(match name {"]
        for path in self.buildable:
            bd.append('        "%s" => rt(&%s(v)),' % (path, rs_ident(path)))
        bd += ["        _ => return None,", "    })", "}", ""]
        return "// GENERATED by tools/extract_qevent.py — do not edit\n" + "\n".join(de) + "\n".join(bd) + "\n" + "\n".join(fns)


def write_if_changed(path, text):
    try:
        if open(path).read() == text:
            return False
    except OSError:
        pass
    os.makedirs(os.path.dirname(path), exist_ok=True)
    with open(path, "w") as f:
        f.write(text)
    return True


_cache = {}
SNAP = os.path.join(ROOT, ".build", "qevent_schema.pickle")


class Snapshot:
    """what the generators / oracle need from a translation (picklable)"""

    def __init__(self, tr=None, rg=None, d=None):
        if d is None:
            d = {"order": list(tr.order), "schemas": dict(tr.schemas), "hints": dict(rg.hints), "buildable": list(rg.buildable)}
        self.order, self.schemas, self.hints, self.buildable = d["order"], d["schemas"], d["hints"], d["buildable"]
        self.stale = False

    def as_dict(self):
        return {"order": self.order, "schemas": self.schemas, "hints": self.hints, "buildable": self.buildable}


def load(repo=None):
    """schema snapshot of the repository; when the sources can no longer be translated (fail-closed translator) the
    last good snapshot is used so that the correspondence stream can still look for a concrete failing input"""
    import pickle
    key = repo or REPO
    if key not in _cache:
        try:
            tr = Translator(key).run()
            rg = RustGen(tr)
            rg.gen()
            _cache[key] = Snapshot(tr, rg)
        except SchemaError:
            if not os.path.exists(SNAP):
                raise
            with open(SNAP, "rb") as f:
                _cache[key] = Snapshot(d=pickle.load(f))
            _cache[key].stale = True
    return _cache[key]


def regen():
    import pickle
    _cache.clear()
    tr = Translator(REPO).run()
    write_if_changed(os.path.join(GEN, "QeventSchema.v"), coq_text(tr))
    rg = RustGen(tr)
    write_if_changed(os.path.join(ROOT, "harness", "he", "gen", "qevent_types.rs"), rg.gen())
    snap = Snapshot(tr, rg)
    os.makedirs(os.path.dirname(SNAP), exist_ok=True)
    with open(SNAP, "wb") as f:
        pickle.dump(snap.as_dict(), f)
    _cache[REPO] = snap
    return snap


if __name__ == "__main__":
    tr = regen()
    print("QeventSchema.v: %d types" % len(tr.order))
    if len(sys.argv) > 1:
        for p in sys.argv[1:]:
            print(p, tr.schemas[p])
