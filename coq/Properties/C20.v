(* C20 (addressable part) — event logging is well-formed: serde schema round trip, mandatory qlog
   fields, well-formedness of the regenerated schema of every qevent type.
   NOT claimed here: "never panics for lack of span context" and "same application-visible behaviour with
   logging on/off" (whole-stack properties).  Only theorem statements; proofs are in Proofs/SerdeRT.v
   (generic model) and Proofs/Serde.v (the schema table regenerated from qevent/src). *)
From Coq Require Import List ZArith Bool NArith String.
From GQ Require Import Model.Serde Generated.QeventSchema Proofs.Serde.
Import ListNotations.
Local Open Scope Z_scope.

(* main theorem: for every well-formed schema and every conforming value, parsing the serialisation
   gives the value back.  `conformsb` = typing + the value-level side conditions (integers in range,
   custom-field keys distinct from schema keys, an untagged alternative's JSON not claimed by an earlier
   alternative, a skipped field comes back from its missing-value (true of every field of the table:
   c20_skips_ok), try_from validators hold (true of everything the builders build: c20_reference_time_builder)). *)
Theorem c20_roundtrip : forall s v, wf s = true -> conformsb s v = true -> de s (ser s v) = Some v.
Proof. exact p_c20_roundtrip. Qed.

(* the regenerated schema of every qevent type is well-formed ... *)
Theorem c20_schema_wf : forall n s, In (n, s) qevent_types -> wf s = true.
Proof. exact p_c20_schema_wf_in. Qed.

(* ... hence the round trip holds for every type of the crate (new and legacy format) *)
Theorem c20_roundtrip_table : forall n s v, In (n, s) qevent_types -> conformsb s v = true ->
  de s (ser s v) = Some v.
Proof. exact p_c20_roundtrip_table. Qed.

(* the static defects of the schemas are exactly the listed ones: one statically shadowed untagged
   alternative (kind 7 = F51).  No skipped field without missing-value (kind 1 = F50) is left ... *)
Theorem c20_schema_defects : defects_of qevent_types = known_defects.
Proof. exact p_c20_schema_defects. Qed.

(* ... indeed, at every depth of every type every skipped field comes back from its missing-value, so the
   clause of `conformsb` about skipped fields holds for every value: empty vectors / maps / None included *)
Theorem c20_skips_ok : forall n s, In (n, s) qevent_types -> skips_ok s = true.
Proof. exact p_c20_skips_ok_in. Qed.

Theorem c20_skip_clause : forall sk d s v, skip_ok sk d s = true -> (skip_ok sk d s || negb (skipped sk v)) = true.
Proof. exact p_c20_skip_clause. Qed.

(* every serialised Event carries the mandatory qlog fields, in both formats; group_id whenever set *)
Theorem c20_mandatory : forall v, conformsb event_schema v = true ->
  has_key (k "time") (ser event_schema v) /\ has_key (k "name") (ser event_schema v) /\ has_key (k "data") (ser event_schema v).
Proof. exact p_c20_mandatory. Qed.

Theorem c20_mandatory_legacy : forall v, conformsb legacy_event_schema v = true ->
  has_key (k "time") (ser legacy_event_schema v) /\ has_key (k "name") (ser legacy_event_schema v)
  /\ has_key (k "data") (ser legacy_event_schema v).
Proof. exact p_c20_mandatory_legacy. Qed.

Theorem c20_group_id : forall t p tf pt g si fl ex,
  let v := VStruct [t; p; tf; pt; g; si] fl ex in
  conformsb event_schema v = true -> g <> VNone -> has_key (k "group_id") (ser event_schema v).
Proof. exact p_c20_group_id. Qed.

(* F50 (repaired): the former witnesses (packets_acked without numbers, an ordinary packet_sent) conform
   and round-trip ... *)
Theorem c20_f50_repaired :
  (conformsb T_quic_transport_PacketsAcked w_f50 = true
   /\ de T_quic_transport_PacketsAcked (ser T_quic_transport_PacketsAcked w_f50) = Some w_f50)
  /\ (conformsb T_quic_transport_PacketSent w_f50_sent = true
      /\ de T_quic_transport_PacketSent (ser T_quic_transport_PacketSent w_f50_sent) = Some w_f50_sent).
Proof. exact p_c20_f50_repaired. Qed.

(* ... and on the shapes as they were (the same schemas without the missing-value of the field) they are
   refused: what a regression of the repair looks like *)
Theorem c20_f50_was_refuted :
  (wf PacketsAcked_was = true /\ skips_ok PacketsAcked_was = false /\ conformsb PacketsAcked_was w_f50 = false
   /\ de PacketsAcked_was (ser PacketsAcked_was w_f50) = None)
  /\ (wf PacketSent_was = true /\ skips_ok PacketSent_was = false /\ conformsb PacketSent_was w_f50_sent = false
      /\ de PacketSent_was (ser PacketSent_was w_f50_sent) = None).
Proof. exact p_c20_f50_was_refuted. Qed.

(* F52 (repaired): whatever well-typed field values the ReferenceTime builder is given (any clock type, any
   epoch, set or defaulted), the value it builds satisfies the type's validator and parses back *)
Theorem c20_reference_time_builder : forall v, conformsb ReferenceTime_fields v = true ->
  conformsb T_ReferenceTime (build T_ReferenceTime v) = true
  /\ de T_ReferenceTime (ser T_ReferenceTime (build T_ReferenceTime v)) = Some (build T_ReferenceTime v).
Proof. exact p_c20_reference_time_builder. Qed.

Theorem c20_f52_repaired :
  conformsb ReferenceTime_fields w_f52 = true /\ build T_ReferenceTime w_f52 = w_f52_built
  /\ de T_ReferenceTime (ser T_ReferenceTime (build T_ReferenceTime w_f52)) = Some w_f52_built.
Proof. exact p_c20_f52_repaired. Qed.

(* with the builder as it was (stores the epoch it is given / its default) the built value is refused *)
Theorem c20_f52_was_refuted :
  wf ReferenceTime_was = true /\ build ReferenceTime_was w_f52 = w_f52
  /\ conformsb ReferenceTime_was (build ReferenceTime_was w_f52) = false
  /\ de ReferenceTime_was (ser ReferenceTime_was (build ReferenceTime_was w_f52)) = None.
Proof. exact p_c20_f52_was_refuted. Qed.

(* the full-strength statement (all values the builders can produce) is still false: two witnesses (F51, F53),
   each outside `conformsb`, each replayed on the real crate (corpus/C20/qevent/f51*.case, f53*.case) *)
Theorem c20_roundtrip_refuted :
  (conformsb T_quic_connectivity_ConnectionState w_f51 = false
      /\ de T_quic_connectivity_ConnectionState (ser T_quic_connectivity_ConnectionState w_f51) = Some (VEnum 0 (VEnum 3 VUnit)))
  /\ (conformsb event_schema w_f53 = false /\ rt_fails event_schema w_f53 = true
      /\ de event_schema (canon (ser event_schema w_f53)) = None).
Proof. exact p_c20_refuted. Qed.

(* non-vacuity: a packet_sent Event (header, stream/ack/handshake_done frames, versions, path, protocol
   types, group id, one custom field) conforms, round-trips, and shows the expected top-level keys *)
Example c20_nonvacuous :
  wf event_schema = true /\ conformsb event_schema w_event = true
  /\ de event_schema (ser event_schema w_event) = Some w_event
  /\ map fst (members (canon (ser event_schema w_event))) =
     [k "data"; k "group_id"; k "name"; k "path"; k "protocol_types"; k "time"; k "to_router"].
Proof. exact p_c20_nonvacuous. Qed.

(* ---------------------------------------------------------------------------------------------------
   The telemetry layer as the transport drives it (Model/QlogSpan.v; proofs in Proofs/QlogSpan.v): the receive
   path of read_plain_packet and the loss path of may_loss on arbitrary payload bytes, under every exporter
   (no span, no-op logger, channel, filtering exporter, file logger) and every lifetime of the receiver. *)
From GQ Require Import Model.QlogSpan Proofs.QlogSpan.

(* logging never panics: for every exporter state (receiver alive or gone), scheme, path, packet type and payload
   the packet is processed and observed; the crash outcome of the model (an underflowing subtraction of the ACK
   range walk) is unreachable because the frame reader only delivers ACK frames that pass AckFrame::is_valid *)
Theorem c20_log_never_panics : forall s scheme with_data p bs, exists app log, packet s scheme with_data p bs = Obs app log.
Proof. exact p_c20_never_panics. Qed.

Theorem c20_log_history_never_panics : forall ops s site, ~ In [-98; Z.of_N site] (run_from s ops).
Proof. exact p_c20_run_no_crash. Qed.

(* every frame the reader delivers converts (all 62-bit field values: narrowing truncates) ... *)
Theorem c20_log_conv_total : forall raw with_data f, frame_valid f -> exists q, conv raw with_data f = QOk q.
Proof. exact p_c20_conv_total. Qed.

Theorem c20_log_reader_valid : forall p bs c f t, be_frame p bs = FOk c f t -> frame_valid f.
Proof. exact be_frame_valid. Qed.

(* ... and the validity check is needed: on an ACK the reader refuses, the conversion as coded underflows *)
Theorem c20_log_conv_needs_valid :
  conv false true (Ack 0 0 1 [] None) = QPanic 1 /\ conv false true (Ack 5 0 0 [(4, 0)] None) = QPanic 2.
Proof. exact p_c20_conv_needs_valid. Qed.

(* purely observational: what the dispatcher is handed is the frame reader's output, the same under any two
   exporter states, schemes and paths *)
Theorem c20_log_observational : forall s1 s2 sc1 sc2 wd1 wd2 p bs a1 l1 a2 l2,
  packet s1 sc1 wd1 p bs = Obs a1 l1 -> packet s2 sc2 wd2 p bs = Obs a2 l2 ->
  a1 = a2 /\ a1 = print_all (frames_of (ptype_of p) bs).
Proof.
  intros s1 s2 sc1 sc2 wd1 wd2 p bs a1 l1 a2 l2 H1 H2.
  exact (conj (p_c20_same_behaviour _ _ _ _ _ _ _ _ _ _ _ _ H1 H2) (p_c20_observational _ _ _ _ _ _ _ H1)).
Qed.

(* filtered, disabled, nobody listening, malformed payload: nothing reaches anybody *)
Theorem c20_log_silent : forall s scheme with_data p bs app log,
  packet s scheme with_data p bs = Obs app log ->
  passes s scheme = false \/ visible s = false \/ oks (frames_of (ptype_of p) bs) = None -> log = [0].
Proof. exact p_c20_silent. Qed.

Theorem c20_log_disabled : forall s scheme, kind s = 0 \/ kind s = 1 -> passes s scheme = false.
Proof. exact p_c20_disabled. Qed.

(* passed and listened to: exactly one event, with the span's group id, that parses back, carrying the collected frames *)
Theorem c20_log_delivered : forall s scheme with_data p bs app log,
  packet s scheme with_data p bs = Obs app log -> passes s scheme = true -> visible s = true ->
  oks (frames_of (ptype_of p) bs) <> None ->
  exists frames, collect (wants_raw s) with_data [] (seen (frames_of (ptype_of p) bs)) = COk frames /\
                 log = ([1; b2z (group_present s); 1; zlen frames] ++ List.concat frames)%list.
Proof. exact p_c20_delivered. Qed.

(* the fields qlog defines as uint32 hold the low 32 bits of the 62-bit wire value *)
Theorem c20_log_narrowed : forall raw wd s e fs seq rpt cid tok c r,
  conv raw wd (ResetStream s e fs) = QOk [3; s / 4; u32 e; fs] /\
  conv raw wd (StopSending s e) = QOk [4; s / 4; u32 e] /\
  conv raw wd (NewConnectionId seq rpt cid tok) = QOk [14; u32 seq; u32 rpt; zlen cid] /\
  conv raw wd (RetireConnectionId seq) = QOk [15; u32 seq] /\
  conv raw wd (CloseApp c r) = QOk [18; 1; u32 c; -1] /\
  0 <= u32 e < 2 ^ 32 /\ 0 <= u32 seq < 2 ^ 32 /\ 0 <= u32 rpt < 2 ^ 32 /\ 0 <= u32 c < 2 ^ 32.
Proof. exact p_c20_narrowed. Qed.

(* non-vacuity: RESET_STREAM(stream 55, error 2^62 - 1, final size 16384) declared lost under a filtering exporter
   that passes packet_lost: logged with error_code 2^32 - 1; after the receiver is gone the same packet is
   processed identically and nothing is delivered; under no exporter likewise *)
Example c20_log_nonvacuous :
  run_qlog [] [(0%N, [3; 7; 0]); (3%N, [3; 1; 4; 55; 255; 255; 255; 255; 255; 255; 255; 255; 128; 0; 64; 0]);
               (1%N, []); (3%N, [3; 1; 4; 55; 255; 255; 255; 255; 255; 255; 255; 255; 128; 0; 64; 0]);
               (0%N, [0; 0; 0]); (2%N, [3; 1; 4; 55; 255; 255; 255; 255; 255; 255; 255; 255; 128; 0; 64; 0])]
  = [[3]; [0; 14; 4; -7; 1; 0; 1; 1; 3; 13; 4294967295; 16384]; []; [0; 14; 4; -7; 0]; [0]; [0; 14; 4; -7; 0]].
Proof. vm_compute. reflexivity. Qed.

Print Assumptions c20_roundtrip.
Print Assumptions c20_schema_wf.
Print Assumptions c20_roundtrip_table.
Print Assumptions c20_schema_defects.
Print Assumptions c20_skips_ok.
Print Assumptions c20_skip_clause.
Print Assumptions c20_f50_repaired.
Print Assumptions c20_f50_was_refuted.
Print Assumptions c20_reference_time_builder.
Print Assumptions c20_f52_repaired.
Print Assumptions c20_f52_was_refuted.
Print Assumptions c20_mandatory.
Print Assumptions c20_mandatory_legacy.
Print Assumptions c20_group_id.
Print Assumptions c20_roundtrip_refuted.
Print Assumptions c20_nonvacuous.
Print Assumptions c20_log_never_panics.
Print Assumptions c20_log_history_never_panics.
Print Assumptions c20_log_conv_total.
Print Assumptions c20_log_reader_valid.
Print Assumptions c20_log_conv_needs_valid.
Print Assumptions c20_log_observational.
Print Assumptions c20_log_silent.
Print Assumptions c20_log_disabled.
Print Assumptions c20_log_delivered.
Print Assumptions c20_log_narrowed.
Print Assumptions c20_log_nonvacuous.
