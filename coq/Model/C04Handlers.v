(* C04 — handlers of peer-controlled frames with their COST, and the stream `handlers`.
   Definitions only.

   What is modelled (file of the Rust in brackets):
   * the parser [qbase/src/frame/io.rs be_frame] is Model.Frames.be_frame, including the ACK validity
     check (no computed packet number below zero => nom `Verify` => FRAME_ENCODING_ERROR);
   * AckFrame::iter [qbase/src/frame/ack.rs] is Model.AckFrame.ack_iter (checked subtraction);
   * the three consumers of an ACK frame in the order the dispatcher calls them
     [qconnection/src/space/{initial,handshake,data}.rs `Frame::Ack(f)` arm, space.rs Ack*Space::recv_frame]:
       - PacketSpace::on_ack_rcvd [qcongestion/src/packets.rs]: one loop iteration per packet number
         of every range ([covered]) unless the controller tracks no packet (input [cc_len]);
       - RcvdJournal::on_rcvd_ack [qrecovery/src/journal/rcvd.rs]: `flat_map(range)` again steps
         through every packet number, then walks packet_include_ack and the queue;
       - SentRotateGuard::update_largest + the walk of recv_frame [qrecovery/src/journal/sent.rs,
         space.rs]: the acknowledged numbers are collected into a Vec (one cell each) and
         on_packet_acked is called per number, each call scanning the window up to that number;
   * RcvdJournal::{decode_pn, on_rcvd_pn} over IndexDeque::insert (Model.RcvdJournal);
   * RemoteCids: the shared model Model.RemoteCid in the variant of the repaired code (active IDs
     counted after the frame is processed), with the cost functions of Model.C04Cid; LocalCids: Model.C04Cid;
   * stream frames through the whole DataStreams model (Model.StreamCtl, variant `fixed`), cost =
     streams created by the implicit open of lower-numbered streams.

   Every cost is an integer computed from the ranges / sizes by arithmetic, never by expanding a
   range, so a frame carrying 2^62-1 can be costed; the state transformers (used for the short
   legitimate history and for cheap probes) are the existing list models.  Proofs/C04.v shows the
   cost counts what those models do (cells appended, numbers expanded).

   Four configuration bits select the code variant and are read from the Rust source by the
   orchestrator: [ord] (true: the dispatcher validates the ACK against the sent journal before
   the controller and the received journal see it — fix of F22), [f7] (true: the parser rejects
   negative packet numbers — fix of F7), [f8] (true: `largest >= next` is rejected — fix of F8),
   [f55] (true: RETIRE_CONNECTION_ID of a never-issued number is a PROTOCOL_VIOLATION — fix of F55). *)
From Coq Require Import List ZArith NArith Bool.
From GQ Require Import Model.RcvdJournal Model.SentJournal Model.C04Cid.
From GQ Require Lib.Wire Lib.FrameTypes Model.Frames Model.StreamCtl Model.Sid Model.RemoteCid.
Import ListNotations.
Local Open Scope Z_scope.

Definition T_EXCEED : Z := 2^21.       (* probes whose value-driven cost is predicted above this are expected to hit the resource limit *)
Definition K_CLASS : Z := 2^16.        (* threshold of the finding classes F9, F10, F11, F22 *)

(* ------------------------------------------------------------------ ACK: sizes and costs *)
(* packet numbers covered by the ranges (pairs are (smallest, largest), both inclusive) *)
Fixpoint covered (rs : list (Z * Z)) : Z :=
  match rs with
  | [] => 0
  | (lo, hi) :: r => (hi - lo + 1) + covered r
  end.

Definition tri (n : Z) : Z := n * (n - 1) / 2.

(* Σ_{pn = lo}^{hi} min(max(pn - off, 0), len): the records `on_packet_acked(pn)` scans
   (`enumerate().take_while(idx < pn)`) summed over the numbers of one range *)
Definition walk_range (off len lo hi : Z) : Z :=
  let a := Z.max lo off in
  let b2 := Z.min hi (off + len - 1) in
  let n2 := Z.max 0 (b2 - a + 1) in
  let c := Z.max lo (off + len) in
  let n3 := Z.max 0 (hi - c + 1) in
  n2 * (a - off) + tri n2 + n3 * len.

Fixpoint walk (off len : Z) (rs : list (Z * Z)) : Z :=
  match rs with
  | [] => 0
  | (lo, hi) :: r => walk_range off len lo hi + walk off len r
  end.

(* frames handed back by on_packet_acked over all acknowledged numbers: only records of the window
   can contribute, each at most once *)
Fixpoint fed_frames (rs : list (Z * Z)) (pn : Z) (recs : list sstate) : Z :=
  match recs with
  | [] => 0
  | s :: r => (if in_ranges pn rs then Z.of_nat (snd (be_acked s)) else 0) + fed_frames rs (pn + 1) r
  end.

(* update_largest with the comparison of the variant *)
Definition upd_largest (f8 : bool) (j : sjournal) (largest : Z) : sjournal * bool :=
  if (if f8 then s_next j <=? largest else s_next j <? largest) then (j, false)
  else (mksj (s_queue j) (s_off j) (s_recs j) (Z.max (s_la j) largest), true).

Definition resize_or (j : sjournal) (now : Z) : sjournal :=
  match resize j now with Some j' => j' | None => j end.

Definition sj_len (j : sjournal) : Z := Z.of_nat (length (s_recs j)).

Record ack_out := mkao {
  ao_panic : bool;      (* u64 underflow inside AckFrame::iter (only without the parser check) *)
  ao_err : Z;           (* error kind, 0 = none *)
  ao_ticks : Z;         (* iterations of the controller's loop *)
  ao_collected : Z;     (* |acked| collected by recv_frame *)
  ao_fed : Z;           (* frames handed back to the streams *)
  ao_cost : Z;          (* total work units *)
  ao_cells : Z;         (* cells allocated (the Vec of recv_frame) *)
  ao_drv : Z }.         (* packet numbers some consumer stepped through *)

Definition cc_ticks (cc_len : Z) (rs : list (Z * Z)) : Z := if cc_len =? 0 then 0 else covered rs.
Definition cost_cc (cc_len : Z) (rs : list (Z * Z)) : Z := cc_ticks cc_len rs + 2 * cc_len + 1.
Definition cost_rj (j : rjournal) (rs : list (Z * Z)) : Z :=
  covered rs + Z.of_nat (length (r_incl j)) + 2 * r_len j + 1.
Definition cost_sent (j : sjournal) (rs : list (Z * Z)) : Z :=
  1 + 2 * covered rs + walk (s_off j) (sj_len j) rs + sj_len j.

(* the `Frame::Ack(f)` arm followed by Ack*Space::recv_frame *)
Definition deliver_ack (ord f8 : bool) (cc_len now : Z) (rj : rjournal) (sj : sjournal) (f : ackframe) : ack_out :=
  let largest := a_largest f in
  let pre := if ord then snd (upd_largest f8 sj largest) else true in
  if negb pre then mkao false E_PROTOCOL_VIOLATION 0 0 0 1 0 0
  else
    match ack_iter f with
    | None => mkao true 0 0 0 0 1 0 0
    | Some rs =>
      let sj1 := if ord then resize_or (fst (upd_largest f8 sj largest)) now else sj in
      let c12 := (if ord then 1 + sj_len sj else 0) + cost_cc cc_len rs + cost_rj rj rs in
      if negb (snd (upd_largest f8 sj1 largest)) then
        mkao false E_PROTOCOL_VIOLATION (cc_ticks cc_len rs) 0 0 (c12 + 1) 0 (covered rs)
      else
        mkao false 0 (cc_ticks cc_len rs) (covered rs) (fed_frames rs (s_off sj1) (s_recs sj1))
             (c12 + cost_sent sj1 rs) (covered rs) (covered rs)
    end.

(* -- the same as a state transformer (in-process history; the ranges are expanded only inside the window) *)
Fixpoint down_from (hi : Z) (n : nat) : list Z :=
  match n with O => [] | S k => hi :: down_from (hi - 1) k end.
Fixpoint window_pns (off next : Z) (rs : list (Z * Z)) : list Z :=
  match rs with
  | [] => []
  | (lo, hi) :: r =>
      let lo' := Z.max lo off in
      let hi' := Z.min hi (next - 1) in
      down_from hi' (Z.to_nat (hi' - lo' + 1)) ++ window_pns off next r
  end.

Definition set_la (j : sjournal) (largest : Z) : sjournal :=
  mksj (s_queue j) (s_off j) (s_recs j) (Z.max (s_la j) largest).

(* returns the journals after the frame (unchanged parts when an error or panic stops the processing) *)
Definition apply_ack (ord f8 : bool) (now : Z) (rj : rjournal) (sj : sjournal) (f : ackframe)
  : rjournal * sjournal :=
  let o := deliver_ack ord f8 0 now rj sj f in
  if ao_panic o || negb (ao_err o =? 0) then (rj, sj)
  else
    match ack_iter f, on_rcvd_ack rj now f with
    | Some rs, Some rj' =>
        let sj1 := if ord then resize_or (set_la sj (a_largest f)) now else sj in
        let sj2 := set_la sj1 (a_largest f) in
        match rotate sj2 now (map RoAcked (window_pns (s_off sj2) (s_next sj2) rs)) with
        | (Some sj3, _) => (rj', sj3)
        | (None, _) => (rj', sj2)
        end
    | _, _ => (rj, sj)
    end.

(* ------------------------------------------------------------------ packet-number jump *)
(* decode_pn then on_rcvd_pn: cells the IndexDeque appends (resize to the gap + push_back) *)
Definition pn_cells (j : rjournal) (pn : Z) : Z :=
  if (r_off j <=? pn) && (pn <? r_next j) then 0
  else if pn <? r_off j then 0
  else pn - r_next j + 1.
Definition pn_cost (j : rjournal) (pn : Z) : Z := 2 + pn_cells j pn.

(* ------------------------------------------------------------------ streams *)
Definition sN (z : Z) : N := Z.to_N z.
Definition dir_of (uni : bool) : Sid.dir := if uni then Sid.Uni else Sid.Bi.

Definition stream_op (f : Frames.frame) : option StreamCtl.op :=
  match f with
  | Frames.Stream s off _ fin data => Some (StreamCtl.OStream (sN s) (sN off) (N.of_nat (length data)) fin)
  | Frames.ResetStream s e fs => Some (StreamCtl.OReset (sN s) (sN e) (sN fs))
  | Frames.StopSending s e => Some (StreamCtl.OStop (sN s) (sN e))
  | Frames.MaxStreamData s v => Some (StreamCtl.OMaxSD (sN s) (sN v))
  | Frames.MaxStreams u v => Some (StreamCtl.OMaxStreams (dir_of u) (sN v))
  | Frames.StreamsBlocked u v => Some (StreamCtl.OSBlocked (dir_of u) (sN v))
  | Frames.StreamDataBlocked s v => Some (StreamCtl.OSDBlocked (sN s) (sN v))
  | _ => None
  end.

(* which stream id the frame names, and whether only the sending half of a stream emits it *)
Definition stream_target (f : Frames.frame) : option (N * bool) :=
  match f with
  | Frames.Stream s _ _ _ _ => Some (sN s, true)
  | Frames.ResetStream s _ _ => Some (sN s, true)
  | Frames.StreamDataBlocked s _ => Some (sN s, true)
  | Frames.StopSending s _ => Some (sN s, false)
  | Frames.MaxStreamData s _ => Some (sN s, false)
  | _ => None
  end.

(* streams created by the implicit open: the length of the NeedCreate range handed to create_remote
   (the same case analysis as StreamCtl.ds_check_sid / ds_try_accept) *)
Definition streams_created (s : StreamCtl.ds) (f : Frames.frame) : Z :=
  match stream_target f with
  | None => 0
  | Some (sid, sender_side) =>
      if Sid.role_eqb (Sid.sid_role sid) (StreamCtl.d_role s) then 0
      else if negb sender_side && Sid.dir_eqb (Sid.sid_dir sid) Sid.Uni then 0
      else
        match Sid.try_accept_sid false true (StreamCtl.d_r s) (Sid.sid_dir sid) (Sid.sid_idx sid) with
        | (_, Sid.AccNew first last, _) => Z.of_nat (length (Sid.need_create first last))
        | _ => 0
        end
  end.

Definition ds_size (s : StreamCtl.ds) : Z :=
  Z.of_nat (length (StreamCtl.d_rcv s)) + Z.of_nat (length (StreamCtl.d_outs s)).

(* ------------------------------------------------------------------ the stream `handlers` *)
Record hst := mkh {
  h_ord : bool; h_f7 : bool; h_f8 : bool; h_f55 : bool;
  h_now : Z;
  h_rj : rjournal; h_sj : sjournal; h_lrcvd : option Z;
  h_rc : RemoteCid.rcids; h_lc : lcst; h_lset : bool;
  h_ds : option StreamCtl.ds;
  h_closed : bool }.

Definition SD : Z := 2^20.

Definition h_init (cfg : list Z) : hst :=
  let g i d := nth i cfg d in
  let msb := g 2%nat 3 in
  let msu := g 3%nat 3 in
  let loc := [msb; msu; SD; SD; SD; SD] in
  let z6 := [0; 0; 0; 0; 0; 0] in
  mkh (negb (g 0%nat 1 =? 0)) (negb (g 4%nat 1 =? 0)) (negb (g 5%nat 1 =? 0)) (negb (g 6%nat 1 =? 0))
      0 (rj_new (Some 25)) sj_new None
      (rc_init (Z.to_N (g 1%nat 2))) lc_init false
      (StreamCtl.cfg_init ([1; 0; 0] ++ loc ++ z6 ++ z6))
      false.

Definition with_closed (s : hst) (c : bool) : hst :=
  mkh (h_ord s) (h_f7 s) (h_f8 s) (h_f55 s) (h_now s) (h_rj s) (h_sj s) (h_lrcvd s) (h_rc s) (h_lc s) (h_lset s) (h_ds s) c.
Definition with_j (s : hst) (rj : rjournal) (sj : sjournal) : hst :=
  mkh (h_ord s) (h_f7 s) (h_f8 s) (h_f55 s) (h_now s) rj sj (h_lrcvd s) (h_rc s) (h_lc s) (h_lset s) (h_ds s) (h_closed s).
Definition with_lrcvd (s : hst) (pn : Z) : hst :=
  mkh (h_ord s) (h_f7 s) (h_f8 s) (h_f55 s) (h_now s) (h_rj s) (h_sj s)
      (Some (match h_lrcvd s with Some l => Z.max l pn | None => pn end))
      (h_rc s) (h_lc s) (h_lset s) (h_ds s) (h_closed s).
Definition with_rc (s : hst) (rc : RemoteCid.rcids) : hst :=
  mkh (h_ord s) (h_f7 s) (h_f8 s) (h_f55 s) (h_now s) (h_rj s) (h_sj s) (h_lrcvd s) rc (h_lc s) (h_lset s) (h_ds s) (h_closed s).
Definition with_lc (s : hst) (lc : lcst) (set : bool) : hst :=
  mkh (h_ord s) (h_f7 s) (h_f8 s) (h_f55 s) (h_now s) (h_rj s) (h_sj s) (h_lrcvd s) (h_rc s) lc set (h_ds s) (h_closed s).
Definition with_ds (s : hst) (d : StreamCtl.ds) : hst :=
  mkh (h_ord s) (h_f7 s) (h_f8 s) (h_f55 s) (h_now s) (h_rj s) (h_sj s) (h_lrcvd s) (h_rc s) (h_lc s) (h_lset s) (Some d) (h_closed s).
Definition with_now (s : hst) (t : Z) : hst :=
  mkh (h_ord s) (h_f7 s) (h_f8 s) (h_f55 s) t (h_rj s) (h_sj s) (h_lrcvd s) (h_rc s) (h_lc s) (h_lset s) (h_ds s) (h_closed s).

(* the state the endpoint already holds, in cells *)
Definition h_size (s : hst) : Z :=
  r_len (h_rj s) + Z.of_nat (length (r_incl (h_rj s))) + sj_len (h_sj s)
  + Z.of_N (rc_size (h_rc s)) + lc_len (h_lc s)
  + match h_ds s with Some d => ds_size d | None => 0 end.

(* result of delivering one frame / one hostile input: words of the observation, the cost, the cells
   allocated (a lower bound of the allocation), blocks allocated at least, the state afterwards
   (forced only when the cost is small) and whether the connection failed *)
Record outcome := mko { o_words : list Z; o_cost : Z; o_cells : Z; o_blocks : Z; o_fail : bool;
  o_drv : Z }.   (* the value-driven part of the cost: numbers stepped through / cells / frames *)

(* without the parser check an ACK frame with negative numbers is delivered as it is *)
Definition parse_frame (f7 : bool) (bs : list Z) : Frames.fres :=
  match Frames.be_frame FrameTypes.POneRtt bs with
  | Frames.FErr FrameTypes.EParseError =>
      if f7 then Frames.FErr FrameTypes.EParseError
      else
        match bs with
        | t :: rest =>
            if (t =? 2) || (t =? 3) then
              match Frames.be_ack (t =? 3) rest with
              | Wire.Ok f r => Frames.FOk (Wire.zlen bs - Wire.zlen r) f (Frames.frame_type f)
              | _ => Frames.FErr FrameTypes.EParseError
              end
            else Frames.FErr FrameTypes.EParseError
        | [] => Frames.FErr FrameTypes.EParseError
        end
  | r => r
  end.

Definition PANIC_W : Z := -77.

Definition frame_outcome (s : hst) (cc_len : Z) (bs : list Z) : outcome :=
  match parse_frame (h_f7 s) bs with
  | Frames.FPanic _ => mko [PANIC_W] 1 0 0 true 0
  | Frames.FErr _ => mko [0; E_FRAME_ENCODING] 1 0 0 true 0
  | Frames.FOk _ f t =>
    match f with
    | Frames.Ack l d fr rs _ =>
        (* complete_frame builds Frame::Ack only in its FrameType::Ack arm *)
        if negb (match t with FrameTypes.TAck _ => true | _ => false end) then mko [9] 1 0 0 false 0 else
        let o := deliver_ack (h_ord s) (h_f8 s) cc_len (h_now s) (h_rj s) (h_sj s) (mkack l d fr rs) in
        if ao_panic o then mko [PANIC_W] (ao_cost o) 0 0 true 0
        else mko [1; ao_err o; ao_ticks o; ao_collected o; ao_fed o] (ao_cost o) (ao_cells o) 0
                 (negb (ao_err o =? 0)) (ao_drv o)
    | Frames.NewConnectionId seq rpt _ _ =>
        let rc := h_rc s in
        let sq := Z.to_N seq in
        let rp := Z.to_N rpt in
        let drv := Z.of_N (rc_new_drv rc sq rp) in
        if rc_new_panics rc sq rp then mko [PANIC_W] 1 0 0 true 0
        else if T_EXCEED <? drv then
          (* predicted to hit the resource limit: only the arithmetic part is evaluated *)
          mko [2] drv drv 0 false drv
        else
          (* the frame is processed (cells appended, RETIRE frames queued) BEFORE the active IDs are
             counted: the frames are observed also when the verdict is CONNECTION_ID_LIMIT_ERROR *)
          let '(_, fr, res) := rc_recv rc sq rp in
          let e := rc_res_err res in
          let nf := Z.of_nat (length fr) in
          mko [2; e; nf] (Z.of_N (rc_new_cost rc sq rp)) (Z.of_N (rc_new_cells rc sq) + nf) 0 (negb (e =? 0)) drv
    | Frames.RetireConnectionId seq =>
        let e := lc_retire_err (h_f55 s) (h_lc s) seq in
        mko [3; e; if e =? 0 then lc_retire_frames (h_lc s) seq else 0]
            (if e =? 0 then lc_retire_cost (h_lc s) seq else 1) 0 0 (negb (e =? 0)) 0
    | _ =>
        match stream_op f, h_ds s with
        | Some op, Some d =>
            let created := streams_created d f in
            let '(d', words) := StreamCtl.ds_step StreamCtl.fixed d op in
            mko ((match f with Frames.Stream _ _ _ _ _ => 5 | _ => 4 end) :: words)
                (2 + created) 0 created (StreamCtl.d_closed d') created
        | _, _ => mko [9] 1 0 0 false 0
        end
    end
  end.

(* the state after an in-process frame *)
Definition frame_apply (s : hst) (bs : list Z) : hst :=
  match parse_frame (h_f7 s) bs with
  | Frames.FOk _ f t =>
    match f with
    | Frames.Ack l d fr rs _ =>
        if negb (match t with FrameTypes.TAck _ => true | _ => false end) then s else
        let '(rj, sj) := apply_ack (h_ord s) (h_f8 s) (h_now s) (h_rj s) (h_sj s) (mkack l d fr rs) in
        with_j s rj sj
    | Frames.NewConnectionId seq rpt _ _ => with_rc s (fst (fst (rc_recv (h_rc s) (Z.to_N seq) (Z.to_N rpt))))
    | Frames.RetireConnectionId seq =>
        if lc_retire_err (h_f55 s) (h_lc s) seq =? 0 then with_lc s (lc_retire_apply (h_lc s) seq) (h_lset s) else s
    | _ =>
        match stream_op f, h_ds s with
        | Some op, Some d => with_ds s (fst (StreamCtl.ds_step StreamCtl.fixed d op))
        | _, _ => s
        end
    end
  | _ => s
  end.

Definition pn_outcome (s : hst) (w x : Z) : outcome * option Z :=
  match decode_pn (h_rj s) (mk_pnum w x) with
  | DpnOk pn => (mko [0; pn; pn_cells (h_rj s) pn] (pn_cost (h_rj s) pn) (pn_cells (h_rj s) pn) 0 false (pn_cells (h_rj s) pn), Some pn)
  | DpnTooOld => (mko [1; 0; 0] 1 0 0 false 0, None)
  | DpnDuplicate => (mko [2; 0; 0] 1 0 0 false 0, None)
  | DpnPanic => (mko [PANIC_W] 1 0 0 true 0, None)
  end.

Definition setlimit_outcome (s : hst) (n : Z) : outcome :=
  if h_lset s then mko [-3; 0] 1 0 0 false 0
  else
    let e := lc_set_err (h_lc s) n in
    mko [e; lc_set_frames (h_lc s) n] (lc_set_cost (h_lc s) n) (lc_set_frames (h_lc s) n) 0 (negb (e =? 0))
        (lc_set_frames (h_lc s) n).

(* measured allocation echoed when it lies inside the band the cost predicts, else the violated bound *)
Definition clampZ (lo hi x : Z) : Z := Z.max lo (Z.min hi x).
Definition hi_bytes (cost fb sz : Z) : Z := 1024 * (cost + fb + sz) + 65536.
Definition hi_blocks (cost fb sz : Z) : Z := 32 * (cost + fb + sz) + 512.
Definition lo_bytes (cells : Z) : Z := if cells <? 1024 then 0 else 8 * cells.

Definition finish (s : hst) (o : outcome) (fb mb mk cc_len : Z) : list Z :=
  o_words o ++ [clampZ (lo_bytes (o_cells o)) (hi_bytes (o_cost o) fb (h_size s)) mb;
                clampZ (o_blocks o) (hi_blocks (o_cost o) fb (h_size s)) mk; cc_len].

Definition exceeded (o : outcome) : bool := T_EXCEED <? o_drv o.

Fixpoint send_n (n : nat) (j : sjournal) (now : Z) : sjournal :=
  match n with
  | O => j
  | S k =>
      let j' := match new_packet j now (mknp [s_next j] false NpBuildTime 100 1000) with
                | (Some j1, _, _) => j1
                | _ => j
                end in
      send_n k j' now
  end.

(* one operation: the first three arguments are the allocation the implementation measured and the
   number of packets its congestion controller tracked (model inputs), then the operation's own *)
Definition h_step (s : hst) (t : N) (a : list Z) : hst * list Z :=
  if h_closed s then (s, [-1]) else
  match a with
  | mb :: mk :: cc_len :: args =>
    match t, args with
    | 0%N, [dt] => (with_now s (h_now s + dt), [0; cc_len])
    | 1%N, [n] =>
        let sj := send_n (Z.to_nat (Z.min n 64)) (h_sj s) (h_now s) in
        (with_j s (h_rj s) sj, [s_next sj; cc_len])
    | 2%N, [pn] =>
        match decode_pn (h_rj s) (U32 (pn mod 2^32)) with
        | DpnOk p =>
            if (p =? pn) && (pn_cells (h_rj s) pn <=? T_EXCEED) then
              match on_rcvd_pn (h_rj s) (h_now s) pn true 100 with
              | Some rj => (with_lrcvd (with_j s rj (h_sj s)) pn, [1; cc_len])
              | None => (with_closed s true, [PANIC_W; cc_len])
              end
            else (s, [0; cc_len])
        | _ => (s, [0; cc_len])
        end
    | 3%N, [] =>
        match h_lrcvd s with
        | None => (s, [0; cc_len])
        | Some largest =>
            let pn := s_next (h_sj s) in
            match gen_ack (h_rj s) (h_now s) pn largest (h_now s) 1200 with
            | GaOk rj _ => (with_j s rj (send_n 1 (h_sj s) (h_now s)), [1; cc_len])
            | GaErr rj => (with_j s rj (h_sj s), [2; cc_len])
            | GaPanic => (with_closed s true, [PANIC_W; cc_len])
            end
        end
    | 5%N, [] => (with_rc s (rc_apply_dcid (h_rc s)), [0; cc_len])
    | 7%N, [n] =>
        let o := setlimit_outcome s n in
        if exceeded o then (s, [-6; cc_len])
        else
          let s1 := if h_lset s then s else with_lc s (lc_set_apply (h_lc s) n) true in
          (with_closed s1 (o_fail o), finish s o 8 mb mk cc_len)
    | 10%N, bs =>
        let o := frame_outcome s cc_len bs in
        if exceeded o then (s, [-6; cc_len])
        else (with_closed (frame_apply s bs) (o_fail o), finish s o (Z.of_nat (length bs)) mb mk cc_len)
    | 20%N, [] =>
        (s, [r_off (h_rj s); r_len (h_rj s); Z.of_nat (length (r_incl (h_rj s)));
             s_off (h_sj s); sj_len (h_sj s); s_la (h_sj s); Z.of_nat (length (s_queue (h_sj s))); cc_len])
    | 100%N, bs =>
        let o := frame_outcome s cc_len bs in
        if exceeded o then (s, [-5; 0; 0; cc_len])
        else (s, finish s o (Z.of_nat (length bs)) mb mk cc_len)
    | 101%N, [w; x] =>
        let o := fst (pn_outcome s w x) in
        if exceeded o then (s, [-5; 0; 0; cc_len]) else (s, finish s o 4 mb mk cc_len)
    | 104%N, [n] =>
        let o := setlimit_outcome s n in
        if exceeded o then (s, [-5; 0; 0; cc_len]) else (s, finish s o 8 mb mk cc_len)
    | _, _ => (s, [-99; cc_len])
    end
  | _ => (s, [-98])
  end.

Fixpoint h_run (s : hst) (l : list (N * list Z)) : list (list Z) :=
  match l with
  | [] => []
  | (t, a) :: rest => let '(s', obs) := h_step s t a in obs :: h_run s' rest
  end.

(* cfg = [ord; rcid_limit; msb; msu; f7; f8; f55] *)
Definition run_handlers (cfg : list Z) (l : list (N * list Z)) : list (list Z) := h_run (h_init cfg) l.
