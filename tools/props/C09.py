"""C09 — the send buffer keeps every unacknowledged byte and offers it for resending."""
from vlib import Case

PROP_FILE = "Properties/C09.v"
RULE = ("cases = op lists over WRITE len, EXTEND max, PICK cap flow blk (predicate = Some(cap) below offset blk, None from blk on), "
        "ACK s e, LOSS s e (ranges drawn from earlier picks, also split / joined / repeated / after loss / after ack / already shifted / empty / inverted / "
        "reaching into or lying in the never-sent part / of picks made before a FORGET = frames of a rejected 0-RTT packet), "
        "RESEND, FORGET on SendBuf::with_capacity(cfg); a directed family plays 0-RTT rejection (picks, FORGET, EXTEND to the new window, stale reports of the "
        "old picks interleaved with new picks and their acknowledgements); non-trivial = at least 2 successful picks, at least one loss report followed by a "
        "pick that re-offers a lost byte, and at least one acknowledgement whose start or end is not a boundary of any earlier pick "
        "(evaluated on a byte-level replay of the op list); distinct by hash of the op list")
TRUSTED_BASE = ["model coq/Model/SendBuf.v restates BufMap's in-place index surgery (binary search, drain_start/drain_end, same_before/"
                "same_after) as list surgery on the raw boundary list; equality with the Rust (raw boundary deque included, via the "
                "cfg(gmquic_verif) dump hook) is checked by stream `sndbuf` after every operation, not proved",
                "debug profile only: debug_assert!/overflow panics of the Rust (window reduced, position overflow, u64 overflow in pick) are the model's "
                "explicit PV outcome; the harness turns the caught panic into the observation -1 and refuses pick capacity 0 itself. Acknowledgements and loss "
                "reports have no precondition any more (finding F70 repaired: SendBuf cuts the range down to its sent part, c09_report_total)"]
MODELLED = ("qrecovery/src/send/sndbuf.rs: BufMap::{extend_to,sent,pick,ack_rcvd,shift,may_loss,may_lost_from,resend_flighting,same_before,"
            "same_after,merge_after}, SendBuf::{with_capacity,write,extend,forget_sent_state,written,sent,remaining_mut,pick_up,on_data_acked,"
            "may_loss_data,resend_flighting,is_all_rcvd}; the data deque is modelled as base offset + retained length over position-derived content")
ASSUMPTIONS = ["written data is position-derived content (only lengths matter to SendBuf)",
               "pick predicates return None or Some(n>=1) (true of StreamFrame/CryptoFrame::estimate_max_capacity)",
               "forget_sent_state is only used before any byte was acknowledged (0-RTT rejection); outside that class see finding F28",
               "a server that rejected 0-RTT does not acknowledge 0-RTT packets (it has no keys to read them). SendBuf ignores the part of such an "
               "acknowledgement that covers bytes not sent again yet; for bytes that were already sent again the late acknowledgement of the rejected copy is "
               "indistinguishable from an acknowledgement of the new copy at this layer (the sent journal keeps the 0-RTT records) - peer misbehaviour only",
               "Bytes / VecDeque behave as documented; usize = u64"]

MANIFEST = {
    "text": "Machine-checked Coq theorems (Properties/C09.v) over an executable model of BufMap + SendBuf: for every operation list (writes, window extensions, pick-ups with any capacity / flow limit / congestion block, acknowledgements and loss reports of ANY range - only the part that has been sent since the last forget_sent_state is acted on, so that reports about frames of a rejected 0-RTT packet are harmless (finding F70, repaired: such a report used to fail BufMap's `covered Pending parts` assertion in debug builds and to corrupt the colour map in release builds); empty and inverted ranges are ignored -, resend_flighting, forget_sent_state) the boundary list stays well formed with Pending as a suffix, each operation refines its pointwise colour specification, every byte in [offset, written) is retained with offset = first unacknowledged byte, a pick returns a non-empty range (for every operation list, c09_pick_nonempty) inside the window that was uniformly Pending or Lost and is Flighting afterwards together with exactly the written bytes, fresh <-> Pending, the fresh lengths add up to sent(), lost bytes are re-offered, no acknowledgement or loss report can fail (c09_report_total) and each recolours exactly the sent part of its range (c09_report_ack / c09_report_loss; after a 0-RTT rejection every report is a no-op until data is sent again, c09_forget_then_reports), and is_all_rcvd holds exactly when everything written is acknowledged. The model is tied to the Rust by running the extracted model and the real SendBuf on the same op lists every run and comparing the raw boundary deque and all public observations after every operation; the property is also evaluated by a byte-level Python oracle on the implementation's observations.",
    "note": "Trusted: Coq kernel, extraction (ExtrOcamlBasic only), OCaml driver, Rust harness, Python generators/oracle, the read-only hook SendBuf::verif_colours. The model restates the index arithmetic as list surgery; equality is checked by correspondence (raw boundaries), not proved. Debug profile only (debug_assert = PV outcome). Statements about retained data are conditional on forget_sent_state not being used after an acknowledgement (finding F28 otherwise).",
    "technique": "Coq proof (invariant over operation lists + refinement of every op to a pointwise colour spec) + differential correspondence model/implementation",
}

U64 = 2 ** 64
BIG = 2 ** 64          # blk value meaning "never congestion-blocked"
P, F, L, R, NONE = 0, 1, 2, 3, 9


def content(i):
    return (i * 131 + (i // 256) * 17 + 7) % 256


class Sim:
    """byte-level reference: colour of every written byte (NONE = beyond the window / not in the map)"""

    def __init__(self, cap):
        self.max_data = cap
        self.written = 0
        self.col = bytearray()       # one entry per written byte
        self.acked = bytearray()     # 1 = has been acknowledged at some point (survives forget)
        self.size = 0
        self.base = 0                # first byte not released from the deque
        self.forgot_after_ack = False

    def _grow(self):
        new = min(self.written, self.max_data)
        if new > self.size:
            for i in range(self.size, new):
                self.col[i] = P
            self.size = new

    def sent(self):
        i = self.size
        while i > 0 and self.col[i - 1] == P:
            i -= 1
        return i

    def write(self, n):
        if n == 0:
            return True
        self.col.extend([NONE] * n)
        self.acked.extend([0] * n)
        self.written += n
        self._grow()
        return True

    def extend(self, mx):
        if mx < self.max_data:
            return False
        self.max_data = mx
        self._grow()
        return True

    def forget(self):
        if self.base > 0:
            self.forgot_after_ack = True
        for i in range(self.size):
            self.col[i] = NONE
        for i in range(self.base, self.written):
            self.acked[i] = 0          # acknowledgements of the forgotten epoch no longer count
        self.size = 0
        self.max_data = 0

    def candidate(self, flow):
        """first byte that pick may offer: Lost, or Pending when the flow limit is non-zero"""
        for i in range(self.size):
            c = self.col[i]
            if c == L or (c == P and flow != 0):
                return i
        return None

    def predict_pick(self, cap, flow, blk):
        """merged-run prediction of pick (generator / non-triviality only): None | 'pv' | (s, e, fresh)"""
        if cap == 0:
            return "pv"
        s = self.candidate(flow)
        if s is None or s >= blk:
            return None
        c = self.col[s]
        allow = cap if c == L else min(cap, flow)
        if s + allow >= U64:
            return "pv"
        e = s
        while e < self.size and self.col[e] == c and e - s < allow:
            e += 1
        return (s, e, c == P)

    def apply_pick(self, s, e):
        for i in range(s, e):
            self.col[i] = F

    def range_legal(self, s, e):
        """acknowledgements and loss reports have no precondition (finding F70 repaired): the part of the range that is not
        in flight - never sent, or forgotten when 0-RTT was rejected - is ignored; empty (end <= start) ranges too"""
        return True

    def in_flight(self, i):
        return i < self.size and self.col[i] in (F, L, R)

    def ack(self, s, e):
        """byte-wise: an acknowledgement only concerns bytes that have been sent since the last forget"""
        for i in range(s, min(e, self.written)):
            if self.in_flight(i):
                self.col[i] = R
                self.acked[i] = 1
        b = 0
        while b < self.size and self.col[b] == R:
            b += 1
        if b > self.base:
            self.base = b
        return True

    def loss(self, s, e):
        for i in range(s, min(e, self.written)):
            if self.col[i] == F and i < self.size:
                self.col[i] = L
        return True

    def stale(self, s, e):
        """does the range s..e touch a byte that is not in flight (never sent / forgotten)?"""
        return e > s and (e > self.sent())

    def resend(self):
        for i in range(self.size):
            if self.col[i] == F:
                self.col[i] = L


def expand_runs(runs, size, n):
    """raw boundary list -> colour per byte (bytes before the first boundary count as Recved)"""
    out = bytearray([NONE]) * n
    lim = min(size, n)
    first = runs[0][0] if runs else size
    for i in range(0, min(first, lim)):
        out[i] = R
    for j, (o, c) in enumerate(runs):
        nxt = runs[j + 1][0] if j + 1 < len(runs) else size
        for i in range(o, min(nxt, lim)):
            out[i] = c
    return out


def oracle(case, obs):
    """direct statement of the property on the implementation's observations (independent of the model)"""
    if len(obs) != len(case.ops):
        return "length: %d observations for %d ops (%s)" % (len(obs), len(case.ops), obs[-1] if obs else "")
    sim = Sim(int(case.cfg[0]) if case.cfg else 0)
    fresh_sum = 0
    fresh_seen = set()
    dead = False
    for k, ((tag, a), line) in enumerate(zip(case.ops, obs)):
        if line.startswith("!"):
            return "abnormal: op %d -> %s" % (k, line)
        v = [int(x) for x in line.split()]
        if dead:
            if v != [-1]:
                return "dead: op %d answered %s after a failed assertion" % (k, v[:6])
            continue
        legal = True
        st = None
        if tag == 0:
            sim.write(a[0])
        elif tag == 1:
            legal = sim.extend(a[0])
        elif tag == 2:
            cap, flow, blk = a
            if cap == 0:
                legal = False
            else:
                cand = sim.candidate(flow)
                if v and v[0] == 1:
                    s, e, fr, n = v[1:5]
                    data = v[5:5 + n]
                    st = v[5 + n:]
                    if not s < e:
                        return "pick-empty: op %d pick returned the empty range %d..%d" % (k, s, e)
                    if e > min(sim.written, sim.max_data):
                        return "pick-window: op %d pick returned %d..%d beyond the window %d" % (k, s, e, min(sim.written, sim.max_data))
                    cols = set(sim.col[s:e])
                    if len(cols) != 1 or not (cols <= {P, L}):
                        return "pick-colour: op %d pick offered %d..%d whose bytes are %s (only never-sent or lost bytes may be offered)" % (k, s, e, sorted(cols))
                    was = cols.pop()
                    if fr != (1 if was == P else 0):
                        return "pick-fresh: op %d pick of %d..%d reported fresh=%d but the bytes were %s" % (k, s, e, fr, "Pending" if was == P else "Lost")
                    if cand != s:
                        return "pick-order: op %d pick started at %d, the first offerable byte is %s" % (k, s, cand)
                    if s >= blk:
                        return "pick-blocked: op %d pick returned data although the predicate refuses offset %d" % (k, s)
                    allow = cap if was == L else min(cap, flow)
                    if e - s > allow:
                        return "pick-size: op %d pick returned %d bytes, allowance %d" % (k, e - s, allow)
                    if data != [content(i) for i in range(s, e)]:
                        if sim.forgot_after_ack:
                            return "F28-data: op %d pick of %d..%d returned %d bytes after forget_sent_state following an acknowledgement" % (k, s, e, n)
                        return "pick-data: op %d pick of %d..%d did not return the written bytes (%d bytes)" % (k, s, e, n)
                    if fr:
                        if any(i in fresh_seen for i in range(s, e)):
                            return "fresh-twice: op %d a byte of %d..%d is counted as new data a second time" % (k, s, e)
                        fresh_seen.update(range(s, e))
                        fresh_sum += e - s
                    sim.apply_pick(s, e)
                elif v and v[0] == 2:
                    st = v[2:]
                    if cand is not None and cand < blk:
                        if sim.col[cand] == L:
                            return "lost-not-reoffered: op %d pick refused (signals %d) although byte %d is lost and the predicate allows %d bytes" % (k, v[1], cand, cap)
                        if s_overflow(cand, cap, flow):
                            pass
                        else:
                            return "pending-not-offered: op %d pick refused (signals %d) although byte %d is pending, flow limit %d" % (k, v[1], cand, flow)
                    exp = 13 if cand is not None else (6 if any(c == P for c in sim.col[:sim.size]) else 12)
                    if v[1] != exp:
                        return "signals: op %d pick refused with signals %d, expected %d" % (k, v[1], exp)
                elif v == [-1]:
                    cand_s = sim.candidate(flow)
                    if cand_s is None or cand_s >= blk:
                        return "abnormal: op %d pick failed an assertion" % k
                    allow = cap if sim.col[cand_s] == L else min(cap, flow)
                    if cand_s + allow < U64:
                        return "abnormal: op %d pick failed an assertion" % k
                    dead = True
                    continue
                else:
                    return "format: op %d -> %s" % (k, v[:6])
        elif tag == 3:
            legal = sim.ack(a[0], a[1])
        elif tag == 4:
            legal = sim.loss(a[0], a[1])
        elif tag == 5:
            sim.resend()
        elif tag == 6:
            sim.forget()
            fresh_sum = 0
            fresh_seen = set()
        else:
            continue
        if not legal:
            if v != [-1]:
                # release-like behaviour is not expected in the debug profile
                return "noassert: op %d (%d %s) violates a precondition but answered %s" % (k, tag, a, v[:6])
            dead = True
            continue
        if v == [-1]:
            return "abnormal: op %d (%d %s) failed an assertion although its precondition holds" % (k, tag, a)
        if st is None:
            if not v or v[0] != 0:
                return "format: op %d -> %s" % (k, v[:6])
            st = v[1:]
        # ---- state after every operation
        if len(st) < 9 or len(st) != 9 + 2 * st[8]:
            return "format: op %d state %s" % (k, st[:12])
        wr, snt, allr, rem, off, size, ret, mx, nr = st[:9]
        runs = [(st[9 + 2 * j], st[10 + 2 * j]) for j in range(nr)]
        if wr != sim.written:
            return "written: op %d written()=%d, %d bytes were written" % (k, wr, sim.written)
        if mx != sim.max_data or rem != max(0, sim.max_data - sim.written):
            return "window: op %d max_data=%d remaining_mut=%d expected %d / %d" % (k, mx, rem, sim.max_data, max(0, sim.max_data - sim.written))
        if size != sim.size:
            return "size: op %d map size %d, expected min(written, max_data)=%d" % (k, size, sim.size)
        for j in range(len(runs)):
            if not (runs[j][0] < size and (j == 0 or runs[j - 1][0] < runs[j][0])):
                return "runs: op %d boundary list %s is not strictly increasing below size %d" % (k, runs, size)
        got = expand_runs(runs, size, sim.written)
        if got != sim.col:
            i = next(i for i in range(sim.written) if got[i] != sim.col[i])
            return "colours: op %d byte %d has colour %d in the map, expected %d" % (k, i, got[i], sim.col[i])
        if snt != sim.sent():
            return "sent: op %d sent()=%d, first never-sent byte is %d" % (k, snt, sim.sent())
        if fresh_sum != snt:
            return "freshsum: op %d fresh lengths add up to %d, sent()=%d" % (k, fresh_sum, snt)
        if sim.forgot_after_ack:
            # outside the class of the conditional theorems (finding F28): only the pick data is judged
            continue
        # every byte from the first unacknowledged one on is retained
        first_unacked = next((i for i in range(sim.written) if not sim.acked[i]), sim.written)
        if off != first_unacked:
            return "offset: op %d buffer offset %d, first unacknowledged byte %d" % (k, off, first_unacked)
        if off + ret != sim.written:
            return "retain: op %d deque holds [%d,%d) but %d bytes were written: unacknowledged bytes dropped" % (k, off, off + ret, sim.written)
        all_acked = first_unacked == sim.written
        if bool(allr) != all_acked:
            return "complete: op %d is_all_rcvd=%d but %s" % (k, allr, "every written byte is acknowledged" if all_acked else "byte %d is not acknowledged" % first_unacked)
    return None


def s_overflow(s, cap, flow):
    return s + cap >= U64


def classify(case, msg, obs):
    if msg.startswith("F28-"):
        return "F28"
    return None


# ------------------------------------------------------------------------------------------
def replay_sim(case):
    """byte-level replay used by nontrivial / hist: yields (tag, args, outcome) with merged-run pick prediction"""
    sim = Sim(int(case.cfg[0]) if case.cfg else 0)
    out = []
    for tag, a in case.ops:
        r = True
        if tag == 0:
            sim.write(a[0])
        elif tag == 1:
            r = sim.extend(a[0])
        elif tag == 2:
            r = sim.predict_pick(*a)
            if isinstance(r, tuple):
                lost = sim.col[r[0]] == L
                sim.apply_pick(r[0], r[1])
                r = r + (lost,)
        elif tag == 3:
            r = "stale" if sim.stale(*a) else True
            sim.ack(*a)
        elif tag == 4:
            r = "stale" if sim.stale(*a) else True
            sim.loss(*a)
        elif tag == 5:
            sim.resend()
        elif tag == 6:
            sim.forget()
        out.append((tag, a, r))
        if r is False or r == "pv":
            break
    return out


def nontrivial(case):
    tr = replay_sim(case)
    picks = 0
    bounds = set()
    loss_seen = False
    repick = False
    misaligned = False
    for tag, a, r in tr:
        if tag == 2 and isinstance(r, tuple):
            picks += 1
            if loss_seen and r[3]:
                repick = True
            bounds.add(r[0])
            bounds.add(r[1])
        elif tag == 4 and r in (True, "stale") and a[0] < a[1]:
            loss_seen = True
        elif tag == 5:
            loss_seen = True
        elif tag == 3 and r in (True, "stale") and a[0] < a[1]:
            if a[0] not in bounds or a[1] not in bounds:
                misaligned = True
    return picks >= 2 and repick and misaligned


def hist(case):
    tr = replay_sim(case)
    lab = []
    names = ("write", "extend", "pick", "ack", "loss", "resend", "forget")
    total = sum(a[0] for t, a in case.ops if t == 0)
    lab.append("bytes:%s" % ("0" if total == 0 else "<=8" if total <= 8 else "<=64" if total <= 64 else "<=512" if total <= 512 else "big"))
    lab.append("ops:%s" % ("<=6" if len(case.ops) <= 6 else "<=20" if len(case.ops) <= 20 else "21+"))
    acked_ranges = []
    lost_ranges = []
    forgot = False
    old_picks = []
    cur_picks = []
    for tag, a, r in tr:
        n = names[tag] if tag < 7 else "?"
        if r is False or r == "pv":
            lab.append("pv:" + n)
            continue
        lab.append("op:" + n)
        if tag == 6:
            forgot = True
            old_picks += cur_picks
            cur_picks = []
        if tag == 2 and isinstance(r, tuple):
            cur_picks.append((r[0], r[1]))
        if tag in (3, 4) and r == "stale":
            lab.append(n + ":not-in-flight")          # the range reaches into (or lies in) the never-sent part
            if forgot and any(s2 < a[1] and a[0] < e2 for s2, e2 in old_picks):
                lab.append(n + ":of-forgotten-pick")  # a frame of a rejected 0-RTT packet
        if tag == 2:
            if r is None:
                lab.append("pick:refused")
            else:
                lab.append("pick:%s" % ("fresh" if r[2] else "retransmit"))
            if a[2] < BIG:
                lab.append("pick:with-block")
            if a[1] == 0:
                lab.append("pick:flow0")
        if tag in (3, 4):
            if a[0] >= a[1]:
                lab.append(n + ":empty")
            if tag == 3:
                if any(s <= a[0] and a[1] <= e for s, e in acked_ranges):
                    lab.append("ack:repeated")
                if any(s < a[1] and a[0] < e for s, e in lost_ranges):
                    lab.append("ack:after-loss")
                acked_ranges.append((a[0], a[1]))
            else:
                if any(s < a[1] and a[0] < e for s, e in acked_ranges):
                    lab.append("loss:after-ack")
                lost_ranges.append((a[0], a[1]))
    return lab


# ------------------------------------------------------------------------------------------
def gen_one(rng, name):
    mode = rng.random()
    if mode < 0.45:
        total = rng.randint(1, 12)
    elif mode < 0.85:
        total = rng.randint(13, 120)
    else:
        total = rng.randint(121, 1500)
    r = rng.random()
    if r < 0.5:
        cap = total + rng.randint(0, 10)
    elif r < 0.8:
        cap = rng.randint(0, total)
    else:
        cap = rng.choice([0, 1, 2 ** 32, 2 ** 62 - 1, 2 ** 63])
    sim = Sim(cap)
    ops = []
    picks = []     # predicted (s, e) since the last forget
    stale_picks = []   # picks made before a forget: their frames are still in the sent journal (rejected 0-RTT)
    nops = rng.randint(3, 40)
    pv_ok = rng.random() < 0.10        # this case may contain reports beyond sent() / beyond written and one precondition violation (window reduced, capacity 0)
    forget_ok = rng.random() < 0.08
    crypto = rng.random() < 0.15       # crypto-stream style: flow usize::MAX, resend_flighting used
    to_write = total
    fin_ok = rng.random() < 0.25       # FIN-only frames (empty ranges at the end) acked / lost, other empty / inverted ranges
    state = {"finished": False}

    def small():
        return rng.choice([1, 1, 2, 3, rng.randint(1, max(1, total)), rng.randint(1, 8)])

    def some_range():
        snt = sim.sent()
        if fin_ok and snt == sim.size == sim.written and snt > 0 and rng.random() < 0.3:
            state["finished"] = True
            return snt, snt                          # FIN-only frame position: the empty range at the very end
        if fin_ok and rng.random() < 0.08:
            x = rng.randint(0, sim.written + 2)      # an empty or inverted range anywhere: ignored by the buffer
            return x, rng.randint(0, x)
        r = rng.random()
        if stale_picks and r < 0.35:
            s, e = rng.choice(stale_picks)          # a report about a frame of the forgotten epoch, as it was sent
            if rng.random() < 0.3 and e - s >= 2:
                m = rng.randint(s + 1, e - 1)
                s, e = (s, m) if rng.random() < 0.5 else (m, e)
            return s, e
        if picks and r < 0.75:
            s, e = rng.choice(picks)
            q = rng.random()
            if q < 0.35:
                pass
            elif q < 0.55 and e - s >= 2:          # split
                m = rng.randint(s + 1, e - 1)
                s, e = (s, m) if rng.random() < 0.5 else (m, e)
            elif q < 0.75:                          # joined with another pick
                s2, e2 = rng.choice(picks)
                s, e = min(s, s2), max(e, e2)
            else:                                   # shifted / misaligned
                s = max(0, s + rng.randint(-2, 2))
                e = max(s, e + rng.randint(-2, 2))
            if not pv_ok:
                e = min(e, snt)
                s = min(s, e)
            if s >= e and not fin_ok:
                return None
            return s, e
        if r < 0.95 or not pv_ok:
            if snt == 0:
                return None
            s = rng.randint(0, snt - 1)
            e = rng.randint(s + 1, snt)
            return s, e
        s = rng.randint(0, sim.written + 2)
        return s, rng.randint(s + 1, sim.written + 3)

    for step in range(nops):
        r = rng.random()
        if state["finished"] and r < 0.25:
            r = 0.3
        if step == 0 and rng.random() < 0.8:
            r = 0.0
        if r < 0.15 and to_write > 0:
            n = rng.randint(1, to_write) if rng.random() < 0.7 else to_write
            to_write -= n
            op = (0, [n])
        elif r < 0.17:
            op = (0, [0])
        elif r < 0.25:
            if pv_ok and rng.random() < 0.1 and sim.max_data > 0:
                op = (1, [rng.randint(0, sim.max_data - 1)])
            else:
                op = (1, [sim.max_data + rng.choice([0, 1, 2, rng.randint(0, total + 2), 2 ** 40])])
        elif r < 0.55:
            capv = small() if rng.random() < 0.85 else rng.choice([total + 5, 2 ** 20, 2 ** 64 - 1])
            if pv_ok and rng.random() < 0.05:
                capv = 0
            if crypto:
                flow = 2 ** 64 - 1
            else:
                flow = rng.choice([0, 1, 2, small(), small(), total + 3, 2 ** 64 - 1])
            q = rng.random()
            blk = BIG if q < 0.8 else (0 if q < 0.84 else rng.randint(0, total + 1))
            op = (2, [capv, flow, blk])
        elif r < 0.93:
            rg = some_range()
            if rg is None:
                op = (2, [small(), small(), BIG])
            else:
                op = (3 if r < 0.75 else 4, list(rg))
        elif r < 0.97:
            op = (5, [])
        else:
            if forget_ok or sim.base == 0 and rng.random() < 0.3:
                op = (6, [])
            else:
                op = (5, [])
        ops.append(op)
        tag, a = op
        ok = True
        if tag == 0:
            sim.write(a[0])
        elif tag == 1:
            ok = sim.extend(a[0])
        elif tag == 2:
            p = sim.predict_pick(*a)
            if p == "pv":
                ok = False
            elif p is not None:
                sim.apply_pick(p[0], p[1])
                picks.append((p[0], p[1]))
        elif tag == 3:
            ok = sim.ack(*a)
        elif tag == 4:
            ok = sim.loss(*a)
        elif tag == 5:
            sim.resend()
        elif tag == 6:
            sim.forget()
            stale_picks += picks
            picks = []
        if not ok:
            if rng.random() < 0.7:
                break
            ops.append((2, [3, 3, BIG]))
            break
    # drain: pick everything, ack everything (completion is reached in many cases)
    if rng.random() < 0.5:
        for _ in range(rng.randint(1, 4)):
            ops.append((2, [rng.choice([2, 5, total + 1]), total + 1, BIG]))
        if sim.written > 0:
            ops.append((3, [0, rng.randint(1, sim.written)]))
    return Case(name, ops, cfg=[cap])


def gen_random(rng, n, prefix):
    return [gen_one(rng, "%s%d" % (prefix, i)) for i in range(n)]


def gen_exhaustive(Lb, depth, prefix, setups, caps=(1, 2), with_resend=True, limit=None):
    """every sequence of `depth` operations (legal for the byte-level reference, plus the sequences that end in their first
    illegal operation when it is the last one) over a buffer of Lb bytes, after each of the given setup prefixes"""
    ranges = [(s, e) for s in range(Lb + 1) for e in range(s + 1, Lb + 1)]
    alphabet = [(2, [c, Lb, BIG]) for c in caps] + [(2, [Lb, Lb, BIG])] + [(3, list(r)) for r in ranges] + [(4, list(r)) for r in ranges]
    if with_resend:
        alphabet.append((5, []))
    cases = []

    def legal(sim, op):
        tag, a = op
        if tag in (3, 4):
            return sim.range_legal(a[0], a[1])
        return True

    def clone(sim):
        s2 = Sim(sim.max_data)
        s2.written, s2.size, s2.base = sim.written, sim.size, sim.base
        s2.col, s2.acked = bytearray(sim.col), bytearray(sim.acked)
        return s2

    def apply(sim, op):
        tag, a = op
        if tag == 1:
            sim.extend(a[0])
        elif tag == 6:
            sim.forget()
        elif tag == 2:
            p = sim.predict_pick(*a)
            if isinstance(p, tuple):
                sim.apply_pick(p[0], p[1])
        elif tag == 3:
            sim.ack(*a)
        elif tag == 4:
            sim.loss(*a)
        elif tag == 5:
            sim.resend()

    def rec(sim, ops, d):
        if limit is not None and len(cases) >= limit:
            return
        if d == 0:
            cases.append(Case("%s%d" % (prefix, len(cases)), list(ops) + [(2, [Lb, Lb, BIG])], cfg=[Lb]))
            return
        for op in alphabet:
            if not legal(sim, op):
                continue
            s2 = clone(sim)
            apply(s2, op)
            ops.append(op)
            rec(s2, ops, d - 1)
            ops.pop()

    for setup in setups:
        sim = Sim(Lb)
        for op in setup:
            if op[0] == 0:
                sim.write(op[1][0])
            else:
                apply(sim, op)
        rec(sim, list(setup), depth)
    return cases


def setups_for(Lb):
    w = (0, [Lb])
    p = lambda c: (2, [c, Lb, BIG])
    return [
        [w, p(Lb)],                                  # everything in flight
        [w, p(2), p(2)],                             # part in flight, part pending
        [w, p(Lb), (4, [1, Lb - 1]), (3, [0, 1])],   # R L F
        [w, p(Lb), (4, [0, 2]), (4, [3, Lb]), (5, [])] if Lb >= 4 else [w, p(Lb), (5, [])],   # unmerged Lost neighbours
        [w, p(Lb), (6, []), (1, [Lb]), p(1)],        # 0-RTT rejection: everything forgotten, one byte sent again
    ]


def gen_rejection(rng, n, prefix):
    """0-RTT rejection as the connection plays it (finding F70): data written and partly sent under the remembered window
    (a few picks = the STREAM frames of the 0-RTT packets, possibly one lost and re-sent), then forget_sent_state + extend to
    the server's window (smaller or larger), then - interleaved - the loss reports (always, that is what loss detection does
    with the rejected packets) and sometimes acknowledgements (a misbehaving server) of the OLD frames, whole / split / joined,
    new picks with other capacities, acknowledgements and losses of the new picks, more writes; finally everything is
    sent and acknowledged"""
    out = []
    for i in range(n):
        total = rng.choice([rng.randint(2, 12), rng.randint(13, 200), rng.randint(201, 1500)])
        cap0 = rng.choice([total, total + 5, max(1, total // 2), max(1, total - 1)])
        sim = Sim(cap0)
        first = rng.randint(1, total)
        ops = [(0, [first])]
        sim.write(first)
        old = []
        flow = 2 ** 64 - 1 if rng.random() < 0.5 else max(1, total // 2)
        for _ in range(rng.randint(1, 4)):
            op = (2, [rng.choice([1, 2, 3, max(1, total // 3), total]), flow, BIG])
            pr = sim.predict_pick(*op[1])
            ops.append(op)
            if isinstance(pr, tuple):
                sim.apply_pick(pr[0], pr[1])
                old.append((pr[0], pr[1]))
            if old and rng.random() < 0.2:
                rg = rng.choice(old)
                ops.append((4, list(rg)))
                sim.loss(*rg)
        if first < total and rng.random() < 0.5:
            ops.append((0, [total - first]))
            sim.write(total - first)
        ops.append((6, []))
        sim.forget()
        neww = rng.choice([0, 1, max(1, total // 3), total, total + 7, 2 ** 40])
        ops.append((1, [neww]))
        sim.extend(neww)
        new = []
        for _ in range(rng.randint(3, 14)):
            r = rng.random()
            if r < 0.40 and old:
                s0, e0 = rng.choice(old)
                q = rng.random()
                if q < 0.2 and e0 - s0 >= 2:
                    m = rng.randint(s0 + 1, e0 - 1)
                    s0, e0 = (s0, m) if rng.random() < 0.5 else (m, e0)
                elif q < 0.35:
                    s1, e1 = rng.choice(old)
                    s0, e0 = min(s0, s1), max(e0, e1)
                op = (4 if rng.random() < 0.7 else 3, [s0, e0])
            elif r < 0.75:
                op = (2, [rng.choice([1, 2, 5, max(1, total // 4), total + 1]), rng.choice([1, 3, total + 1, 2 ** 64 - 1]), BIG])
            elif r < 0.87 and new:
                rg = rng.choice(new)
                op = (3 if rng.random() < 0.7 else 4, list(rg))
            elif r < 0.93:
                op = (1, [sim.max_data + rng.choice([1, 5, total])])
            elif sim.written < total:
                op = (0, [total - sim.written])
            else:
                op = (5, [])
            ops.append(op)
            t, a = op
            if t == 0:
                sim.write(a[0])
            elif t == 1:
                sim.extend(a[0])
            elif t == 2:
                pr = sim.predict_pick(*a)
                if isinstance(pr, tuple):
                    sim.apply_pick(pr[0], pr[1])
                    new.append((pr[0], pr[1]))
            elif t == 3:
                sim.ack(*a)
            elif t == 4:
                sim.loss(*a)
            elif t == 5:
                sim.resend()
        if sim.written < total:
            ops.append((0, [total - sim.written]))
        ops.append((1, [max(sim.max_data, total + 1)]))
        for _ in range(3):
            ops.append((2, [total + 1, total + 1, BIG]))
        ops.append((3, [0, total]))
        out.append(Case("%s%d" % (prefix, i), ops, cfg=[cap0]))
    return out


def gen(rng, tier):
    if tier == "quick":
        s3 = setups_for(3)
        return (gen_exhaustive(4, 2, "ex4-", setups_for(4)) + gen_exhaustive(3, 3, "ex3-", s3[:3] + s3[4:], caps=(1,))
                + gen_rejection(rng, 1500, "rej") + gen_random(rng, 6000, "r"))
    s3 = setups_for(3)
    return (gen_exhaustive(6, 3, "ex6-", setups_for(6)) + gen_exhaustive(4, 4, "ex4-", setups_for(4), caps=(1,))
            + gen_exhaustive(3, 5, "ex3-", s3[:2] + s3[4:], caps=(1,), limit=200000)
            + gen_rejection(rng, 15000, "rej") + gen_random(rng, 40000, "r"))


def mutate(rng, case, j):
    ops = [(t, list(a)) for t, a in case.ops]
    total = sum(a[0] for t, a in ops if t == 0) + 2
    for _ in range(rng.randint(1, 3)):
        r = rng.random()
        if r < 0.4 and ops:
            k = rng.randrange(len(ops))
            t, a = ops[k]
            if t in (3, 4):
                a[0] = max(0, a[0] + rng.randint(-1, 1))
                a[1] = max(a[0] + 1, a[1] + rng.randint(-1, 1))
            elif t == 2:
                a[0] = max(1, a[0] + rng.randint(-1, 2))
        elif r < 0.6:
            ops.insert(rng.randint(0, len(ops)), (2, [rng.randint(1, 4), rng.randint(0, 4), BIG]))
        elif r < 0.8:
            s = rng.randint(0, total)
            ops.insert(rng.randint(0, len(ops)), (rng.choice([3, 4]), [s, rng.randint(s + 1, total + 1)]))
        elif r < 0.9:
            ops.insert(rng.randint(0, len(ops)), (5, []))
        else:
            ops.insert(rng.randint(0, len(ops)), (0, [rng.randint(1, 4)]))
    ops.append((2, [64, 64, BIG]))
    return Case("m%d" % j, ops, cfg=case.cfg)


STREAMS = [{
    "name": "sndbuf", "pkg": "hr", "bin": "impl_sndbuf",
    "gen": gen, "oracle": oracle, "nontrivial": nontrivial, "hist": hist, "mutate": mutate, "classify": classify,
    "profiles": ("debug",), "profiles_thorough": ("debug",),
    "rule": RULE,
}]
