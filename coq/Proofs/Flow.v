(* Proofs about Model/Flow.v: the connection-level send budget and the advertised receive limit. *)
From Coq Require Import List NArith ZArith Bool Lia.
From GQ Require Import Model.Flow.
Import ListNotations.
Local Open Scope N_scope.
Arguments N.add : simpl never.
Arguments N.sub : simpl never.
Arguments N.min : simpl never.
Arguments N.max : simpl never.
Arguments N.div : simpl never.
Arguments N.pow : simpl never.

(* ---------------------------------------------------------------- send side *)
Inductive sop :=
| SCredit (quota : N)            (* ArcSendControler::credit *)
| SPost (i : nat) (n : N)        (* Credit::post_sent on the i-th credit *)
| SDrop (i : nat)                (* drop of the i-th credit *)
| SIncrease (v : N)              (* MAX_DATA frame *)
| SRevise (rejected : bool) (v : N).

Fixpoint outstanding (l : list (option N)) : N :=
  match l with
  | [] => 0
  | Some v :: t => v + outstanding t
  | None :: t => outstanding t
  end.

(* controller, outstanding credits (None = dropped), and the two quantities the property speaks
   about (they are not state of the Rust): [ss_posted] = bytes posted as fresh since the last
   rejected 0-RTT attempt (since the beginning if there was none: a rejection discards everything
   sent so far and the server's new initial_max_data counts from zero); [ss_slack] = the unused
   budget that Credits taken BEFORE the last rejection still held at that moment (0 when no Credit
   is alive across a rejection, which is how DataStreams uses the controller: the Credit lives
   inside try_load_data_into) *)
Record sst := mkss { ss_c : sctl; ss_cr : list (option N); ss_posted : N; ss_slack : N }.

(* None = an arithmetic panic of the Rust (u64 underflow).  [fx]: see Model/Flow.v sc_revise_with *)
Definition s_step (fx : bool) (st : sst) (o : sop) : option sst :=
  match o with
  | SCredit q =>
    match sc_credit (ss_c st) q with
    | Some (c', av, _) => Some (mkss c' (ss_cr st ++ [Some av]) (ss_posted st) (ss_slack st))
    | None => None
    end
  | SPost i n =>
    match nth_error (ss_cr st) i with
    | Some (Some av) =>
      match credit_post av n with
      | Some av' => Some (mkss (ss_c st) (set_nth (ss_cr st) i (Some av')) (ss_posted st + n) (ss_slack st))
      | None => None
      end
    | _ => Some st
    end
  | SDrop i =>
    match nth_error (ss_cr st) i with
    | Some (Some av) =>
      match sc_return_back (ss_c st) av with
      | Some c' => Some (mkss c' (set_nth (ss_cr st) i None) (ss_posted st) (ss_slack st))
      | None => None
      end
    | _ => Some st
    end
  | SIncrease v => Some (mkss (sc_increase_limit (ss_c st) v) (ss_cr st) (ss_posted st) (ss_slack st))
  | SRevise false v => Some (mkss (sc_revise_with fx (ss_c st) false v) (ss_cr st) (ss_posted st) (ss_slack st))
  | SRevise true v => Some (mkss (sc_revise_with fx (ss_c st) true v) (ss_cr st) 0 (outstanding (ss_cr st)))
  end.

Fixpoint s_exec (fx : bool) (st : sst) (ops : list sop) : option sst :=
  match ops with
  | [] => Some st
  | o :: rest => match s_step fx st o with Some st' => s_exec fx st' rest | None => None end
  end.

(* the accounting identity: every charged byte is either posted as fresh or still held by a live
   credit (up to the budget that straddled the last rejection); and the charge never exceeds the
   limit, so `max_data - sent_data` cannot underflow *)
Definition Sinv (st : sst) : Prop :=
  sent_data (ss_c st) + ss_slack st = ss_posted st + outstanding (ss_cr st)
  /\ sent_data (ss_c st) <= max_data (ss_c st).

(* the only step at which the limit may legitimately go down *)
Definition sop_ok (o : sop) : Prop := match o with SRevise true _ => False | _ => True end.

Lemma outstanding_app l x : outstanding (l ++ [Some x]) = outstanding l + x.
Proof. induction l as [|[v|] t IH]; cbn [outstanding app]; lia. Qed.

Lemma outstanding_set l i av v :
  nth_error l i = Some (Some av) ->
  outstanding (set_nth l i v) + av = outstanding l + match v with Some x => x | None => 0 end.
Proof.
  revert i. induction l as [|h t IH]; intros [|i] H; cbn in H; try discriminate.
  - inversion H; subst. cbn [set_nth outstanding]. destruct v; lia.
  - cbn [set_nth]. specialize (IH i H). destruct h; cbn [outstanding]; lia.
Qed.

Lemma outstanding_nth l i av : nth_error l i = Some (Some av) -> av <= outstanding l.
Proof.
  revert i. induction l as [|h t IH]; intros [|i] E; cbn in E; try discriminate.
  - inversion E; subst. cbn [outstanding]. lia.
  - specialize (IH i E). destruct h; cbn [outstanding]; lia.
Qed.

(* the repaired controller keeps the invariant along EVERY step, a rejected handshake included *)
Lemma Sinv_step st o st' : Sinv st -> s_step true st o = Some st' -> Sinv st'.
Proof.
  intros [Hs Hle] H. destruct o as [q|i n|i|v|rej v]; cbn [s_step] in H.
  - unfold sc_credit, sc_available in H.
    destruct (N.leb_spec (sent_data (ss_c st)) (max_data (ss_c st))); [|lia].
    unfold sc_commit, sc_available in H. cbn [sent_data max_data flow_limited] in H.
    set (qq := N.min (max_data (ss_c st) - sent_data (ss_c st)) q) in *.
    assert (Hq : qq <= max_data (ss_c st) - sent_data (ss_c st)) by (unfold qq; lia).
    clearbody qq.
    destruct (N.leb_spec (sent_data (ss_c st) + qq) (max_data (ss_c st))); [|lia].
    destruct ((max_data (ss_c st) - (sent_data (ss_c st) + qq) =? 0) && negb (flow_limited (ss_c st)));
      inversion H; subst; unfold Sinv; cbn [ss_c ss_cr ss_posted ss_slack sent_data max_data];
      rewrite outstanding_app; lia.
  - destruct (nth_error (ss_cr st) i) as [[av|]|] eqn:E; try (inversion H; subst; split; assumption).
    unfold credit_post in H. destruct (N.leb_spec n av); [|discriminate].
    inversion H; subst. unfold Sinv. cbn [ss_c ss_cr ss_posted ss_slack].
    pose proof (outstanding_set _ _ _ (Some (av - n)) E) as H1. cbn in H1. lia.
  - destruct (nth_error (ss_cr st) i) as [[av|]|] eqn:E; try (inversion H; subst; split; assumption).
    unfold sc_return_back in H. destruct (N.leb_spec av (sent_data (ss_c st))); [|discriminate].
    unfold sc_available in H. cbn [sent_data max_data] in H.
    destruct (N.leb_spec (sent_data (ss_c st) - av) (max_data (ss_c st))); [|discriminate].
    inversion H; subst. unfold Sinv. cbn [ss_c ss_cr ss_posted ss_slack sent_data max_data].
    pose proof (outstanding_set _ _ _ None E) as H2. cbn in H2. lia.
  - inversion H; subst. unfold Sinv, sc_increase_limit. cbn [ss_c ss_cr ss_posted ss_slack].
    destruct (N.ltb_spec (max_data (ss_c st)) v); cbn [sent_data max_data]; lia.
  - destruct rej; inversion H; subst; unfold Sinv, sc_revise_with, sc_increase_limit;
      cbn [ss_c ss_cr ss_posted ss_slack sent_data max_data flow_limited].
    + destruct (N.ltb_spec 0 v); cbn [sent_data max_data]; lia.
    + destruct (N.ltb_spec (max_data (ss_c st)) v); cbn [sent_data max_data]; lia.
Qed.

(* under the invariant the controller itself never hits an arithmetic panic: the only ways to get
   None are a caller posting more than the credit it holds, or a caller returning a Credit whose
   unused budget was taken before a rejection (then ss_slack > 0) *)
Lemma s_step_total st o :
  Sinv st -> s_step true st o = None ->
  exists i av, nth_error (ss_cr st) i = Some (Some av)
               /\ ((exists n, o = SPost i n /\ av < n)
                   \/ (o = SDrop i /\ sent_data (ss_c st) < av /\ 0 < ss_slack st)).
Proof.
  intros [Hs Hle] H. destruct o as [q|i n|i|v|rej v]; cbn [s_step] in H; try discriminate.
  - exfalso. unfold sc_credit, sc_available in H.
    destruct (N.leb_spec (sent_data (ss_c st)) (max_data (ss_c st))); [|lia].
    unfold sc_commit, sc_available in H. cbn [sent_data max_data flow_limited] in H.
    set (qq := N.min (max_data (ss_c st) - sent_data (ss_c st)) q) in *.
    assert (Hq : qq <= max_data (ss_c st) - sent_data (ss_c st)) by (unfold qq; lia).
    clearbody qq.
    destruct (N.leb_spec (sent_data (ss_c st) + qq) (max_data (ss_c st))); [|lia].
    destruct ((max_data (ss_c st) - (sent_data (ss_c st) + qq) =? 0) && negb (flow_limited (ss_c st)));
      discriminate.
  - destruct (nth_error (ss_cr st) i) as [[av|]|] eqn:E; try discriminate.
    unfold credit_post in H. destruct (N.leb_spec n av); [discriminate|].
    exists i, av. split; [exact E|]. left. exists n. auto.
  - destruct (nth_error (ss_cr st) i) as [[av|]|] eqn:E; try discriminate.
    pose proof (outstanding_nth _ _ _ E) as Hav.
    exists i, av. split; [exact E|]. right. split; [reflexivity|].
    unfold sc_return_back in H. destruct (N.leb_spec av (sent_data (ss_c st))).
    + exfalso. unfold sc_available in H. cbn [sent_data max_data] in H.
      destruct (N.leb_spec (sent_data (ss_c st) - av) (max_data (ss_c st))); [discriminate|lia].
    + split; lia.
  - destruct rej; discriminate.
Qed.

Definition s_init (initial : N) : sst := mkss (sctl_new initial) [] 0 0.

Lemma Sinv_init m : Sinv (s_init m).
Proof. unfold Sinv, s_init, sctl_new. cbn. lia. Qed.

Lemma Sinv_exec ops st0 st : Sinv st0 -> s_exec true st0 ops = Some st -> Sinv st.
Proof.
  revert st0. induction ops as [|o rest IH]; intros s0 I0 H; cbn [s_exec] in H.
  - inversion H; subst; assumption.
  - destruct (s_step true s0 o) eqn:E; [|discriminate]. eapply IH; [|exact H]. eapply Sinv_step; eauto.
Qed.

(* full strength: every op list, rejected handshakes included *)
Lemma p_c11_conn_limit ops m st :
  s_exec true (s_init m) ops = Some st ->
  Sinv st /\ ss_posted st <= max_data (ss_c st) + ss_slack st
  /\ sc_available (ss_c st) = Some (max_data (ss_c st) - sent_data (ss_c st))
  /\ (ss_slack st = 0 -> outstanding (ss_cr st) = 0 -> sent_data (ss_c st) = ss_posted st).
Proof.
  intros H. pose proof (Sinv_exec ops _ _ (Sinv_init m) H) as I.
  split; [exact I|]. destruct I as [Hs Hle].
  split; [lia|]. split.
  - unfold sc_available. destruct (N.leb_spec (sent_data (ss_c st)) (max_data (ss_c st))); [reflexivity|lia].
  - intros Hk Hz. lia.
Qed.

(* ss_slack is 0 unless a Credit held unused budget at the moment of a rejection *)
Definition quiet_step (st : sst) (o : sop) : Prop :=
  match o with SRevise true _ => outstanding (ss_cr st) = 0 | _ => True end.

Lemma slack_step fx st o st' : s_step fx st o = Some st' -> ss_slack st = 0 -> quiet_step st o -> ss_slack st' = 0.
Proof.
  intros H Z Q. destruct o as [q|i n|i|v|rej v]; cbn [s_step] in H.
  - destruct (sc_credit (ss_c st) q) as [[[c' av] b]|]; inversion H; subst; exact Z.
  - destruct (nth_error (ss_cr st) i) as [[av|]|]; try (inversion H; subst; exact Z).
    destruct (credit_post av n); inversion H; subst; exact Z.
  - destruct (nth_error (ss_cr st) i) as [[av|]|]; try (inversion H; subst; exact Z).
    destruct (sc_return_back (ss_c st) av); inversion H; subst; exact Z.
  - inversion H; subst; exact Z.
  - destruct rej; inversion H; subst; cbn [ss_slack]; [exact Q|exact Z].
Qed.

Fixpoint s_quiet (fx : bool) (st : sst) (ops : list sop) : Prop :=
  match ops with
  | [] => True
  | o :: rest => quiet_step st o /\ match s_step fx st o with Some st' => s_quiet fx st' rest | None => True end
  end.

(* the statement in the form "fresh bytes since the last rejection <= most recent limit", for
   callers that never keep a Credit across a rejected handshake *)
Lemma p_c11_conn_limit_quiet ops m st :
  s_quiet true (s_init m) ops -> s_exec true (s_init m) ops = Some st ->
  ss_slack st = 0 /\ sent_data (ss_c st) = ss_posted st + outstanding (ss_cr st)
  /\ ss_posted st <= max_data (ss_c st).
Proof.
  intros Q H.
  assert (Z : ss_slack st = 0).
  { assert (Z0 : ss_slack (s_init m) = 0) by reflexivity. revert Z0 Q H. generalize (s_init m).
    induction ops as [|o rest IH]; intros s0 Z0 Q H; cbn [s_exec s_quiet] in *.
    - inversion H; subst; exact Z0.
    - destruct Q as [Q1 Q2]. destruct (s_step true s0 o) as [s1|] eqn:E; [|discriminate].
      eapply IH; [|exact Q2|exact H]. eapply slack_step; eauto. }
  destruct (p_c11_conn_limit ops m st H) as ([Hs Hle] & Hp & _). lia.
Qed.

(* no panic along the way either, as long as callers post within their credit and do not return
   a Credit taken before a rejection *)
Lemma p_c11_conn_no_underflow ops m :
  s_exec true (s_init m) ops = None ->
  exists pre o rest st i av,
    ops = pre ++ o :: rest /\ s_exec true (s_init m) pre = Some st
    /\ nth_error (ss_cr st) i = Some (Some av)
    /\ ((exists n, o = SPost i n /\ av < n)
        \/ (o = SDrop i /\ sent_data (ss_c st) < av /\ 0 < ss_slack st)).
Proof.
  pose proof (Sinv_init m) as I0. revert I0. generalize (s_init m).
  induction ops as [|o rest IH]; intros s0 I0 H; cbn [s_exec] in H; [discriminate|].
  destruct (s_step true s0 o) as [s1|] eqn:E.
  - destruct (IH s1 (Sinv_step _ _ _ I0 E) H) as (pre & o' & rest' & st & i & av & -> & Hp & Hn & Hl).
    exists (o :: pre), o', rest', st, i, av. cbn [app s_exec]. rewrite E. auto.
  - destruct (s_step_total _ _ I0 E) as (i & av & Hn & Hl).
    exists [], o, rest, s0, i, av. cbn. auto.
Qed.

(* as it was (F34): the same history - every credit returned before the rejection, nobody posts
   beyond a credit - ends in the arithmetic panic of credit() *)
Lemma p_c11_conn_limit_asis_refuted :
  exists ops m st,
    s_exec false (s_init m) ops = Some st /\ ss_slack st = 0 /\ outstanding (ss_cr st) = 0
    /\ ~ sent_data (ss_c st) <= max_data (ss_c st)
    /\ s_step false st (SCredit 10) = None
    /\ exists st', s_exec true (s_init m) (ops ++ [SCredit 10]) = Some st'.
Proof.
  exists [SCredit 800; SPost 0 800; SDrop 0; SRevise true 500], 1000.
  eexists. split; [vm_compute; reflexivity|].
  split; [reflexivity|]. split; [reflexivity|]. split; [cbn; lia|].
  split; [vm_compute; reflexivity|]. eexists. vm_compute. reflexivity.
Qed.

(* a retransmission is posted as 0 fresh bytes: it moves nothing *)
Lemma p_c11_retransmission_free fx st i st' :
  s_step fx st (SPost i 0) = Some st' -> ss_posted st' = ss_posted st /\ ss_c st' = ss_c st.
Proof.
  cbn [s_step]. destruct (nth_error (ss_cr st) i) as [[av|]|]; intro H.
  - unfold credit_post in H. destruct (N.leb_spec 0 av); [|lia]. inversion H; subst. cbn. split; [lia|reflexivity].
  - inversion H; subst; auto.
  - inversion H; subst; auto.
Qed.

(* the limit only grows, except at a rejection (where the server's new value replaces it) *)
Lemma p_c11_send_limit_monotone fx st o st' :
  sop_ok o -> s_step fx st o = Some st' -> max_data (ss_c st) <= max_data (ss_c st').
Proof.
  intros OK H. destruct o as [q|i n|i|v|rej v]; cbn [s_step] in H.
  - unfold sc_credit in H. destruct (sc_available (ss_c st)); [|discriminate].
    unfold sc_commit in H. destruct (sc_available _); [|discriminate].
    destruct (_ && _); inversion H; subst; cbn; lia.
  - destruct (nth_error (ss_cr st) i) as [[av|]|]; try (inversion H; subst; lia).
    destruct (credit_post av n); inversion H; subst; cbn; lia.
  - destruct (nth_error (ss_cr st) i) as [[av|]|]; try (inversion H; subst; lia).
    unfold sc_return_back in H. destruct (av <=? sent_data (ss_c st)); [|discriminate].
    destruct (sc_available _); inversion H; subst; cbn; lia.
  - inversion H; subst. cbn. unfold sc_increase_limit.
    destruct (N.ltb_spec (max_data (ss_c st)) v); cbn; lia.
  - destruct rej; [contradiction|]. inversion H; subst. cbn. unfold sc_revise_with, sc_increase_limit.
    destruct (N.ltb_spec (max_data (ss_c st)) v); cbn; lia.
Qed.

(* at a rejection the limit becomes exactly the server's new value and the charge restarts *)
Lemma p_c11_revise_rejected s v :
  max_data (sc_revise s true v) = v /\ sent_data (sc_revise s true v) = 0
  /\ sent_data (sc_revise_asis s true v) = sent_data s.
Proof.
  unfold sc_revise, sc_revise_asis, sc_revise_with, sc_increase_limit. cbn [max_data sent_data].
  destruct (N.ltb_spec 0 v); cbn [max_data sent_data]; split; try split; try reflexivity; lia.
Qed.

(* ---------------------------------------------------------------- receive side *)
Fixpoint r_exec (s : rctl) (amounts : list N) : rctl * list rcv_res :=
  match amounts with
  | [] => (s, [])
  | a :: rest =>
    let '(s1, r) := on_new_rcvd s a in
    let '(s2, rs) := r_exec s1 rest in (s2, r :: rs)
  end.

(* cumulative new data beyond the advertised limit is a flow-control error; within it, it is not *)
Lemma p_c11_recv_detects_conn s a :
  (rmax_data s < rcvd_data s + a -> snd (on_new_rcvd s a) = RcvFlowControl)
  /\ (rcvd_data s + a <= rmax_data s -> snd (on_new_rcvd s a) <> RcvFlowControl).
Proof.
  unfold on_new_rcvd. split; intro H.
  - destruct (N.leb_spec (rcvd_data s + a) (rmax_data s)); [lia|reflexivity].
  - destruct (N.leb_spec (rcvd_data s + a) (rmax_data s)); [|lia].
    destruct (rmax_data s <=? rcvd_data s + a + rstep s); [destruct (VARINT_MAX <? _)|]; cbn; discriminate.
Qed.

(* the advertised MAX_DATA never decreases, and a MAX_DATA frame carries the new limit *)
Lemma p_c11_advertised_monotone_step s a :
  rmax_data s <= rmax_data (fst (on_new_rcvd s a))
  /\ (forall m, snd (on_new_rcvd s a) = RcvOk (Some m) -> m = rmax_data (fst (on_new_rcvd s a)) /\ rmax_data s <= m)
  /\ rstep (fst (on_new_rcvd s a)) = rstep s
  /\ rcvd_data (fst (on_new_rcvd s a)) = rcvd_data s + a.
Proof.
  unfold on_new_rcvd.
  destruct (N.leb_spec (rcvd_data s + a) (rmax_data s)).
  - destruct (N.leb_spec (rmax_data s) (rcvd_data s + a + rstep s)).
    + destruct (N.ltb_spec VARINT_MAX (rmax_data s + rstep s)); cbn [fst snd rmax_data rstep rcvd_data];
      (split; [lia|]); (split; [intros m Hm; inversion Hm; subst; lia|]); auto.
    + cbn [fst snd rmax_data rstep rcvd_data]. split; [lia|]. split; [intros m Hm; discriminate|]. auto.
  - cbn [fst snd rmax_data rstep rcvd_data]. split; [lia|]. split; [intros m Hm; discriminate|]. auto.
Qed.

Lemma p_c11_advertised_monotone s amounts :
  rmax_data s <= rmax_data (fst (r_exec s amounts)).
Proof.
  revert s. induction amounts as [|a rest IH]; intro s; cbn [r_exec]; [cbn; lia|].
  pose proof (p_c11_advertised_monotone_step s a) as (H1 & _).
  destruct (on_new_rcvd s a) as [s1 r] eqn:E. cbn [fst] in H1.
  specialize (IH s1). destruct (r_exec s1 rest) as [s2 rs]. cbn [fst] in *. lia.
Qed.

(* the VarInt `expect` in on_new_rcvd cannot fire while rcvd + initial stays below 2^62 *)
Lemma p_c11_recv_no_panic init amounts :
  let s := fst (r_exec (rctl_new init) amounts) in
  rmax_data s <= init + rcvd_data s + 2 * (init / 2) .
Proof.
  assert (G : forall amounts s, rmax_data s <= init + rcvd_data s + 2 * rstep s -> rstep s = init / 2 ->
                                 let s' := fst (r_exec s amounts) in
                                 rmax_data s' <= init + rcvd_data s' + 2 * rstep s' /\ rstep s' = init / 2).
  { induction amounts0 as [|a rest IH]; intros s H Hs; cbn [r_exec]; [cbn; auto|].
    pose proof (p_c11_advertised_monotone_step s a) as (_ & _ & Hst & Hr).
    assert (Hm : rmax_data (fst (on_new_rcvd s a)) <= init + rcvd_data (fst (on_new_rcvd s a)) + 2 * rstep s).
    { rewrite Hr. unfold on_new_rcvd.
      destruct (N.leb_spec (rcvd_data s + a) (rmax_data s));
      [destruct (N.leb_spec (rmax_data s) (rcvd_data s + a + rstep s));
       [destruct (N.ltb_spec VARINT_MAX (rmax_data s + rstep s))|]|]; cbn [fst rmax_data]; lia. }
    destruct (on_new_rcvd s a) as [s1 r] eqn:E. cbn [fst] in *.
    specialize (IH s1). rewrite Hst in IH. specialize (IH Hm Hs).
    destruct (r_exec s1 rest) as [s2 rs]. cbn [fst] in *. exact IH. }
  intro s. destruct (G amounts (rctl_new init)) as [H1 H2].
  - unfold rctl_new; cbn [rmax_data rcvd_data rstep]. generalize (init / 2); intro x; lia.
  - reflexivity.
  - fold s in H1, H2. rewrite H2 in H1. exact H1.
Qed.

(* ---------------------------------------------------------------- specs used by the composed model *)
Lemma sc_credit_spec s quota :
  sent_data s <= max_data s ->
  exists s' blk, sc_credit s quota = Some (s', N.min (max_data s - sent_data s) quota, blk)
                 /\ sent_data s' = sent_data s + N.min (max_data s - sent_data s) quota
                 /\ max_data s' = max_data s.
Proof.
  intro H. unfold sc_credit, sc_available.
  destruct (N.leb_spec (sent_data s) (max_data s)); [|lia].
  set (q := N.min (max_data s - sent_data s) quota).
  assert (Hq : q <= max_data s - sent_data s) by (unfold q; lia). clearbody q.
  unfold sc_commit, sc_available. cbn [sent_data max_data flow_limited].
  destruct (N.leb_spec (sent_data s + q) (max_data s)); [|lia].
  destruct ((max_data s - (sent_data s + q) =? 0) && negb (flow_limited s)); eexists _, _; cbn; eauto.
Qed.

Lemma sc_return_spec s x :
  x <= sent_data s -> sent_data s - x <= max_data s ->
  sc_return_back s x = Some (mksctl (sent_data s - x) (max_data s) (flow_limited s)).
Proof.
  intros H1 H2. unfold sc_return_back, sc_available. cbn [sent_data max_data].
  destruct (N.leb_spec x (sent_data s)); [|lia].
  destruct (N.leb_spec (sent_data s - x) (max_data s)); [reflexivity|lia].
Qed.
