(* C04 — proofs about the connection-ID cost models (Model/C04Cid.v). *)
From Coq Require Import List ZArith Bool Lia.
From GQ Require Import Model.C04Cid.
Import ListNotations.
Local Open Scope Z_scope.

Lemma zlen_nonneg {A} (l : list A) : 0 <= zlen l.
Proof. unfold zlen. lia. Qed.
Lemma zlen_app {A} (a b : list A) : zlen (a ++ b) = zlen a + zlen b.
Proof. unfold zlen. rewrite app_length. lia. Qed.
Lemma zlen_repeat {A} (x : A) n : zlen (repeat x n) = Z.of_nat n.
Proof. unfold zlen. now rewrite repeat_length. Qed.

(* ------------------------------------------------------------------ arrange_idle_cid *)
Lemma arrange_bounds : forall has pend cur n f r,
  arrange has pend cur = (n, f, r) ->
  0 <= n /\ 0 <= f <= n /\ n + zlen r = zlen pend.
Proof.
  induction pend as [|h rest IH]; intros cur n f r H; cbn [arrange] in H.
  - inversion H; subst. unfold zlen; cbn. lia.
  - destruct (has cur).
    + destruct (arrange has rest (cur + 1)) as [[n1 f1] r1] eqn:E. inversion H; subst.
      specialize (IH _ _ _ _ E). unfold zlen in *; cbn [length]. destruct h; cbn [b2z]; lia.
    + inversion H; subst. unfold zlen; cbn [length]. lia.
Qed.

(* ------------------------------------------------------------------ RemoteCids *)
Definition rc_wf (s : rcids) : Prop :=
  0 <= rc_off s /\ 0 <= rc_roff s /\ 0 <= rc_nready s /\ 0 <= rc_limit s /\ 0 <= rc_cursor s.

Lemma rc_gap_nonneg s seq : 0 <= rc_gap s seq.
Proof. unfold rc_gap. lia. Qed.

Lemma rc_popped_bounds s rpt : rc_wf s -> 0 <= rc_popped s rpt <= rc_nready s.
Proof.
  intros (H1 & H2 & H3 & H4 & H5). unfold rc_popped, rc_retires.
  destruct (rc_roff s <? rpt) eqn:E; [|lia]. apply Z.ltb_lt in E.
  destruct (rc_nready s =? 0) eqn:N; [apply Z.eqb_eq in N; lia|]. lia.
Qed.

Lemma rc_gap_frames_bounds s rpt : rc_wf s -> 0 <= rc_gap_frames s rpt <= Z.max 0 (rpt - rc_roff s).
Proof.
  intros (H1 & H2 & H3 & H4 & H5). unfold rc_gap_frames, rc_retires.
  destruct (rc_roff s <? rpt) eqn:E; [|lia]. apply Z.ltb_lt in E.
  destruct (rc_nready s =? 0); lia.
Qed.

Lemma rc_drained_bounds s seq rpt : rc_wf s -> rc_off s <= seq ->
  0 <= rc_drained s seq rpt <= Z.max 0 (rpt - rc_off s).
Proof.
  intros (H1 & H2 & H3 & H4 & H5) Hs. unfold rc_drained, rc_retires, rc_len_ins, rc_len.
  pose proof (zlen_nonneg (rc_cells s)).
  destruct (rc_roff s <? rpt); lia.
Qed.

(* the bound that DOES hold: linear in how far the sequence number and retire_prior_to jump *)
Lemma p_c04_new_cid_value_bound : forall s seq rpt,
  rc_wf s -> 0 <= rpt <= seq ->
  rc_new_cost s seq rpt <=
    Z.max 0 (seq - (rc_off s + rc_len s)) + Z.max 0 (rpt - rc_off s) + Z.max 0 (rpt - rc_roff s)
    + 2 * rc_nready s + zlen (rc_pending s) + 5.
Proof.
  intros s seq rpt W Hr. unfold rc_new_cost.
  destruct (rc_over_limit s seq rpt).
  { destruct W as (H1 & H2 & H3 & H4 & H5). pose proof (zlen_nonneg (rc_pending s)). lia. }
  destruct (seq <? rc_off s) eqn:Es.
  { destruct W as (H1 & H2 & H3 & H4 & H5). pose proof (zlen_nonneg (rc_pending s)). lia. }
  apply Z.ltb_ge in Es.
  destruct (arrange _ _ _) as [[n f] r] eqn:A.
  apply arrange_bounds in A. unfold rc_pending_after in A. rewrite zlen_app, zlen_repeat in A.
  pose proof (rc_popped_bounds s rpt W) as Hp.
  pose proof (rc_gap_frames_bounds s rpt W) as Hg.
  pose proof (rc_drained_bounds s seq rpt W Es) as Hd.
  pose proof (zlen_nonneg r). unfold rc_retire_cost, rc_gap.
  rewrite Z2Nat.id in A by lia. lia.
Qed.

(* outside the class of F10 (a jump of more than K) the cost is bounded by the state *)
Lemma p_c04_new_cid_cost : forall K s seq rpt,
  rc_wf s -> 0 <= rpt <= seq -> 0 <= K ->
  seq - (rc_off s + rc_len s) <= K -> rpt - rc_off s <= K -> rpt - rc_roff s <= K ->
  rc_new_cost s seq rpt <= 3 * K + 2 * rc_size s + 5.
Proof.
  intros K s seq rpt W Hr HK H1 H2 H3.
  pose proof (p_c04_new_cid_value_bound s seq rpt W Hr).
  unfold rc_size. pose proof (zlen_nonneg (rc_pending s)). pose proof (zlen_nonneg (rc_cells s)).
  unfold rc_len in *. destruct W as (W1 & W2 & W3 & W4 & W5). lia.
Qed.

Lemma p_c04_retire_prior_cost : forall K s seq rpt,
  rc_wf s -> rc_off s <= seq -> 0 <= K -> rpt - rc_off s <= K -> rpt - rc_roff s <= K ->
  rc_retire_cost s seq rpt <= 2 * K + rc_nready s + 1.
Proof.
  intros K s seq rpt W Hs HK H1 H2. unfold rc_retire_cost.
  pose proof (rc_popped_bounds s rpt W). pose proof (rc_gap_frames_bounds s rpt W).
  pose proof (rc_drained_bounds s seq rpt W Hs). lia.
Qed.

(* cost and frames grow with the VALUE: at least the gap, at least the retired numbers *)
Lemma rc_new_cost_lower : forall n, 2 <= n ->
  n - 1 <= rc_new_cost (rc_init 2) n n /\ n - 1 <= rc_new_frames (rc_init 2) n n.
Proof.
  intros n Hn. unfold rc_new_cost, rc_new_frames.
  assert (O : rc_over_limit (rc_init 2) n n = false).
  { unfold rc_over_limit, rc_init; cbn [rc_limit]. apply Z.ltb_ge. lia. }
  rewrite O. assert (S : (n <? rc_off (rc_init 2)) = false) by (apply Z.ltb_ge; cbn; lia). rewrite S.
  destruct (arrange _ _ _) as [[k f] r] eqn:A. apply arrange_bounds in A.
  assert (G : rc_gap (rc_init 2) n = n - 1) by (unfold rc_gap, rc_init, rc_len, zlen; cbn; lia).
  assert (F : rc_gap_frames (rc_init 2) n = n - 1).
  { unfold rc_gap_frames, rc_retires, rc_init; cbn [rc_roff rc_nready].
    destruct (0 <? n) eqn:E; [|apply Z.ltb_ge in E; lia]. cbn. lia. }
  pose proof (rc_drained_bounds (rc_init 2) n n) as D. unfold rc_retire_cost.
  assert (W : rc_wf (rc_init 2)) by (unfold rc_wf, rc_init; cbn; lia).
  specialize (D W ltac:(cbn; lia)). pose proof (rc_popped_bounds (rc_init 2) n W). lia.
Qed.

(* REFUTED: no linear bound in frame bytes + tracked state (a NEW_CONNECTION_ID frame is at most
   1 + 8 + 8 + 1 + 20 + 16 = 54 bytes; the fresh state holds 2 cells) *)
Lemma p_c04_new_cid_cost_refuted : forall c c', 0 <= c -> 0 <= c' ->
  exists seq rpt, 0 <= rpt <= seq /\ seq - rpt <= rc_limit (rc_init 2) /\
    c * (54 + rc_size (rc_init 2)) + c' < rc_new_cost (rc_init 2) seq rpt /\
    c * (54 + rc_size (rc_init 2)) + c' < rc_new_frames (rc_init 2) seq rpt.
Proof.
  intros c c' Hc Hc'. exists (c * 56 + c' + 2), (c * 56 + c' + 2).
  pose proof (rc_new_cost_lower (c * 56 + c' + 2) ltac:(lia)) as [L1 L2].
  assert (rc_size (rc_init 2) = 2) by reflexivity.
  cbn [rc_limit rc_init]. lia.
Qed.

(* the limit: more than active_cid_limit IDs between retire_prior_to and seq is an error, costs one
   comparison and changes nothing *)
Lemma p_c04_new_cid_limit : forall s seq rpt,
  rc_limit s < seq - rpt ->
  rc_new_err s seq rpt = E_CONNECTION_ID_LIMIT /\ rc_new_cost s seq rpt = 1 /\
  rc_new_frames s seq rpt = 0 /\ rc_new_apply s seq rpt = s.
Proof.
  intros s seq rpt H. unfold rc_new_err, rc_new_cost, rc_new_frames, rc_new_apply.
  assert (O : rc_over_limit s seq rpt = true) by (unfold rc_over_limit; apply Z.ltb_lt; lia).
  rewrite O. auto.
Qed.

(* the two forms of the handler agree: the deque the state transformer builds has exactly the
   cells the cost counted (gap filled, one pushed, the drained ones dropped) *)
Lemma set_nth_b_length : forall n l, length (set_nth_b n l) = length l.
Proof. induction n; destruct l; cbn; auto. Qed.

Lemma cells_insert_len : forall off cells seq, off <= seq ->
  zlen (cells_insert off cells seq) = Z.max (zlen cells) (seq - off + 1).
Proof.
  intros off cells seq H. unfold cells_insert.
  destruct (seq - off <? zlen cells) eqn:E.
  - apply Z.ltb_lt in E. unfold zlen in *. rewrite set_nth_b_length. lia.
  - apply Z.ltb_ge in E. rewrite !zlen_app, zlen_repeat. unfold zlen at 3; cbn [length].
    pose proof (zlen_nonneg cells). rewrite Z2Nat.id by lia. lia.
Qed.

Lemma p_c04_new_cid_cells : forall s seq rpt,
  rc_wf s -> 0 <= rpt <= seq -> rc_over_limit s seq rpt = false -> rc_off s <= seq ->
  rc_len (rc_new_apply s seq rpt) = rc_len s + rc_new_cells s seq rpt + (if rc_len s + rc_off s <=? seq then 1 else 0)
                                    - rc_drained s seq rpt /\
  rc_off (rc_new_apply s seq rpt) = rc_off_after s seq rpt.
Proof.
  intros s seq rpt W Hr O Hs. unfold rc_new_apply, rc_new_cells. rewrite O.
  assert (S : (seq <? rc_off s) = false) by (apply Z.ltb_ge; lia). rewrite S.
  destruct (arrange _ _ _) as [[n f] r] eqn:A. unfold rc_len at 1. cbn [rc_cells rc_off].
  pose proof (rc_drained_bounds s seq rpt W Hs) as D.
  pose proof (cells_insert_len (rc_off s) (rc_cells s) seq Hs) as L.
  assert (D2 : rc_drained s seq rpt <= zlen (cells_insert (rc_off s) (rc_cells s) seq)).
  { rewrite L. unfold rc_drained, rc_len_ins, rc_len. destruct (rc_retires s rpt); pose proof (zlen_nonneg (rc_cells s)); lia. }
  split; [|reflexivity].
  unfold zlen at 1. rewrite skipn_length. unfold zlen in D2, L. unfold rc_gap, rc_len, zlen.
  destruct (Z.of_nat (length (rc_cells s)) + rc_off s <=? seq) eqn:E;
    [apply Z.leb_le in E|apply Z.leb_gt in E]; lia.
Qed.

(* ------------------------------------------------------------------ LocalCids *)
Definition lc_wf (s : lcids) : Prop := 0 <= lc_off s.

Lemma p_c04_set_limit_value_bound : forall s n, lc_wf s -> lc_set_cost s n <= Z.max 0 n + 1.
Proof.
  intros s n W. unfold lc_set_cost, lc_set_frames, lc_next, lc_len. pose proof (zlen_nonneg (lc_cells s)).
  unfold lc_wf in W. destruct (n <? 2); lia.
Qed.

Lemma p_c04_set_limit_cost : forall K s n, lc_wf s -> 0 <= K -> n <= K -> lc_set_cost s n <= K + 1.
Proof. intros K s n W HK Hn. pose proof (p_c04_set_limit_value_bound s n W). lia. Qed.

Lemma p_c04_set_limit_cost_refuted : forall c c', 0 <= c -> 0 <= c' ->
  exists n, c * (8 + lc_len lc_init) + c' < lc_set_cost lc_init n /\
            c * (8 + lc_len lc_init) + c' < lc_set_frames lc_init n.
Proof.
  intros c c' Hc Hc'. exists (c * 10 + c' + 3).
  unfold lc_set_cost, lc_set_frames, lc_next, lc_len, lc_init, zlen; cbn [lc_off lc_cells length].
  destruct (c * 10 + c' + 3 <? 2) eqn:E; [apply Z.ltb_lt in E; lia|]. lia.
Qed.

Lemma p_c04_set_limit_cells : forall s n, 2 <= n ->
  lc_len (lc_set_apply s n) = lc_len s + lc_set_frames s n.
Proof.
  intros s n H. unfold lc_set_apply, lc_set_frames.
  destruct (n <? 2) eqn:E; [apply Z.ltb_lt in E; lia|].
  unfold lc_len; cbn [lc_cells]. rewrite zlen_app, zlen_repeat. rewrite Z2Nat.id by lia. reflexivity.
Qed.

Lemma leading_none_le : forall l, (leading_none l <= length l)%nat.
Proof. induction l as [|[] r IH]; cbn; lia. Qed.
Lemma clear_nth_length : forall n l, length (clear_nth n l) = length l.
Proof. induction n; destruct l; cbn; auto. Qed.

Lemma p_c04_retire_cid_cost : forall s seq, lc_retire_cost s seq <= lc_len s + 2.
Proof.
  intros s seq. unfold lc_retire_cost, lc_retire_advance, lc_len, zlen.
  destruct (lc_retire_hits s seq); [|lia].
  pose proof (leading_none_le (clear_nth (Z.to_nat (seq - lc_off s)) (lc_cells s))) as H.
  rewrite clear_nth_length in H. lia.
Qed.

(* the limit clauses: a limit below 2 is a TRANSPORT_PARAMETER_ERROR; retiring a sequence number
   that was never issued is an error that costs one comparison and changes nothing — its KIND in
   the code is CONNECTION_ID_LIMIT_ERROR where RFC 9000 19.16 says PROTOCOL_VIOLATION (F55) *)
Lemma p_c04_set_limit_small : forall s n, n < 2 ->
  lc_set_err s n = E_TRANSPORT_PARAMETER /\ lc_set_cost s n = 1 /\ lc_set_apply s n = s.
Proof.
  intros s n H. unfold lc_set_err, lc_set_cost, lc_set_frames, lc_set_apply.
  assert (E : (n <? 2) = true) by (apply Z.ltb_lt; lia). rewrite E. auto.
Qed.

Lemma p_c04_retire_unissued : forall s seq, lc_next s <= seq ->
  lc_retire_err true s seq = E_PROTOCOL_VIOLATION /\
  lc_retire_err false s seq = E_CONNECTION_ID_LIMIT /\
  lc_retire_hits s seq = false /\ lc_retire_cost s seq = 1 /\ lc_retire_apply s seq = s.
Proof.
  intros s seq H. unfold lc_retire_err, lc_retire_cost, lc_retire_apply, lc_retire_hits.
  assert (E : (lc_next s <=? seq) = true) by (apply Z.leb_le; lia). rewrite E.
  assert (F : (seq <? lc_next s) = false) by (apply Z.ltb_ge; lia). rewrite F. cbn. auto.
Qed.

Lemma p_c04_retire_kind_refuted :
  exists s seq, lc_next s <= seq /\ lc_retire_err false s seq <> E_PROTOCOL_VIOLATION.
Proof. exists lc_init, 2. split; [cbn; lia|]. vm_compute. discriminate. Qed.
