(* Lemmas about Model/AntiAmp.v + Model/Burst.v, sequential histories (the `aa` stream);
   p_c15_* carry the statements of Properties/C15.v. *)
From Coq Require Import List NArith ZArith Bool Lia.
From GQ Require Import Lib.Base Lib.Slice Model.AntiAmp Model.Burst.
Import ListNotations.
Local Open Scope N_scope.

Arguments N.add : simpl never.
Arguments N.sub : simpl never.
Arguments N.mul : simpl never.
Arguments N.min : simpl never.
Arguments N.max : simpl never.
Arguments N.pow : simpl never.
Arguments N.modulo : simpl never.

Lemma W_val : W = 18446744073709551616.
Proof. reflexivity. Qed.

(* ---------------- primitives ---------------- *)

Lemma wake_credit_same a : st (wake_credit a) = st a /\ credit (wake_credit a) = credit a.
Proof. unfold wake_credit. destruct (cbit a); split; reflexivity. Qed.

Lemma balance_same a : st (fst (balance a)) = st a /\ credit (fst (balance a)) = credit a.
Proof.
  unfold balance. destruct (balance_of (st a) (credit a) (st a)) as [r w]. cbn [fst].
  destruct w; [apply wake_credit_same | split; reflexivity].
Qed.

Lemma balance_res a :
  snd (balance a) =
    if st a =? 1 then BSome MAXU else if st a =? 2 then BNone
    else if st a =? 0 then (if credit a =? 0 then BErr else BSome (credit a)) else BPanic.
Proof.
  unfold balance, balance_of.
  destruct (st a =? 1); [reflexivity |]. destruct (st a =? 2); [reflexivity |].
  destruct (st a =? 0) eqn:E0; [| reflexivity]. destruct (credit a =? 0); reflexivity.
Qed.

Lemma fetch_add_exact a n : credit a + n < W -> credit (fetch_add a n) = credit a + n.
Proof. intro H. unfold fetch_add, set_credit. cbn [credit]. apply N.mod_small. exact H. Qed.

(* ---------------- Constraints / one segment ---------------- *)

Lemma assemble_le minpkt c buf want fl :
  let '(c', s) := assemble minpkt c buf want fl in
  s <= cl c /\ s <= buf /\ cl c' = cl c - s /\ (0 < s -> 0 < want).
Proof.
  unfold assemble, constrain, commit.
  destruct (N.ltb_spec 0 want) as [Hw | Hw]; cbn [andb].
  - destruct (minpkt <=? N.min (N.min buf (cl c)) (sq c)).
    + destruct (N.ltb_spec 0 (N.min want (N.min (N.min buf (cl c)) (sq c)))) as [Hs | Hs]; cbn [cl]; repeat split; lia.
    + rewrite N.ltb_irrefl. repeat split; lia.
  - rewrite N.ltb_irrefl. repeat split; lia.
Qed.

(* any number of packets written through one Constraints value - in flight or not - stay within its credit limit:
   every commit charges the credit *)
Lemma assemble_all_le minpkt ps : forall c buf,
  let '(c', s) := assemble_all minpkt c buf ps in
  s <= cl c /\ s <= buf /\ cl c' = cl c - s.
Proof.
  induction ps as [| p t IH]; intros c buf; cbn [assemble_all]; [repeat split; lia |].
  pose proof (assemble_le minpkt c buf (pk_want p) (pk_fl p)) as H1.
  destruct (assemble minpkt c buf (pk_want p) (pk_fl p)) as [c1 s1].
  specialize (IH c1 (buf - s1)). destruct (assemble_all minpkt c1 (buf - s1) t) as [c2 s2].
  destruct H1 as (A1 & A2 & A3 & _). destruct IH as (B1 & B2 & B3). repeat split; lia.
Qed.

Lemma load_segment_le minpkt c buf r n :
  load_segment minpkt (BSome c) buf r = SegOk n ->
  (sg_wi r = 0 \/ buf <= c) -> n <= c.
Proof.
  unfold load_segment. intros E Hk.
  pose proof (assemble_le minpkt (mkcons c (sg_quota r)) buf (sg_wi r) (pk_fl (sg_ini r))) as H1.
  destruct (assemble minpkt (mkcons c (sg_quota r)) buf (sg_wi r) (pk_fl (sg_ini r))) as [c1 s1].
  pose proof (assemble_all_le minpkt (sg_rest r) c1 (buf - s1)) as H2.
  destruct (assemble_all minpkt c1 (buf - s1) (sg_rest r)) as [c2 s2].
  cbn [cl] in H1. destruct H1 as (A1 & A2 & A3 & A4). destruct H2 as (B1 & B2 & B3).
  destruct (N.ltb_spec 0 s1) as [Hs1 | Hs1].
  - injection E as <-. destruct Hk as [Hk | Hk]; [specialize (A4 Hs1); lia | exact Hk].
  - destruct (0 <? s1 + s2); [| discriminate]. injection E as <-. lia.
Qed.

(* one datagram (any number of coalesced packets, in flight or not) stays within the credit its assembler read, unless it
   carries an Initial packet and is padded (class F19) *)
Lemma p_c15_segment_within_credit : forall minpkt c buf r n,
  load_segment minpkt (BSome c) buf r = SegOk n -> (sg_wi r = 0 \/ buf <= c) -> n <= c.
Proof. exact load_segment_le. Qed.

(* ---------------- histories with ghost counters ---------------- *)

Record gst := mkg { ga : aa; gRv : N; gHv : N }.

Definition rcvd1 (o : aa_op) : N := match o with ARcvd n => n | _ => 0 end.

Definition handed1 (a : aa) (o : aa_op) (out : aa_out) : N :=
  match o, out with
  | AOnSent n, _ => n                   (* the caller reports n bytes as sent *)
  | ABurst _ _ _, XBurst bo => bo_sum bo
  | _, _ => 0
  end.

Definition over1 (a : aa) (o : aa_op) (out : aa_out) : bool :=
  match o, out with
  | AOnSent n, _ => (st a =? 0) && over_debit a n
  | ABurst _ _ _, XBurst bo => bo_over bo
  | _, _ => false
  end.

Definition gstep (minpkt : N) (g : gst) (o : aa_op) : gst * bool :=
  let '(a1, out) := aa_exec minpkt (ga g) o in
  let '(a2, _) := balance a1 in
  (mkg a2 (gRv g + rcvd1 o) (gHv g + handed1 (ga g) o out), over1 (ga g) o out).

(* all states reached, one per prefix, with the wrap flag of the op that led there *)
Fixpoint gtrace (minpkt : N) (g : gst) (ops : list aa_op) : list (gst * bool) :=
  match ops with
  | [] => []
  | o :: rest => let '(g', w) := gstep minpkt g o in (g', w) :: gtrace minpkt g' rest
  end.

Definition g0 : gst := mkg aa0 0 0.

(* ---- the class of the known finding F19 (Appendix B), on the op and the state it is applied to ---- *)
Definition known_class (a : aa) (o : aa_op) : bool :=
  (st a =? 0) &&
  match o with
  | AOnSent n => credit a <? n
  | ABurst mtu rsv segs =>
      (1 <? lenN segs) || (0 <? rsv) ||
      (existsb (fun r => 0 <? sg_wi r) segs && (credit a <? mtu - rsv))
  | _ => false
  end.

(* a history without an op of the known class, in which the credit counter itself cannot overflow *)
Fixpoint clean (minpkt : N) (g : gst) (ops : list aa_op) : Prop :=
  match ops with
  | [] => True
  | o :: rest =>
      known_class (ga g) o = false /\ 3 * (gRv g + rcvd1 o) < W /\
      (st (ga g) = 2 -> match o with AOnSent n => n = 0 | _ => True end) /\
      clean minpkt (fst (gstep minpkt g o)) rest
  end.

Definition Inv (g : gst) : Prop :=
  st (ga g) <= 2 /\
  (st (ga g) = 0 -> credit (ga g) + gHv g = 3 * gRv g) /\
  (st (ga g) = 2 -> gHv g <= 3 * gRv g) /\
  3 * gRv g < W.

Lemma Inv_g0 : Inv g0.
Proof. unfold Inv, g0. cbn. rewrite W_val. repeat split; lia. Qed.

Lemma burst_loop_deact minpkt a buf rsv segs :
  st a = 2 -> exists a', burst_loop minpkt a buf rsv segs [] = (a', [], match segs with [] => 0 | _ => 2 end) /\
                         st a' = 2 /\ credit a' = credit a.
Proof.
  intro H2. destruct segs as [| r rest]; cbn [burst_loop].
  - exists a. auto.
  - pose proof (balance_same a) as [Bs Bc]. pose proof (balance_res a) as Br.
    destruct (balance a) as [a1 b]. cbn [fst snd] in *. rewrite H2 in Br. cbn in Br. subst b.
    cbn [load_segment]. exists a1. repeat split; congruence.
Qed.

Lemma burst_loop_granted_st minpkt a buf rsv segs lens a' lens' status :
  burst_loop minpkt a buf rsv segs lens = (a', lens', status) -> st a' = st a /\ credit a' = credit a.
Proof.
  revert a lens. induction segs as [| r rest IH]; intros a lens E; cbn [burst_loop] in E.
  - injection E as <- _ _. auto.
  - pose proof (balance_same a) as [Bs Bc]. destruct (balance a) as [a1 b]. cbn [fst] in *.
    destruct (load_segment minpkt b buf r) as [ | | n | ].
    + injection E as <- _ _. auto.
    + injection E as <- _ _. auto.
    + destruct (rsv + n <? last lens 0).
      * injection E as <- _ _. auto.
      * destruct (IH _ _ E) as [I1 I2]. split; congruence.
    + injection E as <- _ _. auto.
Qed.

(* a clean burst on an unvalidated path hands at most the credit to IO and debits exactly that *)
Lemma burst_clean minpkt a mtu segs a' bo :
  st a = 0 -> credit a < W ->
  known_class a (ABurst mtu 0 segs) = false ->
  burst minpkt a mtu 0 segs = (a', bo) ->
  st a' = 0 /\ bo_sum bo <= credit a /\ credit a' = credit a - bo_sum bo /\ bo_over bo = false.
Proof.
  intros H0 Hc Hk E. unfold known_class in Hk. rewrite H0 in Hk. cbn [N.eqb andb] in Hk.
  apply orb_false_elim in Hk as [Hk Hk3]. apply orb_false_elim in Hk as [Hk1 _].
  apply N.ltb_ge in Hk1.
  unfold burst in E. rewrite N.sub_0_r in *.
  destruct segs as [| r [| r2 rest]].
  - (* no segment *)
    cbn [burst_loop] in E. cbn [N.eqb sumN fold_right] in E.
    pose proof (balance_same (on_sent a 0)) as [Bs Bc].
    destruct (balance (on_sent a 0)) as [a3 b3]. cbn [fst] in *. injection E as <- <-. cbn [bo_sum bo_over].
    unfold on_sent in *. rewrite H0 in *. cbn [N.eqb] in *.
    rewrite Bs, Bc. cbn [st credit debit set_credit].
    unfold over_debit. cbn [andb]. repeat split; try lia. destruct (N.ltb_spec (credit a) 0); [lia | reflexivity].
  - (* exactly one segment *)
    cbn [burst_loop] in E.
    pose proof (balance_same a) as [Bs Bc]. pose proof (balance_res a) as Br.
    destruct (balance a) as [a1 b]. cbn [fst snd] in *. rewrite H0 in Br. cbn [N.eqb] in Br.
    destruct (N.eqb_spec (credit a) 0) as [Ez | Ez]; subst b.
    + (* no credit: nothing is sent *)
      cbn [load_segment N.eqb] in E. injection E as <- <-. cbn [bo_sum bo_over sumN fold_right].
      repeat split; try congruence; lia.
    + destruct (load_segment minpkt (BSome (credit a)) mtu r) as [ | | n | ] eqn:El;
        [ cbn [N.eqb] in E; injection E as <- <-; cbn [bo_sum bo_over sumN fold_right]; repeat split; try congruence; lia
        | cbn [N.eqb] in E; injection E as <- <-; cbn [bo_sum bo_over sumN fold_right]; repeat split; try congruence; lia
        |
        | cbn [N.eqb] in E; injection E as <- <-; cbn [bo_sum bo_over sumN fold_right]; repeat split; try congruence; lia ].
      * assert (Hn : n <= credit a).
        { apply (load_segment_le _ _ _ _ _ El). cbn [existsb] in Hk3. rewrite orb_false_r in Hk3.
          apply andb_false_elim in Hk3 as [Hk3 | Hk3].
          - left. apply N.ltb_ge in Hk3. lia.
          - right. apply N.ltb_ge in Hk3. exact Hk3. }
        cbn [last] in E. rewrite N.add_0_l in E.
        destruct (N.ltb_spec n 0) as [Hlt | _]; [lia |].
        cbn [burst_loop app N.eqb sumN fold_right] in E. rewrite N.add_0_r in E.
        pose proof (balance_same (on_sent a1 n)) as [Cs Cc].
        destruct (balance (on_sent a1 n)) as [a3 b3]. cbn [fst] in *. injection E as <- <-. cbn [bo_sum bo_over].
        unfold on_sent in *. rewrite Bs, H0 in *. cbn [N.eqb] in *.
        rewrite Cs, Cc. cbn [st credit debit set_credit]. rewrite Bc.
        unfold over_debit. rewrite Bc. cbn [andb].
        repeat split; try lia. destruct (N.ltb_spec (credit a) n); [lia | reflexivity].
  - (* two or more segments: excluded by the class *)
    exfalso. unfold lenN in Hk1. cbn [length] in Hk1. lia.
Qed.

Lemma gstep_inv minpkt g o :
  Inv g -> known_class (ga g) o = false -> 3 * (gRv g + rcvd1 o) < W ->
  (st (ga g) = 2 -> match o with AOnSent n => n = 0 | _ => True end) ->
  Inv (fst (gstep minpkt g o)) /\ snd (gstep minpkt g o) = false.
Proof.
  intros (Hst & H0 & H2 & HR) Hk HR' Hab. unfold gstep.
  destruct (aa_exec minpkt (ga g) o) as [a1 out] eqn:Ee.
  pose proof (balance_same a1) as [Bs Bc]. destruct (balance a1) as [a2 b2]. cbn [fst snd] in *.
  unfold Inv. cbn [ga gRv gHv]. rewrite Bs, Bc.
  destruct o as [n | | n | | | mtu rsv segs | ]; cbn [aa_exec] in Ee; cbn [rcvd1] in *.
  - (* RCVD *)
    injection Ee as <- <-. cbn [handed1 over1]. unfold on_rcvd.
    destruct (N.eqb_spec (st (ga g)) 0) as [E0 | E0].
    + pose proof (wake_credit_same (fetch_add (ga g) (n * FACTOR mod W))) as [Ws Wc]. rewrite Ws, Wc.
      cbn [fetch_add set_credit st]. specialize (H0 E0).
      assert (Hm : n * FACTOR mod W = 3 * n) by (unfold FACTOR; rewrite N.mod_small; lia).
      rewrite Hm. rewrite fetch_add_exact by lia.
      split; [| reflexivity]. repeat split; try lia.
    + split; [| reflexivity]. repeat split; try lia.
  - injection Ee as <- <-. cbn [handed1 over1]. split; [| reflexivity]. repeat split; try lia.
  - (* ONSENT *)
    injection Ee as <- <-. cbn [handed1 over1]. unfold on_sent, known_class in *.
    destruct (N.eqb_spec (st (ga g)) 0) as [E0 | E0]; cbn [andb] in *.
    + apply N.ltb_ge in Hk. specialize (H0 E0). cbn [debit set_credit st credit]. unfold over_debit.
      split; [| destruct (N.ltb_spec (credit (ga g)) n); [lia | reflexivity]].
      repeat split; try lia.
    + split; [| reflexivity]. repeat split; try lia; try (intro E2; specialize (Hab E2); specialize (H2 E2); lia).
  - (* GRANT *)
    injection Ee as <- <-. cbn [handed1 over1]. unfold grant.
    destruct (N.eqb_spec (st (ga g)) 0) as [E0 | E0].
    + pose proof (wake_credit_same (set_st (ga g) 1)) as [Ws Wc]. rewrite Ws, Wc. cbn [set_st st credit].
      split; [| reflexivity]. repeat split; try lia.
    + split; [| reflexivity]. repeat split; try lia.
  - (* ABORT *)
    injection Ee as <- <-. cbn [handed1 over1]. unfold abort.
    destruct (N.eqb_spec (st (ga g)) 0) as [E0 | E0].
    + pose proof (wake_credit_same (set_st (ga g) 2)) as [Ws Wc]. rewrite Ws, Wc. cbn [set_st st credit].
      specialize (H0 E0). split; [| reflexivity]. repeat split; try lia.
    + split; [| reflexivity]. repeat split; try lia.
  - (* BURST *)
    destruct (burst minpkt (ga g) mtu rsv segs) as [a' bo] eqn:Eb. injection Ee as <- <-. cbn [handed1 over1].
    destruct (N.eqb_spec (st (ga g)) 0) as [E0 | E0].
    + specialize (H0 E0).
      assert (rsv = 0) as ->.
      { unfold known_class in Hk. rewrite E0 in Hk. cbn [N.eqb andb] in Hk.
        apply orb_false_elim in Hk as [Hk _]. apply orb_false_elim in Hk as [_ Hk]. apply N.ltb_ge in Hk. lia. }
      destruct (burst_clean minpkt (ga g) mtu segs a' bo E0 ltac:(lia) Hk Eb) as (S0 & Hle & Hcr & Hw).
      split; [| exact Hw]. rewrite S0, Hcr. repeat split; try lia.
    + (* granted or aborted: the state does not change; an aborted path hands nothing to IO *)
      unfold burst in Eb.
      destruct (burst_loop minpkt (ga g) (mtu - rsv) rsv segs []) as [[a1 lens] status] eqn:El.
      destruct (burst_loop_granted_st _ _ _ _ _ _ _ _ _ El) as [L1 L2].
      assert (Hsum2 : st (ga g) = 2 -> lens = []).
      { intro E2. destruct (burst_loop_deact minpkt (ga g) (mtu - rsv) rsv segs E2) as (a'' & El' & _).
        rewrite El in El'. injection El' as _ <- _. reflexivity. }
      destruct (status =? 0).
      * pose proof (balance_same (on_sent a1 (sumN lens))) as [Cs Cc].
        destruct (balance (on_sent a1 (sumN lens))) as [a3 b3]. cbn [fst] in *. injection Eb as <- <-.
        cbn [bo_sum bo_over]. unfold on_sent in *.
        destruct (N.eqb_spec (st a1) 0) as [E10 | E10]; [congruence |]. cbn [andb].
        rewrite Cs, L1. split; [| reflexivity].
        repeat split; try lia; try (intro E2; specialize (Hsum2 E2); subst lens; cbn [sumN fold_right]; specialize (H2 E2); lia).
      * injection Eb as <- <-. cbn [bo_sum bo_over]. rewrite L1. split; [| reflexivity].
        repeat split; try lia; try (intro E2; specialize (Hsum2 E2); subst lens; cbn [sumN fold_right]; specialize (H2 E2); lia).
  - (* POLLWAIT *)
    unfold poll_wait in Ee. destruct (cbit (ga g)); injection Ee as <- <-; cbn [handed1 over1 st credit];
      (split; [| reflexivity]); repeat split; try lia.
Qed.

(* c15_ratio + c15_no_underflow, conditional form: every prefix of every clean history *)
Lemma p_c15_clean : forall minpkt ops g,
  Inv g -> clean minpkt g ops ->
  Forall (fun gw : gst * bool =>
            let g' := fst gw in
            Inv g' /\ snd gw = false /\
            (st (ga g') <> 1 -> gHv g' <= 3 * gRv g') /\
            (st (ga g') = 0 -> credit (ga g') = 3 * gRv g' - gHv g'))
         (gtrace minpkt g ops).
Proof.
  intros minpkt ops. induction ops as [| o rest IH]; intros g HI Hc; cbn [gtrace]; [constructor |].
  cbn [clean] in Hc. destruct Hc as (Hk & HR & Hab & Hrest).
  destruct (gstep_inv minpkt g o HI Hk HR Hab) as [HI' Hw].
  destruct (gstep minpkt g o) as [g' w] eqn:Eg. cbn [fst snd] in *.
  constructor; [| apply IH; assumption].
  cbn [fst snd]. split; [exact HI' |]. split; [exact Hw |].
  destruct HI' as (Hst & H0 & H2 & HR2). split.
  - intro Hn1. assert (st (ga g') = 0 \/ st (ga g') = 2) as [E | E] by lia; [specialize (H0 E); lia | exact (H2 E)].
  - intro E. specialize (H0 E). lia.
Qed.

(* `unreachable!()` in balance() is unreachable: the state is always one of the three constants *)
Lemma p_c15_no_panic : forall minpkt ops g,
  st (ga g) <= 2 ->
  Forall (fun gw : gst * bool => st (ga (fst gw)) <= 2 /\ snd (balance (ga (fst gw))) <> BPanic) (gtrace minpkt g ops).
Proof.
  intros minpkt ops. induction ops as [| o rest IH]; intros g Hst; cbn [gtrace]; [constructor |].
  assert (Hst' : st (ga (fst (gstep minpkt g o))) <= 2).
  { unfold gstep. destruct (aa_exec minpkt (ga g) o) as [a1 out] eqn:Ee.
    pose proof (balance_same a1) as [Bs _]. destruct (balance a1) as [a2 b2]. cbn [fst ga] in *. rewrite Bs.
    destruct o as [n | | n | | | mtu rsv segs | ]; cbn [aa_exec] in Ee.
    - injection Ee as <- _. unfold on_rcvd. destruct (st (ga g) =? 0); [| exact Hst].
      rewrite (proj1 (wake_credit_same _)). exact Hst.
    - injection Ee as <- _. exact Hst.
    - injection Ee as <- _. unfold on_sent. destruct (st (ga g) =? 0); exact Hst.
    - injection Ee as <- _. unfold grant. destruct (st (ga g) =? 0); [| exact Hst].
      rewrite (proj1 (wake_credit_same _)). cbn. lia.
    - injection Ee as <- _. unfold abort. destruct (st (ga g) =? 0); [| exact Hst].
      rewrite (proj1 (wake_credit_same _)). cbn. lia.
    - unfold burst in Ee.
      destruct (burst_loop minpkt (ga g) (mtu - rsv) rsv segs []) as [[a1' lens] status] eqn:El.
      destruct (burst_loop_granted_st _ _ _ _ _ _ _ _ _ El) as [L1 _].
      destruct (status =? 0).
      + pose proof (balance_same (on_sent a1' (sumN lens))) as [Cs _].
        destruct (balance (on_sent a1' (sumN lens))) as [a3 b3]. cbn [fst] in *. injection Ee as <- _.
        rewrite Cs. unfold on_sent. destruct (st a1' =? 0); cbn [debit set_credit st]; lia.
      + injection Ee as <- _. lia.
    - unfold poll_wait in Ee. destruct (cbit (ga g)); injection Ee as <- _; exact Hst. }
  destruct (gstep minpkt g o) as [g' w]. cbn [fst] in *.
  constructor; [| apply IH; exact Hst'].
  cbn [fst]. split; [exact Hst' |]. rewrite balance_res.
  destruct (N.eqb_spec (st (ga g')) 1) as [E1 | E1]; [discriminate |].
  destruct (N.eqb_spec (st (ga g')) 2) as [E2 | E2]; [discriminate |].
  destruct (N.eqb_spec (st (ga g')) 0) as [E | E]; [destruct (credit (ga g') =? 0); discriminate |].
  exfalso. lia.
Qed.

(* ---------------- c15_no_underflow at full strength: EVERY history ---------------- *)

Lemma on_sent_le a n : st (on_sent a n) = st a /\ credit (on_sent a n) <= credit a.
Proof. unfold on_sent, debit. destruct (st a =? 0); cbn [set_credit st credit]; split; try reflexivity; lia. Qed.

Lemma aa_exec_bound minpkt a o R :
  st a <= 2 -> (st a = 0 -> credit a <= 3 * R) -> 3 * (R + rcvd1 o) < W ->
  let a' := fst (aa_exec minpkt a o) in
  st a' <= 2 /\ (st a' = 0 -> credit a' <= 3 * (R + rcvd1 o)).
Proof.
  intros Hst Hc HR. destruct o as [n | | n | | | mtu rsv segs | ]; cbn [aa_exec fst rcvd1] in *.
  - unfold on_rcvd. destruct (N.eqb_spec (st a) 0) as [E0 | E0].
    + pose proof (wake_credit_same (fetch_add a (n * FACTOR mod W))) as [Ws Wc]. rewrite Ws, Wc.
      cbn [fetch_add set_credit st]. specialize (Hc E0).
      assert (Hm : n * FACTOR mod W = 3 * n) by (unfold FACTOR; rewrite N.mod_small; lia).
      rewrite Hm, fetch_add_exact by lia. split; [lia | intros _; lia].
    + split; [lia | intro; lia].
  - split; [lia | intro H; specialize (Hc H); lia].
  - destruct (on_sent_le a n) as [S1 S2]. rewrite S1. split; [lia | intro H; specialize (Hc H); lia].
  - unfold grant. destruct (N.eqb_spec (st a) 0) as [E0 | E0].
    + rewrite (proj1 (wake_credit_same _)). cbn [set_st st]. split; [lia | intro; lia].
    + split; [lia | intro; lia].
  - unfold abort. destruct (N.eqb_spec (st a) 0) as [E0 | E0].
    + rewrite (proj1 (wake_credit_same _)). cbn [set_st st]. split; [lia | intro; lia].
    + split; [lia | intro; lia].
  - unfold burst.
    destruct (burst_loop minpkt a (mtu - rsv) rsv segs []) as [[a1 lens] status] eqn:El.
    destruct (burst_loop_granted_st _ _ _ _ _ _ _ _ _ El) as [L1 L2].
    destruct (status =? 0).
    + destruct (on_sent_le a1 (sumN lens)) as [S1 S2].
      pose proof (balance_same (on_sent a1 (sumN lens))) as [Cs Cc].
      destruct (balance (on_sent a1 (sumN lens))) as [a3 b3]. cbn [fst] in *.
      rewrite Cs, Cc, S1, L1. split; [lia | intro H; specialize (Hc H); lia].
    + cbn [fst]. rewrite L1, L2. split; [lia | intro H; specialize (Hc H); lia].
  - unfold poll_wait. destruct (cbit a); cbn [fst st credit]; split; try lia; intro H; specialize (Hc H); lia.
Qed.

(* in every history (multi-segment bursts, padded Initials, over-debits included) the credit of an unvalidated path is
   at most 3 x the bytes received so far: it cannot underflow into an effectively unlimited allowance *)
Lemma p_c15_no_underflow : forall minpkt ops g,
  st (ga g) <= 2 -> (st (ga g) = 0 -> credit (ga g) <= 3 * gRv g) ->
  3 * (gRv g + fold_right N.add 0 (map rcvd1 ops)) < W ->
  Forall (fun gw : gst * bool => st (ga (fst gw)) = 0 -> credit (ga (fst gw)) <= 3 * gRv (fst gw))
         (gtrace minpkt g ops).
Proof.
  intros minpkt ops. induction ops as [| o rest IH]; intros g Hst Hc HR; cbn [gtrace]; [constructor |].
  cbn [map fold_right] in HR.
  pose proof (aa_exec_bound minpkt (ga g) o (gRv g) Hst Hc ltac:(lia)) as Hb.
  unfold gstep. destruct (aa_exec minpkt (ga g) o) as [a1 out]. cbn [fst] in Hb. destruct Hb as [Hb1 Hb2].
  pose proof (balance_same a1) as [Bs Bc]. destruct (balance a1) as [a2 b2]. cbn [fst] in *.
  constructor.
  - cbn [fst ga gRv]. rewrite Bs, Bc. exact Hb2.
  - apply IH; cbn [ga gRv]; [lia | rewrite Bs, Bc; exact Hb2 | lia].
Qed.
