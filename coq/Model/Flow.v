(* Model of qbase/src/flow.rs (SendControler, Credit, RecvController).  Definitions only.
   u64 subtraction that the Rust performs unchecked (`max_data - sent_data`, `sent_data -= flow`,
   `available -= amount`) is modelled as an explicit outcome [None] when it would underflow, so
   that "never underflows" is a theorem and not an artefact of truncated subtraction on N. *)
From Coq Require Import List NArith ZArith Bool.
Import ListNotations.
Local Open Scope N_scope.

Definition VARINT_MAX : N := 2 ^ 62 - 1.

(* ---------------------------------------------------------------- SendControler *)
Record sctl := mksctl { sent_data : N; max_data : N; flow_limited : bool }.

Definition sctl_new (initial : N) : sctl := mksctl 0 initial false.

Definition sc_increase_limit (s : sctl) (v : N) : sctl :=
  if max_data s <? v then mksctl (sent_data s) v false else s.

(* avaliable(): max_data - sent_data, None = u64 underflow (debug panic / release wrap) *)
Definition sc_available (s : sctl) : option N :=
  if sent_data s <=? max_data s then Some (max_data s - sent_data s) else None.

(* commit(flow): returns the new state and the DATA_BLOCKED value if one is queued *)
Definition sc_commit (s : sctl) (flow : N) : option (sctl * option N) :=
  let s1 := mksctl (sent_data s + flow) (max_data s) (flow_limited s) in
  match sc_available s1 with
  | None => None
  | Some a =>
    if (a =? 0) && negb (flow_limited s1)
    then Some (mksctl (sent_data s1) (max_data s1) true, Some (max_data s1))
    else Some (s1, None)
  end.

Definition sc_return_back (s : sctl) (flow : N) : option sctl :=
  if flow <=? sent_data s
  then let s1 := mksctl (sent_data s - flow) (max_data s) (flow_limited s) in
       match sc_available s1 with Some _ => Some s1 | None => None end
  else None.

(* SendControler::revise_max_data.  [fx = true]: the code after the `fix:` commit for F34 (a
   rejected 0-RTT attempt restarts sent_data together with max_data: the streams forget their sent
   state at the same moment and every byte is charged again when it is re-sent); [fx = false]: as
   it was (sent_data kept) *)
Definition sc_revise_with (fx : bool) (s : sctl) (rejected : bool) (v : N) : sctl :=
  let s0 := if rejected then mksctl (if fx then 0 else sent_data s) 0 false else s in
  sc_increase_limit s0 v.
Definition sc_revise : sctl -> bool -> N -> sctl := sc_revise_with true.
Definition sc_revise_asis : sctl -> bool -> N -> sctl := sc_revise_with false.

(* credit(quota): (state, credit.available, DATA_BLOCKED?) *)
Definition sc_credit (s : sctl) (quota : N) : option (sctl * N * option N) :=
  match sc_available s with
  | None => None
  | Some a =>
    let q := N.min a quota in
    match sc_commit s q with
    | None => None
    | Some (s', blk) => Some (s', q, blk)
    end
  end.

(* Credit::post_sent: available -= amount *)
Definition credit_post (avail amount : N) : option N :=
  if amount <=? avail then Some (avail - amount) else None.

(* ---------------------------------------------------------------- RecvController *)
Record rctl := mkrctl { rcvd_data : N; rmax_data : N; rstep : N }.

Definition rctl_new (initial : N) : rctl := mkrctl 0 initial (initial / 2).

Inductive rcv_res :=
| RcvOk (max_data_frame : option N)
| RcvFlowControl
| RcvPanic.    (* VarInt::from_u64(max_data).expect(..) *)

Definition on_new_rcvd (s : rctl) (amount : N) : rctl * rcv_res :=
  let r := rcvd_data s + amount in
  if r <=? rmax_data s then
    if rmax_data s <=? r + rstep s then
      let m := rmax_data s + rstep s in
      if VARINT_MAX <? m then (mkrctl r m (rstep s), RcvPanic)
      else (mkrctl r m (rstep s), RcvOk (Some m))
    else (mkrctl r (rmax_data s) (rstep s), RcvOk None)
  else (mkrctl r (rmax_data s) (rstep s), RcvFlowControl).

(* ---------------------------------------------------------------- stream `flow` *)
(* ops on the public FlowController: 0 CREDIT quota | 1 POST i n | 2 DROP i | 3 MAXDATA v | 4 RCVD n
   | 5 REVISE rejected v.  Outstanding credits live in a list (index = creation order; a dropped
   credit stays in the list as None). *)
Record fstate := mkf { f_s : sctl; f_r : rctl; f_credits : list (option N); f_dead : bool }.

Definition f_init (peer_md local_md : N) : fstate := mkf (sctl_new peer_md) (rctl_new local_md) [] false.

Definition zopt (o : option N) : list Z :=
  match o with Some v => [1%Z; Z.of_N v] | None => [0%Z; 0%Z] end.

Fixpoint set_nth {A} (l : list A) (n : nat) (v : A) : list A :=
  match l, n with
  | [], _ => []
  | _ :: t, O => v :: t
  | h :: t, S k => h :: set_nth t k v
  end.

Definition f_step (fx : bool) (st : fstate) (t : N) (a : list Z) : fstate * list Z :=
  if f_dead st then (st, [(-1)%Z]) else
  match t, a with
  | 0, [q] =>
    match sc_credit (f_s st) (Z.to_N q) with
    | Some (s', av, blk) =>
      (mkf s' (f_r st) (f_credits st ++ [Some av]) false, [1%Z; Z.of_N av] ++ zopt blk)
    | None => (mkf (f_s st) (f_r st) (f_credits st) true, [(-3)%Z])
    end
  | 1, [i; n] =>
    match nth_error (f_credits st) (Z.to_nat i) with
    | Some (Some av) =>
      match credit_post av (Z.to_N n) with
      | Some av' => (mkf (f_s st) (f_r st) (set_nth (f_credits st) (Z.to_nat i) (Some av')) false,
                     [1%Z; Z.of_N av'])
      | None => (mkf (f_s st) (f_r st) (f_credits st) true, [(-3)%Z])
      end
    | _ => (st, [0%Z])
    end
  | 2, [i] =>
    match nth_error (f_credits st) (Z.to_nat i) with
    | Some (Some av) =>
      match sc_return_back (f_s st) av with
      | Some s' => (mkf s' (f_r st) (set_nth (f_credits st) (Z.to_nat i) None) false, [1%Z])
      | None => (mkf (f_s st) (f_r st) (f_credits st) true, [(-3)%Z])
      end
    | _ => (st, [0%Z])
    end
  | 3, [v] =>
    let s' := sc_increase_limit (f_s st) (Z.to_N v) in
    (mkf s' (f_r st) (f_credits st) false, [1%Z])
  | 4, [n] =>
    let '(r', res) := on_new_rcvd (f_r st) (Z.to_N n) in
    match res with
    | RcvOk m => (mkf (f_s st) r' (f_credits st) false, 0%Z :: zopt m)
    | RcvFlowControl => (mkf (f_s st) r' (f_credits st) true, [3%Z])
    | RcvPanic => (mkf (f_s st) r' (f_credits st) true, [(-3)%Z])
    end
  | 5, [rej; v] =>
    let s' := sc_revise_with fx (f_s st) (negb (rej =? 0)%Z) (Z.to_N v) in
    (mkf s' (f_r st) (f_credits st) false, [1%Z])
  | _, _ => (st, [(-99)%Z])
  end.

Fixpoint f_run (fx : bool) (st : fstate) (l : list (N * list Z)) : list (list Z) :=
  match l with
  | [] => []
  | (t, a) :: rest => let '(st', o) := f_step fx st t a in o :: f_run fx st' rest
  end.

Definition run_flow_with (fx : bool) (cfg : list Z) (l : list (N * list Z)) : list (list Z) :=
  match cfg with
  | [p; q] => f_run fx (f_init (Z.to_N p) (Z.to_N q)) l
  | _ => []
  end.

(* [run_flow]: the code as it was before the repair of F34; [run_flow_fixed]: the repaired code
   (the one the stream registry compares with the implementation) *)
Definition run_flow : list Z -> list (N * list Z) -> list (list Z) := run_flow_with false.
Definition run_flow_fixed : list Z -> list (N * list Z) -> list (list Z) := run_flow_with true.
