(* C06 — packet protection round-trips and rejects any modified packet.
   Only the property theorems live here: each is closed by a lemma of Proofs/Protect.v or
   Proofs/KeyPhase.v, and its assumptions are printed for the audit.

   LEVEL: partial by design.  The AEAD (enc/dec) and the header-protection mask are universally
   quantified functions with the stated hypotheses — cryptography is assumed, layout is proved:
     enc_dec   dec k n a (enc k n a p) = Some p                      (round trip)
     enc_len   |enc k n a p| = |p| + 16                              (tag length)
     auth      dec k n a c = Some p -> c = enc k n a p               (dec accepts only what enc produces)
     no_forgery (premise on the adversary's datagram): no segment of it is an AEAD output for inputs
               other than the honest (key, pn, aad, body) — ideal authenticity/unforgeability; every
               key of the key type is unknown to the adversary.
   The toy cipher of the harness satisfies enc_dec, enc_len and auth (theorems c06_toy_roundtrip, c06_toy_len, c06_toy_dec_enc), not no_forgery. *)
From Coq Require Import List ZArith NArith Bool.
From GQ Require Import Lib.Wire Model.Packets Model.Pn Model.Protect Model.KeyPhase Model.ProtectIO
                       Proofs.Packets Proofs.Protect Proofs.KeyPhase.
Import ListNotations.
Local Open Scope Z_scope.

Section C06.
  Variables key hkey : Type.
  Variable enc : key -> Z -> list Z -> list Z -> list Z.
  Variable dec : key -> Z -> list Z -> list Z -> option (list Z).
  Variable mask : hkey -> list Z -> list Z.

  (* header protection is a bijection on packets: the sample (16 bytes, 4 bytes after the pn offset) is not
     touched, the first byte and the pn bytes are XORed with a mask that depends on the sample only *)
  Theorem c06_hp_unprotect_then_protect : forall hk pkt off U n v,
    unprotect hkey mask hk pkt off = UOk U n v -> 1 <= off <= zlen pkt ->
    hp_protect hkey mask hk U off n = Some pkt /\ zlen U = zlen pkt /\ 1 <= n <= 4 /\
    n = Z.land (hd 0 U) 3 + 1 /\
    skipn (Z.to_nat (off + n)) U = skipn (Z.to_nat (off + n)) pkt /\ off + 20 <= zlen pkt.
  Proof. exact (unprotect_inv hkey mask). Qed.

  Theorem c06_hp_protect_then_unprotect : forall hk U off n P,
    hp_protect hkey mask hk U off n = Some P -> 1 <= off <= zlen U -> 1 <= n <= 4 ->
    n = Z.land (hd 0 U) 3 + 1 ->
    exists v, unprotect hkey mask hk P off = UOk U n v /\ zlen P = zlen U /\
              v = match get_be (Z.to_nat n) 0 (sub (skipn (Z.to_nat off) U) 0 n) with Some (x, _) => x | None => 0 end.
  Proof. exact (protect_unprotect hkey mask). Qed.

  (* what the writer produces: preconditions of encrypt_and_protect_packet (the exact sampling minimum is
     pn_len + |body| + 16 >= 20; long packets need pn_len + |body| + 16 < 2^14 for the 2-byte length) *)
  Theorem c06_build_spec : forall h phase pn e body bufsz k hk P,
    build key hkey enc mask h phase pn e body bufsz k hk = BOk P ->
    let aad := build_aad h phase e (zlen body) in
    is_data h = true /\
    hp_protect hkey mask hk (aad ++ enc k pn aad body) (pn_off h) (width e) = Some P /\
    20 <= width e + zlen body + TAG_LEN /\ pn_off h + 20 <= bufsz /\
    (is_short h = false -> width e + zlen body + TAG_LEN < 2 ^ 14).
  Proof. exact (build_spec key hkey enc dec mask 0). Qed.

  (* ROUND TRIP: header, packet number, key phase and body are recovered, for every data header
     (Initial with any token, 0-RTT, Handshake, 1-RTT with either key phase and spin bit, connection ids of
     any length), every pn encoding of 1..4 bytes that the receiver's expectation decodes (property C07),
     every body that the writer accepts.  Hypothesis [be_packet …]: see Proofs/Protect.v (discharged on
     instances below, checked on every generated packet by the correspondence stream). *)
  Theorem c06_roundtrip :
    (forall k n a p, dec k n a (enc k n a p) = Some p) ->
    (forall k n a p, zlen (enc k n a p) = zlen p + TAG_LEN) ->
    forall h phase pn e body bufsz k hk P dl exp,
    build key hkey enc mask h phase pn e body bufsz k hk = BOk P -> wf_header h ->
    be_packet dl P = POk h (zlen P) (pn_off h) ->
    0 <= exp -> decode (wire e) exp = DecOk pn -> 0 <= payload e < 2 ^ (8 * width e) ->
    recv1 key hkey dec mask k hk dl exp P = RxAccept h (zlen P) pn (is_short h && phase) body.
  Proof. exact (p_c06_roundtrip key hkey enc dec mask). Qed.

  (* TAMPER: whatever datagram reaches a receiver holding any packet key / header key and any packet-number
     expectation, acceptance implies the sender's key, the sender's packet number, the sender's body and
     (under the sender's header key) exactly the packet sent. *)
  Theorem c06_tamper_rejected :
    (forall k n a c p, dec k n a c = Some p -> c = enc k n a p) ->
    forall h phase pn e body bufsz k hk P,
    build key hkey enc mask h phase pn e body bufsz k hk = BOk P -> wf_header h ->
    forall k' hk' dl exp dg h' total pn' ph body',
      no_forgery key enc k pn (build_aad h phase e (zlen body)) body dg ->
      recv1 key hkey dec mask k' hk' dl exp dg = RxAccept h' total pn' ph body' ->
      k' = k /\ pn' = pn /\ body' = body /\ (hk' = hk -> firstn (Z.to_nat total) dg = P).
  Proof. exact (p_c06_tamper_rejected key hkey enc dec mask). Qed.

  (* DISCARDED (full strength after the fix of F45).  Whatever datagram reaches a receiver holding any packet key,
     any header key and any packet-number expectation (one that PacketNumber::decode does not overflow on): the
     receive path either DROPS it (parse error, refused pn, AEAD failure, or not a protected packet at all), or it
     delivers exactly the honest sender's packet.  It never answers with a connection error. *)
  Theorem c06_tamper_discarded :
    (forall k n a c p, dec k n a c = Some p -> c = enc k n a p) ->
    forall h phase pn e body bufsz k hk P,
    build key hkey enc mask h phase pn e body bufsz k hk = BOk P -> wf_header h ->
    forall k' hk' dl exp dg,
      no_forgery key enc k pn (build_aad h phase e (zlen body)) body dg ->
      (forall n v, decode (mk_pnum n v) exp <> DecOverflow) ->
      let r := recv1 key hkey dec mask k' hk' dl exp dg in
      dropped r \/
      exists h' total ph, r = RxAccept h' total pn ph body /\ k' = k /\ is_short h' = is_short h /\
                          (hk' = hk -> firstn (Z.to_nat total) dg = P).
  Proof. exact (p_c06_tamper_discarded key hkey enc dec mask). Qed.

  (* every modification that keeps the length — every single-bit flip at every position — is DROPPED:
     every bit of the packet is covered (AAD, ciphertext/tag, or a masked field whose unmasked value is in the AAD) *)
  Theorem c06_modified_dropped :
    (forall k n a c p, dec k n a c = Some p -> c = enc k n a p) ->
    forall h phase pn e body bufsz k hk P,
    build key hkey enc mask h phase pn e body bufsz k hk = BOk P -> wf_header h ->
    forall k' dl exp dg, zlen dg = zlen P -> dg <> P ->
      no_forgery key enc k pn (build_aad h phase e (zlen body)) body dg ->
      (forall n v, decode (mk_pnum n v) exp <> DecOverflow) ->
      dropped (recv1 key hkey dec mask k' hk dl exp dg).
  Proof. exact (p_c06_modified_dropped key hkey enc dec mask). Qed.

  (* an AUTHENTIC packet (made with the keys) whose reserved bits are set is still answered with
     PROTOCOL_VIOLATION ([build_r rsv]: the writer with reserved bits rsv <> 0) *)
  Theorem c06_authentic_reserved_is_error :
    (forall k n a p, dec k n a (enc k n a p) = Some p) ->
    (forall k n a p, zlen (enc k n a p) = zlen p + TAG_LEN) ->
    forall rsv h phase pn e body bufsz k hk P dl exp,
    build_r key hkey enc mask rsv h phase pn e body bufsz k hk = BOk P -> wf_header h ->
    In rsv (rsv_values (is_short h)) -> rsv <> 0 ->
    be_packet dl P = POk h (zlen P) (pn_off h) ->
    0 <= exp -> decode (wire e) exp = DecOk pn -> 0 <= payload e < 2 ^ (8 * width e) ->
    recv1 key hkey dec mask k hk dl exp P = RxConnErr.
  Proof. exact (p_c06_authentic_reserved key hkey enc dec mask). Qed.

  Theorem c06_other_key_or_pn_rejected :
    (forall k n a c p, dec k n a c = Some p -> c = enc k n a p) ->
    forall h phase pn e body bufsz k hk P,
    build key hkey enc mask h phase pn e body bufsz k hk = BOk P -> wf_header h ->
    no_forgery key enc k pn (build_aad h phase e (zlen body)) body P ->
    forall k' hk' dl exp h' total pn' ph body',
      recv1 key hkey dec mask k' hk' dl exp P = RxAccept h' total pn' ph body' -> k' = k /\ pn' = pn.
  Proof. exact (p_c06_other_key_or_pn key hkey enc dec mask). Qed.
End C06.

(* ---------------------------------------------------------------- key phase (OneRttPacketKeys) *)

(* the code as it is: every delivered packet is opened with the generation it was protected with, or
   (finding F20) the sender is at generation >= 2 and the receiver used the key of two generations ago *)
Theorem c06_keyphase_known : forall l s', sys_run k_get_remote sys_init l = Some s' ->
  Forall (fun x => sel_ok x \/ (2 <= fst x /\ snd x = GKey (fst x - 2)))%N (s_sel s').
Proof. exact p_c06_keyphase_known. Qed.

Theorem c06_keyphase_first : forall l s', sys_run k_get_remote sys_init l = Some s' ->
  Forall (fun x => (fst x <= 1)%N -> sel_ok x) (s_sel s').
Proof. exact p_c06_keyphase_first. Qed.

(* full-strength statement REFUTED: two key updates of the peer and no phase_out (it has no caller) *)
Theorem c06_keyphase_refuted :
  exists l s', sys_run k_get_remote sys_init l = Some s' /\ ~ Forall sel_ok (s_sel s') /\
               ~ In ERecvPhaseOut l /\ s_sel s' = [(0, GKey 0); (1, GKey 1); (2, GKey 0)]%N.
Proof. exact p_c06_keyphase_refuted. Qed.

(* full strength under the intended discipline: phase_out() runs before the peer's next update *)
Theorem c06_keyphase : forall l s', sys_run_d sys_init l = Some s' -> Forall sel_ok (s_sel s').
Proof. exact p_c06_keyphase_with_phase_out. Qed.

Theorem c06_get_remote_no_panic : forall l p, fst (k_get_remote (fold_left k_call l k_init) p) <> GPanic.
Proof. exact p_c06_get_remote_no_panic. Qed.

(* ---------------------------------------------------------------- the toy cipher of the harness *)

Theorem c06_toy_roundtrip : forall k n a p, toy_dec k n a (toy_enc k n a p) = Some p.
Proof. exact p_c06_toy_enc_dec. Qed.
Theorem c06_toy_len : forall k n a p, zlen (toy_enc k n a p) = zlen p + TAG_LEN.
Proof. exact p_c06_toy_enc_len. Qed.
Theorem c06_toy_dec_enc : forall k n a c p, toy_dec k n a c = Some p -> c = toy_enc k n a p.
Proof. exact p_c06_toy_dec_enc. Qed.

(* ---------------------------------------------------------------- instances (vm_compute) *)

(* the repaired finding F45 on instances: one flipped reserved bit of a valid packet is DROPPED (decryption
   failure) for a short and for a long header; the same packets made by a key holder who sets a reserved bit are
   answered with the connection error *)
Theorem c06_reserved_bit_instances :
  exists P : list Z, tbuild (mk_header 3 8 0 0 1) true 1 (U16 1) (cbytes 1000 3) 1200 7 9 = BOk P /\
    recv1 Z Z toy_dec toy_mask 7 9 8 0 (flip_bit P 3) = RxDecrypt /\
  exists Q : list Z, tbuild (mk_header 2 8 8 0 0) false 1 (U16 1) (cbytes 1000 3) 1200 7 9 = BOk Q /\
    recv1 Z Z toy_dec toy_mask 7 9 8 0 (flip_bit Q 4) = RxDecrypt /\
  exists P' : list Z, tbuild_r 16 (mk_header 3 8 0 0 1) true 1 (U16 1) (cbytes 1000 3) 1200 7 9 = BOk P' /\
    be_packet 8 P' = POk (mk_header 3 8 0 0 1) (zlen P') (pn_off (mk_header 3 8 0 0 1)) /\
    recv1 Z Z toy_dec toy_mask 7 9 8 0 P' = RxConnErr /\
  exists Q' : list Z, tbuild_r 8 (mk_header 2 8 8 0 0) false 1 (U16 1) (cbytes 1000 3) 1200 7 9 = BOk Q' /\
    be_packet 8 Q' = POk (mk_header 2 8 8 0 0) (zlen Q') (pn_off (mk_header 2 8 8 0 0)) /\
    recv1 Z Z toy_dec toy_mask 7 9 8 0 Q' = RxConnErr.
Proof.
  eexists. split; [vm_compute; reflexivity|]. split; [vm_compute; reflexivity|].
  eexists. split; [vm_compute; reflexivity|]. split; [vm_compute; reflexivity|].
  eexists. split; [vm_compute; reflexivity|]. split; [vm_compute; reflexivity|]. split; [vm_compute; reflexivity|].
  eexists. split; [vm_compute; reflexivity|]. split; vm_compute; reflexivity.
Qed.

(* non-vacuity: for each data header type (cid lengths 0, 8, 20; token; pn lengths 1..4; both key phases; body at
   the sampling minimum) build succeeds, be_packet finds the header in the protected bytes at [pn_off] — the
   hypothesis of c06_roundtrip — and the receive path returns the header, pn, phase and body *)
Definition nv_case (ty dl sl tl ps : Z) (e : pnum) (pn plen dlrx : Z) : bool :=
  let h := mk_header ty dl sl tl ps in
  match tbuild h (bit_set ps 1) pn e (cbytes 1000 plen) 1200 7 9 with
  | BOk P =>
      match be_packet dlrx P with
      | POk h' total off => (total =? zlen P) && (off =? pn_off h) && (hkind h' =? hkind h)
      | _ => false
      end &&
      match recv1 Z Z toy_dec toy_mask 7 9 dlrx pn P with
      | RxAccept h' total pn' ph body => (pn' =? pn) && list_eqb body (cbytes 1000 plen) && Bool.eqb ph (is_short h && bit_set ps 1)
      | _ => false
      end
  | _ => false
  end.

Example c06_nonvacuous :
  nv_case 0 8 8 5 0 (U16 258) 258 2 0 = true /\ nv_case 0 0 20 64 0 (U8 7) 7 3 0 = true /\
  nv_case 1 20 0 0 0 (U24 70000) 70000 1 0 = true /\ nv_case 2 8 8 0 0 (U32 5) 5 0 0 = true /\
  nv_case 3 8 0 0 0 (U16 258) 258 2 8 = true /\ nv_case 3 0 0 0 3 (U8 9) 9 3 0 = true /\
  nv_case 3 20 0 0 1 (U32 4000000000) 4000000000 0 20 = true /\ nv_case 3 5 0 0 2 (U24 66000) 66000 1 5 = true.
Proof. vm_compute. repeat split; reflexivity. Qed.

Print Assumptions c06_hp_unprotect_then_protect.
Print Assumptions c06_hp_protect_then_unprotect.
Print Assumptions c06_build_spec.
Print Assumptions c06_roundtrip.
Print Assumptions c06_tamper_rejected.
Print Assumptions c06_tamper_discarded.
Print Assumptions c06_modified_dropped.
Print Assumptions c06_authentic_reserved_is_error.
Print Assumptions c06_other_key_or_pn_rejected.
Print Assumptions c06_keyphase_known.
Print Assumptions c06_keyphase_first.
Print Assumptions c06_keyphase_refuted.
Print Assumptions c06_keyphase.
Print Assumptions c06_get_remote_no_panic.
Print Assumptions c06_toy_roundtrip.
Print Assumptions c06_toy_len.
Print Assumptions c06_toy_dec_enc.
Print Assumptions c06_reserved_bit_instances.
Print Assumptions c06_nonvacuous.
