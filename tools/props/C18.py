"""C18 — peer transport parameters are validated and bound to on-wire connection IDs."""
import extract_tables
import pycodec as pc
from vlib import Case

PROP_FILE = "Properties/C18.v"
RULE = ("cases = both arrival orders (TLS extension first / first Initial packet first) of a peer parameter blob and the observed source "
        "connection id, for both roles; blobs are valid sets, or sets with one defect: a missing mandatory id, a role-inappropriate id, a "
        "value exactly at / one past a range bound, a malformed value, a mismatching initial_source / original_destination connection id; "
        "plus negotiated idle timeout over {0, small, large}^2 and 0-RTT acceptance over pairs of remembered/new sets; non-trivial = the "
        "blob carries a boundary value, a role-inappropriate id or a cid mismatch; distinct by hash of the op list")
TRUSTED_BASE = ["coq/Generated/ParamTable.v (ids, value types, defaults, bounds, role restrictions, mandatory sets) is regenerated from "
                "qbase/src/param/core.rs, role.rs, param/error.rs on every run",
                "tools/pycodec.py: independent RFC 9000 §18 reference (ids, types, bounds, role restrictions) used by generator and oracle"]
MODELLED = ("qbase/src/param.rs Parameters::{recv_remote_params, initial_scid_from_peer_need_equal, authenticate_cids, "
            "negotiated_max_idle_timeout}, param/core.rs {belong_to, set/validate, is_0rtt_accepted}, param/io.rs parse_from_bytes; "
            "TLS delivery of the extension (qconnection/src/tls.rs) is outside the model")
ASSUMPTIONS = ["the TLS stack hands the peer's transport_parameters extension to parse_from_bytes unchanged",
               "retry_source_connection_id is not authenticated by the code (commented out) — outside the property text, noted in DESIGN.md"]
MANIFEST = {
    "text": "Machine-checked Coq theorems (Properties/C18.v): in both arrival orders the connection becomes ready iff the peer blob parses, every id is legal for the peer's role, every bounded id is in range, the mandatory ids are present and the declared initial_source (and, for a client, original_destination) connection id equals the observed one; otherwise a TRANSPORT_PARAMETER error is raised — never a silent pending state after both events; the bounds in the table regenerated from the Rust source equal RFC 9000 §18.2; negotiated idle timeout is the smaller non-zero value; 0-RTT parameters are honoured iff none of the eight remembered limits exceeds the new one. Model and Rust Parameters are driven with the same blobs/ids in both orders every run.",
    "note": "Trusted: Coq kernel, table translator, extraction, harness, Python reference. Model hand-written from param.rs; equality with the Rust checked by correspondence. Retry source connection id authentication is commented out in the code and not part of the property text.",
    "technique": "Coq proof (case analysis over both arrival orders, invariants of the parse loop, finite table lemmas) over a model tied by a regenerated parameter table + differential correspondence",
}


def regen():
    extract_tables.regen_all()


def blob_of(ps, rng=None, shuffle=True):
    items = list(ps.items())
    if rng is not None and shuffle:
        rng.shuffle(items)
    return b"".join(pc.encode_param(pid, pc.PARAMS[pid], v) for pid, v in items)


def gen_handshake(rng, name):
    role = rng.randint(0, 1)            # our role; the peer is the other one
    peer = 1 - role
    origin = pc.rand_cid(rng, lo=1)
    scid = pc.rand_cid(rng)
    ps = pc.rand_params(rng, peer)
    ps[0x0f] = scid
    if peer == 1:
        ps[0x00] = origin
    valid, match = True, True
    tags = []
    defect = rng.random()
    if defect < 0.12:
        k = rng.choice(pc.REQUIRED[peer])
        del ps[k]
        valid = False
        tags.append("missing-required")
    elif defect < 0.24:
        bad = rng.choice(sorted(pc.CLIENT_ONLY if peer == 1 else pc.SERVER_ONLY))
        ps[bad] = pc.rand_param_value(rng, bad)
        valid = False
        tags.append("wrong-role-id")
    elif defect < 0.5:
        pid = rng.choice(sorted(pc.BOUNDS))
        lo, hi = pc.BOUNDS[pid]
        v = rng.choice([lo, hi, lo - 1, hi + 1])
        if v < 0 or v > pc.VARINT_MAX:
            v = lo
        ps[pid] = v
        valid = lo <= v <= hi
        tags.append("bound:%s" % ("in" if valid else "out"))
    elif defect < 0.62:
        which = rng.choice(["scid", "odcid"] if peer == 1 else ["scid"])
        other = bytes([(origin[0] if origin else 0) ^ 0x55]) + pc.rand_bytes(rng, rng.choice([0, 3, 7]))
        if which == "scid":
            ps[0x0f] = other if other != scid else other + b"\x01"
        else:
            ps[0x00] = other if other != origin else other + b"\x01"
        match = False
        tags.append("mismatch:" + which)
    blob = blob_of(ps, rng)
    if defect >= 0.62 and defect < 0.7:
        # malformed body for one known id
        pid = rng.choice(sorted(ps))
        blob += pc.varint(0x0c) + pc.varint(1) + b"\x00"
        valid = False
        tags.append("malformed")
    if rng.random() < 0.2:
        blob = pc.varint(27) + pc.varint(2) + b"zz" + blob
        tags.append("unknown-id")
    local_idle = rng.choice([0, 0, 10, 30000, 600000])
    cfg = [role, local_idle] + list(origin)
    order = rng.randint(0, 1)
    ops = [(1, [blob]), (2, [scid])] if order == 0 else [(2, [scid]), (1, [blob])]
    ops.append((3, []))
    remote_idle = ps.get(0x01, 0) if valid else None
    return Case(name, ops, cfg=cfg, meta={"hs": (valid, match, local_idle, remote_idle, order), "tags": tags})


def gen_0rtt(rng, name):
    ids = [0x04, 0x05, 0x06, 0x07, 0x08, 0x09, 0x0e, 0x20]
    defaults = {0x0e: 2}
    old, new = {}, {}
    for pid in ids:
        base = rng.choice([0, 1, 2, 100, 1 << 20])
        if pid == 0x0e:
            base = max(2, base)
        if rng.random() < 0.7:
            old[pid] = base
        r = rng.random()
        if r < 0.6:
            new[pid] = base + rng.choice([0, 0, 1, 50])
        elif r < 0.7:
            new[pid] = max(2 if pid == 0x0e else 0, base - 1)
    exp = all(old.get(pid, defaults.get(pid, 0)) <= new.get(pid, defaults.get(pid, 0)) for pid in ids)
    ob, nb = blob_of(old), blob_of(new)
    return Case(name, [(4, [len(ob), ob + nb])], cfg=[1, 0, 1], meta={"zr": exp})


def oracle(case, obs):
    if len(obs) != len(case.ops):
        return "length: %d observations for %d ops (%s)" % (len(obs), len(case.ops), obs[-1] if obs else "")
    for k, line in enumerate(obs):
        if line.startswith("!"):
            return "abnormal: op %d -> %s" % (k, line)
    v = [[int(x) for x in line.split()] for line in obs]
    if "zr" in case.meta:
        if v[0] != [0, 1 if case.meta["zr"] else 0]:
            return "zerortt: remembered parameters honoured=%s, expected %s" % (v[0], case.meta["zr"])
        return None
    valid, match, lidle, ridle, order = case.meta["hs"]
    first, second, idle = v[0], v[1], v[2]
    errs = [x for x in (first, second) if x[0] == 1]
    if any(x[1] != 8 for x in errs):
        return "errkind: handshake failed with connection error %s (want TRANSPORT_PARAMETER=8)" % errs
    if first == [0, 1]:
        return "early: connection became usable after the first of the two events"
    ready = second == [0, 1]
    if valid and match:
        if not ready:
            return "notready: valid parameters with matching connection ids: %s then %s" % (first, second)
        want = -1 if (lidle == 0 and ridle == 0) else (ridle if lidle == 0 else lidle if ridle == 0 else min(lidle, ridle))
        if idle != [0, want]:
            return "idle: negotiated idle timeout %s, expected %s (local %s, remote %s)" % (idle, want, lidle, ridle)
    else:
        if ready:
            return "accepted: connection became usable although parameters valid=%s cid-match=%s (%s)" % (valid, match, case.meta.get("tags"))
        if not errs:
            return "silent: invalid parameters (valid=%s match=%s) produced no transport-parameter error: %s %s" % (valid, match, first, second)
    return None


def nontrivial(case):
    return bool(case.meta.get("tags")) or "zr" in case.meta


def hist(case):
    if "zr" in case.meta:
        return ["0rtt:%s" % case.meta["zr"]]
    valid, match, _, _, order = case.meta["hs"]
    return ["role:%s" % case.cfg[0], "order:%d" % order, "valid:%s" % valid, "match:%s" % match] + ["tag:" + t for t in case.meta["tags"]]


def gen(rng, tier):
    n = 3000 if tier == "quick" else 80000
    cases = [gen_handshake(rng, "h%d" % i) for i in range(n)]
    cases += [gen_0rtt(rng, "z%d" % i) for i in range(n // 6)]
    return cases


def mutate(rng, case, j):
    return gen_handshake(rng, "m%d" % j)


STREAMS = [{
    "name": "params", "pkg": "hb", "bin": "impl_params",
    "gen": gen, "oracle": oracle, "nontrivial": nontrivial, "hist": hist, "mutate": mutate,
    "profiles": ("debug",), "profiles_thorough": ("debug", "release"),
    "rule": RULE,
}]
