(* Proofs about Model/Idle.v: an idle timeout is reported iff there was no effective payload for
   more than defer + max_idle (and no packet at all for more than max_idle), integer time. *)
From Coq Require Import List ZArith Bool Lia.
From GQ Require Import Model.Idle.
Import ListNotations.
Local Open Scope Z_scope.

Lemma ev_exec_cons : forall s e r, ev_exec s (e :: r) = ev_exec (fst (ev_step s e)) r.
Proof. reflexivity. Qed.

Record Inv (d0 : Z) (s : st) (g : ghost) : Prop := mkInv {
  i_eff : last_eff (s_tm s) = g_last_eff g;
  i_eff_le : forall t0, last_eff (s_tm s) = Some t0 -> t0 <= s_now s;
  i_idle : forall tb, idle_begin (s_tm s) = Some tb ->
           tb <= s_now s /\ exists t0, last_eff (s_tm s) = Some t0 /\ d0 < tb - t0;
  i_rcvd : forall tb tr, idle_begin (s_tm s) = Some tb -> g_last_rcvd g = Some tr -> tr <= tb;
  i_rcvd_le : forall tr, g_last_rcvd g = Some tr -> tr <= s_now s;
  i_defer : defer (s_cfg s) = d0;
  i_sent : sent_since (s_tm s) = g_sent g }.

Lemma health_tail_tm : forall c t now, fst (health_tail c t now) = t.
Proof. intros. unfold health_tail. destruct (idle_begin t); [destruct (timeout_after _ _ _)|]; reflexivity. Qed.

Lemma inv_step : forall d0 s g e, Inv d0 s g -> Inv d0 (fst (ev_step s e)) (ghost_step (s_now s) g e).
Proof.
  intros d0 s g e [E EL ID RC RL DF SS]. destruct s as [now c t]. destruct t as [hb le ib ss].
  destruct g as [ge gr gs].
  cbn [s_now s_cfg s_tm last_eff idle_begin hb_times sent_since g_last_eff g_last_rcvd g_sent] in *.
  subst gs.
  destruct e as [dt | ct | ct | | r]; cbn [ev_step fst ghost_step s_now s_cfg s_tm g_sent g_last_eff g_last_rcvd].
  - (* advance *)
    constructor; cbn [s_now s_cfg s_tm last_eff idle_begin sent_since g_sent]; auto.
    + intros t0 H. specialize (EL t0 H). lia.
    + intros tb H. destruct (ID tb H) as [A B]. split; [lia|exact B].
    + intros tr H. specialize (RL tr H). lia.
  - (* sent *)
    unfold on_sent. cbn [sent_since]. destruct (effective ct && negb ss);
      cbn [last_eff idle_begin hb_times g_last_eff g_last_rcvd].
    + constructor; cbn [s_now s_cfg s_tm last_eff idle_begin sent_since g_last_eff g_last_rcvd g_sent]; auto.
      * intros t0 H. inversion H. lia.
      * intros tb H. discriminate.
      * intros tb tr H. discriminate.
    + constructor; cbn [s_now s_cfg s_tm last_eff idle_begin sent_since g_sent]; auto.
  - (* received *)
    unfold on_rcvd. destruct (effective ct); cbn [last_eff idle_begin hb_times sent_since g_last_eff g_last_rcvd].
    + constructor; cbn [s_now s_cfg s_tm last_eff idle_begin sent_since g_last_eff g_last_rcvd g_sent]; auto.
      * intros t0 H. inversion H. lia.
      * intros tb H. discriminate.
      * intros tb tr H. discriminate.
      * intros tr H. inversion H. lia.
    + destruct ib as [tb0|]; cbn [last_eff idle_begin hb_times sent_since].
      * constructor; cbn [s_now s_cfg s_tm last_eff idle_begin sent_since g_last_eff g_last_rcvd g_sent]; auto.
        -- intros tb H. inversion H; subst tb. destruct (ID tb0 eq_refl) as [A (t0 & B & C)].
           split; [lia|]. exists t0. split; auto. lia.
        -- intros tb tr H1 H2. inversion H1; inversion H2. lia.
        -- intros tr H. inversion H. lia.
      * constructor; cbn [s_now s_cfg s_tm last_eff idle_begin sent_since g_last_eff g_last_rcvd g_sent]; auto.
        -- intros tb tr H. discriminate.
        -- intros tr H. inversion H. lia.
  - (* health *)
    unfold health. cbn [last_eff idle_begin hb_times sent_since].
    destruct le as [t0|].
    + destruct (Z.ltb_spec (defer c) (now - t0)) as [D|D].
      * destruct ib as [tb|].
        -- pose proof (health_tail_tm c (mktm hb (Some t0) (Some tb) ss) now) as HT.
           destruct (health_tail c (mktm hb (Some t0) (Some tb) ss) now) as [t' o]. cbn [fst] in HT. subst t'.
           cbn [fst]. constructor; cbn [s_now s_cfg s_tm last_eff idle_begin sent_since g_sent]; auto.
        -- cbn [fst]. constructor; cbn [s_now s_cfg s_tm last_eff idle_begin sent_since g_sent]; auto.
           ++ intros tb H. inversion H; subst tb. split; [lia|]. exists t0. split; auto. lia.
           ++ intros tb tr H1 H2. inversion H1; subst tb. apply RL. exact H2.
      * destruct (hb_interval c * (hb + 1) <? now - t0).
        -- cbn [fst]. constructor; cbn [s_now s_cfg s_tm last_eff idle_begin sent_since g_sent]; auto.
        -- pose proof (health_tail_tm c (mktm hb (Some t0) ib ss) now) as HT.
           destruct (health_tail c (mktm hb (Some t0) ib ss) now) as [t' o]. cbn [fst] in HT. subst t'.
           cbn [fst]. constructor; cbn [s_now s_cfg s_tm last_eff idle_begin sent_since g_sent]; auto.
    + pose proof (health_tail_tm c (mktm hb None ib ss) now) as HT.
      destruct (health_tail c (mktm hb None ib ss) now) as [t' o]. cbn [fst] in HT. subst t'.
      cbn [fst]. constructor; cbn [s_now s_cfg s_tm last_eff idle_begin sent_since g_sent]; auto.
  - (* negotiate *)
    constructor; cbn [s_now s_cfg s_tm last_eff idle_begin sent_since negotiate defer g_sent]; auto.
Qed.

Lemma inv_run : forall d0 evs s g, Inv d0 s g -> Inv d0 (ev_exec s evs) (ghost_run s g evs).
Proof.
  induction evs as [|e r IH]; intros s g H; [exact H|].
  rewrite ev_exec_cons. cbn [ghost_run]. apply IH. apply inv_step. exact H.
Qed.

Lemma inv_init : forall m d, Inv d (st_init m d) ghost_init.
Proof.
  intros. constructor; cbn; auto; intros; discriminate.
Qed.

Lemma health_timeout_inv : forall c t now,
  snd (health c t now) = HTimeout ->
  exists tb, idle_begin t = Some tb /\ max_idle c <> 0 /\ max_idle c < now - tb.
Proof.
  intros c t now H.
  assert (HT : snd (health_tail c t now) = HTimeout ->
               exists tb, idle_begin t = Some tb /\ max_idle c <> 0 /\ max_idle c < now - tb).
  { unfold health_tail. destruct (idle_begin t) as [tb|]; [|discriminate].
    unfold timeout_after. destruct (Z.eqb_spec (max_idle c) 0); cbn [negb andb]; [discriminate|].
    destruct (Z.ltb_spec (max_idle c) (now - tb)); [|discriminate]. intros _. exists tb. auto. }
  unfold health in H. destruct (last_eff t) as [t0|]; [|auto].
  destruct (defer c <? now - t0).
  - destruct (idle_begin t) eqn:IB; [|discriminate]. apply HT in H. try rewrite IB in H. exact H.
  - destruct (hb_interval c * (hb_times t + 1) <? now - t0); [discriminate|auto].
Qed.

(* NOT BEFORE: a TimeOut answer implies that idle timeout is enabled, that the last effective
   payload (sent or received) is more than defer + max_idle old, and that no packet of any kind was
   received during the last max_idle *)
Lemma p_c17_idle_not_before : forall m d evs,
  let s := ev_exec (st_init m d) evs in
  let g := ghost_run (st_init m d) ghost_init evs in
  snd (health (s_cfg s) (s_tm s) (s_now s)) = HTimeout ->
  max_idle (s_cfg s) <> 0 /\
  (exists t0, g_last_eff g = Some t0 /\ d + max_idle (s_cfg s) < s_now s - t0) /\
  (forall tr, g_last_rcvd g = Some tr -> max_idle (s_cfg s) < s_now s - tr).
Proof.
  intros m d evs s g H.
  pose proof (inv_run d evs _ _ (inv_init m d)) as [E EL ID RC RL DF SS]. fold s g in E, EL, ID, RC, RL, DF.
  apply health_timeout_inv in H. destruct H as (tb & IB & M0 & ML).
  destruct (ID tb IB) as [A (t0 & B & C)].
  split; [exact M0|]. split.
  - exists t0. rewrite <- E. split; [exact B|lia].
  - intros tr Hr. specialize (RC tb tr IB Hr). lia.
Qed.

(* ---------------------------------------------------------------- AFTER *)
Lemma now_mono_step : forall s e, s_now s <= s_now (fst (ev_step s e)).
Proof.
  intros s e. destruct e; cbn [ev_step fst s_now]; try lia.
  destruct (health (s_cfg s) (s_tm s) (s_now s)). cbn. lia.
Qed.

Lemma health_keeps_idle : forall c t now tb,
  idle_begin t = Some tb ->
  idle_begin (fst (health c t now)) = Some tb /\ last_eff (fst (health c t now)) = last_eff t /\
  sent_since (fst (health c t now)) = sent_since t.
Proof.
  intros c t now tb IB. unfold health. destruct (last_eff t) as [t0|] eqn:LE.
  - destruct (defer c <? now - t0).
    + rewrite IB. rewrite health_tail_tm. auto.
    + destruct (hb_interval c * (hb_times t + 1) <? now - t0); cbn [fst idle_begin last_eff sent_since]; auto.
      rewrite health_tail_tm. auto.
  - rewrite health_tail_tm. auto.
Qed.

Lemma quiet_run : forall q s t0 tb h1,
  forallb quiet_ev q = true ->
  (sent_since (s_tm s) = true \/ forallb not_eff_send q = true) ->
  last_eff (s_tm s) = Some t0 -> idle_begin (s_tm s) = Some tb -> tb <= h1 -> h1 <= s_now s ->
  let s2 := ev_exec s q in
  last_eff (s_tm s2) = Some t0 /\ idle_begin (s_tm s2) = Some tb /\ s_cfg s2 = s_cfg s /\ h1 <= s_now s2.
Proof.
  induction q as [|e r IH]; intros s t0 tb h1 Hq Hs LE IB Htb Hn; cbn zeta.
  - cbn. auto.
  - rewrite ev_exec_cons. cbn [forallb] in Hq. apply andb_true_iff in Hq. destruct Hq as [Qe Qr].
    assert (X : last_eff (s_tm (fst (ev_step s e))) = Some t0 /\
                idle_begin (s_tm (fst (ev_step s e))) = Some tb /\
                s_cfg (fst (ev_step s e)) = s_cfg s /\
                (sent_since (s_tm (fst (ev_step s e))) = true \/ forallb not_eff_send r = true)).
    { assert (Hr : sent_since (s_tm s) = true \/ forallb not_eff_send r = true).
      { destruct Hs as [Hs|Hs]; [left; exact Hs|right]. cbn [forallb] in Hs. apply andb_true_iff in Hs. apply Hs. }
      assert (He : sent_since (s_tm s) = true \/ not_eff_send e = true).
      { destruct Hs as [Hs|Hs]; [left; exact Hs|right]. cbn [forallb] in Hs. apply andb_true_iff in Hs. apply Hs. }
      destruct e as [dt | ct | ct | | rr]; cbn [quiet_ev] in Qe; try discriminate; cbn [ev_step fst s_tm s_cfg].
      - split; [exact LE|]. split; [exact IB|]. split; [reflexivity|exact Hr].
      - assert (Z0 : effective ct && negb (sent_since (s_tm s)) = false).
        { destruct He as [He|He]; [rewrite He; apply andb_false_r|].
          cbn [not_eff_send] in He. apply negb_true_iff in He. rewrite He. reflexivity. }
        unfold on_sent. rewrite Z0. split; [exact LE|]. split; [exact IB|]. split; [reflexivity|exact Hr].
      - pose proof (health_keeps_idle (s_cfg s) (s_tm s) (s_now s) tb IB) as [A [B C]].
        destruct (health (s_cfg s) (s_tm s) (s_now s)) as [t' o]. cbn [fst s_tm s_cfg] in *.
        rewrite B, C. split; [exact LE|]. split; [exact A|]. split; [reflexivity|exact Hr]. }
    destruct X as (X1 & X2 & X3 & X4).
    pose proof (now_mono_step s e) as M.
    destruct (IH (fst (ev_step s e)) t0 tb h1 Qr X4 X1 X2 Htb ltac:(lia)) as (A & B & C & D).
    rewrite C, X3. auto.
Qed.

(* AFTER: once a health check has seen the last restart of the idle period (a received effective
   packet, or the first effective packet sent after a receive) more than defer old, then - as long
   as nothing is received - every health check later than max_idle after that first one answers
   TimeOut, WHATEVER we keep sending: once an effective packet has been sent since the last receive,
   further effective packets (retransmissions into a dead network) do not postpone the timeout.
   (Path::drive calls health every 10 ms.) *)
Lemma p_c17_idle_after : forall m d pre q t0,
  let s := ev_exec (st_init m d) pre in
  last_eff (s_tm s) = Some t0 -> d < s_now s - t0 ->
  forallb quiet_ev q = true ->
  (sent_since (s_tm s) = true \/ forallb not_eff_send q = true) ->
  let s1 := fst (ev_step s EHealth) in
  let s2 := ev_exec s1 q in
  max_idle (s_cfg s2) <> 0 -> 0 <= max_idle (s_cfg s2) -> max_idle (s_cfg s2) < s_now s2 - s_now s ->
  snd (health (s_cfg s2) (s_tm s2) (s_now s2)) = HTimeout.
Proof.
  intros m d pre q t0 s LE Hd Hq Hs s1 s2 M0 Mp ML.
  pose proof (inv_run d pre _ _ (inv_init m d)) as [E EL ID RC RL DF SS].
  fold s in E, EL, ID, RC, RL, DF.
  assert (S1 : exists tb, idle_begin (s_tm s1) = Some tb /\ tb <= s_now s /\
                          last_eff (s_tm s1) = Some t0 /\ s_cfg s1 = s_cfg s /\ s_now s1 = s_now s /\
                          sent_since (s_tm s1) = sent_since (s_tm s)).
  { subst s1. cbn [ev_step]. unfold health. rewrite LE. rewrite DF.
    destruct (Z.ltb_spec d (s_now s - t0)); [|lia].
    destruct (idle_begin (s_tm s)) as [tb|] eqn:IB.
    - pose proof (health_tail_tm (s_cfg s) (s_tm s) (s_now s)) as HT.
      destruct (health_tail (s_cfg s) (s_tm s) (s_now s)) as [t' o]. cbn [fst] in *. subst t'.
      exists tb. cbn [s_tm s_cfg s_now]. destruct (ID tb ltac:(first [exact IB | reflexivity])) as [A _]. auto 7.
    - cbn [fst s_tm s_cfg s_now idle_begin last_eff sent_since]. exists (s_now s). repeat split; auto. lia. }
  destruct S1 as (tb & IB1 & Htb & LE1 & C1 & N1 & F1).
  assert (Hs1 : sent_since (s_tm s1) = true \/ forallb not_eff_send q = true)
    by (destruct Hs as [Hs|Hs]; [left; congruence|right; exact Hs]).
  destruct (quiet_run q s1 t0 tb (s_now s) Hq Hs1 LE1 IB1 Htb ltac:(lia)) as (A & B & C & D).
  fold s2 in A, B, C, D.
  unfold health. rewrite A. rewrite C, C1 in *. rewrite DF.
  destruct (Z.ltb_spec d (s_now s2 - t0)); [|lia].
  rewrite B. unfold health_tail. rewrite B. unfold timeout_after.
  destruct (Z.eqb_spec (max_idle (s_cfg s)) 0); [contradiction|]. cbn [negb andb].
  destruct (Z.ltb_spec (max_idle (s_cfg s)) (s_now s2 - tb)); [reflexivity|lia].
Qed.

(* F65 regression: effective packets sent every 5 ms into a dead network (nothing is ever received),
   max_idle 20 ms, defer 0.  Under the rule before the repair every send restarts the idle period and
   the health check 40 ms later still does not time out; under the repaired rule it does. *)
Definition f65_history : list ev :=
  [ESent EffectivePayload; EAdv 1000; EHealth;
   EAdv 5000; ESent EffectivePayload; EHealth; EAdv 5000; ESent EffectivePayload; EHealth;
   EAdv 5000; ESent EffectivePayload; EHealth; EAdv 5000; ESent EffectivePayload; EHealth;
   EAdv 5000; ESent EffectivePayload; EHealth; EAdv 5000; ESent EffectivePayload; EHealth;
   EAdv 5000; ESent EffectivePayload; EHealth; EAdv 5000; ESent EffectivePayload; EAdv 1000].
Lemma p_c17_idle_retransmit_regression :
  let old := ev_exec_f65 (st_init 20000 0) f65_history in
  let new := ev_exec (st_init 20000 0) f65_history in
  s_now old = 42000 /\
  snd (health (s_cfg old) (s_tm old) (s_now old)) <> HTimeout /\
  snd (health (s_cfg new) (s_tm new) (s_now new)) = HTimeout.
Proof. vm_compute. repeat split; try reflexivity. discriminate. Qed.

(* negotiate: the smaller non-zero value, the only non-zero value, or disabled *)
Lemma p_c17_negotiate : forall c r, 0 <= max_idle c -> 0 <= r ->
  let m := max_idle (negotiate c r) in
  (max_idle c = 0 -> m = r) /\ (r = 0 -> m = max_idle c) /\
  (max_idle c <> 0 -> r <> 0 -> m = Z.min (max_idle c) r) /\ defer (negotiate c r) = defer c.
Proof.
  intros c r H1 H2. unfold negotiate. cbn [max_idle defer].
  destruct (Z.eqb_spec r 0); destruct (Z.eqb_spec (max_idle c) 0); repeat split; intros; try lia.
Qed.
