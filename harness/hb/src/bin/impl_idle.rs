//! Correspondence stream `idle` (C17): drives the REAL `qbase::time::{ArcIdleConfig, ArcIdleTimer}`
//! under a paused tokio clock that is advanced explicitly.
//!
//! CASE cfg: max_idle_ms defer_ms
//! ops:
//!   1 ADV dt_ms      advance the paused clock
//!   2 SENT c         `on_sent(content c)`   c: 0 NonAckEliciting, 1 JustPing, 2 EffectivePayload
//!   3 RCVD c         `on_rcvd(content c)`
//!   4 HEALTH         `health()`
//!   5 NEGOTIATE ms   `negotiate_max_idle_timeout(ms)` (the peer's max_idle_timeout)
//! observation: ADV -> elapsed ms since the case began; HEALTH -> 0 nothing | 1 PING | 2 TimeOut; others 0
use hproto::{Obs, Op};
use qbase::{
    packet::PacketContent,
    time::{ArcIdleConfig, ArcIdleTimer},
};
use tokio::time::{Duration, Instant};

struct St {
    cfg: ArcIdleConfig,
    timer: ArcIdleTimer,
    t0: Instant,
}

fn content(c: u64) -> PacketContent {
    match c {
        0 => PacketContent::NonAckEliciting,
        1 => PacketContent::JustPing,
        _ => PacketContent::EffectivePayload,
    }
}

fn main() {
    let rt = tokio::runtime::Builder::new_current_thread()
        .enable_time()
        .start_paused(true)
        .build()
        .unwrap();
    let _g = rt.enter();
    hproto::run(
        |w: &[&str]| {
            let max_idle: u64 = w[0].parse().unwrap();
            let defer: u64 = w[1].parse().unwrap();
            let cfg = ArcIdleConfig::new(Duration::from_millis(max_idle), Duration::from_millis(defer));
            let timer = cfg.timer();
            St { cfg, timer, t0: Instant::now() }
        },
        |st: &mut St, op: &Op, _i: usize| {
            let mut o = Obs::new();
            match op.tag {
                1 => {
                    rt.block_on(tokio::time::advance(Duration::from_millis(op.u(0))));
                    o.push(st.t0.elapsed().as_millis() as i128);
                }
                2 => {
                    st.timer.on_sent(content(op.u(0)));
                    o.push(0);
                }
                3 => {
                    st.timer.on_rcvd(content(op.u(0)));
                    o.push(0);
                }
                4 => {
                    o.push(match st.timer.health() {
                        Ok(None) => 0,
                        Ok(Some(_)) => 1,
                        Err(_) => 2,
                    });
                }
                5 => {
                    st.cfg.negotiate_max_idle_timeout(Duration::from_millis(op.u(0)));
                    o.push(0);
                }
                _ => {
                    o.push(-99);
                }
            }
            o
        },
    );
}
