//! In-memory, fault-injecting datagram network for running REAL dquic endpoints under paused
//! tokio time (property C02), plus the history recorder shared by the workload tasks.
pub mod net;
pub mod rec;

/// splitmix64: every random choice of a run derives from the case seed.
#[derive(Clone)]
pub struct Rng(pub u64);
impl Rng {
    pub fn new(seed: u64) -> Self {
        Rng(seed.wrapping_mul(0x9E37_79B9_7F4A_7C15) ^ 0xD1B5_4A32_D192_ED03)
    }
    pub fn next(&mut self) -> u64 {
        self.0 = self.0.wrapping_add(0x9E37_79B9_7F4A_7C15);
        let mut z = self.0;
        z = (z ^ (z >> 30)).wrapping_mul(0xBF58_476D_1CE4_E5B9);
        z = (z ^ (z >> 27)).wrapping_mul(0x94D0_49BB_1331_11EB);
        z ^ (z >> 31)
    }
    /// uniform in [0, n)
    pub fn below(&mut self, n: u64) -> u64 {
        if n == 0 { 0 } else { self.next() % n }
    }
    /// true with probability permille/1000
    pub fn chance(&mut self, permille: u64) -> bool {
        self.below(1000) < permille
    }
}
