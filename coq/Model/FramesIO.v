(* Operation interface of the `codec` correspondence stream for frames and varints. *)
From Coq Require Import List ZArith NArith Bool.
From GQ Require Export Model.Frames Model.Admission.
Import ListNotations.
Local Open Scope Z_scope.

Definition b2z (b : bool) : Z := if b then 1 else 0.
Definition pbytes (l : list Z) : list Z := zlen l :: l.
(* reason phrases are Strings on the Rust side (from_utf8_lossy): compared only when pure ASCII *)
Definition preason (l : list Z) : list Z := if forallb (fun b => b <? 128) l then pbytes l else [-1].

Definition u32 (v : Z) : Z := v mod 2 ^ 32.

Fixpoint pranges (rs : list (Z * Z)) : list Z :=
  match rs with [] => [] | (g, a) :: r => g :: a :: pranges r end.

(* canonical field list of a frame value *)
Definition frame_fields (f : frame) : list Z :=
  match f with
  | Padding | Ping | HandshakeDone => []
  | Ack l d fr rs e => [l; d; fr; zlen rs] ++ pranges rs ++
                       match e with Some (a, b, c) => [1; a; b; c] | None => [0] end
  | ResetStream s e fs => [s; e; fs]
  | StopSending s e => [s; e]
  | Crypto off d => off :: pbytes d
  | NewToken t => pbytes t
  | Stream s off lb fin d => [s; off; b2z lb; b2z fin] ++ pbytes d
  | MaxData v | DataBlocked v | RetireConnectionId v | RemoveAddress v => [v]
  | MaxStreamData s v | StreamDataBlocked s v => [s; v]
  | MaxStreams _ v | StreamsBlocked _ v => [v]
  | NewConnectionId seq rpt cid tok => [seq; rpt] ++ pbytes cid ++ pbytes tok
  | PathChallenge d | PathResponse d => pbytes d
  | CloseQuic k ft r => [k; ft] ++ preason r
  | CloseApp c r => c :: preason r
  | Datagram _ d => pbytes d
  (* the public accessors of the traversal frames return `as u32` truncations; the full values
     are still compared through the re-encode operation *)
  | AddAddress _ seq port ip tire nat => [u32 seq; port; ip; u32 tire; nat]
  | PunchMeNow _ l r port ip tire nat => [u32 l; u32 r; port; ip; u32 tire; nat]
  | PunchHello l r p | PunchDone l r p => [u32 l; u32 r; u32 p]
  end.

Definition ferr_code (e : ferr) : Z :=
  match e with ENoFrames => 0 | EIncompleteType => 1 | EInvalidType => 2 | EWrongType => 3
             | EIncompleteFrame => 4 | EParseError => 5 end.

Definition ptype_of (v : Z) : ptype :=
  if v =? 0 then PInitial else if v =? 1 then PHandshake else if v =? 2 then PZeroRtt else POneRtt.

Definition print_fres (r : fres) : list Z :=
  match r with
  | FOk c f t => [0; c; code_of_ft t] ++ frame_fields f
  | FErr e => [1; ferr_code e; quic_error_of e]
  | FPanic s => [2; Z.of_N s]
  end.

(* ---- parsing a field list back into a frame (ENC operation) ---- *)
Definition take_bytes (l : list Z) : option (list Z * list Z) :=
  match l with
  | n :: r => if (Z.of_nat (length r) <? n) || (n <? 0) then None
              else Some (firstn (Z.to_nat n) r, skipn (Z.to_nat n) r)
  | [] => None
  end.

Fixpoint take_ranges (n : nat) (l : list Z) : option (list (Z * Z) * list Z) :=
  match n with
  | O => Some ([], l)
  | S k => match l with
           | g :: a :: r => match take_ranges k r with Some (rs, r') => Some ((g, a) :: rs, r') | None => None end
           | _ => None
           end
  end.

Definition z2b (v : Z) : bool := negb (v =? 0).

Definition frame_of_fields (t : ftype) (l : list Z) : option frame :=
  match t, l with
  | TPadding, [] => Some Padding
  | TPing, [] => Some Ping
  | THandshakeDone, [] => Some HandshakeDone
  | TAck _, l0 :: d :: fr :: n :: r =>
      match take_ranges (Z.to_nat n) r with
      | Some (rs, [0]) => Some (Ack l0 d fr rs None)
      | Some (rs, [1; a; b; c]) => Some (Ack l0 d fr rs (Some (a, b, c)))
      | _ => None
      end
  | TResetStream, [s; e; fs] => Some (ResetStream s e fs)
  | TStopSending, [s; e] => Some (StopSending s e)
  | TCrypto, off :: r => match take_bytes r with Some (d, []) => Some (Crypto off d) | _ => None end
  | TNewToken, r => match take_bytes r with Some (d, []) => Some (NewToken d) | _ => None end
  | TStream _ _ _, s :: off :: lb :: fin :: r =>
      match take_bytes r with Some (d, []) => Some (Stream s off (z2b lb) (z2b fin) d) | _ => None end
  | TMaxData, [v] => Some (MaxData v)
  | TMaxStreamData, [s; v] => Some (MaxStreamData s v)
  | TMaxStreams u, [v] => Some (MaxStreams u v)
  | TDataBlocked, [v] => Some (DataBlocked v)
  | TStreamDataBlocked, [s; v] => Some (StreamDataBlocked s v)
  | TStreamsBlocked u, [v] => Some (StreamsBlocked u v)
  | TNewConnectionId, seq :: rpt :: r =>
      match take_bytes r with
      | Some (cid, r') => match take_bytes r' with Some (tok, []) => Some (NewConnectionId seq rpt cid tok) | _ => None end
      | None => None
      end
  | TRetireConnectionId, [v] => Some (RetireConnectionId v)
  | TPathChallenge, r => match take_bytes r with Some (d, []) => Some (PathChallenge d) | _ => None end
  | TPathResponse, r => match take_bytes r with Some (d, []) => Some (PathResponse d) | _ => None end
  | TConnectionClose false, k :: ft :: r => match take_bytes r with Some (d, []) => Some (CloseQuic k ft d) | _ => None end
  | TConnectionClose true, c :: r => match take_bytes r with Some (d, []) => Some (CloseApp c d) | _ => None end
  | TDatagram w, r => match take_bytes r with Some (d, []) => Some (Datagram w d) | _ => None end
  | TAddAddress v6, [seq; port; ip; tire; nat] => Some (AddAddress v6 seq port ip tire nat)
  | TRemoveAddress, [v] => Some (RemoveAddress v)
  | TPunchMeNow v6, [l0; r; port; ip; tire; nat] => Some (PunchMeNow v6 l0 r port ip tire nat)
  | TPunchHello, [l0; r; p] => Some (PunchHello l0 r p)
  | TPunchDone, [l0; r; p] => Some (PunchDone l0 r p)
  | _, _ => None
  end.

Definition ascii_reason (f : frame) : bool :=
  match f with
  | CloseQuic _ _ r | CloseApp _ r => forallb (fun b => b <? 128) r
  | _ => true
  end.

Fixpoint print_all (rs : list fres) : list Z :=
  match rs with
  | [] => []
  | FOk c f t :: r => 0 :: c :: code_of_ft t :: print_all r
  | FErr e :: r => 1 :: ferr_code e :: print_all r
  | FPanic s :: r => 2 :: Z.of_N s :: print_all r
  end.

(* ops:  1 ptype bytes…      decode one frame
         2 ptype bytes…      FrameReader over a whole payload: (class, consumed|err, type)*
         3 typecode fields…  encode a frame value: size, max size, bytes
         4 x                 put_varint: size, bytes
         5 bytes…            be_varint: 0 value consumed | 1
         6 ptype bytes…      decode then re-encode: sizes and bytes *)
Definition codec_step (t : N) (args : list Z) : list Z :=
  match t, args with
  | 1%N, p :: bs => print_fres (be_frame (ptype_of p) bs)
  | 2%N, p :: bs => print_all (frames_of (ptype_of p) bs)
  | 3%N, code :: fields =>
      match ft_of_code code with
      | Some ty => match frame_of_fields ty fields with
                   | Some f => [0; encoding_size f; max_encoding_size f] ++ put_frame f
                   | None => [-2]
                   end
      | None => [-2]
      end
  | 4%N, [x] => varint_size x :: put_varint x
  | 5%N, bs => match be_varint bs with
               | Ok v rest => [0; v; zlen bs - zlen rest]
               | _ => [1]
               end
  | 6%N, p :: bs =>
      match be_frame (ptype_of p) bs with
      | FOk c f _ =>
          (* reason phrases are Strings in the Rust (from_utf8_lossy): only pure-ASCII ones re-encode identically *)
          if ascii_reason f then [0; c; encoding_size f; max_encoding_size f] ++ put_frame f else [0; c; -1]
      | FErr e => [1; ferr_code e]
      | FPanic s => [2; Z.of_N s]
      end
  (* 7 capacity sid off len : StreamFrame::encoding_strategy ; 8 capacity sid off : StreamFrame::estimate_max_capacity ;
     9 capacity off : CryptoFrame::estimate_max_capacity *)
  | 7%N, [cap; sid; off; len] =>
      match encoding_strategy cap sid off len with Some (e, pad) => [0; b2z e; pad] | None => [-7] end
  | 8%N, [cap; sid; off] => match stream_estimate cap sid off with Some n => [1; n] | None => [0] end
  | 9%N, [cap; off] =>
      match crypto_estimate cap off with Some (Some n) => [1; n] | Some None => [0] | None => [-9] end
  | _, _ => [-99]
  end.

Definition run_codec (cfg : list Z) (ops : list (N * list Z)) : list (list Z) :=
  map (fun o => codec_step (fst o) (snd o)) ops.
