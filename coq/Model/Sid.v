(* Model of qbase/src/sid.rs, sid/local_sid.rs, sid/remote_sid.rs, sid/handy.rs.  Definitions only.

   StreamId = ((index << 1 | dir) << 1) | role.  LocalStreamIds / RemoteStreamIds are modelled
   branch by branch; wakers are not modelled (C16), frames "sent" are returned as values. *)
From Coq Require Import List NArith ZArith Bool.
Import ListNotations.
Local Open Scope N_scope.

Inductive role := Client | Server.
Inductive dir := Bi | Uni.

Definition role_eqb (a b : role) : bool :=
  match a, b with Client, Client | Server, Server => true | _, _ => false end.
Definition dir_eqb (a b : dir) : bool :=
  match a, b with Bi, Bi | Uni, Uni => true | _, _ => false end.
Definition peer_of (r : role) : role := match r with Client => Server | Server => Client end.

Definition role_bit (r : role) : N := match r with Client => 0 | Server => 1 end.
Definition dir_bit (d : dir) : N := match d with Bi => 0 | Uni => 1 end.

(* StreamId::new / role / dir / id *)
Definition sid_of (r : role) (d : dir) (idx : N) : N := idx * 4 + dir_bit d * 2 + role_bit r.
Definition sid_role (s : N) : role := if s mod 2 =? 0 then Client else Server.
Definition sid_dir (s : N) : dir := if (s / 2) mod 2 =? 0 then Bi else Uni.
Definition sid_idx (s : N) : N := s / 4.

Definition MAX_STREAMS_LIMIT : N := 2 ^ 60 - 1.

(* a pair indexed by direction: [u64; 2] *)
Definition pget (p : N * N) (d : dir) : N := match d with Bi => fst p | Uni => snd p end.
Definition pset (p : N * N) (d : dir) (v : N) : N * N :=
  match d with Bi => (v, snd p) | Uni => (fst p, v) end.

(* ---------------------------------------------------------------- LocalStreamIds *)
Record lsid := mklsid { l_max : N * N; l_next : N * N }.

Inductive alloc_res :=
| AllocNone                       (* Poll::Ready(None): index space exhausted *)
| AllocSid (sid : N)              (* Poll::Ready(Some(sid)) *)
| AllocPending (blocked_at : N).  (* Poll::Pending, STREAMS_BLOCKED(dir, max) queued *)

Definition poll_alloc_sid (r : role) (s : lsid) (d : dir) : lsid * alloc_res :=
  let max := pget (l_max s) d in
  let una := pget (l_next s) d in
  if MAX_STREAMS_LIMIT <? una then (s, AllocNone)
  else if una <? max then (mklsid (l_max s) (pset (l_next s) d (una + 1)), AllocSid (sid_of r d una))
  else (s, AllocPending max).

(* increase_limit; the `assert!(val <= MAX_STREAMS_LIMIT)` is an explicit outcome *)
Definition increase_limit (s : lsid) (d : dir) (v : N) : option lsid :=
  if MAX_STREAMS_LIMIT <? v then None
  else if pget (l_max s) d <? v then Some (mklsid (pset (l_max s) d v) (l_next s))
  else Some s.

Definition revise_max_streams (s : lsid) (rejected : bool) (bi uni : N) : option lsid :=
  let s0 := if rejected then mklsid (0, 0) (l_next s) else s in
  match increase_limit s0 Bi bi with
  | None => None
  | Some s1 => increase_limit s1 Uni uni
  end.

(* ---------------------------------------------------------------- concurrency controllers *)
Inductive ctrl :=
| Consistent (ms : N * N)     (* handy::ConsistentConcurrency { max_streams } *)
| Demand.                     (* handy::DemandConcurrency *)

Definition ctrl_on_accept (c : ctrl) (d : dir) (idx : N) : ctrl * option N := (c, None).
Definition ctrl_on_end (c : ctrl) (d : dir) (idx : N) : ctrl * option N :=
  match c with
  | Consistent ms => let n := pget ms d + 1 in (Consistent (pset ms d n), Some n)
  | Demand => (Demand, None)
  end.
Definition ctrl_on_blocked (c : ctrl) (d : dir) (v : N) : ctrl * option N :=
  match c with
  | Consistent ms => (c, None)
  | Demand => (Demand, Some (v + 1))
  end.

(* ---------------------------------------------------------------- RemoteStreamIds *)
(* r_next holds the INDEX of the first stream the peer has not used yet (the Rust keeps the
   StreamId; ids of one role and direction are ordered like their indices) *)
Record rsid := mkrsid { r_max : N * N; r_next : N * N; r_ctrl : ctrl }.

Inductive accept_res :=
| AccExceed (limit : N)
| AccOld
| AccNew (first last : N).   (* NeedCreate { start, end } as indices, both inclusive *)

(* [strict] = false is the code as it is (`sid.id() > max`); true is the RFC's `>=` *)
Definition over_limit (strict : bool) (idx max : N) : bool :=
  if strict then max <=? idx else max <? idx.

(* how a limit returned by the strategy is applied.  [mono] = false is the code before the F27
   repair (stored and advertised whatever it is); true = RemoteStreamIds::raise_limit (only an
   increase is applied and advertised) *)
Definition raise_limit (mono : bool) (max : N * N) (d : dir) (m : N) : (N * N) * option N :=
  if mono then (if pget max d <? m then (pset max d m, Some m) else (max, None))
  else (pset max d m, Some m).

Definition apply_up (mono : bool) (max : N * N) (d : dir) (up : option N) : (N * N) * option N :=
  match up with Some m => raise_limit mono max d m | None => (max, None) end.

Definition try_accept_sid (strict mono : bool) (s : rsid) (d : dir) (idx : N) : rsid * accept_res * option N :=
  let max := pget (r_max s) d in
  if over_limit strict idx max then (s, AccExceed max, None)
  else
    let cur := pget (r_next s) d in
    if idx <? cur then (s, AccOld, None)
    else
      let '(c', up) := ctrl_on_accept (r_ctrl s) d idx in
      let '(max', adv) := apply_up mono (r_max s) d up in
      (mkrsid max' (pset (r_next s) d (idx + 1)) c', AccNew cur idx, adv).

(* on_end_of_stream for a stream of the peer's role (the caller checks the role) *)
Definition on_end_of_stream (mono : bool) (s : rsid) (d : dir) (idx : N) : rsid * option N :=
  let '(c', up) := ctrl_on_end (r_ctrl s) d idx in
  let '(max', adv) := apply_up mono (r_max s) d up in
  (mkrsid max' (r_next s) c', adv).

(* recv_streams_blocked.  Before the repair the strategy saw the value of the peer's frame; after
   it a value below the limit in force is ignored and the strategy sees the limit in force *)
Definition recv_streams_blocked (mono : bool) (s : rsid) (d : dir) (v : N) : rsid * option N :=
  let cur := pget (r_max s) d in
  if mono && (v <? cur) then (s, None)
  else
    let '(c', up) := ctrl_on_blocked (r_ctrl s) d (if mono then cur else v) in
    let '(max', adv) := apply_up mono (r_max s) d up in
    (mkrsid max' (r_next s) c', adv).

(* NeedCreate iterator: indices first..last *)
Fixpoint range_nat (start : N) (n : nat) : list N :=
  match n with O => [] | S k => start :: range_nat (start + 1) k end.
Definition need_create (first last : N) : list N :=
  range_nat first (N.to_nat (last + 1 - first)).
