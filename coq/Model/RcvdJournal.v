(* Model of qrecovery/src/journal/rcvd.rs (RcvdJournal) on top of the IndexDeque behaviour of
   qbase/src/util/index_deque.rs.  Definitions only.

   The IndexDeque<State, VARINT_MAX> is the pair (r_off, r_recs): the record of packet number
   pn is element (pn - r_off) of r_recs.  Times are abstract integers (milliseconds of the
   paused tokio clock in the harness); `now` is an argument of every function that reads the
   clock.  HashSets are sorted duplicate-free lists.

   gen_ack_frame_util is transcribed loop by loop: the reversed `enumerate_mut().rev()
   .skip_while(pktno > largest)` iterator is the list [desc]; [first_loop] is the `for … by_ref()`
   loop (the element that ends it is consumed), [ack_fold] is the `try_fold` with the same three
   arms, the same `capacity` bookkeeping and `range_count_size_increment`; the result keeps
   every record that was visited in its new (AckSent) state — also when the function returns
   `Err(CONGESTION)` and also for a range that was cut for capacity.
   u32 `gap - 1` / `ack - 1` are plain Z subtractions: an underflow would show as a negative
   field of the frame (theorem c10_ack_fields shows all fields are >= 0).  The counters are
   u32 in Rust; the model does not bound them (queue lengths >= 2^32 are out of scope).
   Panics (`unwrap` of VarInt::from_u64, the `panic!` in on_rcvd_pn, u64 underflow in
   AckFrame::iter) are explicit outcomes. *)
From Coq Require Import List ZArith Bool.
From GQ Require Export Lib.VarintSize Model.Pn Model.AckFrame.
Import ListNotations.
Local Open Scope Z_scope.

Inductive rstate :=
| REmpty
| RRecv (rt : Z) (ackt : option Z) (exp : Z)
| RAckSent (el : bool) (rt exp : Z) (pns : list Z)
| RAckConf (el : bool) (rt exp : Z).

Definition is_some {A} (o : option A) : bool := match o with Some _ => true | None => false end.

Fixpoint set_add (x : Z) (l : list Z) : list Z :=
  match l with
  | [] => [x]
  | y :: r => if x <? y then x :: l else if x =? y then l else y :: set_add x r
  end.
Definition set_mem (x : Z) (l : list Z) : bool := existsb (Z.eqb x) l.

(* State::track_packet_in_ack_frame *)
Definition track (pn : Z) (s : rstate) : rstate * bool :=
  match s with
  | RRecv rt ackt exp => (RAckSent (is_some ackt) rt exp [pn], true)
  | RAckSent el rt exp pns => (RAckSent el rt exp (set_add pn pns), true)
  | RAckConf _ _ _ => (s, true)
  | REmpty => (s, false)
  end.

Definition tracked (s : rstate) : bool := match s with REmpty => false | _ => true end.

(* State::could_expire *)
Definition could_expire (now : Z) (s : rstate) : bool :=
  match s with
  | REmpty => true
  | RAckConf el _ exp => negb el || (exp <? now)
  | _ => false
  end.

Record rjournal := mkrj {
  r_off : Z; r_recs : list rstate;
  r_mad : option Z;                 (* max_ack_delay *)
  r_incl : list Z;                  (* packet_include_ack *)
  r_earliest : option (Z * Z) }.    (* earliest_not_ack_time *)

Definition rj_new (mad : option Z) : rjournal := mkrj 0 [] mad [] None.

Definition r_len (j : rjournal) : Z := Z.of_nat (length (r_recs j)).
Definition r_next (j : rjournal) : Z := r_off j + r_len j.       (* IndexDeque::largest *)
Definition LIMIT : Z := 2^62 - 1.                                 (* VARINT_MAX *)

Definition r_get (j : rjournal) (pn : Z) : option rstate :=
  if (r_off j <=? pn) && (pn <? r_next j) then nth_error (r_recs j) (Z.to_nat (pn - r_off j)) else None.

Fixpoint set_nth {A} (n : nat) (x : A) (l : list A) : list A :=
  match l, n with
  | [], _ => []
  | _ :: r, O => x :: r
  | y :: r, S k => y :: set_nth k x r
  end.

(* ---- decode_pn ---- *)
Inductive dpn_res := DpnOk (pn : Z) | DpnTooOld | DpnDuplicate | DpnPanic.

Definition decode_pn (j : rjournal) (p : pnum) : dpn_res :=
  match decode p (r_next j) with
  | DecOverflow => DpnPanic
  | DecOk pn =>
      if pn <? r_off j then DpnTooOld
      else match r_get j pn with
           | Some REmpty | None => DpnOk pn
           | _ => DpnDuplicate
           end
  end.

(* ---- on_rcvd_pn ---- (None = the `panic!("packet number never exceed limit")`) *)
Definition on_rcvd_pn (j : rjournal) (now pn : Z) (el : bool) (pto : Z) : option rjournal :=
  let ack_time := if el then Some (now + match r_mad j with Some d => d | None => 0 end) else None in
  let st := RRecv now ack_time (now + pto * 3) in
  let earliest' := if el && negb (is_some (r_earliest j)) then Some (pn, now) else r_earliest j in
  if (r_off j <=? pn) && (pn <? r_next j) then
    Some (mkrj (r_off j) (set_nth (Z.to_nat (pn - r_off j)) st (r_recs j)) (r_mad j) (r_incl j) earliest')
  else if LIMIT <? pn then None                              (* IndexDeque::insert -> ExceedLimit *)
  else if pn <? r_off j then                                 (* insert -> TooSmall, silently dropped *)
    Some (mkrj (r_off j) (r_recs j) (r_mad j) (r_incl j) earliest')
  else                                                       (* resize(pos, Empty); push_back *)
    let pos := Z.to_nat (pn - r_off j) in
    Some (mkrj (r_off j) (r_recs j ++ repeat REmpty (pos - length (r_recs j)) ++ [st])
               (r_mad j) (r_incl j) earliest').

(* ---- rotate_queue ---- *)
Fixpoint drop_expired (now : Z) (off : Z) (l : list rstate) : Z * list rstate :=
  match l with
  | s :: r => if could_expire now s then drop_expired now (off + 1) r else (off, l)
  | [] => (off, [])
  end.

Definition rotate_queue (j : rjournal) (now : Z) : rjournal :=
  let '(off, l) := drop_expired now (r_off j) (r_recs j) in
  mkrj off l (r_mad j) (r_incl j) (r_earliest j).

(* ---- on_rcvd_ack ---- (None = u64 underflow inside AckFrame::iter, a debug-profile panic) *)
Definition confirm (acked : list Z) (s : rstate) : rstate :=
  match s with
  | RAckSent el rt exp pns => if existsb (fun p => set_mem p acked) pns then RAckConf el rt exp else s
  | _ => s
  end.

Definition on_rcvd_ack (j : rjournal) (now : Z) (f : ackframe) : option rjournal :=
  match ack_iter f with
  | None => None
  | Some rs =>
      let acked := filter (fun p => in_ranges p rs) (r_incl j) in
      let incl' := filter (fun p => negb (set_mem p acked)) (r_incl j) in
      Some (rotate_queue (mkrj (r_off j) (map (confirm acked) (r_recs j)) (r_mad j) incl' (r_earliest j)) now)
  end.

(* ---- gen_ack_frame_util ---- *)

(* the `for (_, s) in pkts.by_ref()` loop: number of leading tracked records, the visited
   prefix in its new state (including the record that ended the loop), the unvisited rest *)
Fixpoint first_loop (pn : Z) (l : list rstate) : Z * list rstate * list rstate :=
  match l with
  | [] => (0, [], [])
  | s :: rest =>
      let '(s', t) := track pn s in
      if t then let '(c, done, rem) := first_loop pn rest in (c + 1, s' :: done, rem)
      else (0, [s'], rest)
  end.

Definition rc_incr (range_count : Z) : Z :=
  if range_count =? 2^6 - 1 then 1
  else if range_count =? 2^14 - 1 then 2
  else if range_count =? 2^30 - 1 then 4
  else 0.

(* the try_fold; returns the ranges pushed (in order), the final accumulator, the remaining
   capacity and the list with the visited records in their new state *)
Fixpoint ack_fold (pn : Z) (l : list rstate) (gap ack : Z) (last : bool) (cap nr : Z)
  : list (Z * Z) * (Z * Z * bool) * Z * list rstate :=
  match l with
  | [] => ([], (gap, ack, last), cap, [])
  | s :: rest =>
      let '(s', t) := track pn s in
      match last, t with
      | true, false =>
          let size := rc_incr nr + varint_size (gap - 1) + varint_size (ack - 1) in
          if cap <? size then ([], (0, 0, false), cap, s' :: rest)          (* Break *)
          else
            let '(R, st, cap', l') := ack_fold pn rest 1 0 false (cap - size) (nr + 1) in
            ((gap - 1, ack - 1) :: R, st, cap', s' :: l')
      | _, true =>
          let '(R, st, cap', l') := ack_fold pn rest gap (ack + 1) true cap nr in
          (R, st, cap', s' :: l')
      | false, false =>
          let '(R, st, cap', l') := ack_fold pn rest (gap + 1) ack false cap nr in
          (R, st, cap', s' :: l')
      end
  end.

Inductive ga_res := GaOk (j : rjournal) (f : ackframe) | GaErr (j : rjournal) | GaPanic.

(* number of records with packet number <= largest *)
Definition n_le (j : rjournal) (largest : Z) : nat :=
  Z.to_nat (Z.min (largest - r_off j + 1) (r_len j)).

Definition gen_ack (j : rjournal) (now pn largest rt cap : Z) : ga_res :=
  let keep := firstn (n_le j largest) (r_recs j) in
  let above := skipn (n_le j largest) (r_recs j) in
  let desc := rev keep in
  if VARINT_LIMIT <=? largest then GaPanic                     (* VarInt::from_u64(largest).unwrap() *)
  else
    let delay := Z.max 0 (now - rt) * 1000 in                  (* elapsed().as_micros() *)
    if VARINT_LIMIT <=? delay then GaPanic
    else
      let '(c, done1, rest1) := first_loop pn desc in
      let first_range := Z.max (c - 1) 0 in                    (* saturating_sub(1) *)
      let min_len := 1 + varint_size largest + varint_size delay + varint_size first_range + 1 in
      if cap <? min_len then
        GaErr (mkrj (r_off j) (rev (done1 ++ rest1) ++ above) (r_mad j) (r_incl j) (r_earliest j))
      else
        let '(R, st, cap2, rest') := ack_fold pn rest1 1 0 false (cap - min_len) 0 in
        let '(gap, ack, last) := st in
        let ranges :=
          if last then
            let size := rc_incr (Z.of_nat (length R)) + varint_size (gap - 1) + varint_size (ack - 1) in
            if size <=? cap2 then R ++ [(gap - 1, ack - 1)] else R      (* `capacity >= size` (fix F30) *)
          else R in
        let earliest' :=
          match r_earliest j with
          | Some (p, _) => if p <=? largest then None else r_earliest j
          | None => None
          end in
        GaOk (mkrj (r_off j) (rev (done1 ++ rest') ++ above) (r_mad j) (set_add pn (r_incl j)) earliest')
             (mkack largest delay first_range ranges).

(* ---- need_ack ---- *)
Definition need_ack (j : rjournal) (now : Z) : option (Z * Z) :=
  match r_earliest j with
  | None => None
  | Some (_, t) =>
      let mad := match r_mad j with Some d => d | None => 0 end in
      if now <=? t + mad then None
      else match rev (r_recs j) with
           | [] => None
           | s :: _ =>
               match s with
               | RRecv rt _ _ | RAckSent _ rt _ _ | RAckConf _ rt _ => Some (r_next j - 1, rt)
               | REmpty => None
               end
           end
  end.

(* ---- canonical dump (the #[cfg(gmquic_verif)] hook prints the same) ---- *)
Definition b2z (b : bool) : Z := if b then 1 else 0.
Definition dump_rstate (s : rstate) : list Z :=
  match s with
  | REmpty => [0]
  | RRecv rt ackt exp => [1; rt; match ackt with Some t => t | None => -1 end; exp]
  | RAckSent el rt exp pns => [2; b2z el; rt; exp; Z.of_nat (length pns)] ++ pns
  | RAckConf el rt exp => [3; b2z el; rt; exp]
  end.
Definition dump_rj (j : rjournal) : list Z :=
  [r_off j; r_len j; match r_mad j with Some d => d | None => -1 end; Z.of_nat (length (r_incl j))]
  ++ r_incl j
  ++ match r_earliest j with Some (p, t) => [1; p; t] | None => [0] end
  ++ flat_map dump_rstate (r_recs j).
