(* Model of the send-side use of the anti-amplification credit.  Definitions only.

   qconnection/src/path/util.rs   Constraints::{new, constrain, commit, is_available}
   qconnection/src/path/burst.rs  PacketsAssembler::new (one `balance()` per assembler),
                                  PacketsAssembler::assemble (constrain, new_packet, commit),
                                  Burst::load_spaces (`if loaded_initial { pad to the whole buffer; return origin }`),
                                  Burst::burst (per-segment map + try_fold, reserved forward header)
   qconnection/src/path.rs        Path::send_packets (ONE `on_sent(sum of the segment lengths)` per burst)

   What the packet sources would write is an input: per segment the Initial space wants `wi` bytes and
   the other spaces together want `wo` bytes; a packet is `min want room` bytes when the constrained
   room reaches `minpkt` (header + 20, the smallest buffer `new_packet` accepts), else it is skipped. *)
From Coq Require Import List NArith ZArith Bool.
From GQ Require Export Lib.Base Model.AntiAmp.
Import ListNotations.
Local Open Scope N_scope.

(* ---- Constraints ---- *)
Record cons := mkcons { cl : N; sq : N }.            (* credit_limit, send_quota *)
Definition constrain (c : cons) (len : N) : N := N.min (N.min len (cl c)) (sq c).
Definition commit (c : cons) (len : N) (in_flight : bool) : cons :=
  mkcons (cl c - len) (if in_flight then sq c - len else sq c).       (* saturating_sub *)
Definition is_available (c : cons) : bool := 0 <? cl c.

(* ---- one packet ---- *)
Definition assemble (minpkt : N) (c : cons) (buf want : N) : cons * N :=
  let room := constrain c buf in
  let sent := if (0 <? want) && (minpkt <=? room) then N.min want room else 0 in
  (if 0 <? sent then commit c sent true else c, sent).

(* ---- one segment = Burst::load_spaces ---- *)
Record segreq := mkseg { sg_quota : N; sg_wi : N; sg_wo : N }.

Inductive seg_res := SegSignals | SegDeact | SegOk (n : N) | SegPanic.

Definition load_segment (minpkt : N) (b : bres) (buf : N) (r : segreq) : seg_res :=
  match b with
  | BErr => SegSignals
  | BNone => SegDeact
  | BPanic => SegPanic
  | BSome credit =>
      let c0 := mkcons credit (sg_quota r) in
      let '(c1, s1) := assemble minpkt c0 buf (sg_wi r) in
      let loaded_initial := 0 <? s1 in
      let '(_, s2) := assemble minpkt c1 (buf - s1) (sg_wo r) in
      if loaded_initial then SegOk buf                   (* padded to the whole buffer, credit not consulted *)
      else if 0 <? s1 + s2 then SegOk (s1 + s2) else SegSignals
  end.

(* ---- Burst::burst: every segment gets a fresh assembler, i.e. a fresh balance() ---- *)
Fixpoint burst_loop (minpkt : N) (a : aa) (buf rsv : N) (segs : list segreq) (lens : list N)
  : aa * list N * N :=
  match segs with
  | [] => (a, lens, 0)
  | r :: rest =>
      let '(a1, b) := balance a in
      match load_segment minpkt b buf r with
      | SegSignals => (a1, lens, match lens with [] => 1 | _ => 0 end)
      | SegDeact => (a1, lens, match lens with [] => 2 | _ => 0 end)
      | SegPanic => (a1, lens, 9)
      | SegOk n =>
          let len := rsv + n in
          if len <? last lens 0 then (a1, lens ++ [len], 0)      (* shorter than the previous one: last segment *)
          else burst_loop minpkt a1 buf rsv rest (lens ++ [len])
      end
  end.

Definition sumN (l : list N) : N := fold_right N.add 0 l.

Record burst_out := mkbo { bo_status : N; bo_lens : list N; bo_sum : N; bo_over : bool }.

(* burst + Path::send_packets (on_sent(sum); balance() for the status flag; sendmmsg) *)
Definition burst (minpkt : N) (a : aa) (mtu rsv : N) (segs : list segreq) : aa * burst_out :=
  let '(a1, lens, status) := burst_loop minpkt a (mtu - rsv) rsv segs [] in
  let sum := sumN lens in
  if status =? 0 then
    let wrap := (st a1 =? 0) && over_debit a1 sum in     (* the debit saturated: more was handed to IO than the credit *)
    let a2 := on_sent a1 sum in
    let '(a3, _) := balance a2 in
    (a3, mkbo (match lens with [] => 1 | _ => 0 end) lens sum wrap)
  else (a1, mkbo status lens sum false).

(* ---- operations of the `aa` stream ---- *)
Inductive aa_op :=
| ARcvd (n : N) | ABalance | AOnSent (n : N) | AGrant | AAbort
| ABurst (mtu rsv : N) (segs : list segreq)
| APollWait.

Inductive aa_out :=
| XPlain
| XBurst (o : burst_out)
| XPoll (ready : bool) (wk : N).

Definition aa_exec (minpkt : N) (a : aa) (o : aa_op) : aa * aa_out :=
  match o with
  | ARcvd n => (on_rcvd a n, XPlain)
  | ABalance => (a, XPlain)
  | AOnSent n => (on_sent a n, XPlain)
  | AGrant => (grant a, XPlain)
  | AAbort => (abort a, XPlain)
  | ABurst mtu rsv segs => let '(a', bo) := burst minpkt a mtu rsv segs in (a', XBurst bo)
  | APollWait => let '(a', r) := poll_wait a in (a', XPoll r (wakes a'))
  end.

Definition print_bres (b : bres) : list Z :=
  match b with
  | BErr => [0; 0]
  | BSome v => [1; Z.of_N v]
  | BNone => [2; 0]
  | BPanic => [-7; 0]
  end%Z.

Definition print_aa_out (o : aa_out) : list Z :=
  match o with
  | XPlain => []
  | XBurst bo => [Z.of_N (bo_status bo); Z.of_N (lenN (bo_lens bo))] ++ map Z.of_N (bo_lens bo) ++ [Z.of_N (bo_sum bo)]
  | XPoll r w => [if r then 1%Z else 0%Z; Z.of_N w]
  end.

(* every observation ends with the result of a balance() call (which is part of the history) *)
Definition aa_step (minpkt : N) (a : aa) (o : aa_op) : aa * list Z :=
  let '(a1, out) := aa_exec minpkt a o in
  let '(a2, b) := balance a1 in
  (a2, print_aa_out out ++ print_bres b).

Fixpoint aa_run (minpkt : N) (a : aa) (ops : list aa_op) : list (list Z) :=
  match ops with
  | [] => []
  | o :: rest => let '(a', obs) := aa_step minpkt a o in obs :: aa_run minpkt a' rest
  end.

Fixpoint decode_segs (args : list Z) : list segreq :=
  match args with
  | q :: wi :: wo :: rest => mkseg (Z.to_N q) (Z.to_N wi) (Z.to_N wo) :: decode_segs rest
  | _ => []
  end.

Definition aa_decode (t : N) (args : list Z) : option aa_op :=
  match t, args with
  | 0, [n] => Some (ARcvd (Z.to_N n))
  | 1, [] => Some ABalance
  | 2, [n] => Some (AOnSent (Z.to_N n))
  | 3, [] => Some AGrant
  | 4, [] => Some AAbort
  | 5, mtu :: rsv :: segs => Some (ABurst (Z.to_N mtu) (Z.to_N rsv) (decode_segs segs))
  | 6, [] => Some APollWait
  | _, _ => None
  end.

Fixpoint aa_decode_all (l : list (N * list Z)) : list aa_op :=
  match l with
  | [] => []
  | (t, a) :: rest =>
      match aa_decode t a with
      | Some o => o :: aa_decode_all rest
      | None => aa_decode_all rest
      end
  end.

(* CASE cfg: minpkt *)
Definition run_aa (cfg : list Z) (l : list (N * list Z)) : list (list Z) :=
  let minpkt := match cfg with v :: _ => Z.to_N v | [] => 40 end in
  aa_run minpkt aa0 (aa_decode_all l).
