(* System-level lifting of the component invariants (remote structure, limit, local histories)
   to every operation list of Model/Cid.v. *)
From Coq Require Import List NArith ZArith Bool Lia Permutation.
From GQ Require Import Lib.Base Model.Router Model.LocalCid Model.RemoteCid Model.Cid
  Proofs.Router Proofs.LocalCid Proofs.RemoteCid Proofs.RemoteInv Proofs.RouterInv Proofs.Cid.
Import ListNotations.
Local Open Scope N_scope.

(* RETIRE_CONNECTION_ID frames visible in an observation *)
Definition frames_of (x : out) : list N :=
  match x with
  | XNewCid _ fr => fr
  | XPath _ fr => fr
  | XFrames fr => fr
  | _ => []
  end.
Definition emitted (xs : list out) : list N := flat_map frames_of xs.

Section Sys.
  Variable chk : N -> N -> N -> bool.
  Variable post : rcids -> bool.
  Variable rnd : N -> cid.
  Variable fuel : nat.

  Notation genq := (genq rnd fuel).
  Notation step := (step chk post rnd fuel).
  Notation steps := (steps chk post rnd fuel).

  Lemma conn_new_remote : forall s od s' x, conn_new rnd fuel s od = (s', x) ->
    s_remote s' = s_remote s /\ frames_of x = [].
  Proof.
    intros s od s' x H. unfold conn_new in H.
    destruct (Cid.genq rnd fuel (N.of_nat (length (s_conns s))) (s_env s)) as [[e1 scid]|]; [|inversion H; subst; auto].
    match type of H with context [l_new ?a ?b ?c ?d] => destruct (l_new a b c d) as [[[e3 l] fs]|] end;
      inversion H; subst; auto.
  Qed.

  Lemma local_op_remote : forall s i f s' x, local_op s i f = (s', x) ->
    s_remote s' = s_remote s /\ frames_of x = [].
  Proof.
    intros s i f s' x H. unfold local_op in H.
    destruct (nth_error (s_conns s) i) as [[[l|] od h]|]; try (inversion H; subst; auto; fail).
    destruct (f (s_env s) l) as [[[[e1 l1] fs] r]|]; inversion H; subst; auto.
  Qed.

  Definition RInv (s : sys) (em : list N) : Prop := RPre (s_remote s) em /\ Arranged (s_remote s).

  Lemma step_remote : forall s em o s' x,
    RInv s em -> step s o = (s', x) -> RInv s' (em ++ frames_of x).
  Proof.
    intros s em o s' x [HP HA] H.
    assert (Hsame : forall s1 x1, s_remote s1 = s_remote s -> frames_of x1 = [] -> RInv s1 (em ++ frames_of x1)).
    { intros s1 x1 E1 E2. unfold RInv. rewrite E1, E2, app_nil_r. split; assumption. }
    destruct o; cbn [Cid.step] in H.
    - destruct (seq <? rpt) eqn:ES; [inversion H; subst; apply Hsame; reflexivity|].
      apply N.ltb_ge in ES.
      destruct (recv_new_cid chk post (s_remote s) seq rpt id) as [[r fr] res] eqn:ER. inversion H; subst.
      cbn [frames_of]. unfold RInv. cbn [set_remote s_remote]. eapply recv_inv; eassumption.
    - apply local_op_remote in H. destruct H. apply Hsame; assumption.
    - apply local_op_remote in H. destruct H. apply Hsame; assumption.
    - destruct (apply_dcid (s_remote s)) as [[r p] fr] eqn:EA. inversion H; subst.
      cbn [frames_of]. unfold RInv. cbn [set_remote s_remote].
      destruct (apply_inv _ _ _ _ _ HP EA) as [A1 [A2 _]]. split; assumption.
    - destruct ((p <? length (r_cells (s_remote s)))%nat && negb (nmem p (s_held s))) eqn:EC;
        [|inversion H; subst; apply Hsame; reflexivity].
      apply andb_true_iff in EC. destruct EC as [EC _]. apply Nat.ltb_lt in EC.
      destruct (path_borrow (s_remote s) p) as [r res] eqn:EB. inversion H; subst.
      cbn [frames_of]. rewrite app_nil_r. unfold RInv. cbn [s_remote].
      destruct (borrow_inv _ _ _ _ _ HP EC EB) as [B1 [B2 _]]. split; auto.
    - destruct (nmem p (s_held s) && (p <? length (r_cells (s_remote s)))%nat) eqn:EC;
        [|inversion H; subst; apply Hsame; reflexivity].
      apply andb_true_iff in EC. destruct EC as [_ EC]. apply Nat.ltb_lt in EC.
      destruct (path_release (s_remote s) p) as [r fr] eqn:EB. inversion H; subst.
      cbn [frames_of]. unfold RInv. cbn [s_remote].
      destruct (release_inv _ _ _ _ _ HP EC EB) as [B1 [B2 _]]. split; auto.
    - destruct (p <? length (r_cells (s_remote s)))%nat eqn:EC; [|inversion H; subst; apply Hsame; reflexivity].
      apply Nat.ltb_lt in EC.
      destruct (path_retire (s_remote s) p) as [r fr] eqn:EB. inversion H; subst.
      cbn [frames_of]. unfold RInv. cbn [set_remote s_remote].
      destruct (retire_inv _ _ _ _ _ HP EC EB) as [B1 [B2 _]]. split; auto.
    - apply conn_new_remote in H. destruct H. apply Hsame; assumption.
    - destruct (route (s_env s) x0); [inversion H; subst; apply Hsame; reflexivity|].
      apply conn_new_remote in H. destruct H. apply Hsame; assumption.
    - apply conn_new_remote in H. destruct H. apply Hsame; assumption.
    - destruct (nth_error (s_conns s) c) as [[[l|] od h]|]; try (inversion H; subst; apply Hsame; reflexivity).
    - inversion H; subst. apply Hsame; reflexivity.
    - destruct (nth_error (s_conns s) c) as [[[l|] od h]|]; try (inversion H; subst; apply Hsame; reflexivity).
    - inversion H; subst. apply Hsame; reflexivity.
  Qed.

  Lemma steps_remote : forall ops s em s' xs,
    RInv s em -> steps s ops = (s', xs) -> RInv s' (em ++ emitted xs).
  Proof.
    induction ops as [|o rest IH]; intros s em s' xs HI H; cbn [Cid.steps] in H.
    - inversion H; subst. cbn. rewrite app_nil_r. assumption.
    - destruct (step s o) as [s1 x] eqn:E1. destruct (steps s1 rest) as [s2 xs2] eqn:E2.
      inversion H; subst. cbn [emitted flat_map]. rewrite app_assoc.
      eapply IH; [|exact E2]. eapply step_remote; eassumption.
  Qed.

  (* ---- the limit ---- *)

  Definition LimInv (s : sys) : Prop := Fits (s_remote s).

  Lemma step_fits : forall s em o s' x,
    sound_chk chk -> RInv s em -> LimInv s -> step s o = (s', x) ->
    LimInv s' /\ r_limit (s_remote s') = r_limit (s_remote s).
  Proof.
    intros s em o s' x HS [HP _] HF H. unfold LimInv in *.
    assert (Hsame : forall s1, s_remote s1 = s_remote s -> Fits (s_remote s1) /\ r_limit (s_remote s1) = r_limit (s_remote s)).
    { intros s1 E1. rewrite E1. auto. }
    destruct o; cbn [Cid.step] in H.
    - destruct (seq <? rpt) eqn:ES; [inversion H; subst; auto|]. apply N.ltb_ge in ES.
      destruct (recv_new_cid chk post (s_remote s) seq rpt id) as [[r fr] res] eqn:ER. inversion H; subst.
      cbn [set_remote s_remote]. split.
      + eapply recv_fits; [exact HS|exact (p_al _ _ HP)|exact HF|exact ES|exact ER].
      + eapply recv_aligned; [exact (p_al _ _ HP)|exact ES|exact ER].
    - apply local_op_remote in H. destruct H. auto.
    - apply local_op_remote in H. destruct H. auto.
    - destruct (apply_dcid (s_remote s)) as [[r p] fr] eqn:EA. inversion H; subst.
      cbn [set_remote s_remote]. apply apply_fields in EA. destruct EA as [_ [E2 [_ E4]]].
      unfold Fits. rewrite E2, E4. auto.
    - destruct ((p <? length (r_cells (s_remote s)))%nat && negb (nmem p (s_held s))); [|inversion H; subst; auto].
      unfold path_borrow in H. destruct (cell_borrow (get_cell (r_cells (s_remote s)) p)) as [c' r0].
      inversion H; subst. cbn [s_remote]. unfold Fits. cbn. auto.
    - destruct (nmem p (s_held s) && (p <? length (r_cells (s_remote s)))%nat); [|inversion H; subst; auto].
      unfold path_release in H. destruct (cell_renew (get_cell (r_cells (s_remote s)) p)) as [c' r0].
      inversion H; subst. cbn [s_remote]. unfold Fits. cbn. auto.
    - destruct (p <? length (r_cells (s_remote s)))%nat; [|inversion H; subst; auto].
      unfold path_retire in H. destruct (cell_retire (get_cell (r_cells (s_remote s)) p)) as [c' r0].
      inversion H; subst. cbn [set_remote s_remote]. unfold Fits. cbn. auto.
    - apply conn_new_remote in H. destruct H. auto.
    - destruct (route (s_env s) x0); [inversion H; subst; auto|].
      apply conn_new_remote in H. destruct H. auto.
    - apply conn_new_remote in H. destruct H. auto.
    - destruct (nth_error (s_conns s) c) as [[[l|] od h]|]; try (inversion H; subst; auto; fail).
    - inversion H; subst. auto.
    - destruct (nth_error (s_conns s) c) as [[[l|] od h]|]; try (inversion H; subst; auto; fail).
    - inversion H; subst. auto.
  Qed.

  Lemma steps_fits : forall ops s em s' xs,
    sound_chk chk -> RInv s em -> LimInv s -> steps s ops = (s', xs) ->
    LimInv s' /\ r_limit (s_remote s') = r_limit (s_remote s).
  Proof.
    induction ops as [|o rest IH]; intros s em s' xs HS HI HF H; cbn [Cid.steps] in H.
    - inversion H; subst. auto.
    - destruct (step s o) as [s1 x] eqn:E1. destruct (steps s1 rest) as [s2 xs2] eqn:E2.
      inversion H; subst.
      destruct (step_fits _ _ _ _ _ HS HI HF E1) as [F1 L1].
      pose proof (step_remote _ _ _ _ _ HI E1) as HI1.
      destruct (IH _ _ _ _ HS HI1 F1 E2) as [F2 L2]. split; [assumption|congruence].
  Qed.

  (* ---- every connection's LocalCids is a history of Proofs/LocalCid.v ---- *)

  Definition LReach (s : sys) : Prop :=
    forall i cn l, nth_error (s_conns s) i = Some cn -> c_local cn = Some l ->
      exists fs, lreach renv (genq (N.of_nat i)) retire_cid l fs.

  Lemma local_op_reach : forall s i o s' x,
    LReach s ->
    local_op s i (fun e l => lstep renv (genq (N.of_nat i)) retire_cid e l o) = (s', x) -> LReach s'.
  Proof.
    intros s i o s' x HR H. unfold local_op in H.
    destruct (nth_error (s_conns s) i) as [[[l|] od h]|] eqn:EN; try (inversion H; subst; assumption).
    destruct (lstep renv (genq (N.of_nat i)) retire_cid (s_env s) l o) as [[[[e1 l1] fs] r]|] eqn:EF;
      [|inversion H; subst; assumption].
    inversion H; subst. clear H. intros j cn l2 Hn Hl. cbn [s_conns] in Hn.
    rewrite nth_error_upd in Hn. destruct (Nat.eqb j i) eqn:EJ.
    - apply Nat.eqb_eq in EJ. subst j. destruct (i <? length (s_conns s))%nat; [|discriminate].
      inversion Hn; subst cn. cbn [c_local] in Hl. inversion Hl; subst l2.
      destruct (HR i _ l EN eq_refl) as [fs0 Hr]. exists (fs0 ++ fs). eapply lr_step; eassumption.
    - eapply HR; eassumption.
  Qed.

  Lemma conn_new_reach : forall s od s' x, LReach s -> conn_new rnd fuel s od = (s', x) -> LReach s'.
  Proof.
    intros s od s' x HR H. unfold conn_new in H.
    destruct (Cid.genq rnd fuel (N.of_nat (length (s_conns s))) (s_env s)) as [[e1 scid]|]; [|inversion H; subst; assumption].
    match type of H with context [l_new ?a ?b ?c ?d] => destruct (l_new a b c d) as [[[e3 l] fs]|] eqn:EL end;
      [|inversion H; subst; assumption].
    inversion H; subst. clear H. intros j cn l2 Hn Hl. cbn [s_conns] in Hn.
    destruct (Nat.lt_ge_cases j (length (s_conns s))) as [Hlt|Hge].
    - rewrite nth_error_app1 in Hn by assumption. eapply HR; eassumption.
    - rewrite nth_error_app2 in Hn by assumption. destruct (j - length (s_conns s))%nat as [|k] eqn:EK.
      + assert (j = length (s_conns s)) by lia. subst j. cbn in Hn. inversion Hn; subst cn. cbn in Hl.
        inversion Hl; subst l2. exists fs. eapply lr_new. exact EL.
      + cbn in Hn. destruct k; discriminate.
  Qed.

  Lemma step_reach : forall s o s' x, LReach s -> step s o = (s', x) -> LReach s'.
  Proof.
    intros s o s' x HR H.
    destruct o; cbn [Cid.step] in H.
    - destruct (seq <? rpt); [inversion H; subst; assumption|].
      destruct (recv_new_cid chk post (s_remote s) seq rpt id) as [[r fr] res]. inversion H; subst. exact HR.
    - apply (local_op_reach s c (LRet seq) s' x HR). exact H.
    - apply (local_op_reach s c (LSet n) s' x HR). exact H.
    - destruct (apply_dcid (s_remote s)) as [[r p] fr]. inversion H; subst. exact HR.
    - destruct ((p <? length (r_cells (s_remote s)))%nat && negb (nmem p (s_held s))); [|inversion H; subst; assumption].
      destruct (path_borrow (s_remote s) p) as [r res]. inversion H; subst. exact HR.
    - destruct (nmem p (s_held s) && (p <? length (r_cells (s_remote s)))%nat); [|inversion H; subst; assumption].
      destruct (path_release (s_remote s) p) as [r fr]. inversion H; subst. exact HR.
    - destruct (p <? length (r_cells (s_remote s)))%nat; [|inversion H; subst; assumption].
      destruct (path_retire (s_remote s) p) as [r fr]. inversion H; subst. exact HR.
    - eapply conn_new_reach; eassumption.
    - destruct (route (s_env s) x0); [inversion H; subst; assumption|]. eapply conn_new_reach; eassumption.
    - eapply conn_new_reach; eassumption.
    - destruct (nth_error (s_conns s) c) as [[[l|] od h]|] eqn:EN; try (inversion H; subst; assumption).
      cbn [l_clear] in H. inversion H; subst. clear H. intros j cn l2 Hn Hl. cbn [s_conns] in Hn.
      rewrite nth_error_upd in Hn. destruct (Nat.eqb j c) eqn:EJ; [|eapply HR; eassumption].
      destruct (c <? length (s_conns s))%nat; [|discriminate]. inversion Hn; subst cn. discriminate.
    - inversion H; subst. exact HR.
    - destruct (nth_error (s_conns s) c) as [[[l|] od h]|] eqn:EN; try (inversion H; subst; assumption).
      cbn [l_clear] in H. inversion H; subst. clear H. intros j cn l2 Hn Hl. cbn [s_conns] in Hn.
      rewrite nth_error_upd in Hn. destruct (Nat.eqb j c) eqn:EJ; [|eapply HR; eassumption].
      apply Nat.eqb_eq in EJ. subst j.
      destruct (c <? length (s_conns s))%nat; [|discriminate]. inversion Hn; subst cn. cbn [c_local] in Hl.
      inversion Hl; subst l2. destruct (HR c _ l EN eq_refl) as [fs0 Hr]. exists (fs0 ++ []).
      eapply (lr_step renv (genq (N.of_nat c)) retire_cid (s_env s) l fs0 LClr); [exact Hr|]. cbn [lstep l_clear]. reflexivity.
    - inversion H; subst. exact HR.
  Qed.

  Lemma steps_reach : forall ops s s' xs, LReach s -> steps s ops = (s', xs) -> LReach s'.
  Proof.
    induction ops as [|o rest IH]; intros s s' xs HR H; cbn [Cid.steps] in H.
    - inversion H; subst. assumption.
    - destruct (step s o) as [s1 x] eqn:E1. destruct (steps s1 rest) as [s2 xs2] eqn:E2.
      inversion H; subst. eapply IH; [|exact E2]. eapply step_reach; eassumption.
  Qed.
End Sys.

(* ---- the initial state ---- *)

Lemma init_RInv : forall limit npre hs id0, (hs < npre)%nat -> RInv (sys_init limit npre hs id0) [].
Proof. intros. unfold RInv, sys_init. cbn [s_remote]. apply init_inv. assumption. Qed.

Lemma apply_n_limit : forall n s, r_limit (apply_n n s) = r_limit s.
Proof.
  induction n; intros s; cbn [apply_n]; [reflexivity|].
  destruct (apply_dcid s) as [[s1 p] fr1] eqn:EA. rewrite IHn. apply apply_fields in EA. tauto.
Qed.

Lemma init_cids : forall limit npre hs id0,
  r_cids (remote_init limit npre hs id0) = [Some (0, id0)] /\ r_limit (remote_init limit npre hs id0) = limit.
Proof.
  intros. unfold remote_init, apply_initial_dcid.
  match goal with |- context [arrange ?x] => destruct (arrange x) as [s2 fr] eqn:E end.
  apply arrange_fields in E. destruct E as [_ [E2 [_ E4]]]. cbn [fst]. rewrite E2, E4. cbn [r_cids r_limit].
  split; [reflexivity|]. rewrite apply_n_limit. reflexivity.
Qed.

Lemma init_views : forall limit npre hs id0,
  VB (view_of (sys_init limit npre hs id0)) /\ VC (view_of (sys_init limit npre hs id0)) /\
  LReach (fun _ => 0) 0 (sys_init limit npre hs id0).
Proof.
  intros. unfold sys_init, view_of. cbn. split; [|split].
  - intros x q H. discriminate.
  - split; [intros i x H; unfold acts in H; cbn in H; destruct i; destruct H|].
    intros i. unfold acts. cbn. destruct i; constructor.
  - intros i cn l H. destruct i; discriminate.
Qed.
