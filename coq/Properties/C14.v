(* C14 — connection IDs are issued, used, retired and routed consistently.
   Only the property theorems live here: each is closed by a lemma of Proofs/*.v and its
   assumptions are printed for the audit.

   Models: Model/LocalCid.v (LocalCids), Model/RemoteCid.v (RemoteCids, CidCell), Model/Router.v
   (QuicRouter table), Model/Cid.v (one endpoint: one RemoteCids + any number of connections on
   one shared router; operation lists [steps]).  Randomness is the oracle [rnd : N -> cid] with any
   [fuel]; the limit check of recv_new_cid_frame is a pair (test before processing, test after):
   [chk_coded]/[no_post] = the code as it stands, [chk_fixed]/[no_post] = the minimal span repair
   (kept for reference), [no_pre]/[post_count] = the RFC-exact repair of the `fix:` commit (count of
   active IDs after processing).  Which one the running code is tied to is decided by
   streams/cid.json ("run_cid" / "run_cid_fixed" / "run_cid_count"). *)
From Coq Require Import List NArith ZArith Bool Permutation.
From GQ Require Import Lib.Base Model.Router Model.LocalCid Model.RemoteCid Model.Cid
  Proofs.LocalCid Proofs.RemoteCid Proofs.RemoteInv Proofs.Cid Proofs.CidSys Proofs.CidProps.
Import ListNotations.
Local Open Scope N_scope.

(* ---------------- our own IDs: any ISSUED environment, any interleaving with it ---------------- *)

(* once the peer's limit is set, unretired IDs never exceed it (before: at most the initial 2) *)
Theorem c14_local_count : forall E gen ret l fs, lreach E gen ret l fs ->
  forall n, l_limit l = Some n -> l_active l <= n.
Proof. exact p_c14_local_count. Qed.

Theorem c14_local_count_unset : forall E gen ret l fs, lreach E gen ret l fs ->
  l_limit l = None -> l_active l <= 2.
Proof. exact p_c14_local_count_unset. Qed.

(* the NEW_CONNECTION_ID frames sent so far carry the sequence numbers 1, 2, 3, ... in order,
   the next one is `largest`, and retire_prior_to never exceeds the sequence number *)
Theorem c14_local_consecutive : forall E gen ret l fs, lreach E gen ret l fs ->
  map fseq fs = nseq 1 (length fs) /\ l_largest l = 1 + lenN fs /\
  Forall (fun f => frpt f <= fseq f) fs.
Proof. exact p_c14_local_consecutive. Qed.

(* retiring an active ID issues exactly one replacement (next number), retires exactly that ID from
   the router and keeps the number of active IDs; retiring an inactive one changes nothing *)
Theorem c14_local_replace : forall E gen ret e l seq,
  seq < l_largest l ->
  match l_get l seq with
  | Some (Some c) =>
      l_recv_retire E gen ret e l seq = None \/
      exists e1 c' l',
        l_recv_retire E gen ret e l seq = Some (ret e1 c, l', [LNew (l_largest l) (l_off l') c'], LOk) /\
        l_active l' = l_active l /\ l_largest l' = l_largest l + 1 /\
        (l_get l' seq = None \/ l_get l' seq = Some None)
  | _ => l_recv_retire E gen ret e l seq = Some (e, l, [], LOk)
  end.
Proof. exact p_c14_local_replace. Qed.

(* the issued numbers are exactly 0 .. largest-1; retirement of any other number is rejected with
   CONNECTION_ID_LIMIT_ERROR and changes nothing; retirement of an issued number is never an error *)
Theorem c14_retire_unissued_rejected : forall E gen ret l fs, lreach E gen ret l fs -> forall e seq,
  ((seq = 0 \/ In seq (map fseq fs)) <-> seq < l_largest l) /\
  (l_largest l <= seq -> l_recv_retire E gen ret e l seq = Some (e, l, [], LErrLimit)) /\
  (seq < l_largest l -> forall x, l_recv_retire E gen ret e l seq = Some x -> snd x = LOk).
Proof. exact p_c14_retire_unissued_rejected. Qed.

(* every connection of every system history is such a LocalCids history *)
Theorem c14_local_sys : forall rnd fuel chk post limit npre hs id0 ops s xs,
  steps chk post rnd fuel (sys_init limit npre hs id0) ops = (s, xs) ->
  forall i cn l, nth_error (s_conns s) i = Some cn -> c_local cn = Some l ->
    (exists fs, lreach renv (genq rnd fuel (N.of_nat i)) retire_cid l fs) /\
    (forall n, l_limit l = Some n -> l_active l <= n) /\
    (l_limit l = None -> l_active l <= 2).
Proof. exact p_c14_local_sys. Qed.

(* ---------------- the router: every operation list, every oracle ---------------- *)

Theorem c14_router : forall rnd fuel chk post limit npre hs id0 ops s xs,
  steps chk post rnd fuel (sys_init limit npre hs id0) ops = (s, xs) ->
  (forall x q, route (s_env s) x = Some q ->
     exists i cn l, q = N.of_nat i /\ nth_error (s_conns s) i = Some cn /\ c_local cn = Some l /\
                    (In (Some x) (l_cells l) \/ c_odcid cn = Some x)) /\
  (no_force ops = true ->
     (forall i cn l x, nth_error (s_conns s) i = Some cn -> c_local cn = Some l ->
        In (Some x) (l_cells l) -> route (s_env s) x = Some (N.of_nat i)) /\
     (forall i j ci cj li lj x, nth_error (s_conns s) i = Some ci -> nth_error (s_conns s) j = Some cj ->
        c_local ci = Some li -> c_local cj = Some lj ->
        In (Some x) (l_cells li) -> In (Some x) (l_cells lj) -> i = j)).
Proof. exact p_c14_router. Qed.

Theorem c14_router_guard : forall e x q k q',
  route e x = Some q' -> q' <> q -> route (entry_drop e k q) x = Some q'.
Proof. exact p_c14_router_guard. Qed.

(* ---------------- the peer's IDs ---------------- *)

Theorem c14_one_cid_per_path : forall rnd fuel chk post limit npre hs id0 ops s xs,
  (hs < npre)%nat ->
  steps chk post rnd fuel (sys_init limit npre hs id0) ops = (s, xs) ->
  let r := s_remote s in
  NoDup (held (r_cells r)) /\
  forall p, (p < length (r_cells r))%nat ->
    let c := get_cell (r_cells r) p in
    (a_retired c = true -> a_alloc c = []) /\
    (a_retired c = false -> a_using c = false -> (length (a_alloc c) <= 1)%nat).
Proof. exact p_c14_one_cid_per_path. Qed.

Theorem c14_retire_prior_to : forall rnd fuel chk post limit npre hs id0 ops s xs,
  (hs < npre)%nat ->
  steps chk post rnd fuel (sys_init limit npre hs id0) ops = (s, xs) ->
  let r := s_remote s in
  Permutation (emitted xs ++ held (r_cells r)) (nseq 0 (N.to_nat (r_cursor r))) /\
  NoDup (emitted xs) /\
  r_coff r = r_roff r /\ r_roff r <= r_cursor r /\
  (forall j p, nth_error (r_ready r) j = Some p ->
     a_retired (get_cell (r_cells r) p) = true \/
     exists id rest, a_alloc (get_cell (r_cells r) p) = (r_roff r + N.of_nat j, id) :: rest) /\
  (r_pending r = [] \/ forall x, dq_get (r_coff r) (r_cids r) (r_cursor r) <> Some (Some x)).
Proof. exact p_c14_retire_prior_to. Qed.

(* the debug assertion of IndexDeque::drain_to is never violated by retire_prior_to *)
Theorem c14_drain_assert : forall rnd fuel chk post limit npre hs id0 ops s xs seq rpt id,
  (hs < npre)%nat ->
  steps chk post rnd fuel (sys_init limit npre hs id0) ops = (s, xs) ->
  rpt <= seq -> r_coff (s_remote s) <= seq -> r_roff (s_remote s) < rpt ->
  drain_ok (inserted (s_remote s) seq id) rpt = true.
Proof. exact p_c14_drain_assert. Qed.

(* full strength, RFC 9000 5.1.1, for the repaired code: whatever happened before, a
   NEW_CONNECTION_ID frame that is accepted leaves at most [limit] ACTIVE peer IDs
   (active = stored and not yet retired by the path it was assigned to) *)
Theorem c14_remote_limit_count : forall rnd fuel limit npre hs id0 ops s xs o s' fr,
  steps no_pre post_count rnd fuel (sys_init limit npre hs id0) ops = (s, xs) ->
  step no_pre post_count rnd fuel s o = (s', XNewCid NAccepted fr) ->
  active (s_remote s') <= limit.
Proof. exact p_c14_remote_limit_count. Qed.

(* ... and it never rejects a frame that would leave at most [limit] active IDs: the verdict
   CONNECTION_ID_LIMIT_ERROR is given exactly when the processed frame (ID stored, everything below
   retire_prior_to retired) leaves more; a frame below the current retire_prior_to is discarded *)
Theorem c14_remote_no_false_reject : forall s seq rpt id,
  let '(s', fr, res) := recv_new_cid no_pre post_count s seq rpt id in
  (res = NErrLimit <-> (r_coff s <= seq /\ r_limit s < active (fst (processed s seq rpt id)))) /\
  (r_coff s <= seq -> (s', fr) = processed s seq rpt id) /\
  (seq < r_coff s -> s' = s /\ fr = [] /\ res = NDiscarded).
Proof. exact p_c14_remote_no_false_reject. Qed.

(* a compliant peer that replaces an ID retired by one of our paths without advancing retire_prior_to
   is accepted by the repaired code and was rejected by both span tests *)
Theorem c14_remote_conservative_scenario :
  let run chk post := snd (steps chk post rnd_exec fuel_exec (sys_init 2 1 0 1000) conservative_ops) in
  run no_pre post_count =
    [XPath 1 []; XNewCid NAccepted []; XFrames [1]; XNewCid NAccepted []; XPath 2 []; XFrames [2]; XNewCid NAccepted []] /\
  nth 6 (run chk_coded no_post) XDone = XNewCid NErrLimit [] /\
  nth 3 (run chk_fixed no_post) XDone = XNewCid NErrLimit [].
Proof. exact p_c14_conservative. Qed.

(* the span repair (not applied): stored peer IDs, holes included, never exceed our limit *)
Theorem c14_remote_limit_fixed : forall rnd fuel limit npre hs id0 ops s xs,
  1 <= limit -> (hs < npre)%nat ->
  steps chk_fixed no_post rnd fuel (sys_init limit npre hs id0) ops = (s, xs) ->
  stored s <= limit /\ lenN (r_cids (s_remote s)) <= limit /\ r_limit (s_remote s) = limit.
Proof. exact p_c14_remote_limit_fixed. Qed.

(* the code as it stands violates it (finding F18) ... *)
Theorem c14_remote_limit_refuted :
  exists limit npre hs id0 ops,
    1 <= limit /\ (hs < npre)%nat /\
    let '(s, xs) := steps chk_coded no_post rnd_exec fuel_exec (sys_init limit npre hs id0) ops in
    xs = [XNewCid NAccepted []; XNewCid NAccepted []] /\ stored s = 3 /\ limit = 2.
Proof. exact p_c14_remote_limit_refuted. Qed.

(* ... and satisfies it on every history without a frame of the class
   `sequence - retire_prior_to = limit` *)
Theorem c14_remote_limit_conditional : forall rnd fuel limit npre hs id0 ops s xs,
  1 <= limit -> (hs < npre)%nat -> no_f18 limit ops = true ->
  steps chk_coded no_post rnd fuel (sys_init limit npre hs id0) ops = (s, xs) ->
  stored s <= limit /\ lenN (r_cids (s_remote s)) <= limit.
Proof. exact p_c14_remote_limit_conditional. Qed.

(* ---------------- non-vacuity ---------------- *)

(* reordered and duplicated NEW_CONNECTION_ID, a retire-prior-to that hits assigned cells, a
   borrowed ID whose retirement is delayed until release, a path retirement, a late sparse frame that
   is accepted (4 stored, one of them retired by its path), and one frame too many; limit 4 *)
Example c14_nonvacuous_remote :
  let ops := [OPathApply; ONewCid 2 0 1002; ONewCid 1 0 1001; ONewCid 1 0 1001; OBorrow 0; OBorrow 1;
              ONewCid 4 2 1004; ONewCid 3 2 1003; ORelease 0; OBorrow 0; OPathRetire 1; ONewCid 9 0 1009;
              ONewCid 5 2 1005; ONewCid 6 2 1006] in
  let '(s, xs) := steps no_pre post_count rnd_exec fuel_exec (sys_init 4 1 0 1000) ops in
  xs = [XPath 1 []; XNewCid NAccepted []; XNewCid NAccepted []; XNewCid NAccepted [];
        XBorrow (BCid 1000); XBorrow (BCid 1001); XNewCid NAccepted [];
        XNewCid NAccepted []; XFrames [0]; XBorrow (BCid 1002); XFrames [3; 1]; XNewCid NAccepted [];
        XNewCid NAccepted []; XNewCid NErrLimit []] /\
  emitted xs = [0; 3; 1] /\ r_cursor (s_remote s) = 4 /\ stored s = 6 /\ active (s_remote s) = 5.
Proof. vm_compute. repeat split. Qed.

(* three connections on one router: limits, retirements (also of an unissued number), a second
   Initial packet for a routed origin DCID, drop; every ID ever issued is looked up *)
Example c14_nonvacuous_router :
  let ops := [OConnClient; OInitial 11; OInitial 11; OSetLimit 0 4; ORetire 0 1; ORetire 0 9;
              ORetire 1 0; OConnDrop 1; OConnClient;
              ORoute 0; ORoute 2; ORoute 4; ORoute 6; ORoute 11; ORoute 8; ORoute 10; ORoute 12] in
  let '(s, xs) := steps no_pre post_count rnd_exec fuel_exec (sys_init 2 1 0 1000) ops in
  xs = [XConn 0 [LNew 1 0 2]; XConn 1 [LNew 1 0 6]; XRouted (Some 1); XLocal LOk [LNew 2 0 8; LNew 3 0 10];
        XLocal LOk [LNew 4 0 12]; XLocal LErrLimit []; XLocal LOk [LNew 2 1 14]; XDone; XConn 2 [LNew 1 0 18];
        XRouted (Some 0); XRouted None; XRouted None; XRouted None; XRouted None;
        XRouted (Some 0); XRouted (Some 0); XRouted (Some 0)] /\
  no_force ops = true.
Proof. vm_compute. repeat split. Qed.

(* an unconditionally inserted origin DCID takes over a live ID, and the guarded drop of the OLDER
   entry leaves the newer route alone *)
Example c14_nonvacuous_guard :
  let ops := [OInitial 11; OForce 11; ORoute 11; OConnDrop 0; ORoute 11; OConnDrop 1; ORoute 11] in
  let '(s, xs) := steps no_pre post_count rnd_exec fuel_exec (sys_init 2 1 0 1000) ops in
  xs = [XConn 0 [LNew 1 0 2]; XConn 1 [LNew 1 0 6]; XRouted (Some 1); XDone; XRouted (Some 1); XDone; XRouted None].
Proof. vm_compute. repeat split. Qed.

Print Assumptions c14_local_count.
Print Assumptions c14_local_count_unset.
Print Assumptions c14_local_consecutive.
Print Assumptions c14_local_replace.
Print Assumptions c14_retire_unissued_rejected.
Print Assumptions c14_local_sys.
Print Assumptions c14_router.
Print Assumptions c14_router_guard.
Print Assumptions c14_one_cid_per_path.
Print Assumptions c14_retire_prior_to.
Print Assumptions c14_drain_assert.
Print Assumptions c14_remote_limit_count.
Print Assumptions c14_remote_no_false_reject.
Print Assumptions c14_remote_conservative_scenario.
Print Assumptions c14_remote_limit_fixed.
Print Assumptions c14_remote_limit_refuted.
Print Assumptions c14_remote_limit_conditional.
Print Assumptions c14_nonvacuous_remote.
Print Assumptions c14_nonvacuous_router.
Print Assumptions c14_nonvacuous_guard.
