//! Correspondence stream `protect` (C06): packet assembly + protection (qbase PacketWriter,
//! encrypt_and_protect_packet), the receive path (qbase be_packet, qinterface
//! CipherPacket::decrypt_{long,short}_packet) and the 1-RTT key-phase state machine
//! (qbase OneRttPacketKeys) — all real code.
//!
//! Two kinds of keys:
//!  * TOY keys (ops 0,1,2,4): `rustls::quic::{PacketKey, HeaderProtectionKey}` implemented by the toy
//!    cipher that is also defined in coq/Model/Protect.v (keyed XOR stream + 16-byte keyed checksum,
//!    mask = keyed function of the sample) — packets are compared byte for byte with the model.
//!    The toy is NOT authentic; it only ties the LAYOUT to the model.
//!  * REAL keys (ops 3,5,6,7,8,9,10): rustls/ring AES-128-GCM keys — Initial keys from
//!    `rustls::quic::Keys::initial`, 1-RTT keys + `Secrets` from an in-process TLS 1.3 handshake,
//!    held in the real `ArcOneRttKeys`/`OneRttPacketKeys`.  Only lengths, outcomes, recovered
//!    fields and key GENERATIONS are printed (the bytes depend on handshake randomness).
//!
//! ops (see coq/Model/ProtectIO.v for the model side):
//!  0 ty dl sl tl w pn la plen ps bufsz kid hid   BUILD (toy)    -> 0 bytes… | 1 signal | 2 nofit | 3 panic | 4 pn-encode panic
//!  1 dlrx exp kid hid bytes…                      OPEN  (toy)    -> outcome (below)
//!  2 i                                            FLIP bit i of the last built packet -> len | -1
//!  4 dlrx exp kid hid                             OPEN the last built packet (toy)
//!  3 side                                         UPDATE (0 = sender A, 1 = receiver B) -> phase localgen
//!  5 side                                         PHASE_OUT                             -> phase localgen
//!  6 side phase pn                                GET_REMOTE -> gen phase' localgen' | 9 (panic)
//!  7 dl w pn la plen spin bufsz                   BUILD 1-RTT with A's real keys -> 0 len phase gen | 1.. as op 0
//!  8 exp                                          B opens the last packet through decrypt_short_packet -> 0 pn body… | 1 | 3 (connection error)
//!  9 ty dl sl tl w pn la plen bufsz               BUILD long packet with the real Initial keys of dcid -> 0 len | …
//! 10 exp                                          server opens it through decrypt_long_packet -> 0 kind pn body… | 1 | 3
//! 11 r                                            the last TOY-built packet again, by a peer that holds the keys but sets the
//!                                                 reserved bits r (masked with 0x0c / 0x18): unprotect, set bits, re-seal with
//!                                                 the toy keys (harness code only) -> len | -1
//! outcome of OPEN: 0 kind total pn phase spin body… | 1 perr… | 3 (connection error: reserved bits)
//!                  | 4 (invalid pn) | 5 (decryption failure) | 6 kind (VN / Retry: not a protected packet)
use std::{
    panic::{AssertUnwindSafe, catch_unwind},
    sync::Arc,
};

use bytes::{BufMut, BytesMut};
use hproto::{Obs, Op, content};
use qbase::{
    cid::ConnectionId,
    packet::{
        DataHeader, GetPacketNumberLength, KeyPhaseBit, Packet, PacketNumber, PacketWriter, ShortSpecificBits, SpinBit,
        decrypt::{decrypt_packet, remove_protection_of_short_packet},
        error::Error as PErr,
        header::{OneRttHeader, long},
        io::{AssemblePacket, be_packet},
        keys::{ArcOneRttKeys, ArcOneRttPacketKeys, DirectionalKeys},
        number::InvalidPacketNumber,
    },
};
use qinterface::component::route::CipherPacket;
use rustls::quic::{HeaderProtectionKey, KeyChange, PacketKey, Tag, Version};

// ------------------------------------------------------------------------------------------
// the toy cipher (same formulas as coq/Model/Protect.v: toy_enc / toy_dec / toy_mask)
// ------------------------------------------------------------------------------------------

fn kb(k: u64, j: u64) -> u64 {
    ((k % 256) * (2 * j + 1) + 17 * j + (k / 256) % 256) % 256
}
fn ks(k: u64, n: u64, i: u64) -> u8 {
    ((k % 256) + 13 * ((k / 256) % 256) + 31 * (n % 256) + 7 * (i % 256)) as u8
}
fn toy_tag(k: u64, n: u64, a: &[u8], body: &[u8]) -> [u8; 16] {
    let mut t = [0u8; 16];
    for j in 0..16u64 {
        let m = 259 + 2 * j;
        let mut acc = kb(k, j) + 1;
        let mut feed = |b: u64| acc = (acc * m + b + 1) % 65521;
        for x in n.to_le_bytes() {
            feed(x as u64);
        }
        feed(a.len() as u64 % 256);
        feed((a.len() as u64 / 256) % 256);
        a.iter().for_each(|x| feed(*x as u64));
        feed(body.len() as u64 % 256);
        feed((body.len() as u64 / 256) % 256);
        body.iter().for_each(|x| feed(*x as u64));
        t[j as usize] = (acc % 256) as u8;
    }
    t
}

struct ToyKey(u64);

impl PacketKey for ToyKey {
    fn encrypt_in_place(&self, pn: u64, header: &[u8], payload: &mut [u8]) -> Result<Tag, rustls::Error> {
        for (i, b) in payload.iter_mut().enumerate() {
            *b ^= ks(self.0, pn, i as u64);
        }
        Ok(Tag::from(&toy_tag(self.0, pn, header, payload)[..]))
    }
    fn decrypt_in_place<'a>(&self, pn: u64, header: &[u8], payload: &'a mut [u8]) -> Result<&'a [u8], rustls::Error> {
        if payload.len() < 16 {
            return Err(rustls::Error::DecryptError);
        }
        let n = payload.len() - 16;
        let (body, tag) = payload.split_at_mut(n);
        if toy_tag(self.0, pn, header, body)[..] != tag[..] {
            return Err(rustls::Error::DecryptError);
        }
        for (i, b) in body.iter_mut().enumerate() {
            *b ^= ks(self.0, pn, i as u64);
        }
        Ok(&payload[..n])
    }
    fn confidentiality_limit(&self) -> u64 {
        u64::MAX
    }
    fn integrity_limit(&self) -> u64 {
        u64::MAX
    }
    fn tag_len(&self) -> usize {
        16
    }
}

struct ToyHp(u64);

impl ToyHp {
    fn mask(&self, s: &[u8]) -> [u8; 5] {
        let mut m = [0u8; 5];
        for j in 0..5usize {
            let v = (self.0 % 256) * (j as u64 + 1) + s[j] as u64 + 3 * s[j + 5] as u64 + 5 * s[j + 10] as u64 + (self.0 / 256) % 256;
            m[j] = (v % 256) as u8;
        }
        m
    }
    // the same shape as rustls' own header protection (first byte, then pn_len bytes)
    fn xor(&self, sample: &[u8], first: &mut u8, pn: &mut [u8], masked: bool) -> Result<(), rustls::Error> {
        if sample.len() != 16 || pn.len() > 4 {
            return Err(rustls::Error::General("sample".into()));
        }
        let m = self.mask(sample);
        let bits = if *first & 0x80 != 0 { 0x0f } else { 0x1f };
        let first_plain = if masked { *first ^ (m[0] & bits) } else { *first };
        let pn_len = (first_plain & 3) as usize + 1;
        *first ^= m[0] & bits;
        for (d, x) in pn.iter_mut().zip(&m[1..]).take(pn_len) {
            *d ^= x;
        }
        Ok(())
    }
}

impl HeaderProtectionKey for ToyHp {
    fn encrypt_in_place(&self, sample: &[u8], first: &mut u8, packet_number: &mut [u8]) -> Result<(), rustls::Error> {
        self.xor(sample, first, packet_number, false)
    }
    fn decrypt_in_place(&self, sample: &[u8], first: &mut u8, packet_number: &mut [u8]) -> Result<(), rustls::Error> {
        self.xor(sample, first, packet_number, true)
    }
    fn sample_len(&self) -> usize {
        16
    }
}

fn toy_keys(kid: u64, hid: u64) -> DirectionalKeys {
    DirectionalKeys { header: Arc::new(ToyHp(hid)), packet: Arc::new(ToyKey(kid)) }
}

// ------------------------------------------------------------------------------------------
// real keys: in-process TLS 1.3 handshake (ring provider) -> 1-RTT keys + Secrets for both ends
// ------------------------------------------------------------------------------------------

#[derive(Debug)]
struct NoVerify(Arc<rustls::crypto::CryptoProvider>);
impl rustls::client::danger::ServerCertVerifier for NoVerify {
    fn verify_server_cert(
        &self,
        _: &rustls::pki_types::CertificateDer<'_>,
        _: &[rustls::pki_types::CertificateDer<'_>],
        _: &rustls::pki_types::ServerName<'_>,
        _: &[u8],
        _: rustls::pki_types::UnixTime,
    ) -> Result<rustls::client::danger::ServerCertVerified, rustls::Error> {
        Ok(rustls::client::danger::ServerCertVerified::assertion())
    }
    fn verify_tls12_signature(
        &self,
        m: &[u8],
        c: &rustls::pki_types::CertificateDer<'_>,
        d: &rustls::DigitallySignedStruct,
    ) -> Result<rustls::client::danger::HandshakeSignatureValid, rustls::Error> {
        rustls::crypto::verify_tls12_signature(m, c, d, &self.0.signature_verification_algorithms)
    }
    fn verify_tls13_signature(
        &self,
        m: &[u8],
        c: &rustls::pki_types::CertificateDer<'_>,
        d: &rustls::DigitallySignedStruct,
    ) -> Result<rustls::client::danger::HandshakeSignatureValid, rustls::Error> {
        rustls::crypto::verify_tls13_signature(m, c, d, &self.0.signature_verification_algorithms)
    }
    fn supported_verify_schemes(&self) -> Vec<rustls::SignatureScheme> {
        self.0.signature_verification_algorithms.supported_schemes()
    }
}

const CERT: &[u8] = include_bytes!(concat!(env!("CARGO_MANIFEST_DIR"), "/../../rp/tests/keychain/localhost/server.cert"));
const KEY: &[u8] = include_bytes!(concat!(env!("CARGO_MANIFEST_DIR"), "/../../rp/tests/keychain/localhost/server.key"));

struct Configs {
    client: Arc<rustls::ClientConfig>,
    server: Arc<rustls::ServerConfig>,
}

fn configs() -> Configs {
    use rustls::pki_types::{CertificateDer, PrivateKeyDer, pem::PemObject};
    let provider = Arc::new(rustls::crypto::ring::default_provider());
    let certs: Vec<CertificateDer<'static>> = CertificateDer::pem_slice_iter(CERT).map(|c| c.unwrap()).collect();
    let key = PrivateKeyDer::from_pem_slice(KEY).unwrap();
    let server = rustls::ServerConfig::builder_with_provider(provider.clone())
        .with_protocol_versions(&[&rustls::version::TLS13])
        .unwrap()
        .with_no_client_auth()
        .with_single_cert(certs, key)
        .unwrap();
    let client = rustls::ClientConfig::builder_with_provider(provider.clone())
        .with_protocol_versions(&[&rustls::version::TLS13])
        .unwrap()
        .dangerous()
        .with_custom_certificate_verifier(Arc::new(NoVerify(provider)))
        .with_no_client_auth();
    Configs { client: Arc::new(client), server: Arc::new(server) }
}

/// probe: the ciphertext of a fixed input identifies a packet key (AES-GCM is deterministic)
fn probe(k: &dyn PacketKey) -> Vec<u8> {
    let mut buf = [0x5au8; 8];
    let tag = k.encrypt_in_place(7, b"probe", &mut buf).unwrap();
    let mut v = buf.to_vec();
    v.extend_from_slice(tag.as_ref());
    v
}

struct End {
    keys: ArcOneRttKeys,
}
impl End {
    fn pk(&self) -> ArcOneRttPacketKeys {
        self.keys.get_local_keys().unwrap().1
    }
}

/// both endpoints of one connection, and the reference table generation -> probe for each direction
struct Pair {
    ends: [End; 2],           // 0 = A (client, the sender of ops 7/8), 1 = B (server, the receiver)
    refs: [Vec<Vec<u8>>; 2],  // refs[d][g]: probe of the generation-g key protecting packets SENT by end d
}

const MAX_GEN: usize = 24;

fn handshake(cfg: &Configs) -> Pair {
    let mut client = rustls::quic::ClientConnection::new(cfg.client.clone(), Version::V1, "localhost".try_into().unwrap(), vec![1, 2, 3]).unwrap();
    let mut server = rustls::quic::ServerConnection::new(cfg.server.clone(), Version::V1, vec![4, 5, 6]).unwrap();
    let mut ck = None;
    let mut sk = None;
    for _ in 0..16 {
        let mut buf = Vec::new();
        if let Some(KeyChange::OneRtt { keys, next }) = client.write_hs(&mut buf) {
            ck = Some((keys, next));
        }
        if !buf.is_empty() {
            server.read_hs(&buf).unwrap();
        }
        let mut buf = Vec::new();
        // the server may produce several key changes in a row (handshake, then 1-RTT)
        loop {
            let before = buf.len();
            let kc = server.write_hs(&mut buf);
            if let Some(KeyChange::OneRtt { keys, next }) = kc {
                sk = Some((keys, next));
            } else if kc.is_none() && buf.len() == before {
                break;
            }
            if !buf[before..].is_empty() {
                client.read_hs(&buf[before..]).unwrap();
            }
            // the client answers inside the outer loop
            let mut cb = Vec::new();
            if let Some(KeyChange::OneRtt { keys, next }) = client.write_hs(&mut cb) {
                ck = Some((keys, next));
            }
            if !cb.is_empty() {
                server.read_hs(&cb).unwrap();
            }
        }
        if ck.is_some() && sk.is_some() {
            break;
        }
    }
    let (ckeys, csec) = ck.expect("client 1-RTT keys");
    let (skeys, ssec) = sk.expect("server 1-RTT keys");
    // reference probes: generation 0 from the handshake keys, later ones from a clone of the secrets
    let mut refs = [vec![probe(ckeys.local.packet.as_ref())], vec![probe(skeys.local.packet.as_ref())]];
    assert_eq!(refs[0][0], probe(skeys.remote.packet.as_ref()));
    assert_eq!(refs[1][0], probe(ckeys.remote.packet.as_ref()));
    let mut c2 = csec.clone();
    let mut s2 = ssec.clone();
    for _ in 1..MAX_GEN {
        let kc = c2.next_packet_keys();
        let ks = s2.next_packet_keys();
        refs[0].push(probe(kc.local.as_ref()));
        refs[1].push(probe(ks.local.as_ref()));
        assert_eq!(probe(kc.local.as_ref()), probe(ks.remote.as_ref()));
    }
    let a = ArcOneRttKeys::new_pending();
    a.set_keys(ckeys, csec);
    let b = ArcOneRttKeys::new_pending();
    b.set_keys(skeys, ssec);
    Pair { ends: [End { keys: a }, End { keys: b }], refs }
}

impl Pair {
    fn gen_of(&self, dir: usize, k: &dyn PacketKey) -> i128 {
        let p = probe(k);
        self.refs[dir].iter().position(|r| *r == p).map(|g| g as i128).unwrap_or(-1)
    }
    fn local_state(&self, side: usize) -> (i128, i128) {
        let (ph, k) = self.ends[side].pk().lock_guard().get_local();
        ((ph == KeyPhaseBit::One) as i128, self.gen_of(side, k.as_ref()))
    }
}

// ------------------------------------------------------------------------------------------
// case state
// ------------------------------------------------------------------------------------------

/// what op 11 needs to know about the last toy-built packet
struct ToyMeta {
    orig: Vec<u8>,
    off: usize,
    pnlen: usize,
    pn: u64,
    kid: u64,
    hid: u64,
}

struct St {
    cfg: Arc<Configs>,
    pair: Option<Pair>,
    last: Option<Vec<u8>>,
    last_dl: usize,
    last_dcid: Vec<u8>,
    toy: Option<ToyMeta>,
}

impl St {
    fn pair(&mut self) -> &Pair {
        if self.pair.is_none() {
            self.pair = Some(handshake(&self.cfg));
        }
        self.pair.as_ref().unwrap()
    }
}

fn cid(base: u64, n: u64) -> ConnectionId {
    ConnectionId::from_slice(&hproto::content_slice(base, n))
}

fn mk_pn(w: u64, pn: u64, la: u64) -> Option<PacketNumber> {
    Some(match w {
        0 => return catch_unwind(AssertUnwindSafe(|| PacketNumber::encode(pn, la))).ok(),
        1 => PacketNumber::U8(pn as u8),
        2 => PacketNumber::U16(pn as u16),
        3 => PacketNumber::U24((pn as u32) & 0xff_ffff),
        _ => PacketNumber::U32(pn as u32),
    })
}

/// fills the writer with `plen` position-derived body bytes and seals it. 0 len | 2 nofit | 3 panic
fn fill_and_seal(mut w: PacketWriter<'_>, plen: usize) -> Result<usize, u8> {
    if plen > w.remaining_mut() {
        return Err(2);
    }
    let body: Vec<u8> = (0..plen as u64).map(|i| content(1000 + i)).collect();
    w.put_slice(&body);
    catch_unwind(AssertUnwindSafe(move || w.encrypt_and_protect_packet().0)).map_err(|_| 3)
}

#[allow(clippy::too_many_arguments)]
fn build(ty: u64, dl: u64, sl: u64, tl: u64, w: u64, pn: u64, la: u64, plen: usize, ps: u64, bufsz: usize, keys: DirectionalKeys, phase: KeyPhaseBit) -> Result<Vec<u8>, u8> {
    let Some(epn) = mk_pn(w, pn, la) else { return Err(4) };
    let mut buf = vec![0u8; bufsz];
    let n = if ty == 3 {
        let spin = if ps & 2 != 0 { SpinBit::One } else { SpinBit::Zero };
        let h = OneRttHeader::new(spin, cid(0, dl));
        let wr = PacketWriter::new_short(&h, &mut buf, (pn, epn), keys, phase).map_err(|_| 1u8)?;
        fill_and_seal(wr, plen)?
    } else {
        let b = long::io::LongHeaderBuilder::with_cid(cid(0, dl), cid(100, sl));
        match ty {
            0 => {
                let h = b.initial(hproto::content_slice(200, tl));
                let wr = PacketWriter::new_long(&h, &mut buf, (pn, epn), keys).map_err(|_| 1u8)?;
                fill_and_seal(wr, plen)?
            }
            1 => {
                let h = b.zero_rtt();
                let wr = PacketWriter::new_long(&h, &mut buf, (pn, epn), keys).map_err(|_| 1u8)?;
                fill_and_seal(wr, plen)?
            }
            _ => {
                let h = b.handshake();
                let wr = PacketWriter::new_long(&h, &mut buf, (pn, epn), keys).map_err(|_| 1u8)?;
                fill_and_seal(wr, plen)?
            }
        }
    };
    buf.truncate(n);
    Ok(buf)
}

fn perr(o: &mut Obs, e: &PErr) {
    match e {
        PErr::UnsupportedVersion(v) => {
            o.push(0u8).push(*v);
        }
        PErr::InvalidFixedBit => {
            o.push(1u8);
        }
        PErr::IncompleteType(_) => {
            o.push(2u8);
        }
        PErr::IncompleteHeader(..) => {
            o.push(3u8);
        }
        PErr::UnderSampling(_, n) => {
            o.push(4u8).push_usize(*n);
        }
        _ => {
            o.push(9u8);
        }
    }
}

fn decoder(exp: i128) -> impl FnOnce(PacketNumber) -> Result<u64, InvalidPacketNumber> {
    move |p| if exp < 0 { Err(InvalidPacketNumber::TooOld) } else { Ok(p.decode(exp as u64)) }
}

enum Opened {
    Accept { kind: u8, total: usize, pn: u64, phase: i128, spin: i128, body: Vec<u8> },
    Parse(PErr),
    ConnError,
    InvalidPn,
    Decrypt,
    NotData(u8),
    NoKey,
}

/// be_packet + the receive path of qinterface for long packets (and for short packets when `one_rtt` is given);
/// short packets with an explicit toy key go through the same three qbase calls as decrypt_short_packet.
fn open(bytes: &[u8], dlrx: usize, exp: i128, toy: Option<(u64, u64)>, long_keys: Option<&DirectionalKeys>, one_rtt: Option<(&dyn HeaderProtectionKey, &ArcOneRttPacketKeys)>) -> Opened {
    let mut dg = BytesMut::from(bytes);
    let pkt = match be_packet(&mut dg, dlrx) {
        Ok(p) => p,
        Err(e) => return Opened::Parse(e),
    };
    let d = match pkt {
        Packet::VN(_) => return Opened::NotData(0),
        Packet::Retry(_) => return Opened::NotData(1),
        Packet::Data(d) => d,
    };
    let total = d.bytes.len();
    let tk = toy.map(|(k, h)| toy_keys(k, h));
    let lk = tk.as_ref().or(long_keys);
    macro_rules! long_path {
        ($h:expr, $kind:expr) => {{
            let Some(k) = lk else { return Opened::NoKey };
            match CipherPacket::new($h, d.bytes, d.offset).decrypt_long_packet(k.header.as_ref(), k.packet.as_ref(), decoder(exp)) {
                Some(Ok(p)) => Opened::Accept { kind: $kind, total, pn: p.pn(), phase: 0, spin: 0, body: p.body().to_vec() },
                Some(Err(_)) => Opened::ConnError,
                None => Opened::Decrypt, // refined below by the caller when it needs the drop class
            }
        }};
    }
    match d.header {
        DataHeader::Long(long::DataHeader::Initial(h)) => long_path!(h, 2),
        DataHeader::Long(long::DataHeader::ZeroRtt(h)) => long_path!(h, 3),
        DataHeader::Long(long::DataHeader::Handshake(h)) => long_path!(h, 4),
        DataHeader::Short(h) => {
            let spin = (h.spin() == SpinBit::One) as i128;
            if let Some((hpk, pk)) = one_rtt {
                return match CipherPacket::new(h, d.bytes, d.offset).decrypt_short_packet(hpk, pk, decoder(exp)) {
                    Some(Ok(p)) => Opened::Accept { kind: 5, total, pn: p.pn(), phase: -1, spin, body: p.body().to_vec() },
                    Some(Err(_)) => Opened::ConnError,
                    None => Opened::Decrypt,
                };
            }
            let Some(k) = tk.as_ref() else { return Opened::NoKey };
            // the body of CipherPacket::decrypt_short_packet with an explicit packet key
            let mut buf = d.bytes;
            let (undecoded, phase) = match remove_protection_of_short_packet(k.header.as_ref(), buf.as_mut(), d.offset) {
                Ok(Some(x)) => x,
                Ok(None) => return Opened::Decrypt,
                Err(_) => return Opened::ConnError,
            };
            let pn = match decoder(exp)(undecoded) {
                Ok(pn) => pn,
                Err(_) => return Opened::InvalidPn,
            };
            let body_offset = d.offset + undecoded.size();
            match decrypt_packet(k.packet.as_ref(), pn, buf.as_mut(), body_offset) {
                // the reserved bits of an authenticated packet (decrypt_short_packet does the same)
                Ok(_) if ShortSpecificBits::from(buf[0]).pn_len().is_err() => Opened::ConnError,
                Ok(n) => Opened::Accept { kind: 5, total, pn, phase: (phase == KeyPhaseBit::One) as i128, spin, body: buf[body_offset..body_offset + n].to_vec() },
                Err(_) => Opened::Decrypt,
            }
        }
    }
}

/// the drop class of a long packet (invalid pn vs decryption failure) is not visible in the return
/// value of decrypt_long_packet (both are `None`); it is told apart by running the decoder outcome:
/// exp < 0 makes the decoder fail, so a `None` with exp < 0 and intact reserved bits is class 4.
fn print_opened(o: &mut Obs, r: Opened, exp: i128, merged: bool) {
    match r {
        Opened::Accept { kind, total, pn, phase, spin, body } => {
            if merged {
                o.push(0u8).push(pn);
            } else {
                o.push(0u8).push(kind).push_usize(total).push(pn).push(phase).push(spin);
            }
            o.push_bytes(&body);
        }
        Opened::ConnError if merged => {
            o.push(3u8);
        }
        _ if merged => {
            o.push(1u8);
        }
        Opened::Parse(e) => {
            o.push(1u8);
            perr(o, &e);
        }
        Opened::ConnError => {
            o.push(3u8);
        }
        Opened::InvalidPn => {
            o.push(4u8);
        }
        Opened::Decrypt => {
            o.push(if exp < 0 { 4u8 } else { 5u8 });
        }
        Opened::NotData(k) => {
            o.push(6u8).push(k);
        }
        Opened::NoKey => {
            o.push(7u8);
        }
    }
}

fn step(s: &mut St, op: &Op, _i: usize) -> Obs {
    let mut o = Obs::new();
    let a = &op.args;
    match op.tag {
        0 => {
            let (ty, dl, sl, tl, w, pn, la, plen, ps, bufsz, kid, hid) =
                (op.u(0), op.u(1), op.u(2), op.u(3), op.u(4), op.u(5), op.u(6), op.u(7) as usize, op.u(8), op.u(9) as usize, op.u(10), op.u(11));
            let phase = if ps & 1 != 0 { KeyPhaseBit::One } else { KeyPhaseBit::Zero };
            match build(ty, dl, sl, tl, w, pn, la, plen, ps, bufsz, toy_keys(kid, hid), phase) {
                Ok(b) => {
                    o.push(0u8).push_bytes(&b);
                    let pnlen = mk_pn(w, pn, la).unwrap().size();
                    s.toy = Some(ToyMeta { orig: b.clone(), off: b.len() - pnlen - plen - 16, pnlen, pn, kid, hid });
                    s.last = Some(b);
                    s.last_dl = dl as usize;
                }
                Err(c) => {
                    o.push(c);
                    s.last = None;
                    s.toy = None;
                }
            }
        }
        11 => match s.toy.as_ref() {
            Some(t) => {
                let mut b = t.orig.clone();
                let (hp, pk) = (ToyHp(t.hid), ToyKey(t.kid));
                let (pre, payload) = b.split_at_mut(t.off);
                let (pnbuf, sample) = payload.split_at_mut(4);
                hp.decrypt_in_place(&sample[..16], &mut pre[0], pnbuf).unwrap();
                let body_off = t.off + t.pnlen;
                let (aad, body) = b.split_at_mut(body_off);
                let n = pk.decrypt_in_place(t.pn, aad, body).unwrap().len();
                aad[0] |= (op.u(0) as u8) & if aad[0] & 0x80 != 0 { 0x0c } else { 0x18 };
                let tag = pk.encrypt_in_place(t.pn, aad, &mut body[..n]).unwrap();
                body[n..].copy_from_slice(tag.as_ref());
                let (pre, payload) = b.split_at_mut(t.off);
                let (pnbuf, sample) = payload.split_at_mut(4);
                hp.encrypt_in_place(&sample[..16], &mut pre[0], &mut pnbuf[..t.pnlen]).unwrap();
                o.push_usize(b.len());
                s.last = Some(b);
            }
            None => {
                o.push(-1);
            }
        },
        1 | 4 => {
            let (dlrx, exp, kid, hid) = (op.u(0) as usize, a[1], op.u(2), op.u(3));
            let bytes = if op.tag == 1 { op.bytes_from(4) } else { s.last.clone().unwrap_or_default() };
            let r = open(&bytes, dlrx, exp, Some((kid, hid)), None, None);
            print_opened(&mut o, r, exp, false);
        }
        2 => match s.last.as_mut() {
            Some(b) if (a[0] as usize) < 8 * b.len() && a[0] >= 0 => {
                let i = a[0] as usize;
                b[i / 8] ^= 0x80 >> (i % 8);
                o.push_usize(b.len());
            }
            _ => {
                o.push(-1);
            }
        },
        3 | 5 => {
            let side = (op.u(0) & 1) as usize;
            let p = s.pair();
            {
                let pk = p.ends[side].pk();
                let mut g = pk.lock_guard();
                if op.tag == 3 { g.update() } else { g.phase_out() }
            }
            let (ph, g) = p.local_state(side);
            o.push(ph).push(g);
        }
        6 => {
            let side = (op.u(0) & 1) as usize;
            let ph = if op.u(1) & 1 != 0 { KeyPhaseBit::One } else { KeyPhaseBit::Zero };
            let pn = op.u(2);
            let p = s.pair();
            let pk = p.ends[side].pk();
            let r = catch_unwind(AssertUnwindSafe(|| pk.lock_guard().get_remote(ph, pn)));
            match r {
                Ok(k) => {
                    // keys this end RECEIVES with protect packets sent by the other end
                    let g = p.gen_of(1 - side, k.as_ref());
                    let (ph2, lg) = p.local_state(side);
                    o.push(g).push(ph2).push(lg);
                }
                Err(_) => {
                    o.push(9u8);
                }
            }
        }
        7 => {
            s.toy = None;
            let (dl, w, pn, la, plen, spin, bufsz) = (op.u(0), op.u(1), op.u(2), op.u(3), op.u(4) as usize, op.u(5), op.u(6) as usize);
            let p = s.pair();
            let (hpk, pk) = p.ends[0].keys.get_local_keys().unwrap();
            let (phase, key) = pk.lock_guard().get_local();
            let g = p.gen_of(0, key.as_ref());
            let keys = DirectionalKeys { header: hpk, packet: key };
            match build(3, dl, 0, 0, w, pn, la, plen, (spin & 1) * 2, bufsz, keys, phase) {
                Ok(b) => {
                    o.push(0u8).push_usize(b.len()).push((phase == KeyPhaseBit::One) as u8).push(g);
                    s.toy = None;
                    s.last = Some(b);
                    s.last_dl = dl as usize;
                }
                Err(c) => {
                    o.push(c);
                    s.last = None;
                }
            }
        }
        8 => {
            let exp = a[0];
            let bytes = s.last.clone().unwrap_or_default();
            let dl = s.last_dl;
            let p = s.pair();
            let (hpk, pk) = p.ends[1].keys.remote_keys().unwrap();
            let r = open(&bytes, dl, exp, None, None, Some((hpk.as_ref(), &pk)));
            print_opened(&mut o, r, exp, true);
        }
        9 => {
            s.toy = None;
            let (ty, dl, sl, tl, w, pn, la, plen, bufsz) = (op.u(0), op.u(1), op.u(2), op.u(3), op.u(4), op.u(5), op.u(6), op.u(7) as usize, op.u(8) as usize);
            let dcid = hproto::content_slice(0, dl);
            let keys = initial_keys(&dcid, rustls::Side::Client);
            match build(ty.min(2), dl, sl, tl, w, pn, la, plen, 0, bufsz, keys.local, KeyPhaseBit::Zero) {
                Ok(b) => {
                    o.push(0u8).push_usize(b.len());
                    s.toy = None;
                    s.last = Some(b);
                    s.last_dl = dl as usize;
                    s.last_dcid = dcid;
                }
                Err(c) => {
                    o.push(c);
                    s.last = None;
                }
            }
        }
        10 => {
            let exp = a[0];
            let bytes = s.last.clone().unwrap_or_default();
            let keys = initial_keys(&s.last_dcid, rustls::Side::Server);
            let r = open(&bytes, s.last_dl, exp, None, Some(&keys.remote), None);
            match r {
                Opened::Accept { kind, pn, body, .. } => {
                    o.push(0u8).push(kind).push(pn).push_bytes(&body);
                }
                Opened::ConnError => {
                    o.push(3u8);
                }
                _ => {
                    o.push(1u8);
                }
            }
        }
        _ => {
            o.push(-99);
        }
    }
    o
}

fn initial_keys(dcid: &[u8], side: rustls::Side) -> qbase::packet::keys::Keys {
    let suite = rustls::crypto::ring::cipher_suite::TLS13_AES_128_GCM_SHA256.tls13().unwrap();
    rustls::quic::Keys::initial(Version::V1, suite, suite.quic.unwrap(), dcid, side).into()
}

fn main() {
    let cfg = Arc::new(configs());
    hproto::run(
        move |_| St { cfg: cfg.clone(), pair: None, last: None, last_dl: 0, last_dcid: Vec::new(), toy: None },
        step,
    );
}
