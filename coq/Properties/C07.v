(* C07 — packet numbers are never reused and always decode to the number sent.
   Only the property theorems live here: each is closed by a lemma of Proofs/Pn.v or
   Proofs/SentJournal.v, and its assumptions are printed for the audit. *)
From Coq Require Import List ZArith Bool Sorted.
From GQ Require Import Model.Pn Model.SentJournal Model.TxPn Proofs.Pn Proofs.SentJournal Proofs.TxPn.
Import ListNotations.
Local Open Scope Z_scope.

(* Histories are lists of mutex-protected steps ([sev]): whole NewPacketGuard lives (started,
   then completed by build_with_time / build_trivial or abandoned) interleaved arbitrarily with
   the calls of SentRotateGuards (acknowledgements, loss, fast retransmit, largest-acked updates,
   resize).  [emitted_pns] lists the packet numbers of the guards that were built without a
   panic, i.e. of the packets handed to encrypt_and_protect_packet.  [ev_built_ok] is the
   discipline of qconnection/src/tx.rs: a packet that is built recorded a frame or
   record_trivial. *)
Theorem c07_unique : forall h, Forall ev_built_ok h -> StronglySorted Z.lt (emitted_pns sj_new [] h).
Proof. exact p_c07_unique. Qed.

(* the number a guard hands out is the next unused one, encoded against largest_acked *)
Theorem c07_pn_is_next : forall j now sc j' pn e c, new_packet j now sc = (j', Some (pn, e), c) ->
  pn = s_next j /\ encode pn (s_la j) = EncOk e.
Proof. exact p_c07_pn_is_next. Qed.

(* the discipline is needed: build_with_time on a guard that recorded nothing hands the same
   number to two packets *)
Theorem c07_unique_needs_discipline :
  let sc := mknp [] false NpBuildTime 10 10 in
  emitted_pns sj_new [] [EvNew 0 sc; EvNew 0 sc] = [0; 0].
Proof. exact p_c07_unique_needs_discipline. Qed.

(* decode (what is read back from the wire) (receiver expectation) = pn *)
Theorem c07_decode : forall pn la exp,
  0 <= la < 2 ^ 62 -> pn - la < 2 ^ 31 -> la < exp <= pn ->
  exists p, encode pn la = EncOk p /\ decode (wire p) exp = DecOk pn.
Proof. exact p_c07_decode. Qed.

(* the exact guard found by sweeps is wider: exp = la is fine too (nothing acknowledged yet:
   largest_acked starts at 0 and the receiver may expect 0) *)
Theorem c07_decode_wide : forall pn la exp,
  0 <= la < 2 ^ 62 -> pn - la < 2 ^ 31 -> la <= exp <= pn ->
  exists p, encode pn la = EncOk p /\ decode (wire p) exp = DecOk pn.
Proof. exact p_c07_decode_wide. Qed.

(* a delayed packet (receiver already beyond it by less than 2^15) still decodes *)
Theorem c07_decode_reordered : forall pn la exp,
  0 <= la <= pn -> pn - la < 2 ^ 31 -> 0 <= exp < 2 ^ 63 ->
  pn < exp -> exp - pn < 2 ^ 15 ->
  exists p, encode pn la = EncOk p /\ decode (wire p) exp = DecOk pn.
Proof. exact p_c07_decode_reordered. Qed.

Theorem c07_encode_total : forall pn la,
  0 <= la <= pn -> pn - la < 2 ^ 31 ->
  encode pn la <> EncPanic /\ encode pn la <> EncOverflow /\
  exists p, encode pn la = EncOk p /\ 2 <= width p <= 4.
Proof. exact p_c07_encode_total. Qed.

(* the guard is exact: one more unacknowledged packet and encode panics *)
Theorem c07_encode_limit : forall la, 0 <= la < 2 ^ 62 -> encode (la + 2 ^ 31) la = EncPanic.
Proof. exact p_c07_encode_limit. Qed.

(* full strength since the fix of F31 (`U24(pn as u32 & 0x00ff_ffff)`): the in-memory value
   returned by encode decodes to pn as well, and it is already its own wire form *)
Theorem c07_decode_direct : forall pn la exp,
  0 <= la < 2 ^ 62 -> pn - la < 2 ^ 31 -> la <= exp <= pn ->
  exists p, encode pn la = EncOk p /\ decode p exp = DecOk pn /\ wire p = p.
Proof. exact p_c07_decode_direct. Qed.

(* regression witness of F31: a U24 with an unreduced payload (still constructible through the
   public enum) decodes differently from its wire form; encode no longer produces one *)
Theorem c07_decode_unreduced_u24 :
  decode (U24 67108865) 67108862 = DecOk 100663297 /\ decode (wire (U24 67108865)) 67108862 = DecOk 67108865
  /\ encode 67108865 67068865 = EncOk (U24 1).
Proof. exact p_c07_decode_unreduced_u24. Qed.

(* ---- the packet writers of qconnection/src/tx.rs (Model/TxPn.v, stream `txpn`) ----
   [tx_script] is what one life of tx::PacketWriter ([trivw] = false) or tx::TrivialPacketWriter
   ([trivw] = true) does to its NewPacketGuard, for every packet type, buffer size and list of
   frames offered through the Package impls.  The discipline that c07_unique takes as a hypothesis
   holds for both writers; a packet finished by TrivialPacketWriter always satisfies the two
   assertions of build_trivial. *)
Theorem c07_tx_discipline : forall trivw ty bufsz retran expire fr w sc,
  tx_script trivw ty bufsz retran expire fr w = Some sc ->
  disciplined sc /\
  (np_mode_ sc = NpBuildTrivial -> trivw = true /\ np_frames sc = [] /\ np_trivial sc = true) /\
  (trivw = true -> np_mode_ sc <> NpBuildTime).
Proof. exact p_c07_tx_discipline. Qed.

(* every interleaving of lives of the two writers and SentRotateGuard calls on one journal: the
   numbers of the packets that left either writer are strictly increasing — no hypothesis *)
Theorem c07_tx_unique : forall h, StronglySorted Z.lt (tx_emitted sj_new [] h).
Proof. exact p_c07_tx_unique. Qed.

(* the "sent pn" observation of stream txpn is such an emitted packet; its number is the journal's
   next one and the journal has booked it afterwards *)
Theorem c07_tx_life_sent : forall trivw pad j now ty bufsz retran expire fr j' pn rest,
  tx_life trivw pad j now ty bufsz retran expire fr = (Some j', 0 :: pn :: rest) ->
  exists sc, tx_sev j (TxWriter now trivw ty bufsz retran expire fr) = Some (EvNew now sc) /\
    is_built sc = true /\ pn = s_next j /\ s_next j' = pn + 1.
Proof. exact p_c07_tx_life_sent. Qed.

(* non-vacuity: regular packet, punch packet, abandoned assembly (buffer too small), regular
   ack-only packet, two CONNECTION_CLOSE packets, an acknowledgement in between: 0,1,2,3,4 *)
Example c07_tx_nonvacuous :
  tx_emitted sj_new []
    [TxWriter 0 false 3 1200 100 300 [(1, 4096)];
     TxWriter 0 true 3 1200 0 0 [(5, 0)];
     TxWriter 1 false 3 20 100 300 [(1, 4097)];
     TxRotate (EvLargest 1); TxRotate (EvAcked 0); TxRotate (EvResize 1);
     TxWriter 2 false 3 1200 100 300 [(6, 0)];
     TxWriter 3 true 3 1200 0 0 [(4, 0)];
     TxWriter 3 true 3 1200 0 0 [(4, 0)]] = [0; 1; 2; 3; 4].
Proof. vm_compute. reflexivity. Qed.

(* non-vacuity: a history with a multi-frame packet, a trivial packet, abandoned guards,
   out-of-order acknowledgements, loss and a resize emits 0,1,2,3; and concrete boundary triples *)
Example c07_nonvacuous :
  let h := [EvNew 0 (mknp [11; 12] false NpBuildTime 5 50);
            EvNew 0 (mknp [] false NpAbandon 5 50);
            EvNew 1 (mknp [] true NpBuildTrivial 5 50);
            EvNew 2 (mknp [] true NpAbandon 5 50);
            EvLargest 1; EvAcked 1; EvLost 0; EvResize 3;
            EvNew 3 (mknp [13] true NpBuildTime 5 50);
            EvAcked 0; EvFast 100; EvResize 100;
            EvNew 4 (mknp [] true NpBuildTime 5 50)] in
  Forall ev_built_ok h /\ emitted_pns sj_new [] h = [0; 1; 2; 3] /\
  encode 32768 0 = EncOk (U24 32768) /\ decode (wire (U24 32768)) 1 = DecOk 32768 /\
  encode (2 ^ 62 - 1) (2 ^ 62 - 2 ^ 31) = EncOk (U32 4294967295) /\
  decode (U32 4294967295) (2 ^ 62 - 2 ^ 31 + 1) = DecOk (2 ^ 62 - 1).
Proof.
  cbv zeta. split; [|vm_compute; repeat split; reflexivity].
  repeat constructor; unfold built_ok; cbn; intros; try discriminate;
    first [left; reflexivity | right; discriminate].
Qed.

Print Assumptions c07_unique.
Print Assumptions c07_pn_is_next.
Print Assumptions c07_unique_needs_discipline.
Print Assumptions c07_decode.
Print Assumptions c07_decode_wide.
Print Assumptions c07_decode_reordered.
Print Assumptions c07_encode_total.
Print Assumptions c07_encode_limit.
Print Assumptions c07_decode_direct.
Print Assumptions c07_decode_unreduced_u24.
Print Assumptions c07_tx_discipline.
Print Assumptions c07_tx_unique.
Print Assumptions c07_tx_life_sent.
Print Assumptions c07_tx_nonvacuous.
Print Assumptions c07_nonvacuous.
