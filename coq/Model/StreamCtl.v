(* Model of the stream-control decisions of qrecovery (streams/raw.rs, streams/listener.rs,
   streams/io.rs, recv/recver.rs, recv/incoming.rs, recv/reader.rs, send/sender.rs,
   send/outgoing.rs, send/writer.rs, the part of send/sndbuf.rs that picks what to send) glued to
   qbase::flow exactly like qconnection::space::FlowControlledDataStreams.  Definitions only.

   Every function takes a [variant]: [as_is] is the code as it stands, the other flags switch in
   the repaired branch of one finding (F12, F13, F26, F27, F33, F34), so the as-is and the repaired model are the
   same text and the stream registry selects one by the name of the run function. *)
From Coq Require Import List NArith ZArith Bool.
From GQ Require Export Lib.Base Model.RecvBuf Model.Sid Model.Flow.
Import ListNotations.
Local Open Scope N_scope.

Record variant := mkvar { fix12 : bool; fix13 : bool; fix26 : bool; fix27 : bool; fix33 : bool; fix34 : bool }.
Definition as_is : variant := mkvar false false false false false false.
Definition fixed : variant := mkvar true true true true true true.

(* the six initial flow-control parameters plus the two stream counts of one endpoint *)
Record params := mkp { p_msb : N; p_msu : N; p_md : N; p_sdbl : N; p_sdbr : N; p_sdu : N }.

(* ---------------------------------------------------------------- window table (as coded) *)
(* poll_open_{bi,uni}_stream: remembered (0-RTT) parameters win, else the peer's, else wait *)
Definition open_send_window (v : variant) (d : dir) (mem remote : option params) : option N :=
  match mem with
  | Some m => Some (match d with Bi => p_sdbr m | Uni => p_sdu m end)
  | None =>
    match remote with
    | Some r => Some (match d with
                      | Bi => p_sdbr r
                      | Uni => if fix12 v then p_sdu r else p_sdbr r   (* F12 *)
                      end)
    | None => None
    end
  end.
Definition open_recv_window (loc : params) : N := p_sdbl loc.
Definition accept_recv_window (loc : params) (d : dir) : N :=
  match d with Bi => p_sdbr loc | Uni => p_sdu loc end.
Definition accept_send_window (remote : params) : N := p_sdbl remote.
Definition revise_send_window (remote : params) (d : dir) : N :=
  match d with Bi => p_sdbr remote | Uni => p_sdu remote end.

(* ---------------------------------------------------------------- send side of one stream *)
Inductive colour := Pending | Flighting | Lost.
Definition is_pending c := match c with Pending => true | _ => false end.
Definition is_lost c := match c with Lost => true | _ => false end.
Definition col_eqb a b :=
  match a, b with Pending, Pending | Flighting, Flighting | Lost, Lost => true | _, _ => false end.

Inductive sstate := SReady | SSending | SDataSent | SResetSent.

(* sn_col: the colour of every byte of BufMap (its length is BufMap::size) *)
Record sender := mksnd {
  sn_state : sstate; sn_written : N; sn_window : N; sn_col : list colour;
  sn_shut : bool; sn_finlost : bool; sn_handed : bool }.

Definition sn_size (s : sender) : N := lenN (sn_col s).

Fixpoint first_idx (p : colour -> bool) (l : list colour) (i : N) : option N :=
  match l with
  | [] => None
  | c :: t => if p c then Some i else first_idx p t (i + 1)
  end.

Definition col_sent (col : list colour) : N :=
  match first_idx is_pending col 0 with Some i => i | None => lenN col end.

(* BufMap::extend_to(min(written, max_data)) *)
Definition col_extend (col : list colour) (target : N) : list colour :=
  col ++ repeat Pending (N.to_nat (target - lenN col)).

Definition new_sender (window : N) (handed : bool) : sender :=
  mksnd SReady 0 window [] false false handed.

Definition snd_write (s : sender) (len : N) : sender :=
  if len =? 0 then s else
  let w := sn_written s + len in
  mksnd (sn_state s) w (sn_window s) (col_extend (sn_col s) (N.min w (sn_window s)))
        (sn_shut s) (sn_finlost s) (sn_handed s).

(* {Ready,Sending}Sender::update_window *)
Definition snd_update_window (s : sender) (v : N) : sender :=
  if sn_window s <? v then
    mksnd (sn_state s) (sn_written s) v (col_extend (sn_col s) (N.min (sn_written s) v))
          (sn_shut s) (sn_finlost s) (sn_handed s)
  else s.

(* ArcSender::update_window: only Ready and Sending *)
Definition arc_update_window (s : sender) (v : N) : sender :=
  match sn_state s with
  | SReady | SSending => snd_update_window s v
  | _ => s
  end.

Definition snd_forget (s : sender) : sender :=
  mksnd (sn_state s) (sn_written s) 0 [] (sn_shut s) (sn_finlost s) (sn_handed s).

(* Outgoing::revise_max_stream_data *)
Definition snd_revise (s : sender) (rejected : bool) (v : N) : sender :=
  match sn_state s with
  | SReady | SSending => snd_update_window (if rejected then snd_forget s else s) v
  | SDataSent =>
    let s0 := if rejected then snd_forget s else s in
    mksnd (sn_state s0) (sn_written s0) v (col_extend (sn_col s0) (N.min (sn_written s0) v))
          (sn_shut s0) (sn_finlost s0) (sn_handed s0)
  | SResetSent => s
  end.

(* end of the maximal run of bytes for which [p] holds, starting at list head / offset i *)
Fixpoint run_end (p : colour -> bool) (l : list colour) (i : N) : N :=
  match l with
  | c :: t => if p c then run_end p t (i + 1) else i
  | [] => i
  end.

Fixpoint recolour (l : list colour) (start stop : N) (i : N) (from_ok : colour -> bool) (to : colour) : list colour :=
  match l with
  | [] => []
  | c :: t =>
    (if (start <=? i) && (i <? stop) && from_ok c then to else c) :: recolour t start stop (i + 1) from_ok to
  end.

(* BufMap::pick on the per-byte colouring.  [avail_of] is the predicate (tokens and packet room).
   result: new colouring, start, end, is_fresh *)
Definition pick (col : list colour) (flow_limit : N) (avail_of : N -> option N)
  : option (list colour * N * N * bool) :=
  let choice :=
    match first_idx is_lost col 0 with
    | Some i => Some (i, Lost)
    | None =>
      let sent := col_sent col in
      if (sent <? lenN col) && negb (flow_limit =? 0) then Some (sent, Pending) else None
    end in
  match choice with
  | None => None
  | Some (start, c) =>
    match avail_of start with
    | None => None
    | Some available =>
      let allowance := if is_lost c then available else N.min available flow_limit in
      let e0 := run_end (col_eqb c) (dropN start col) start in
      let e := if start + allowance <? e0 then start + allowance else e0 in
      Some (recolour col start e 0 (fun _ => true) Flighting, start, e, is_pending c)
    end
  end.

Definition with_col (s : sender) (col : list colour) : sender :=
  mksnd (sn_state s) (sn_written s) (sn_window s) col (sn_shut s) (sn_finlost s) (sn_handed s).
Definition with_state (s : sender) (st : sstate) : sender :=
  mksnd st (sn_written s) (sn_window s) (sn_col s) (sn_shut s) (sn_finlost s) (sn_handed s).

(* one frame picked from one stream: (start, end, fresh, eos) *)
Definition frame_pick := (N * N * bool * bool)%type.

(* Outgoing::try_load_data_into without the packet writing *)
Definition snd_try_load (s : sender) (flow_limit : N) (avail_of : N -> option N)
  : sender * option frame_pick :=
  match sn_state s with
  | SReady | SSending =>
    let s := with_state s SSending in
    let sent := col_sent (sn_col s) in
    let res :=
      match pick (sn_col s) flow_limit avail_of with
      | Some (col', st, e, fresh) =>
        Some (with_col s col', (st, e, fresh, sn_shut s && (e =? sn_written s)))
      | None =>
        if sn_shut s && (sn_written s =? sent) then
          match avail_of sent with
          | Some _ => Some (s, (sent, sent, false, true))
          | None => None
          end
        else None
      end in
    match res with
    | Some (s', (st, e, fresh, eos)) =>
      (if eos then with_state s' SDataSent else s', Some (st, e, fresh, eos))
    | None => (s, None)
    end
  | SDataSent =>
    match pick (sn_col s) flow_limit avail_of with
    | Some (col', st, e, fresh) => (with_col s col', Some (st, e, fresh, e =? sn_written s))
    | None =>
      if sn_finlost s then
        (mksnd (sn_state s) (sn_written s) (sn_window s) (sn_col s) (sn_shut s) false (sn_handed s),
         Some (sn_written s, sn_written s, false, true))
      else (s, None)
    end
  | SResetSent => (s, None)
  end.

(* Outgoing::may_loss_data *)
Definition snd_may_loss (s : sender) (start stop : N) (fin : bool) : sender :=
  match sn_state s with
  | SSending => with_col s (recolour (sn_col s) start stop 0 (fun c => negb (is_pending c)) Lost)
  | SDataSent =>
    mksnd (sn_state s) (sn_written s) (sn_window s)
          (recolour (sn_col s) start stop 0 (fun c => negb (is_pending c)) Lost)
          (sn_shut s) (sn_finlost s || fin) (sn_handed s)
  | _ => s
  end.

(* Outgoing::be_stopped: final size of the RESET_STREAM answer *)
Definition snd_be_stopped (s : sender) : sender * option N :=
  match sn_state s with
  | SReady | SSending => (with_state s SResetSent, Some (col_sent (sn_col s)))
  | SDataSent => (with_state s SResetSent, Some (sn_written s))
  | SResetSent => (s, None)
  end.

(* ---------------------------------------------------------------- STREAM frame sizing *)
Definition vsz (v : N) : N :=
  if v <? 64 then 1 else if v <? 16384 then 2 else if v <? 1073741824 then 4 else 8.
Definition frame_least (sid off : N) : N := 1 + vsz sid + (if off =? 0 then 0 else vsz off).
(* StreamFrame::estimate_max_capacity *)
Definition est_cap (cap sid off : N) : option N :=
  if cap <=? frame_least sid off then None else Some (cap - frame_least sid off).
(* bytes left in the packet after encoding_strategy + pre-padding + the frame *)
Definition after_write (cap sid off len : N) : N :=
  let rem := cap - (frame_least sid off + len) in
  if vsz len <=? rem then (if rem - vsz len <? 25 then 0 else rem - vsz len) else 0.

Definition DEFAULT_TOKENS : N := 4096.
Definition STREAM_FRAME_MAX : N := 25.

(* ---------------------------------------------------------------- receive side of one stream *)
Inductive rphase := PRecv | PSizeKnown (final : N) | PDataRcvd | PResetRcvd | PDataRead | PResetRead.

Record recver := mkrc {
  rc_phase : rphase; rc_buf : rcvbuf; rc_largest : N; rc_maxsd : N;
  rc_inset : bool;        (* still in DataStreams.input *)
  rc_handed : bool }.     (* the application holds the Reader *)

Definition new_recver (window : N) (handed : bool) : recver :=
  mkrc PRecv empty_buf 0 window true handed.

Inductive rerr := EFlowControl | EStreamLimit | EStreamState | EFinalSize.
Definition rerr_code (e : rerr) : Z :=
  match e with EFlowControl => 3 | EStreamLimit => 4 | EStreamState => 5 | EFinalSize => 6 end%Z.

Definition all_rcvd (b : rcvbuf) (final : N) : bool := nread b + available b =? final.

(* Incoming::recv_data: Ok (new state, fresh bytes, is_into_rcvd) *)
Definition rc_recv_data (v : variant) (r : recver) (off len : N) (fin : bool)
  : recver + rerr :=
  let data_end := off + len in
  match rc_phase r with
  | PRecv =>
    if fin then
      (* Recv::determin_size then SizeKnown::recv *)
      if fix13 v && (rc_maxsd r <? data_end) then inr EFlowControl      (* F13 repaired *)
      else if data_end <? largest (rc_buf r) then inr EFinalSize
      else
        let '(b', fresh) := recv (rc_buf r) off (slice content off len) in
        if all_rcvd b' data_end
        then inl (mkrc PDataRcvd b' (rc_largest r) (rc_maxsd r) false (rc_handed r))
        else inl (mkrc (PSizeKnown data_end) b' (rc_largest r) (rc_maxsd r) true (rc_handed r))
    else
      (* Recv::recv *)
      if rc_maxsd r <? data_end then inr EFlowControl
      else
        let '(b', fresh) := recv (rc_buf r) off (slice content off len) in
        inl (mkrc PRecv b' (N.max (rc_largest r) data_end) (rc_maxsd r) true (rc_handed r))
  | PSizeKnown final =>
    if final <? data_end then inr EFinalSize
    else if fin && negb (data_end =? final) then inr EFinalSize
    else
      let '(b', fresh) := recv (rc_buf r) off (slice content off len) in
      if all_rcvd b' final
      then inl (mkrc PDataRcvd b' (rc_largest r) (rc_maxsd r) false (rc_handed r))
      else inl (mkrc (PSizeKnown final) b' (rc_largest r) (rc_maxsd r) true (rc_handed r))
  | _ => inl r
  end.

(* fresh bytes of that same call (RecvBuf::recv's return value) *)
Definition rc_fresh (r : recver) (off len : N) : N :=
  snd (recv (rc_buf r) off (slice content off len)).

(* Incoming::recv_reset (the stream was just removed from the input set) *)
Definition rc_recv_reset (v : variant) (r : recver) (final : N) : (recver * N) + rerr :=
  match rc_phase r with
  | PRecv =>
    if fix13 v && (rc_maxsd r <? final) then inr EFlowControl           (* F13 repaired *)
    else if final <? rc_largest r then inr EFinalSize
    else inl (mkrc PResetRcvd (rc_buf r) (rc_largest r) (rc_maxsd r) false (rc_handed r),
              final - rc_largest r)
  | PSizeKnown f =>
    if negb (final =? f) then inr EFinalSize
    else inl (mkrc PResetRcvd (rc_buf r) (rc_largest r) (rc_maxsd r) false (rc_handed r), 0)
  | _ => inl (r, 0)      (* unreachable!() in the Rust: only Recv / SizeKnown stay in the set *)
  end.

(* Reader::poll_read once into [room] bytes: (state, code, bytes read, MAX_STREAM_DATA?) *)
Definition rc_read (r : recver) (room : N) : recver * Z * N * option N :=
  match rc_phase r with
  | PRecv =>
    if is_readable (rc_buf r) then
      let '(b', out) := try_read (rc_buf r) room in
      let m := N.min (nread b' + 2000000) VARINT_MAX in
      if (rc_maxsd r <? nread b' + 1000000) && (rc_maxsd r <? m)
      then (mkrc PRecv b' (rc_largest r) m (rc_inset r) (rc_handed r), 1%Z, lenN out, Some m)
      else (mkrc PRecv b' (rc_largest r) (rc_maxsd r) (rc_inset r) (rc_handed r), 1%Z, lenN out, None)
    else (r, 0%Z, 0, None)
  | PSizeKnown f =>
    if is_readable (rc_buf r) then
      let '(b', out) := try_read (rc_buf r) room in
      (mkrc (PSizeKnown f) b' (rc_largest r) (rc_maxsd r) (rc_inset r) (rc_handed r), 1%Z, lenN out, None)
    else (r, 0%Z, 0, None)
  | PDataRcvd =>
    let '(b', out) := try_read (rc_buf r) room in
    let ph := match segs b' with [] => PDataRead | _ => PDataRcvd end in
    (mkrc ph b' (rc_largest r) (rc_maxsd r) (rc_inset r) (rc_handed r), 1%Z, lenN out, None)
  | PDataRead => (r, 1%Z, 0, None)
  | PResetRcvd =>
    (mkrc PResetRead (rc_buf r) (rc_largest r) (rc_maxsd r) (rc_inset r) (rc_handed r), 2%Z, 0, None)
  | PResetRead => (r, 2%Z, 0, None)
  end.

(* ---------------------------------------------------------------- association lists by sid *)
Fixpoint alookup {A} (l : list (N * A)) (k : N) : option A :=
  match l with
  | [] => None
  | (k', v) :: t => if k' =? k then Some v else alookup t k
  end.
(* insert keeping ascending key order (BTreeMap iteration order); replaces an equal key *)
Fixpoint ainsert {A} (l : list (N * A)) (k : N) (v : A) : list (N * A) :=
  match l with
  | [] => [(k, v)]
  | (k', v') :: t =>
    if k <? k' then (k, v) :: l
    else if k' =? k then (k, v) :: t
    else (k', v') :: ainsert t k v
  end.
Fixpoint aupdate {A} (l : list (N * A)) (k : N) (v : A) : list (N * A) :=
  match l with
  | [] => []
  | (k', v') :: t => if k' =? k then (k, v) :: t else (k', v') :: aupdate t k v
  end.

(* ---------------------------------------------------------------- emitted frames *)
Inductive frame :=
| FStream (sid off len : N) (fin : bool)
| FReset (sid err final : N)
| FStop (sid err : N)
| FMaxSD (sid v : N)
| FMaxStreams (d : dir) (v : N)
| FSBlocked (d : dir) (v : N)
| FMaxData (v : N)
| FDataBlocked (v : N).

Definition zb (b : bool) : Z := if b then 1%Z else 0%Z.
Definition frame_words (f : frame) : list Z :=
  match f with
  | FStream s o l fin => [1; Z.of_N s; Z.of_N o; Z.of_N l; zb fin]
  | FReset s e fs => [2; Z.of_N s; Z.of_N e; Z.of_N fs; 0]
  | FStop s e => [3; Z.of_N s; Z.of_N e; 0; 0]
  | FMaxSD s v => [4; Z.of_N s; Z.of_N v; 0; 0]
  | FMaxStreams d v => [5; Z.of_N (dir_bit d); Z.of_N v; 0; 0]
  | FSBlocked d v => [6; Z.of_N (dir_bit d); Z.of_N v; 0; 0]
  | FMaxData v => [7; Z.of_N v; 0; 0; 0]
  | FDataBlocked v => [8; Z.of_N v; 0; 0; 0]
  end%Z.
Definition frames_words (fs : list frame) : list Z :=
  Z.of_N (lenN fs) :: flat_map frame_words fs.

(* ---------------------------------------------------------------- the connection's streams *)
Record ds := mkds {
  d_role : role; d_loc : params; d_rem : params; d_mem : option params;
  d_hs : bool; d_closed : bool;
  d_l : lsid; d_r : rsid;
  d_outs : list (N * sender);      (* DataStreams.output, ascending sid *)
  d_rcv : list (N * recver);       (* every ArcRecver created; rc_inset = member of DataStreams.input *)
  d_lq : list N * list N;          (* Listener.bi_streams / uni_streams *)
  d_cursor : option (N * N);
  d_fs : sctl; d_fr : rctl;
  d_emitted : list (N * N * N * bool) }.

Definition set_closed (s : ds) : ds :=
  mkds (d_role s) (d_loc s) (d_rem s) (d_mem s) (d_hs s) true (d_l s) (d_r s) (d_outs s) (d_rcv s)
       (d_lq s) (d_cursor s) (d_fs s) (d_fr s) (d_emitted s).
Definition with_l (s : ds) (l : lsid) : ds :=
  mkds (d_role s) (d_loc s) (d_rem s) (d_mem s) (d_hs s) (d_closed s) l (d_r s) (d_outs s) (d_rcv s)
       (d_lq s) (d_cursor s) (d_fs s) (d_fr s) (d_emitted s).
Definition with_r (s : ds) (r : rsid) : ds :=
  mkds (d_role s) (d_loc s) (d_rem s) (d_mem s) (d_hs s) (d_closed s) (d_l s) r (d_outs s) (d_rcv s)
       (d_lq s) (d_cursor s) (d_fs s) (d_fr s) (d_emitted s).
Definition with_outs (s : ds) (o : list (N * sender)) : ds :=
  mkds (d_role s) (d_loc s) (d_rem s) (d_mem s) (d_hs s) (d_closed s) (d_l s) (d_r s) o (d_rcv s)
       (d_lq s) (d_cursor s) (d_fs s) (d_fr s) (d_emitted s).
Definition with_rcv (s : ds) (i : list (N * recver)) : ds :=
  mkds (d_role s) (d_loc s) (d_rem s) (d_mem s) (d_hs s) (d_closed s) (d_l s) (d_r s) (d_outs s) i
       (d_lq s) (d_cursor s) (d_fs s) (d_fr s) (d_emitted s).
Definition with_lq (s : ds) (q : list N * list N) : ds :=
  mkds (d_role s) (d_loc s) (d_rem s) (d_mem s) (d_hs s) (d_closed s) (d_l s) (d_r s) (d_outs s) (d_rcv s)
       q (d_cursor s) (d_fs s) (d_fr s) (d_emitted s).
Definition with_fs (s : ds) (f : sctl) : ds :=
  mkds (d_role s) (d_loc s) (d_rem s) (d_mem s) (d_hs s) (d_closed s) (d_l s) (d_r s) (d_outs s) (d_rcv s)
       (d_lq s) (d_cursor s) f (d_fr s) (d_emitted s).
Definition with_fr (s : ds) (f : rctl) : ds :=
  mkds (d_role s) (d_loc s) (d_rem s) (d_mem s) (d_hs s) (d_closed s) (d_l s) (d_r s) (d_outs s) (d_rcv s)
       (d_lq s) (d_cursor s) (d_fs s) f (d_emitted s).
Definition with_cursor (s : ds) (c : option (N * N)) : ds :=
  mkds (d_role s) (d_loc s) (d_rem s) (d_mem s) (d_hs s) (d_closed s) (d_l s) (d_r s) (d_outs s) (d_rcv s)
       (d_lq s) c (d_fs s) (d_fr s) (d_emitted s).
Definition with_emitted (s : ds) (e : list (N * N * N * bool)) : ds :=
  mkds (d_role s) (d_loc s) (d_rem s) (d_mem s) (d_hs s) (d_closed s) (d_l s) (d_r s) (d_outs s) (d_rcv s)
       (d_lq s) (d_cursor s) (d_fs s) (d_fr s) e.

Definition remote_params (s : ds) : option params := if d_hs s then Some (d_rem s) else None.

Definition ds_init (r : role) (c : ctrl) (loc remote : params) (mem : option params) : ds :=
  let m0 := match mem with Some m => m | None => mkp 0 0 0 0 0 0 end in
  mkds r loc remote mem false false
       (mklsid (p_msb m0, p_msu m0) (0, 0))
       (mkrsid (p_msb loc, p_msu loc) (0, 0) c)
       [] [] ([], []) None
       (sctl_new (p_md m0)) (rctl_new (p_md loc)) [].

(* ---- DataStreams::try_accept_sid for a stream id of the peer's role *)
Fixpoint create_remote (s : ds) (d : dir) (idxs : list N) : ds :=
  match idxs with
  | [] => s
  | i :: t =>
    let sid := sid_of (peer_of (d_role s)) d i in
    let s1 := with_rcv s (ainsert (d_rcv s) sid (new_recver (accept_recv_window (d_loc s) d) false)) in
    let s2 := match d with
              | Bi => with_lq (with_outs s1 (ainsert (d_outs s1) sid (new_sender 0 false)))
                              (fst (d_lq s1) ++ [sid], snd (d_lq s1))
              | Uni => with_lq s1 (fst (d_lq s1), snd (d_lq s1) ++ [sid])
              end in
    create_remote s2 d t
  end.

Definition ds_try_accept (v : variant) (s : ds) (sid : N) : (ds * list frame) + rerr :=
  let d := sid_dir sid in
  let '(r', res, up) := try_accept_sid false (fix27 v) (d_r s) d (sid_idx sid) in
  match res with
  | AccExceed _ => inr EStreamLimit
  | AccOld => inl (s, [])
  | AccNew first last =>
    inl (create_remote (with_r s r') d (need_create first last),
         match up with Some m => [FMaxStreams d m] | None => [] end)
  end.

(* the stream ended in both directions it had: remote.on_end_of_stream *)
Definition ds_end_of_stream (v : variant) (s : ds) (sid : N) : ds * list frame :=
  if role_eqb (sid_role sid) (d_role s) then (s, [])
  else
    let '(r', up) := on_end_of_stream (fix27 v) (d_r s) (sid_dir sid) (sid_idx sid) in
    (with_r s r', match up with Some m => [FMaxStreams (sid_dir sid) m] | None => [] end).

(* shutdown_receive; is_terminated holds at once only for a receive-only stream because this
   stream never delivers acknowledgements (the send half of a bidirectional stream stays open) *)
Definition ds_shutdown_receive (v : variant) (s : ds) (sid : N) : ds * list frame :=
  match sid_dir sid with
  | Uni => ds_end_of_stream v s sid
  | Bi => (s, [])
  end.

(* who may send what: the role / direction checks at the head of recv_data / recv_stream_control.
   [sender_side] = the frame is one only the SENDING half of a stream emits (STREAM, RESET_STREAM,
   STREAM_DATA_BLOCKED); otherwise one only the RECEIVING half emits (STOP_SENDING, MAX_STREAM_DATA) *)
Definition ds_check_sid (v : variant) (s : ds) (sid : N) (sender_side : bool) : (ds * list frame) + rerr :=
  if negb (role_eqb (sid_role sid) (d_role s)) then
    if sender_side then ds_try_accept v s sid
    else match sid_dir sid with
         | Uni => inr EStreamState
         | Bi => ds_try_accept v s sid
         end
  else
    if sender_side then
      match sid_dir sid with
      | Uni => inr EStreamState
      | Bi => inl (s, [])
      end
    else inl (s, []).

(* ---- packet loading *)
(* LocalStreamIds::opened_streams: the allocation count; after the F33 repair never more than
   the peer's limit *)
Definition opened_streams (v : variant) (l : lsid) (d : dir) : N :=
  if fix33 v then N.min (pget (l_next l) d) (pget (l_max l) d) else pget (l_next l) d.

Definition stream_allowed (v : variant) (s : ds) (sid : N) : bool :=
  role_eqb (sid_role sid) (peer_of (d_role s))
  || (dir_eqb (sid_dir sid) Bi && (sid_idx sid <? opened_streams v (d_l s) Bi))
  || (dir_eqb (sid_dir sid) Uni && (sid_idx sid <? opened_streams v (d_l s) Uni)).

(* visiting order of try_load_data_into_once: (sid, tokens) *)
Definition load_order (v : variant) (s : ds) : list (N * N) :=
  let keys := map fst (d_outs s) in
  let all t := map (fun k => (k, t)) in
  let l :=
    match d_cursor s with
    | None => all DEFAULT_TOKENS (rev keys)
    | Some (c, tok) =>
      if tok =? 0 then
        all DEFAULT_TOKENS (rev (filter (fun k => k <=? c) keys) ++ rev (filter (fun k => c <? k) keys))
      else
        (match alookup (d_outs s) c with Some _ => [(c, tok)] | None => [] end)
        ++ all DEFAULT_TOKENS (rev (filter (fun k => k <? c) keys) ++ rev (filter (fun k => c <? k) keys))
    end in
  filter (fun kt => stream_allowed v s (fst kt)) l.

(* tries the streams in order; a failed attempt may still move a Ready sender to Sending *)
Fixpoint try_streams (outs : list (N * sender)) (order : list (N * N)) (cap flow_limit : N)
  : list (N * sender) * option (N * N * frame_pick) :=
  match order with
  | [] => (outs, None)
  | (sid, tok) :: rest =>
    match alookup outs sid with
    | None => try_streams outs rest cap flow_limit
    | Some sn =>
      let avail_of := fun off => match est_cap cap sid off with
                                 | Some c => Some (N.min tok c) | None => None end in
      let '(sn', r) := snd_try_load sn flow_limit avail_of in
      let outs' := aupdate outs sid sn' in
      match r with
      | Some fp => (outs', Some (sid, tok, fp))
      | None => try_streams outs' rest cap flow_limit
      end
    end
  end.

(* try_load_data_into_once: Some = a frame went out.  Returns state, remaining room, frames *)
Definition load_once (v : variant) (s : ds) (cap : N) : option (ds * N * list frame) * ds * list frame :=
  if cap <? STREAM_FRAME_MAX then (None, s, [])
  else
    match sc_credit (d_fs s) cap with
    | None => (None, s, [])       (* u64 underflow in avaliable(): panic, see c11_conn_limit *)
    | Some (fs1, credit, blk) =>
      let blkf := match blk with Some v => [FDataBlocked v] | None => [] end in
      let '(outs', r) := try_streams (d_outs s) (load_order v s) cap credit in
      match r with
      | None =>
        let fs2 := match sc_return_back fs1 credit with Some x => x | None => fs1 end in
        (None, with_fs (with_outs s outs') fs2, blkf)
      | Some (sid, tok, (st, e, fresh, eos)) =>
        let len := e - st in
        let fresh_bytes := if fresh then len else 0 in
        let unused := match credit_post credit fresh_bytes with Some x => x | None => 0 end in
        let fs2 := match sc_return_back fs1 unused with Some x => x | None => fs1 end in
        let s' := with_emitted (with_cursor (with_fs (with_outs s outs') fs2) (Some (sid, tok - len)))
                               (d_emitted s ++ [(sid, st, len, eos)]) in
        (Some (s', after_write cap sid st len, [FStream sid st len eos]), s', blkf)
      end
    end.

(* try_load_data_into: repeat until nothing more goes out; result = at least one frame went out.
   Stream frames are reported first, then the control frames (DATA_BLOCKED) in emission order *)
Fixpoint load_loop (v : variant) (fuel : nat) (s : ds) (cap : N) (sf cf : list frame) (any : bool)
  : ds * N * list frame * list frame * bool :=
  match fuel with
  | O => (s, cap, sf, cf, any)
  | S k =>
    match load_once v s cap with
    | (Some (s', cap', f), _, c) => load_loop v k s' cap' (sf ++ f) (cf ++ c) true
    | (None, s', c) => (s', cap, sf, cf ++ c, any)
    end
  end.

Definition ds_load (v : variant) (s : ds) (cap : N) : ds * list Z :=
  let '(s', room, sf, cf, any) := load_loop v (N.to_nat (N.min cap 65536 / 2 + 2)) s cap [] [] false in
  (s', [zb any; 0%Z; Z.of_N room] ++ frames_words (sf ++ cf)).

(* ---- peer frames.  result words: code fresh, then frames *)
Definition inject_finish (s : ds) (fresh : N) (fs : list frame) : ds * list Z :=
  let '(fr', res) := on_new_rcvd (d_fr s) fresh in
  let s1 := with_fr s fr' in
  match res with
  | RcvOk m => (s1, [0%Z; Z.of_N fresh] ++ frames_words (fs ++ match m with Some v => [FMaxData v] | None => [] end))
  | RcvFlowControl => (set_closed s1, [3%Z; Z.of_N fresh] ++ frames_words fs)
  | RcvPanic => (set_closed s1, [(-3)%Z; Z.of_N fresh] ++ frames_words fs)
  end.
Definition inject_fail (s : ds) (e : rerr) (fs : list frame) : ds * list Z :=
  (set_closed s, [rerr_code e; 0%Z] ++ frames_words fs).

Definition in_set (s : ds) (sid : N) : option recver :=
  match alookup (d_rcv s) sid with
  | Some r => if rc_inset r then Some r else None
  | None => None
  end.

Definition ds_recv_stream (v : variant) (s : ds) (sid off len : N) (fin : bool) : ds * list Z :=
  match ds_check_sid v s sid true with
  | inr e => inject_fail s e []
  | inl (s1, f1) =>
    match in_set s1 sid with
    | None => inject_finish s1 0 f1
    | Some r =>
      match rc_recv_data v r off len fin with
      | inr e => inject_fail s1 e f1
      | inl r' =>
        let fresh := match rc_phase r with PRecv | PSizeKnown _ => rc_fresh r off len | _ => 0 end in
        let s2 := with_rcv s1 (aupdate (d_rcv s1) sid r') in
        let '(s3, f3) := if rc_inset r' then (s2, []) else ds_shutdown_receive v s2 sid in
        inject_finish s3 fresh (f1 ++ f3)
      end
    end
  end.

Definition ds_recv_reset (v : variant) (s : ds) (sid final : N) : ds * list Z :=
  match ds_check_sid v s sid true with
  | inr e => inject_fail s e []
  | inl (s1, f1) =>
    match in_set s1 sid with
    | None => inject_finish s1 0 f1
    | Some r =>
      match rc_recv_reset v r final with
      | inr e => inject_fail s1 e f1
      | inl (r', fresh) =>
        let s2 := with_rcv s1 (aupdate (d_rcv s1) sid r') in
        let '(s3, f3) := ds_shutdown_receive v s2 sid in
        inject_finish s3 fresh (f1 ++ f3)
      end
    end
  end.

Definition ds_recv_stop (v : variant) (s : ds) (sid err : N) : ds * list Z :=
  match ds_check_sid v s sid false with
  | inr e => inject_fail s e []
  | inl (s1, f1) =>
    match alookup (d_outs s1) sid with
    | None => inject_finish s1 0 f1
    | Some sn =>
      let '(sn', fin) := snd_be_stopped sn in
      let s2 := with_outs s1 (aupdate (d_outs s1) sid sn') in
      inject_finish s2 0 (f1 ++ match fin with Some fs => [FReset sid err fs] | None => [] end)
    end
  end.

Definition ds_recv_maxsd (vr : variant) (s : ds) (sid v : N) : ds * list Z :=
  match ds_check_sid vr s sid false with
  | inr e => inject_fail s e []
  | inl (s1, f1) =>
    match alookup (d_outs s1) sid with
    | None => inject_finish s1 0 f1
    | Some sn => inject_finish (with_outs s1 (aupdate (d_outs s1) sid (arc_update_window sn v))) 0 f1
    end
  end.

Definition ds_recv_sdblocked (v : variant) (s : ds) (sid : N) : ds * list Z :=
  match ds_check_sid v s sid true with
  | inr e => inject_fail s e []
  | inl (s1, f1) => inject_finish s1 0 f1
  end.

Definition ds_recv_maxstreams (s : ds) (d : dir) (v : N) : ds * list Z :=
  match increase_limit (d_l s) d v with
  | Some l' => inject_finish (with_l s l') 0 []
  | None => inject_finish s 0 []     (* assert!(val <= MAX_STREAMS_LIMIT): outside the decoder's range *)
  end.

Definition ds_recv_sblocked (vr : variant) (s : ds) (d : dir) (v : N) : ds * list Z :=
  let '(r', up) := recv_streams_blocked (fix27 vr) (d_r s) d v in
  inject_finish (with_r s r') 0 (match up with Some m => [FMaxStreams d m] | None => [] end).

(* ---- application calls *)
Definition ds_open (v : variant) (s : ds) (d : dir) : ds * list Z :=
  match open_send_window v d (d_mem s) (remote_params s) with
  | None => (s, [0; 0; 0]%Z)
  | Some w =>
    let '(l', res) := poll_alloc_sid (d_role s) (d_l s) d in
    match res with
    | AllocNone => (s, [2; 0; 0]%Z)
    | AllocPending m => (s, [0; 0]%Z ++ frames_words [FSBlocked d m])
    | AllocSid sid =>
      let s1 := with_outs (with_l s l') (ainsert (d_outs s) sid (new_sender w true)) in
      let s2 := match d with
                | Bi => with_rcv s1 (ainsert (d_rcv s1) sid (new_recver (open_recv_window (d_loc s)) true))
                | Uni => s1
                end in
      (s2, [1%Z; Z.of_N sid; 0%Z])
    end
  end.

Definition hand_sender (s : ds) (sid : N) (w : option N) : ds :=
  match alookup (d_outs s) sid with
  | Some sn =>
    let sn1 := match w with Some v => arc_update_window sn v | None => sn end in
    with_outs s (aupdate (d_outs s) sid
      (mksnd (sn_state sn1) (sn_written sn1) (sn_window sn1) (sn_col sn1) (sn_shut sn1) (sn_finlost sn1) true))
  | None => s
  end.
Definition hand_recver (s : ds) (sid : N) : ds :=
  match alookup (d_rcv s) sid with
  | Some r => with_rcv s (aupdate (d_rcv s) sid
      (mkrc (rc_phase r) (rc_buf r) (rc_largest r) (rc_maxsd r) (rc_inset r) true))
  | None => s
  end.

Definition ds_accept (s : ds) (d : dir) : ds * list Z :=
  match d with
  | Bi =>
    if d_hs s then
      match fst (d_lq s) with
      | [] => (s, [0; 0; 0]%Z)
      | sid :: q =>
        let s1 := with_lq s (q, snd (d_lq s)) in
        (hand_recver (hand_sender s1 sid (Some (accept_send_window (d_rem s)))) sid, [1%Z; Z.of_N sid; 0%Z])
      end
    else (s, [0; 0; 0]%Z)
  | Uni =>
    match snd (d_lq s) with
    | [] => (s, [0; 0; 0]%Z)
    | sid :: q => (hand_recver (with_lq s (fst (d_lq s), q)) sid, [1%Z; Z.of_N sid; 0%Z])
    end
  end.

Definition handed_sender (s : ds) (sid : N) : option sender :=
  match alookup (d_outs s) sid with
  | Some sn => if sn_handed sn then Some sn else None
  | None => None
  end.

Definition ds_write (s : ds) (sid len : N) : ds * list Z :=
  match handed_sender s sid with
  | None => (s, [9; 0]%Z)
  | Some sn =>
    match sn_state sn with
    | SReady | SSending =>
      if sn_shut sn then (s, [2; 0]%Z)
      else if sn_window sn <=? sn_written sn then (s, [0; 0]%Z)
      else (with_outs s (aupdate (d_outs s) sid (snd_write sn len)), [1; 0]%Z)
    | _ => (s, [2; 0]%Z)
    end
  end.

Definition ds_shutdown (s : ds) (sid : N) : ds * list Z :=
  match handed_sender s sid with
  | None => (s, [9; 0]%Z)
  | Some sn =>
    match sn_state sn with
    | SResetSent => (s, [2; 0]%Z)
    | _ => (with_outs s (aupdate (d_outs s) sid
              (mksnd (sn_state sn) (sn_written sn) (sn_window sn) (sn_col sn) true (sn_finlost sn) (sn_handed sn))),
            [0; 0]%Z)
    end
  end.

Definition ds_read (s : ds) (sid room : N) : ds * list Z :=
  match alookup (d_rcv s) sid with
  | Some r =>
    if rc_handed r then
      let '(r', code, n, m) := rc_read r room in
      (with_rcv s (aupdate (d_rcv s) sid r'),
       [code; Z.of_N n] ++ frames_words (match m with Some v => [FMaxSD sid v] | None => [] end))
    else (s, [9; 0; 0]%Z)
  | None => (s, [9; 0; 0]%Z)
  end.

(* the peer's transport parameters arrive: Parameters::recv_remote_params, revise_params,
   flow_ctrl.sender.revise_max_data *)
Definition revise_outs (v : variant) (s : ds) (rejected : bool) : list (N * sender) :=
  map (fun ks =>
         let sid := fst ks in
         let d := sid_dir sid in
         if (sid_idx sid <? opened_streams v (d_l s) d)
            && (negb (fix26 v) || role_eqb (sid_role sid) (d_role s))      (* F26 *)
         then (sid, snd_revise (snd ks) rejected (revise_send_window (d_rem s) d))
         else ks) (d_outs s).

Definition ds_handshake (v : variant) (s : ds) (rejected : bool) : ds * list Z :=
  if d_hs s then (s, [(-2)%Z; 0%Z]) else
  let outs' := revise_outs v s rejected in
  let l' := match revise_max_streams (d_l s) rejected (p_msb (d_rem s)) (p_msu (d_rem s)) with
            | Some l' => l' | None => d_l s end in
  let fs' := sc_revise_with (fix34 v) (d_fs s) rejected (p_md (d_rem s)) in      (* F34 *)
  (mkds (d_role s) (d_loc s) (d_rem s) None true (d_closed s) l' (d_r s) outs' (d_rcv s)
        (d_lq s) (d_cursor s) fs' (d_fr s) (d_emitted s), [1; 0]%Z).

Definition ds_lose (s : ds) (k : N) : ds * list Z :=
  match nth_error (d_emitted s) (N.to_nat k) with
  | None => (s, [0; 0]%Z)
  | Some (sid, st, len, fin) =>
    match alookup (d_outs s) sid with
    | Some sn => (with_outs s (aupdate (d_outs s) sid (snd_may_loss sn st (st + len) fin)), [1; 0]%Z)
    | None => (s, [1; 0]%Z)
    end
  end.

(* ---------------------------------------------------------------- operations *)
Inductive op :=
| OHandshake (rejected : bool)
| OOpen (d : dir) | OWrite (sid len : N) | OShutdown (sid : N) | ORead (sid room : N) | OAccept (d : dir)
| OLoad (cap : N)
| OStream (sid off len : N) (fin : bool) | OReset (sid err final : N) | OStop (sid err : N)
| OMaxSD (sid v : N) | OMaxStreams (d : dir) (v : N) | OSBlocked (d : dir) (v : N)
| OMaxData (v : N) | OSDBlocked (sid v : N)
| OLose (k : N).

Definition ds_step (v : variant) (s : ds) (o : op) : ds * list Z :=
  if d_closed s then (s, [(-1)%Z]) else
  match o with
  | OHandshake rej => ds_handshake v s rej
  | OOpen d => ds_open v s d
  | OWrite sid len => ds_write s sid len
  | OShutdown sid => ds_shutdown s sid
  | ORead sid room => ds_read s sid room
  | OAccept d => ds_accept s d
  | OLoad cap => ds_load v s cap
  | OStream sid off len fin => ds_recv_stream v s sid off len fin
  | OReset sid err final => ds_recv_reset v s sid final
  | OStop sid err => ds_recv_stop v s sid err
  | OMaxSD sid w => ds_recv_maxsd v s sid w
  | OMaxStreams d w => ds_recv_maxstreams s d w
  | OSBlocked d w => ds_recv_sblocked v s d w
  | OMaxData w => (with_fs s (sc_increase_limit (d_fs s) w), [0; 0; 0]%Z)
  | OSDBlocked sid w => ds_recv_sdblocked v s sid
  | OLose k => ds_lose s k
  end.

Fixpoint ds_run (v : variant) (s : ds) (ops : list op) : list (list Z) :=
  match ops with
  | [] => []
  | o :: rest => let '(s', obs) := ds_step v s o in obs :: ds_run v s' rest
  end.

Fixpoint ds_exec (v : variant) (s : ds) (ops : list op) : ds :=
  match ops with
  | [] => s
  | o :: rest => ds_exec v (fst (ds_step v s o)) rest
  end.

Definition zdir (z : Z) : dir := if (z =? 0)%Z then Bi else Uni.
Definition zbool (z : Z) : bool := negb (z =? 0)%Z.

Definition op_decode (t : N) (a : list Z) : option op :=
  match t, a with
  | 0, [r] => Some (OHandshake (zbool r))
  | 1, [d] => Some (OOpen (zdir d))
  | 2, [s; l] => Some (OWrite (Z.to_N s) (Z.to_N l))
  | 3, [s] => Some (OShutdown (Z.to_N s))
  | 4, [s; n] => Some (ORead (Z.to_N s) (Z.to_N n))
  | 5, [d] => Some (OAccept (zdir d))
  | 6, [c] => Some (OLoad (Z.to_N c))
  | 7, [s; o; l; f] => Some (OStream (Z.to_N s) (Z.to_N o) (Z.to_N l) (zbool f))
  | 8, [s; e; f] => Some (OReset (Z.to_N s) (Z.to_N e) (Z.to_N f))
  | 9, [s; e] => Some (OStop (Z.to_N s) (Z.to_N e))
  | 10, [s; w] => Some (OMaxSD (Z.to_N s) (Z.to_N w))
  | 11, [d; w] => Some (OMaxStreams (zdir d) (Z.to_N w))
  | 12, [d; w] => Some (OSBlocked (zdir d) (Z.to_N w))
  | 13, [w] => Some (OMaxData (Z.to_N w))
  | 14, [s; w] => Some (OSDBlocked (Z.to_N s) (Z.to_N w))
  | 15, [k] => Some (OLose (Z.to_N k))
  | _, _ => None
  end.

Fixpoint ops_decode (l : list (N * list Z)) : list op :=
  match l with
  | [] => []
  | (t, a) :: rest =>
    match op_decode t a with
    | Some o => o :: ops_decode rest
    | None => ops_decode rest
    end
  end.

Definition params_of (l : list Z) : params :=
  match l with
  | [a; b; c; d; e; f] => mkp (Z.to_N a) (Z.to_N b) (Z.to_N c) (Z.to_N d) (Z.to_N e) (Z.to_N f)
  | _ => mkp 0 0 0 0 0 0
  end.

Definition cfg_init (cfg : list Z) : option ds :=
  match cfg with
  | r :: m :: c :: rest =>
    let loc := params_of (firstn 6 rest) in
    let rem := params_of (firstn 6 (skipn 6 rest)) in
    let mem := params_of (firstn 6 (skipn 12 rest)) in
    let role := if (r =? 0)%Z then Client else Server in
    let ctl := if (c =? 0)%Z then Consistent (p_msb loc, p_msu loc) else Demand in
    let memo := match role with
                | Client => if (m =? 1)%Z then Some mem else None
                | Server => None
                end in
    Some (ds_init role ctl loc rem memo)
  | _ => None
  end.

Definition run_streams_with (v : variant) (cfg : list Z) (l : list (N * list Z)) : list (list Z) :=
  match cfg_init cfg with
  | Some s => ds_run v s (ops_decode l)
  | None => []
  end.

Definition run_streams : list Z -> list (N * list Z) -> list (list Z) := run_streams_with as_is.
Definition run_streams_fixed : list Z -> list (N * list Z) -> list (list Z) := run_streams_with fixed.
