(* Generic small-step systems, reachability, the invariant rule, and a reusable formulation of
   the waiter / notifier discipline ("check; register; sleep" against "set; notify" / "close").

   Granularity: one label = one lock-protected call (or one atomic operation for the
   AtomicUsize-based protocols).  `reach` quantifies over every finite sequence of labels, i.e.
   over every interleaving of any number of waiter / notifier steps.

   Two layers:
   * `sys`, `reach`, `invariant_rule`                 -- any protocol, bespoke invariants;
   * `proto`, `lift`, `discipline`, `no_lost_wakeup`  -- protocols whose every method is ONE
     lock-protected call on ONE object: the object model returns the list of waiter ids whose
     `Waker` it invoked; `lift` adds the ghost task table (sleeping / wake pending / cumulative
     wake count / what the task waits for) and the theorem reduces "no lost wake-up" to three
     local, one-step obligations on the object model. *)
From Coq Require Import List NArith ZArith Bool Arith Lia.
Import ListNotations.


(* ------------------------------------------------------------------------------------ *)
(* 1. systems                                                                            *)

Record sys := { St : Type; Lbl : Type; init : St; step : St -> Lbl -> option St }.

Inductive reach (S : sys) : St S -> Prop :=
| r0 : reach S (init S)
| rS s l s' : reach S s -> step S s l = Some s' -> reach S s'.

Theorem invariant_rule (S : sys) (P : St S -> Prop) :
  P (init S) ->
  (forall s l s', reach S s -> P s -> step S s l = Some s' -> P s') ->
  forall s, reach S s -> P s.
Proof.
  intros H0 HS s Hr. induction Hr; [exact H0|]. eapply HS; eauto.
Qed.

(* executable trace semantics: a label that is not enabled stops the run *)
Fixpoint run (S : sys) (s : St S) (tr : list (Lbl S)) : option (St S) :=
  match tr with
  | [] => Some s
  | l :: rest => match step S s l with Some s' => run S s' rest | None => None end
  end.

Lemma run_reach (S : sys) tr : forall s s', reach S s -> run S s tr = Some s' -> reach S s'.
Proof.
  induction tr as [|l tr IH]; intros s s' Hr H; cbn in H.
  - inversion H; subst; exact Hr.
  - destruct (step S s l) eqn:E; [|discriminate]. eapply IH; [|exact H]. eapply rS; eauto.
Qed.

Lemma run_app (S : sys) tr1 : forall s s1 tr2, run S s tr1 = Some s1 -> run S s (tr1 ++ tr2) = run S s1 tr2.
Proof.
  induction tr1 as [|l tr IH]; intros s s1 tr2 H; cbn in *.
  - inversion H; reflexivity.
  - destruct (step S s l); [|discriminate]. eapply IH; exact H.
Qed.

Lemma reach_run (S : sys) s : reach S s -> exists tr, run S (init S) tr = Some s.
Proof.
  induction 1 as [|s l s' Hr [tr IH] Hs].
  - exists []; reflexivity.
  - exists (tr ++ [l]). erewrite run_app by exact IH. cbn. rewrite Hs. reflexivity.
Qed.

Corollary run_init_reach (S : sys) tr s : run S (init S) tr = Some s -> reach S s.
Proof. apply run_reach, r0. Qed.

(* ------------------------------------------------------------------------------------ *)
(* 2. the ghost task table                                                               *)

Definition wid := nat.

(* t_sleep : the task's last poll returned Pending and it has neither been polled again nor
             dropped since (it relies on its Waker being invoked);
   t_pend  : its Waker has been invoked since that poll (the executor will poll it again);
   t_cnt   : cumulative number of invocations of its Waker (what the counting waker of the
             harness observes);
   t_arg   : what it waits for (argument of the last poll). *)
Record task (A : Type) := mkTask { t_sleep : bool; t_pend : bool; t_cnt : N; t_arg : A }.

Arguments mkTask {A}.
Arguments t_sleep {A}.
Arguments t_pend {A}.
Arguments t_cnt {A}.
Arguments t_arg {A}.

Definition tasks (A : Type) := wid -> task A.

Definition upd {A} (t : tasks A) (w : wid) (v : task A) : tasks A :=
  fun x => if Nat.eqb x w then v else t x.

Definition wake1 {A} (t : tasks A) (w : wid) : tasks A :=
  upd t w (mkTask (t_sleep (t w)) true (t_cnt (t w) + 1) (t_arg (t w))).

Definition wake_all {A} (wk : list wid) (t : tasks A) : tasks A := fold_left wake1 wk t.

Definition set_polled {A} (t : tasks A) (w : wid) (pending : bool) (a : A) : tasks A :=
  upd t w (mkTask pending false (t_cnt (t w)) a).

Definition set_dropped {A} (t : tasks A) (w : wid) : tasks A :=
  upd t w (mkTask false false (t_cnt (t w)) (t_arg (t w))).

Lemma upd_same {A} (t : tasks A) w v : upd t w v w = v.
Proof. unfold upd. rewrite Nat.eqb_refl. reflexivity. Qed.

Lemma upd_other {A} (t : tasks A) w v x : x <> w -> upd t w v x = t x.
Proof. intro H. unfold upd. destruct (Nat.eqb_spec x w); [contradiction|reflexivity]. Qed.

Lemma wake_all_sleep {A} wk : forall (t : tasks A) w, t_sleep (wake_all wk t w) = t_sleep (t w).
Proof.
  induction wk as [|x wk IH]; intros t w; cbn; [reflexivity|].
  unfold wake_all in IH. rewrite IH. unfold wake1.
  destruct (Nat.eq_dec w x) as [->|N]; [rewrite upd_same|rewrite upd_other by exact N]; reflexivity.
Qed.

Lemma wake_all_arg {A} wk : forall (t : tasks A) w, t_arg (wake_all wk t w) = t_arg (t w).
Proof.
  induction wk as [|x wk IH]; intros t w; cbn; [reflexivity|].
  unfold wake_all in IH. rewrite IH. unfold wake1.
  destruct (Nat.eq_dec w x) as [->|N]; [rewrite upd_same|rewrite upd_other by exact N]; reflexivity.
Qed.

Lemma wake_all_notin {A} wk : forall (t : tasks A) w, ~ In w wk -> wake_all wk t w = t w.
Proof.
  induction wk as [|x wk IH]; intros t w Hn; cbn; [reflexivity|].
  unfold wake_all in IH. rewrite IH by (intro; apply Hn; right; assumption).
  unfold wake1. apply upd_other. intro; apply Hn; left; congruence.
Qed.

Lemma wake_all_pend_mono {A} wk : forall (t : tasks A) w, t_pend (t w) = true -> t_pend (wake_all wk t w) = true.
Proof.
  induction wk as [|x wk IH]; intros t w H; cbn; [exact H|].
  unfold wake_all in IH. apply IH. unfold wake1.
  destruct (Nat.eq_dec w x) as [->|N]; [rewrite upd_same; reflexivity|rewrite upd_other by exact N; exact H].
Qed.

Lemma wake_all_in {A} wk : forall (t : tasks A) w, In w wk -> t_pend (wake_all wk t w) = true.
Proof.
  induction wk as [|x wk IH]; intros t w Hi; cbn; [destruct Hi|].
  destruct (Nat.eq_dec x w) as [->|N].
  - apply wake_all_pend_mono. unfold wake1. rewrite upd_same. reflexivity.
  - destruct Hi as [E|Hi]; [contradiction|]. unfold wake_all in IH. apply IH. exact Hi.
Qed.

Lemma wake_all_cnt_mono {A} wk : forall (t : tasks A) w, (t_cnt (t w) <= t_cnt (wake_all wk t w))%N.
Proof.
  induction wk as [|x wk IH]; intros t w; cbn; [lia|].
  unfold wake_all in IH. eapply N.le_trans; [|apply IH]. unfold wake1.
  destruct (Nat.eq_dec w x) as [->|N]; [rewrite upd_same; cbn; lia|rewrite upd_other by exact N; lia].
Qed.

Lemma wake_all_cnt_in {A} wk : forall (t : tasks A) w, In w wk -> (t_cnt (t w) < t_cnt (wake_all wk t w))%N.
Proof.
  induction wk as [|x wk IH]; intros t w Hi; cbn; [destruct Hi|].
  destruct (Nat.eq_dec x w) as [->|N].
  - eapply N.lt_le_trans; [|apply wake_all_cnt_mono]. unfold wake1. rewrite upd_same. cbn. lia.
  - destruct Hi as [E|Hi]; [contradiction|]. unfold wake_all in IH.
    eapply N.le_lt_trans; [|apply IH; exact Hi]. unfold wake1. rewrite upd_other by congruence. lia.
Qed.

(* ------------------------------------------------------------------------------------ *)
(* 3. one-object protocols: every method is one lock-protected call                      *)

Inductive pres := Pending | Ready (code : Z).

Definition is_pending (r : pres) : bool := match r with Pending => true | Ready _ => false end.
Definition pres_code (r : pres) : Z := match r with Pending => 0%Z | Ready c => c end.

(* `poll o w a`  : the waiter-side method called by task `w` with a `Context` carrying w's
                   Waker; `oper o op` : any other method (set+notify, close, ...).
   Both return the new object, the waiter ids whose Waker was invoked inside the call (in
   order, with multiplicity), and a result.  `None` = the call is outside the caller contract
   of the Rust code (it panics: `unreachable!`, `assert!`, documented single-consumer rule);
   such labels are not enabled. *)
Record proto := {
  Obj : Type; PArg : Type; Op : Type;
  obj0 : Obj; arg0 : PArg;
  poll : Obj -> wid -> PArg -> option (Obj * list wid * pres);
  oper : Obj -> Op -> option (Obj * list wid * Z)
}.

Inductive lbl (P : proto) :=
| LPoll (w : wid) (a : PArg P)     (* task w polls *)
| LOp (o : Op P)                   (* a notifier / closer calls a method *)
| LDrop (w : wid).                 (* task w drops its future (cancellation) *)
Arguments LPoll {P} w a.
Arguments LOp {P} o.
Arguments LDrop {P} w.

Definition lstate (P : proto) : Type := Obj P * tasks (PArg P).

(* one label; second component = result code printed by the correspondence stream *)
Definition lexec (P : proto) (s : lstate P) (l : lbl P) : option (lstate P * Z) :=
  let '(o, t) := s in
  match l with
  | LPoll w a =>
      match poll P o w a with
      | Some (o', wk, r) => Some ((o', wake_all wk (set_polled t w (is_pending r) a)), pres_code r)
      | None => None
      end
  | LOp op =>
      match oper P o op with
      | Some (o', wk, r) => Some ((o', wake_all wk t), r)
      | None => None
      end
  | LDrop w => Some ((o, set_dropped t w), 0%Z)
  end.

Definition lstep (P : proto) (s : lstate P) (l : lbl P) : option (lstate P) :=
  match lexec P s l with Some (s', _) => Some s' | None => None end.

Definition linit (P : proto) : lstate P := (obj0 P, fun _ => mkTask false false 0%N (arg0 P)).

Definition lift (P : proto) : sys :=
  {| St := lstate P; Lbl := lbl P; init := linit P; step := lstep P |}.

(* The property, for a chosen abstract condition `cond : object -> what-is-awaited -> Prop`
   (which includes "closed / failed"):
     in every reachable state, a sleeping task whose condition holds has a pending wake. *)
Definition NoLostWakeup (P : proto) (cond : Obj P -> PArg P -> Prop) : Prop :=
  forall s, reach (lift P) s ->
  forall w, t_sleep (snd s w) = true -> cond (fst s) (t_arg (snd s w)) -> t_pend (snd s w) = true.

(* "observes the condition on its own": a poll while the condition holds does not park *)
Definition Observes (P : proto) (cond : Obj P -> PArg P -> Prop) : Prop :=
  forall s, reach (lift P) s -> forall w a o' wk r,
  cond (fst s) a -> poll P (fst s) w a = Some (o', wk, r) -> r <> Pending.

(* The discipline: the three local obligations.  `registered o w a` = the object holds w's
   Waker in the place that the notifiers of `a` look at. *)
Record discipline (P : proto) (cond : Obj P -> PArg P -> Prop) := {
  Inv : Obj P -> Prop;
  registered : Obj P -> wid -> PArg P -> Prop;
  inv0 : Inv (obj0 P);
  inv_poll : forall o w a o' wk r, Inv o -> poll P o w a = Some (o', wk, r) -> Inv o';
  inv_oper : forall o op o' wk r, Inv o -> oper P o op = Some (o', wk, r) -> Inv o';
  (* check and register are atomic: a poll that parks leaves the task registered with its
     condition false (or has invoked its Waker itself) *)
  d_park : forall o w a o' wk, Inv o -> poll P o w a = Some (o', wk, Pending) ->
           ~ In w wk -> registered o' w a /\ ~ cond o' a;
  (* nobody else's poll removes the registration or makes the condition true silently *)
  d_other : forall o w' a' o' wk r w a, Inv o -> poll P o w' a' = Some (o', wk, r) -> w <> w' ->
           registered o w a -> ~ cond o a -> ~ In w wk -> registered o' w a /\ ~ cond o' a;
  (* set-and-notify are atomic: a method that does not invoke w's Waker neither drops the
     registration nor makes w's condition true *)
  d_oper : forall o op o' wk r w a, Inv o -> oper P o op = Some (o', wk, r) ->
           registered o w a -> ~ cond o a -> ~ In w wk -> registered o' w a /\ ~ cond o' a
}.

Arguments Inv {P cond}.
Arguments registered {P cond}.
Arguments inv0 {P cond}.
Arguments inv_poll {P cond}.
Arguments inv_oper {P cond}.
Arguments d_park {P cond}.
Arguments d_other {P cond}.
Arguments d_oper {P cond}.

Section Discipline.
  Variable P : proto.
  Variable cond : Obj P -> PArg P -> Prop.
  Variable D : discipline P cond.

  Definition LInv (s : lstate P) : Prop :=
    Inv D (fst s) /\
    forall w, t_sleep (snd s w) = true -> t_pend (snd s w) = false ->
              registered D (fst s) w (t_arg (snd s w)) /\ ~ cond (fst s) (t_arg (snd s w)).

  Lemma linv_reach : forall s, reach (lift P) s -> LInv s.
  Proof.
    apply invariant_rule.
    - split; [apply inv0|]. intros w H. cbn in H. discriminate.
    - intros [o t] l [o' t'] _ [HI HW] Hs. cbn in Hs. unfold lstep, lexec in Hs.
      destruct l as [w a|op|w].
      + destruct (poll P o w a) as [[[o1 wk] r]|] eqn:E; [|discriminate]. inversion Hs; subst o' t'; clear Hs.
        split; [eapply inv_poll; eauto|]. cbn [fst snd] in *. intros x Hsl Hpe.
        destruct (in_dec Nat.eq_dec x wk) as [Hin|Hnin].
        { rewrite (wake_all_in _ _ _ Hin) in Hpe. discriminate. }
        rewrite (wake_all_notin _ _ _ Hnin) in *.
        unfold set_polled in *. destruct (Nat.eq_dec x w) as [->|Nx].
        * rewrite upd_same in *. cbn in *. destruct r; [|discriminate].
          eapply d_park; eauto.
        * rewrite upd_other in * by exact Nx. destruct (HW x Hsl Hpe) as [Hr Hc].
          eapply d_other; eauto.
      + destruct (oper P o op) as [[[o1 wk] r]|] eqn:E; [|discriminate]. inversion Hs; subst o' t'; clear Hs.
        split; [eapply inv_oper; eauto|]. cbn [fst snd] in *. intros x Hsl Hpe.
        destruct (in_dec Nat.eq_dec x wk) as [Hin|Hnin].
        { rewrite (wake_all_in _ _ _ Hin) in Hpe. discriminate. }
        rewrite (wake_all_notin _ _ _ Hnin) in *. destruct (HW x Hsl Hpe) as [Hr Hc].
        eapply d_oper; eauto.
      + inversion Hs; subst o' t'; clear Hs. split; [exact HI|]. cbn [fst snd] in *. intros x Hsl Hpe.
        unfold set_dropped in *. destruct (Nat.eq_dec x w) as [->|Nx].
        * rewrite upd_same in Hsl. cbn in Hsl. discriminate.
        * rewrite upd_other in * by exact Nx. apply HW; assumption.
  Qed.

  Theorem no_lost_wakeup : NoLostWakeup P cond.
  Proof.
    intros s Hr w Hsl Hc. destruct (linv_reach s Hr) as [_ HW].
    destruct (t_pend (snd s w)) eqn:E; [reflexivity|].
    destruct (HW w Hsl E) as [_ Hn]. contradiction.
  Qed.

  Theorem inv_reach : forall s, reach (lift P) s -> Inv D (fst s).
  Proof. intros s Hr. apply (linv_reach s Hr). Qed.
End Discipline.

(* ------------------------------------------------------------------------------------ *)
(* 4. the correspondence-stream runner shared by every `proto` instance                  *)

Definition skipped : Z := (-9)%Z.

Definition obs3 {A} (code : Z) (t : tasks A) : list Z :=
  [code; Z.of_N (t_cnt (t 0%nat)); Z.of_N (t_cnt (t 1%nat)); Z.of_N (t_cnt (t 2%nat))].

(* a label that is not enabled (or an undecodable line) is skipped: state unchanged, code -9;
   the harness applies the same guard before calling into the Rust object *)
Fixpoint lrun (P : proto) (dec : N -> list Z -> option (lbl P)) (s : lstate P)
              (ops : list (N * list Z)) : list (list Z) :=
  match ops with
  | [] => []
  | (tag, args) :: rest =>
      match dec tag args with
      | Some l =>
          match lexec P s l with
          | Some (s', c) => obs3 c (snd s') :: lrun P dec s' rest
          | None => obs3 skipped (snd s) :: lrun P dec s rest
          end
      | None => obs3 skipped (snd s) :: lrun P dec s rest
      end
  end.
