(* Model of the transport-parameter codec: qbase/src/param/io.rs (be_raw_parameter, be_parameter_value,
   put_parameter, Parameters::parse_from_bytes), param/core.rs (belong_to, set/validate; the table is
   regenerated into Generated/ParamTable.v), param/preferred_address.rs, role.rs (required parameters).
   Models the repaired parser (malformed values are errors, not assertion failures).  Definitions only. *)
From Coq Require Import List ZArith NArith Bool.
From GQ Require Export Model.Frames Lib.ParamTypes Generated.ParamTable.
Import ListNotations.
Local Open Scope Z_scope.

Inductive pvalue :=
| PVVarInt (v : Z)
| PVTrue
| PVBytes (b : list Z)
| PVDuration (ms : Z)
| PVResetToken (t : list Z)
| PVCid (c : list Z)
| PVPrefAddr (a4 a6 cid tok : list Z).       (* 6 bytes ip4+port, 18 bytes ip6+port *)

Fixpoint find_param (tbl : list param_row) (id : Z) : option param_row :=
  match tbl with
  | [] => None
  | r :: t => if p_id r =? id then Some r else find_param t id
  end.
Definition param_row_of (id : Z) : option param_row := find_param param_table id.

Definition mem (x : Z) (l : list Z) : bool := existsb (Z.eqb x) l.

(* ParameterId::belong_to for the role that SENT the parameters *)
Definition belong_to (id : Z) (r : role) : bool :=
  match r with
  | Client => negb (mem id server_only_params)
  | Server => negb (mem id client_only_params)
  end.

(* ParameterId::validate (only bounded ids are checked) *)
Definition in_bound (row : param_row) (v : pvalue) : bool :=
  match p_bound row, v with
  | Some (lo, hi), PVVarInt x => (lo <=? x) && (x <=? hi)
  | Some (lo, hi), PVDuration x => (lo <=? x) && (x <=? hi)
  | Some _, _ => false          (* InvalidValueType *)
  | None, _ => true
  end.

(* be_parameter_value followed by the "value must consume all data" check; None = malformed *)
Definition whole {A} (r : res A) : option A :=
  match r with Ok v [] => Some v | _ => None end.

Definition be_pref_addr : parser pvalue :=
  a4 <- take_s 6 ;; a6 <- take_s 18 ;; cid <- be_cid ;; tok <- take_c RESET_TOKEN_SIZE ;;
  ret (PVPrefAddr a4 a6 cid tok).

Definition be_param_value (t : pvtype) (data : list Z) : option pvalue :=
  match t with
  | VTVarInt => whole (pmap PVVarInt be_varint data)
  | VTBoolean => match data with [] => Some PVTrue | _ => None end
  | VTBytes => Some (PVBytes data)
  | VTDuration => whole (pmap PVDuration be_varint data)
  | VTResetToken => whole (pmap PVResetToken (take_c RESET_TOKEN_SIZE) data)
  | VTConnectionId => if MAX_CID_SIZE <? zlen data then None else Some (PVCid data)
  | VTPreferredAddress => whole (be_pref_addr data)
  end.

(* the parameter map: association list, later `set` overrides earlier (HashMap::insert) *)
Definition pmap_t := list (Z * pvalue).
Fixpoint pm_set (m : pmap_t) (id : Z) (v : pvalue) : pmap_t :=
  match m with
  | [] => [(id, v)]
  | (k, w) :: r => if k =? id then (id, v) :: r else (k, w) :: pm_set r id v
  end.
Fixpoint pm_get (m : pmap_t) (id : Z) : option pvalue :=
  match m with
  | [] => None
  | (k, w) :: r => if k =? id then Some w else pm_get r id
  end.

Inductive pares := PaOk (m : pmap_t) | PaErr | PaPanic (site : N).

Definition length_data_p : parser (list Z) := n <- be_varint ;; take_s n.
Definition be_raw_parameter : parser (Z * list Z) :=
  id <- be_varint ;; d <- length_data_p ;; ret (id, d).

(* Parameters::<R>::parse_from_bytes without the required-parameters check *)
Fixpoint parse_loop (fuel : nat) (r : role) (m : pmap_t) (buf : list Z) : pares :=
  match buf with
  | [] => PaOk m
  | _ =>
    match fuel with
    | O => PaErr
    | S f =>
      match be_raw_parameter buf with
      | Ok (id, data) rest =>
        match param_row_of id with
        | None => parse_loop f r m rest                       (* unknown ids are ignored *)
        | Some row =>
          if negb (belong_to id r) then PaErr
          else match be_param_value (p_type row) data with
               | None => PaErr
               | Some v => if in_bound row v then parse_loop f r (pm_set m id v) rest else PaErr
               end
        end
      | Panic s => PaPanic s
      | _ => PaErr
      end
    end
  end.

Definition required_of (r : role) : list Z := match r with Client => required_client | Server => required_server end.

Definition parse_params (r : role) (buf : list Z) : pares :=
  match parse_loop (S (length buf)) r [] buf with
  | PaOk m => if forallb (fun id => match pm_get m id with Some _ => true | None => false end) (required_of r)
              then PaOk m else PaErr
  | e => e
  end.

(* ServerParameters::try_from_remembered_bytes: no required check *)
Definition parse_remembered (buf : list Z) : pares := parse_loop (S (length buf)) Server [] buf.

(* ---------------- encoder ---------------- *)

Definition put_param (id : Z) (v : pvalue) : list Z :=
  put_varint id ++
  match v with
  | PVBytes b => put_varint (zlen b) ++ b
  | PVCid c => put_cid c
  | PVDuration ms => put_varint (varint_size ms) ++ put_varint ms
  | PVTrue => put_varint 0
  | PVPrefAddr a4 a6 cid tok => put_varint (6 + 18 + 1 + zlen cid + RESET_TOKEN_SIZE) ++ a4 ++ a6 ++ put_cid cid ++ tok
  | PVResetToken t => put_varint RESET_TOKEN_SIZE ++ t
  | PVVarInt x => put_varint (varint_size x) ++ put_varint x
  end.

Fixpoint put_params (m : pmap_t) : list Z :=
  match m with [] => [] | (id, v) :: r => put_param id v ++ put_params r end.
