(* Model of qrecovery/src/recv/rcvbuf.rs (RecvBuf).  Definitions only.

   The Rust `recv` is a loop around a binary search over a VecDeque of
   segments sorted by offset.  Each turn either skips the part of the new
   data covered by an existing segment or cuts the part that falls into a gap
   and inserts it as ONE new segment.  The model performs the same cuts by
   structural recursion over the sorted segment list (so no fuel is needed);
   it produces the same segments, the same `largest_offset` and the same
   return value.  That the two are the same function is what the `rcvbuf`
   correspondence stream checks on every run. *)
From Coq Require Import List NArith ZArith Bool.
From GQ Require Export Lib.Base.
Import ListNotations.
Local Open Scope N_scope.

Record seg := mkseg { s_off : N; s_data : list Z }.
Definition s_len (s : seg) : N := N.of_nat (length (s_data s)).
Definition s_end (s : seg) : N := s_off s + s_len s.

Record rcvbuf := mkbuf { nread : N; largest : N; segs : list seg }.

Definition empty_buf : rcvbuf := mkbuf 0 0 [].

(* insert [data] located at [start] into the sorted segment list; returns the
   new list and the largest end offset among the segments created (0 if none) *)
Fixpoint ins (ss : list seg) (start : N) (data : list Z) : list seg * N :=
  match data with
  | [] => (ss, 0)
  | _ =>
    match ss with
    | [] => ([mkseg start data], start + lenN data)
    | s :: rest =>
      if start + lenN data <=? s_off s then
        (* entirely inside the gap before s *)
        (mkseg start data :: s :: rest, start + lenN data)
      else if start <? s_off s then
        (* head falls into the gap, the rest starts exactly at s *)
        let gap := s_off s - start in
        let data' := dropN gap data in
        let cov := N.min (lenN data') (s_len s) in
        let '(rest', m) := ins rest (s_off s + cov) (dropN cov data') in
        (mkseg start (takeN gap data) :: s :: rest', N.max (s_off s) m)
      else if s_end s <=? start then
        let '(rest', m) := ins rest start data in (s :: rest', m)
      else
        (* s_off s <= start < s_end s : skip what s covers *)
        let cov := N.min (lenN data) (s_end s - start) in
        let '(rest', m) := ins rest (start + cov) (dropN cov data) in
        (s :: rest', m)
    end
  end.

Definition recv (b : rcvbuf) (offset : N) (data : list Z) : rcvbuf * N :=
  let start := N.max offset (nread b) in
  let data' := dropN (N.min (lenN data) (start - offset)) data in
  let '(ss, m) := ins (segs b) start data' in
  let l' := N.max (largest b) m in
  (mkbuf (nread b) l' ss, l' - largest b).

(* end of the contiguous run starting at [pos] *)
Fixpoint contig_end (ss : list seg) (pos : N) : N :=
  match ss with
  | [] => pos
  | s :: rest => if s_off s =? pos then contig_end rest (s_end s) else pos
  end.

Definition available (b : rcvbuf) : N := contig_end (segs b) (nread b) - nread b.

Definition is_readable (b : rcvbuf) : bool :=
  match segs b with
  | [] => false
  | s :: _ => s_off s =? nread b
  end.

(* try_read with a destination of [room] free bytes *)
Fixpoint read_loop (ss : list seg) (pos room : N) : list seg * N * list Z :=
  match ss with
  | [] => ([], pos, [])
  | s :: rest =>
    if negb (s_off s =? pos) || (room =? 0) then (ss, pos, [])
    else
      let k := N.min room (s_len s) in
      if k <? s_len s then
        (mkseg (s_off s + k) (dropN k (s_data s)) :: rest, pos + k, takeN k (s_data s))
      else
        let '(ss', pos', out) := read_loop rest (pos + k) (room - k) in
        (ss', pos', s_data s ++ out)
  end.

Definition try_read (b : rcvbuf) (room : N) : rcvbuf * list Z :=
  let '(ss, pos, out) := read_loop (segs b) (nread b) room in
  (mkbuf pos (largest b) ss, out).

Definition try_next (b : rcvbuf) : rcvbuf * option (list Z) :=
  match segs b with
  | s :: rest =>
    if s_off s =? nread b
    then (mkbuf (nread b + s_len s) (largest b) rest, Some (s_data s))
    else (b, None)
  | [] => (b, None)
  end.

(* ------------------------------------------------------------------ *)
(* Operation interface shared with the Rust harness (stream `rcvbuf`). *)

Inductive rb_op :=
| RbRecv (off len : N)
| RbRead (room : N)
| RbNext.

Inductive rb_out :=
| ORecv (fresh : N)
| ORead (bytes : list Z)
| ONext (bytes : option (list Z)).

(* one operation; fragments are slices of the content function [c] *)
Definition rb_exec (c : N -> Z) (b : rcvbuf) (o : rb_op) : rcvbuf * rb_out :=
  match o with
  | RbRecv off len => let '(b', r) := recv b off (slice c off len) in (b', ORecv r)
  | RbRead room => let '(b', out) := try_read b room in (b', ORead out)
  | RbNext => let '(b', d) := try_next b in (b', ONext d)
  end.

Fixpoint rb_execs (c : N -> Z) (b : rcvbuf) (ops : list rb_op) : rcvbuf * list rb_out :=
  match ops with
  | [] => (b, [])
  | o :: rest =>
      let '(b1, out) := rb_exec c b o in
      let '(b2, outs) := rb_execs c b1 rest in
      (b2, out :: outs)
  end.

Definition state_obs (b : rcvbuf) : list Z :=
  [Z.of_N (nread b); Z.of_N (largest b); Z.of_N (available b);
   if is_readable b then 1%Z else 0%Z].

Definition print_out (o : rb_out) : list Z :=
  match o with
  | ORecv r => [Z.of_N r]
  | ORead d => Z.of_N (lenN d) :: d
  | ONext (Some d) => 1%Z :: Z.of_N (lenN d) :: d
  | ONext None => [0%Z]
  end.

Definition rb_step (c : N -> Z) (b : rcvbuf) (o : rb_op) : rcvbuf * list Z :=
  let '(b', out) := rb_exec c b o in (b', print_out out ++ state_obs b').

Fixpoint rb_run (c : N -> Z) (b : rcvbuf) (ops : list rb_op) : list (list Z) :=
  match ops with
  | [] => []
  | o :: rest => let '(b', obs) := rb_step c b o in obs :: rb_run c b' rest
  end.

(* generic wire form of an operation: (tag, integer arguments) *)
Definition rb_decode (t : N) (args : list Z) : option rb_op :=
  match t, args with
  | 0, [off; len] => Some (RbRecv (Z.to_N off) (Z.to_N len))
  | 1, [room] => Some (RbRead (Z.to_N room))
  | 2, [] => Some RbNext
  | _, _ => None
  end.

Fixpoint rb_decode_all (l : list (N * list Z)) : list rb_op :=
  match l with
  | [] => []
  | (t, a) :: rest =>
      match rb_decode t a with
      | Some o => o :: rb_decode_all rest
      | None => rb_decode_all rest
      end
  end.

(* every stream has this shape: CASE-line configuration integers, then the operations *)
Definition run_rcvbuf (cfg : list Z) (l : list (N * list Z)) : list (list Z) :=
  rb_run content empty_buf (rb_decode_all l).
