(* C04 — proofs about the connection-ID cost models (Model/C04Cid.v).
   RemoteCids: the cost functions are tied to the shared model Model.RemoteCid (variant of the
   repaired code, `recv_new_cid no_pre post_count`): the deque it builds has exactly the cells the
   arithmetic counts, the frames it queues are exactly the counted ones plus those of
   CidCell::assign, and the cost is bounded from both sides. *)
From Coq Require Import List ZArith NArith Bool Lia.
From GQ Require Import Lib.Base Model.RemoteCid Proofs.LocalCid Proofs.RemoteCid Model.C04Cid.
Import ListNotations.

(* ------------------------------------------------------------------ RemoteCids *)
Local Open Scope N_scope.

Lemma lenN_app {A} (a b : list A) : lenN (a ++ b) = lenN a + lenN b.
Proof. unfold lenN. rewrite app_length. lia. Qed.

Lemma lenN_nrange a b : lenN (nrange a b) = b - a.
Proof. unfold nrange, lenN. rewrite nseq_length. lia. Qed.

Lemma filter_len_le {A} (f : A -> bool) l : (length (filter f l) <= length l)%nat.
Proof. induction l as [|x r IH]; cbn; [lia|]. destruct (f x); cbn; lia. Qed.

Lemma count_some_len {A} (l : list (option A)) : (count_some l <= length l)%nat.
Proof. induction l as [|[x|] r IH]; cbn; lia. Qed.

(* -- CidCell::assign keeps |allocated| + |frames| = |allocated before| + 1 -- *)
Lemma cell_assign_count : forall c seq id c' fr,
  cell_assign c seq id = (c', fr) -> lenN (a_alloc c') + lenN fr = lenN (a_alloc c) + 1.
Proof.
  intros c seq id c' fr H. unfold cell_assign in H. destruct (a_using c).
  - inversion H; subst. cbn [a_alloc]. unfold lenN. cbn [length]. lia.
  - cbn [trim] in H. inversion H; subst. cbn [a_alloc]. unfold lenN.
    rewrite map_length, rev_length. cbn [length]. lia.
Qed.

Lemma live_in_range : forall cells p, a_retired (get_cell cells p) = false -> (p < length cells)%nat.
Proof.
  intros cells p H. destruct (Nat.lt_ge_cases p (length cells)) as [L|G]; [assumption|].
  unfold get_cell in H. rewrite nth_overflow in H by assumption. discriminate.
Qed.

Lemma allocs_upd : forall cells p c', (p < length cells)%nat ->
  allocs (upd cells p c') + lenN (a_alloc (get_cell cells p)) = allocs cells + lenN (a_alloc c').
Proof.
  induction cells as [|c r IH]; intros p c' H; [cbn in H; lia|].
  destruct p as [|p]; cbn [upd allocs get_cell nth].
  - lia.
  - cbn [length] in H. specialize (IH p c' ltac:(lia)). unfold get_cell in IH. lia.
Qed.

(* -- arrange_idle_cid: every pending cell is looked at at most once; what CidCell::assign queues
      is paid for by the connection IDs the cells held -- *)
Lemma arrange_loop_count : forall pend coff cids cur cells ready pend' cur' cells' ready' fr,
  arrange_loop pend coff cids cur cells ready = (pend', cur', cells', ready', fr) ->
  lenN pend' <= lenN pend /\ lenN ready <= lenN ready' /\
  lenN ready' + lenN pend' <= lenN ready + lenN pend /\
  allocs cells' + lenN fr + lenN ready = allocs cells + lenN ready'.
Proof.
  induction pend as [|p rest IH]; intros coff cids cur cells ready pend' cur' cells' ready' fr H;
    cbn [arrange_loop] in H.
  - inversion H; subst. unfold lenN; cbn [length]. lia.
  - destruct (a_retired (get_cell cells p)) eqn:ER.
    + apply IH in H. unfold lenN in *. cbn [length]. lia.
    + destruct (dq_get coff cids cur) as [[[seq id]|]|] eqn:EG.
      * destruct (cell_assign (get_cell cells p) seq id) as [c' fr0] eqn:EA.
        destruct (arrange_loop rest coff cids (cur + 1) (upd cells p c') (ready ++ [p]))
          as [[[[pd cu] ce] rd] fr1] eqn:ER1.
        inversion H; subst. apply IH in ER1. apply cell_assign_count in EA.
        pose proof (allocs_upd cells p c' (live_in_range _ _ ER)) as HU.
        rewrite !lenN_app in *. unfold lenN in *. cbn [length] in *. lia.
      * inversion H; subst. unfold lenN; cbn [length]. lia.
      * inversion H; subst. unfold lenN; cbn [length]. lia.
Qed.

Lemma arrange_count : forall s s' fr, arrange s = (s', fr) ->
  lenN (r_pending s') <= lenN (r_pending s) /\ lenN (r_ready s) <= lenN (r_ready s') /\
  lenN (r_ready s') + lenN (r_pending s') <= lenN (r_ready s) + lenN (r_pending s) /\
  allocs (r_cells s') + lenN fr + lenN (r_ready s) = allocs (r_cells s) + lenN (r_ready s').
Proof.
  intros s s' fr H. unfold arrange in H.
  destruct (arrange_loop (r_pending s) (r_coff s) (r_cids s) (r_cursor s) (r_cells s) (r_ready s))
    as [[[[pend cur] cells] ready] fr0] eqn:E.
  inversion H; subst. cbn [r_pending r_ready r_cells]. eapply arrange_loop_count; eassumption.
Qed.

(* -- retire_prior_to: frames for the numbers no cell used, cells popped -- *)
Lemma rpt_count : forall s tomb s' fr, retire_prior_to s tomb = (s', fr) ->
  lenN fr = (if r_roff s <? tomb then tomb - (r_roff s + lenN (r_ready s)) else 0) /\
  lenN (r_ready s') + (if r_roff s <? tomb then N.min (r_roff s + lenN (r_ready s)) tomb - r_roff s else 0)
    = lenN (r_ready s) /\
  lenN (r_pending s') + lenN (r_ready s') <= lenN (r_pending s) + lenN (r_ready s) /\
  lenN (r_pending s) <= lenN (r_pending s') /\
  r_cells s' = r_cells s.
Proof.
  intros s tomb s' fr H. unfold retire_prior_to in H.
  destruct (N.leb_spec tomb (r_roff s)) as [Hle|Hgt].
  - inversion H; subst. replace (r_roff s' <? tomb) with false by (symmetry; apply N.ltb_ge; lia).
    unfold lenN; cbn [length]. repeat split; lia.
  - replace (r_roff s <? tomb) with true by (symmetry; apply N.ltb_lt; lia).
    destruct (r_ready s) as [|p0 rd] eqn:ER.
    + inversion H; subst. cbn [r_ready r_pending r_cells]. rewrite lenN_nrange.
      unfold lenN; cbn [length]. repeat split; lia.
    + set (rdy := p0 :: rd) in *.
      assert (HP : lenN (r_pending s ++ live_of (r_cells s) (takeN (N.min (r_roff s + lenN rdy) tomb - r_roff s) rdy))
                   <= lenN (r_pending s) + (N.min (r_roff s + lenN rdy) tomb - r_roff s)).
      { rewrite lenN_app. unfold live_of.
        pose proof (filter_len_le (fun p => negb (a_retired (get_cell (r_cells s) p)))
                      (takeN (N.min (r_roff s + lenN rdy) tomb - r_roff s) rdy)) as HF.
        pose proof (lenN_takeN _ (N.min (r_roff s + lenN rdy) tomb - r_roff s) rdy) as HT.
        unfold lenN in *. lia. }
      assert (HQ : lenN (r_pending s) <= lenN (r_pending s ++ live_of (r_cells s) (takeN (N.min (r_roff s + lenN rdy) tomb - r_roff s) rdy))).
      { rewrite lenN_app. lia. }
      pose proof (lenN_dropN _ (N.min (r_roff s + lenN rdy) tomb - r_roff s) rdy) as HD.
      destruct (r_roff s + lenN rdy <? tomb) eqn:E; inversion H; subst;
        cbn [r_ready r_pending r_cells]; [apply N.ltb_lt in E; rewrite lenN_nrange|apply N.ltb_ge in E; unfold lenN at 1; cbn [length]];
        (split; [lia|split; [lia|split; [lia|split; [lia|reflexivity]]]]).
Qed.

(* -- the whole call on the shared model -- *)
Lemma rc_recv_unfold : forall s seq rpt, rc_discards s seq = false ->
  rc_recv s seq rpt =
    (let '(s3, fr) := processed s seq rpt seq in
     (s3, fr, if r_limit s <? active s3 then NErrLimit else NAccepted)).
Proof. intros s seq rpt H. unfold rc_recv. rewrite recv_count_spec. unfold rc_discards in H. rewrite H. reflexivity. Qed.

Lemma rc_recv_discarded : forall s seq rpt, rc_discards s seq = true -> rc_recv s seq rpt = (s, [], NDiscarded).
Proof. intros s seq rpt H. unfold rc_recv. rewrite recv_count_spec. unfold rc_discards in H. rewrite H. reflexivity. Qed.

Lemma rc_recv_shape : forall s seq rpt s' fr res,
  rc_discards s seq = false -> rc_recv s seq rpt = (s', fr, res) ->
  r_coff s' = rc_coff_after s seq rpt /\
  lenN (r_cids s') = rc_len_ins s seq - rc_drained s seq rpt /\
  rc_drained s seq rpt <= rc_len_ins s seq /\
  rc_gap_frames s rpt <= lenN fr /\
  lenN fr + allocs (r_cells s') + lenN (r_ready s) =
    rc_gap_frames s rpt + allocs (r_cells s) + lenN (r_ready s') + rc_popped s rpt /\
  lenN (r_ready s') + lenN (r_pending s') <= lenN (r_ready s) + lenN (r_pending s) /\
  rc_popped s rpt <= lenN (r_ready s) /\
  res = (if r_limit s <? active s' then NErrLimit else NAccepted).
Proof.
  intros s seq rpt s' fr res HD H. rewrite rc_recv_unfold in H by assumption. unfold processed in H.
  destruct (retire_prior_to (inserted s seq seq) rpt) as [s2 f1] eqn:E2.
  destruct (arrange s2) as [s3 f2] eqn:E3. inversion H; subst s3 fr res. clear H.
  pose proof (arrange_fields _ _ _ E3) as (A1 & A2 & A3 & A4).
  pose proof (arrange_count _ _ _ E3) as (B1 & B2 & B3 & B4).
  pose proof (rpt_count _ _ _ _ E2) as (C1 & C2 & C3 & C4 & C5).
  cbn [inserted r_roff r_ready r_pending r_cells] in C1, C2, C3, C4, C5.
  unfold rc_discards in HD. apply N.ltb_ge in HD.
  unfold rc_coff_after, rc_drained, rc_coff_after, rc_gap_frames, rc_popped, rc_retires, rc_applied, rc_len_ins.
  rewrite lenN_app, A1, A2, C5 in *.
  destruct (N.ltb_spec (r_roff s) rpt) as [Hgt|Hle].
  - apply rpt_fields in E2; [|cbn [inserted r_roff]; lia]. destruct E2 as (D1 & D2 & D3 & D4 & D5 & D6).
    cbn [inserted r_coff r_cids] in D4, D5. rewrite D5, lenN_dropN, D4, !dq_insert_length by assumption.
    repeat split; try lia.
  - rewrite rpt_noop in E2 by (cbn [inserted r_roff]; lia). inversion E2; subst s2 f1.
    cbn [inserted r_coff r_cids r_ready r_pending r_cells] in *. rewrite dq_insert_length by assumption.
    repeat split; try lia.
Qed.

Lemma rc_len_ins_gap : forall s seq, rc_discards s seq = false ->
  rc_len_ins s seq = lenN (r_cids s) + rc_gap s seq + (if rc_end s <=? seq then 1 else 0).
Proof.
  intros s seq H. unfold rc_discards in H. apply N.ltb_ge in H. unfold rc_len_ins, rc_gap, rc_end.
  destruct (N.leb_spec (r_coff s + lenN (r_cids s)) seq); lia.
Qed.

(* the deque the shared model builds has exactly the cells the arithmetic counts: [rc_gap] default
   cells (plus the stored one when the number lies beyond the old end), minus the drained ones *)
Lemma p_c04_new_cid_cells : forall s seq rpt s' fr res,
  rc_discards s seq = false -> rc_recv s seq rpt = (s', fr, res) ->
  lenN (r_cids s') + rc_drained s seq rpt =
    lenN (r_cids s) + rc_new_cells s seq + (if rc_end s <=? seq then 1 else 0) /\
  r_coff s' = rc_coff_after s seq rpt.
Proof.
  intros s seq rpt s' fr res HD H. pose proof (rc_recv_shape _ _ _ _ _ _ HD H) as (S1 & S2 & S3 & _).
  pose proof (rc_len_ins_gap s seq HD) as HG. unfold rc_new_cells. rewrite HD.
  split; [|assumption]. destruct (rc_end s <=? seq); lia.
Qed.

(* the frames it queues: one per sequence NUMBER between the highest number a path ever used and
   retire_prior_to, plus what CidCell::assign retires (paid for by the IDs the cells held) *)
Lemma p_c04_new_cid_frames : forall s seq rpt s' fr res,
  rc_discards s seq = false -> rc_recv s seq rpt = (s', fr, res) ->
  rc_gap_frames s rpt <= lenN fr /\
  lenN fr <= rc_gap_frames s rpt + allocs (r_cells s) + lenN (r_pending s) + lenN (r_ready s).
Proof.
  intros s seq rpt s' fr res HD H.
  pose proof (rc_recv_shape _ _ _ _ _ _ HD H) as (_ & _ & _ & S4 & S5 & S6 & S7 & _). lia.
Qed.

(* the bound that DOES hold: linear in how far the sequence number and retire_prior_to jump *)
Lemma p_c04_new_cid_value_bound : forall s seq rpt,
  rc_new_cost s seq rpt <= 2 * rc_gap s seq + rc_gap_frames s rpt + 4 * rc_size s + 6.
Proof.
  intros s seq rpt. unfold rc_new_cost. destruct (rc_discards s seq) eqn:HD; [lia|].
  destruct (rc_recv s seq rpt) as [[s' fr] res] eqn:E.
  pose proof (rc_recv_shape _ _ _ _ _ _ HD E) as (S1 & S2 & S3 & S4 & S5 & S6 & S7 & _).
  pose proof (rc_len_ins_gap s seq HD) as HG. unfold rc_size.
  destruct (rc_end s <=? seq); lia.
Qed.

Lemma rc_gap_frames_le : forall s rpt, rc_gap_frames s rpt <= rpt - r_roff s.
Proof. intros. unfold rc_gap_frames, rc_applied. destruct (rc_retires s rpt); lia. Qed.

(* outside the class of F10 (the sequence number or retire_prior_to jumps by more than K) *)
Lemma p_c04_new_cid_cost : forall K s seq rpt,
  seq - rc_end s <= K -> rpt - rc_applied s <= K ->
  rc_new_cost s seq rpt <= 3 * K + 4 * rc_size s + 6.
Proof.
  intros K s seq rpt H1 H2. pose proof (p_c04_new_cid_value_bound s seq rpt) as H.
  assert (rc_gap_frames s rpt <= K) by (unfold rc_gap_frames; destruct (rc_retires s rpt); lia).
  unfold rc_gap in H. lia.
Qed.

Lemma p_c04_retire_prior_cost : forall K s seq rpt,
  rpt - r_coff s <= K -> rpt - rc_applied s <= K ->
  rc_retire_cost s seq rpt <= 2 * K + lenN (r_ready s) + 1.
Proof.
  intros K s seq rpt H1 H2. unfold rc_retire_cost, rc_drained, rc_coff_after, rc_popped, rc_gap_frames, rc_applied in *.
  destruct (rc_retires s rpt); lia.
Qed.

(* cost, cells and frames grow with the VALUE *)
Lemma p_c04_new_cid_cost_lower : forall s seq rpt, rc_discards s seq = false ->
  rc_gap s seq + rc_gap_frames s rpt <= rc_new_cost s seq rpt.
Proof.
  intros s seq rpt HD. unfold rc_new_cost. rewrite HD.
  destruct (rc_recv s seq rpt) as [[s' fr] res] eqn:E.
  pose proof (rc_recv_shape _ _ _ _ _ _ HD E) as (_ & _ & _ & S4 & _). lia.
Qed.

Lemma active_le_len : forall s, active s <= lenN (r_cids s).
Proof. intros. unfold active, lenN. pose proof (count_some_len (r_cids s)). lia. Qed.

Lemma rc_init_2 : rc_init 2 = mkR 0 [Some (0, 0)] 0 [0%nat] [] 2 1 [mkCell [(0, 0)] false false].
Proof. reflexivity. Qed.

(* REFUTED: no linear bound in frame bytes + tracked state (a NEW_CONNECTION_ID frame is at most
   1 + 8 + 8 + 1 + 20 + 16 = 54 bytes; the fresh state holds 3 cells), for frames the count-based
   limit ACCEPTS: one active connection ID is left *)
Lemma p_c04_new_cid_cost_refuted : forall c c', exists seq rpt,
  rpt <= seq /\
  (let '(s', fr, res) := rc_recv (rc_init 2) seq rpt in
   res = NAccepted /\ active s' <= 1 /\ c * (54 + rc_size (rc_init 2)) + c' < lenN fr) /\
  c * (54 + rc_size (rc_init 2)) + c' < rc_new_cells (rc_init 2) seq /\
  c * (54 + rc_size (rc_init 2)) + c' < rc_new_cost (rc_init 2) seq rpt.
Proof.
  intros c c'. set (n := c * (54 + rc_size (rc_init 2)) + c' + 3).
  exists n, n. split; [lia|].
  assert (HD : rc_discards (rc_init 2) n = false).
  { unfold rc_discards. rewrite rc_init_2. cbn [r_coff]. apply N.ltb_ge. lia. }
  assert (HG : rc_gap (rc_init 2) n = n - 1).
  { unfold rc_gap, rc_end. rewrite rc_init_2. cbn [r_coff r_cids]. change (lenN [Some (0, 0)]) with 1. lia. }
  assert (HR : rc_retires (rc_init 2) n = true).
  { unfold rc_retires. rewrite rc_init_2. cbn [r_roff]. apply N.ltb_lt. lia. }
  assert (HF : rc_gap_frames (rc_init 2) n = n - 1).
  { unfold rc_gap_frames. rewrite HR. unfold rc_applied. rewrite rc_init_2. cbn [r_roff r_ready].
    change (lenN [0%nat]) with 1. lia. }
  assert (HL : rc_len_ins (rc_init 2) n - rc_drained (rc_init 2) n n = 1).
  { unfold rc_drained, rc_coff_after. rewrite HR. unfold rc_len_ins. rewrite rc_init_2. cbn [r_coff r_cids].
    change (lenN [Some (0, 0)]) with 1. lia. }
  pose proof (p_c04_new_cid_cost_lower (rc_init 2) n n HD) as HC.
  destruct (rc_recv (rc_init 2) n n) as [[s' fr] res] eqn:E.
  pose proof (rc_recv_shape _ _ _ _ _ _ HD E) as (_ & S2 & _ & S4 & _ & _ & _ & S8).
  pose proof (active_le_len s') as HA. rewrite S2, HL in HA.
  assert (HN : n = c * (54 + rc_size (rc_init 2)) + c' + 3) by reflexivity. clearbody n.
  split; [split; [|split; [assumption|lia]]|split].
  - rewrite S8. replace (r_limit (rc_init 2)) with 2 by reflexivity.
    destruct (N.ltb_spec 2 (active s')); [lia|reflexivity].
  - unfold rc_new_cells. rewrite HD. lia.
  - lia.
Qed.

(* the limit: the frame is processed, then the ACTIVE connection IDs are counted; more than
   active_connection_id_limit of them is CONNECTION_ID_LIMIT_ERROR, anything else is accepted *)
Lemma p_c04_new_cid_limit : forall s seq rpt s' fr res,
  rc_discards s seq = false -> rc_recv s seq rpt = (s', fr, res) ->
  (r_limit s < active s' -> res = NErrLimit /\ rc_res_err res = E_CONNECTION_ID_LIMIT) /\
  (active s' <= r_limit s -> res = NAccepted /\ rc_res_err res = E_NONE).
Proof.
  intros s seq rpt s' fr res HD H.
  pose proof (rc_recv_shape _ _ _ _ _ _ HD H) as (_ & _ & _ & _ & _ & _ & _ & S8). subst res.
  destruct (N.ltb_spec (r_limit s) (active s')); split; intros; try lia; split; reflexivity.
Qed.

(* a sequence number below the offset of cid_deque: the frame is dropped at the first test *)
Lemma p_c04_new_cid_discarded : forall s seq rpt, seq < r_coff s ->
  rc_recv s seq rpt = (s, [], NDiscarded) /\ rc_new_cost s seq rpt = 1 /\ rc_new_drv s seq rpt = 0.
Proof.
  intros s seq rpt H. assert (HD : rc_discards s seq = true) by (apply N.ltb_lt; assumption).
  split; [apply rc_recv_discarded; assumption|]. unfold rc_new_cost, rc_new_drv. rewrite HD. auto.
Qed.

Local Close Scope N_scope.
Local Open Scope Z_scope.

Lemma zlen_nonneg {A} (l : list A) : 0 <= zlen l.
Proof. unfold zlen. lia. Qed.
Lemma zlen_app {A} (a b : list A) : zlen (a ++ b) = zlen a + zlen b.
Proof. unfold zlen. rewrite app_length. lia. Qed.
Lemma zlen_repeat {A} (x : A) n : zlen (repeat x n) = Z.of_nat n.
Proof. unfold zlen. now rewrite repeat_length. Qed.

(* ------------------------------------------------------------------ LocalCids *)
Definition lc_wf (s : lcst) : Prop := 0 <= lc_off s.

Lemma p_c04_set_limit_value_bound : forall s n, lc_wf s -> lc_set_cost s n <= Z.max 0 n + 1.
Proof.
  intros s n W. unfold lc_set_cost, lc_set_frames, lc_next, lc_len. pose proof (zlen_nonneg (lc_cells s)).
  unfold lc_wf in W. destruct (n <? 2); lia.
Qed.

Lemma p_c04_set_limit_cost : forall K s n, lc_wf s -> 0 <= K -> n <= K -> lc_set_cost s n <= K + 1.
Proof. intros K s n W HK Hn. pose proof (p_c04_set_limit_value_bound s n W). lia. Qed.

Lemma p_c04_set_limit_cost_refuted : forall c c', 0 <= c -> 0 <= c' ->
  exists n, c * (8 + lc_len lc_init) + c' < lc_set_cost lc_init n /\
            c * (8 + lc_len lc_init) + c' < lc_set_frames lc_init n.
Proof.
  intros c c' Hc Hc'. exists (c * 10 + c' + 3).
  unfold lc_set_cost, lc_set_frames, lc_next, lc_len, lc_init, zlen; cbn [lc_off lc_cells length].
  destruct (c * 10 + c' + 3 <? 2) eqn:E; [apply Z.ltb_lt in E; lia|]. lia.
Qed.

Lemma p_c04_set_limit_cells : forall s n, 2 <= n ->
  lc_len (lc_set_apply s n) = lc_len s + lc_set_frames s n.
Proof.
  intros s n H. unfold lc_set_apply, lc_set_frames.
  destruct (n <? 2) eqn:E; [apply Z.ltb_lt in E; lia|].
  unfold lc_len; cbn [lc_cells]. rewrite zlen_app, zlen_repeat. rewrite Z2Nat.id by lia. reflexivity.
Qed.

Lemma lead_none_le : forall l, (lead_none l <= length l)%nat.
Proof. induction l as [|[] r IH]; cbn; lia. Qed.
Lemma clear_nth_length : forall n l, length (clear_nth n l) = length l.
Proof. induction n; destruct l; cbn; auto. Qed.

Lemma p_c04_retire_cid_cost : forall s seq, lc_retire_cost s seq <= lc_len s + 2.
Proof.
  intros s seq. unfold lc_retire_cost, lc_retire_advance, lc_len, zlen.
  destruct (lc_retire_hits s seq); [|lia].
  pose proof (lead_none_le (clear_nth (Z.to_nat (seq - lc_off s)) (lc_cells s))) as H.
  rewrite clear_nth_length in H. lia.
Qed.

(* the limit clauses: a limit below 2 is a TRANSPORT_PARAMETER_ERROR; retiring a sequence number
   that was never issued is an error that costs one comparison and changes nothing — its KIND in
   the code is CONNECTION_ID_LIMIT_ERROR where RFC 9000 19.16 says PROTOCOL_VIOLATION (F55) *)
Lemma p_c04_set_limit_small : forall s n, n < 2 ->
  lc_set_err s n = E_TRANSPORT_PARAMETER /\ lc_set_cost s n = 1 /\ lc_set_apply s n = s.
Proof.
  intros s n H. unfold lc_set_err, lc_set_cost, lc_set_frames, lc_set_apply.
  assert (E : (n <? 2) = true) by (apply Z.ltb_lt; lia). rewrite E. auto.
Qed.

Lemma p_c04_retire_unissued : forall s seq, lc_next s <= seq ->
  lc_retire_err true s seq = E_PROTOCOL_VIOLATION /\
  lc_retire_err false s seq = E_CONNECTION_ID_LIMIT /\
  lc_retire_hits s seq = false /\ lc_retire_cost s seq = 1 /\ lc_retire_apply s seq = s.
Proof.
  intros s seq H. unfold lc_retire_err, lc_retire_cost, lc_retire_apply, lc_retire_hits.
  assert (E : (lc_next s <=? seq) = true) by (apply Z.leb_le; lia). rewrite E.
  assert (F : (seq <? lc_next s) = false) by (apply Z.ltb_ge; lia). rewrite F. cbn. auto.
Qed.

Lemma p_c04_retire_kind_refuted :
  exists s seq, lc_next s <= seq /\ lc_retire_err false s seq <> E_PROTOCOL_VIOLATION.
Proof. exists lc_init, 2. split; [cbn; lia|]. vm_compute. discriminate. Qed.
