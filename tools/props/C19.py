"""C19 — datagrams are carried whole, within the peer's size limit, or not at all."""
import itertools
import os
import sys

from vlib import Case

sys.path.insert(0, os.path.dirname(os.path.dirname(os.path.abspath(__file__))))
import extract_sources  # noqa: E402

PROP_FILE = "Properties/C19.v"
RULE = ("cases = op lists over SEND off len, LOAD remaining deliver?, LOADALL remaining deliver? (repeated loads into one "
        "packet), RECVFRAME with_len off len, READ, CONNERR with CASE cfg (peer_max, local_max); non-trivial = an accepted "
        "SEND whose LOAD has `remaining` within 3 of len, 1+len or 1+varint(len)+len, or a SEND/RECVFRAME within 1 of its "
        "limit, or a LOADALL that packs at least 2 datagrams; distinct by hash of cfg+ops")
TRUSTED_BASE = [
    "model coq/Model/Datagram.v is a branch-by-branch transcription of qdatagram/src/{writer,reader}.rs and of the "
    "DATAGRAM/PADDING arms of qbase/src/frame/io.rs; equality with the Rust is checked by stream `datagram`, not proved",
    "tools/extract_sources.py (regex/tokenizer over burst.rs, fail-closed) regenerates coq/Generated/Sources.v every run; "
    "c19_offered is stated over that table",
]
MODELLED = ("qdatagram: DatagramOutgoing::{new_writer,try_load_data_into,on_conn_error}, DatagramWriter::send_bytes, "
            "DatagramIncoming::{new_reader,recv_datagram,on_conn_error}, DatagramReader::poll_recv; Repeat(source) as LOADALL; qbase: DatagramFrame "
            "encoding_size/put_data_frame, be_frame for PADDING/DATAGRAM, VarInt size/encode/decode; "
            "Components::packages source lists (table). NOT modelled: wakers of the reader/writer (C16), tracing, "
            "the packet header/AEAD around the payload (C06), path-level sources added in Burst::load_spaces")
ASSUMPTIONS = ["a datagram is shorter than 2^62 bytes (VarInt::try_from(len).unwrap())",
               "the capture target behaves like the &mut [u8]-backed packet writers (hard limit, panic past the end)"]

MANIFEST = {
    "text": "Machine-checked Coq theorems (Properties/C19.v) over an executable model of the repaired qdatagram and the "
            "DATAGRAM wire form: for every op list a datagram is refused iff the length form of its frame (1+varint(len)+len) "
            "exceeds the peer's max_datagram_frame_size (0 = everything refused); whatever form the loader then chooses the "
            "frame is within the peer's limit; every successful load (single, or repeated into one packet) emits npad PADDING "
            "bytes followed by exactly one DATAGRAM frame whose payload is the head of the FIFO of accepted datagrams (never "
            "split/merged, order kept); the bytes re-parse (varint and frame round trip proved) to that single frame; the "
            "chosen form fits every remaining-space value and the no-length form fills the packet; no unwrap/put past the end "
            "is reachable; frames above the local maximum are ProtocolViolation; reads return the accepted arrivals in order. "
            "c19_offered is stated over the package-source table regenerated from burst.rs every run and is REFUTED on it "
            "(finding F21, open: the datagram queue is not among the 1-RTT/0-RTT sources; try_load_data_into has no caller).",
    "note": "Trusted: Coq kernel, extraction, OCaml driver, Rust harness (capture target with a hard byte limit instead of "
            "the AEAD packet writer), Python generators/oracle, the regex extractor of the source list. The harness drives "
            "DatagramFlow directly; a datagram through a whole connection cannot be observed because the loader is never "
            "called (that is F21). F35 (length-form frame above the peer's limit) is repaired by a `fix:` commit; its witness "
            "is a regression corpus case.",
    "technique": "Coq proof (invariants over op lists, wire-form round trip) + regenerated source table + differential "
                 "correspondence model/implementation + direct oracle",
}

SOURCES = {"info": None}


def regen():
    SOURCES["info"] = extract_sources.regen()


def datagram_offered():
    info = SOURCES["info"]
    if info is None:
        try:
            regen()
            info = SOURCES["info"]
        except Exception:
            return False
    return "SrcDatagram" in info["sources"].get("SpOneRtt", [])


def content(i):
    return (i * 131 + (i // 256) * 17 + 7) % 256


def vsize(v):
    return 1 if v < 64 else 2 if v < 16384 else 4 if v < 2 ** 30 else 8


def accepts(pm, ln):
    return pm != 0 and 1 + vsize(ln) + ln <= pm


def vdec(bs):
    if not bs:
        return None
    k = (1, 2, 4, 8)[bs[0] >> 6]
    if len(bs) < k:
        return None
    v = bs[0] & 63
    for b in bs[1:k]:
        v = v * 256 + b
    return v, k


def oracle(case, obs):
    """direct statement of C19 on the implementation's observations"""
    pm = int(case.cfg[0]) if len(case.cfg) > 0 else 1200
    lm = int(case.cfg[1]) if len(case.cfg) > 1 else 1200
    if len(obs) != len(case.ops):
        return "length: %d observations for %d ops (%s)" % (len(obs), len(case.ops), obs[-1] if obs else "")
    outq = []          # accepted, not yet on the wire
    inq = []           # accepted by the incoming side, not yet read
    closed = False
    accepted_any = False
    wirelimit = None
    for k, ((tag, args), line) in enumerate(zip(case.ops, obs)):
        if line.startswith("!"):
            return "abnormal: op %d -> %s" % (k, line)
        v = [int(x) for x in line.split()]
        if tag == 0:
            off, ln = args
            # refused iff the largest frame the loader may build (length form) exceeds the peer's maximum
            exp = 3 if pm == 0 else 2 if closed else 1 if 1 + vsize(ln) + ln > pm else 0
            if v != [exp]:
                return "refuse: op %d send(len %d) with peer max %d returned %s, required %d" % (k, ln, pm, v, exp)
            if exp == 0:
                outq.append([content(off + j) for j in range(ln)])
                accepted_any = True
        elif tag == 1:
            rem, dl = args
            rc = v[0]
            if closed:
                exp_rc = 100
            elif not outq:
                exp_rc = 104
            elif rem <= len(outq[0]):
                exp_rc = 101
            else:
                exp_rc = 0
            if rc != exp_rc:
                return "loadrc: op %d load(remaining %d) returned %d, required %d (head len %s)" % (
                    k, rem, rc, exp_rc, len(outq[0]) if outq else None)
            if rc != 0:
                if v[1:] != [0, 0, -1]:
                    return "loadnoop: op %d failed load wrote bytes: %s" % (k, v[:8])
                continue
            d = outq.pop(0)
            nb = v[1]
            bs = v[2:2 + nb]
            rest = v[2 + nb:]
            if nb > rem:
                return "fits: op %d wrote %d bytes into %d" % (k, nb, rem)
            npad = 0
            while npad < len(bs) and bs[npad] == 0:
                npad += 1
            fr = bs[npad:]
            if not fr or fr[0] not in (0x30, 0x31):
                return "whole: op %d bytes are not PADDING* DATAGRAM: %s" % (k, bs[:12])
            if fr[0] == 0x31:
                dec = vdec(fr[1:])
                if dec is None or dec[0] != len(d) or dec[1] != vsize(len(d)):
                    return "whole: op %d length field %s for a datagram of %d bytes" % (k, dec, len(d))
                payload = fr[1 + dec[1]:]
                if npad != 0:
                    return "fits: op %d padding before a length-form frame" % k
            else:
                payload = fr[1:]
                if nb != rem:
                    return "fits: op %d no-length form leaves %d of %d bytes unused" % (k, rem - nb, rem)
                if rem - len(d) >= 1 + vsize(len(d)):
                    return "fits: op %d no-length form chosen although the length form fits (%d, len %d)" % (k, rem, len(d))
            if payload != d:
                return "whole: op %d payload on the wire (%d bytes) is not the datagram at the head of the queue (%d bytes)" % (
                    k, len(payload), len(d))
            fsize = len(fr)
            if rest[:4] != [1, 1 if fr[0] == 0x31 else 0, len(d), len(d)]:
                return "whole: op %d recorded frames %s" % (k, rest[:4])
            dv = rest[4:]
            if fsize > pm and wirelimit is None:
                wirelimit = "wirelimit: op %d datagram of %d bytes was accepted (peer max %d) but emitted as a %d-byte frame" % (
                    k, len(d), pm, fsize)
            if dl == 0:
                if dv != [-1]:
                    return "deliver: op %d %s" % (k, dv)
            else:
                exp_r = 2 if closed else 1 if fsize > lm else 0
                if dv != [1, npad, 1, exp_r]:
                    return "deliver: op %d FrameReader/recv_frame gave %s, required %s" % (k, dv, [1, npad, 1, exp_r])
                if exp_r == 0:
                    inq.append(d)
        elif tag == 5:
            rem, dl = args
            count, last, nb = v[0], v[1], v[2]
            bs = v[3:3 + nb]
            rest = v[3 + nb:]
            if nb > rem:
                return "fits: op %d wrote %d bytes into %d" % (k, nb, rem)
            if count > len(outq) or (closed and count):
                return "whole: op %d loaded %d frames, %d datagrams queued" % (k, count, len(outq))
            # independent parse of the packet payload: (PADDING* DATAGRAM)*, a no-length frame only as the last one
            pos = 0
            frames = []
            while pos < len(bs):
                npad = 0
                while pos < len(bs) and bs[pos] == 0:
                    pos += 1
                    npad += 1
                if pos == len(bs):
                    return "whole: op %d trailing padding without a frame" % k
                if bs[pos] == 0x31:
                    dec = vdec(bs[pos + 1:])
                    if dec is None or pos + 1 + dec[1] + dec[0] > len(bs):
                        return "whole: op %d truncated length-form frame" % k
                    if npad:
                        return "fits: op %d padding before a length-form frame" % k
                    frames.append((1, npad, bs[pos + 1 + dec[1]:pos + 1 + dec[1] + dec[0]], 1 + dec[1] + dec[0]))
                    pos += 1 + dec[1] + dec[0]
                elif bs[pos] == 0x30:
                    frames.append((0, npad, bs[pos + 1:], len(bs) - pos))
                    pos = len(bs)
                else:
                    return "whole: op %d unexpected frame type %d" % (k, bs[pos])
            if len(frames) != count:
                return "whole: op %d reports %d loads, the bytes hold %d DATAGRAM frames" % (k, count, len(frames))
            for j, (wl, npad, payload, fsize) in enumerate(frames):
                d = outq[j]
                if payload != d:
                    return "whole: op %d frame %d carries %d bytes, datagram %d of the queue has %d (split/merged/reordered)" % (
                        k, j, len(payload), j, len(d))
                if fsize > pm:
                    return "wirelimit: op %d datagram of %d bytes was accepted (peer max %d) but emitted as a %d-byte frame" % (
                        k, len(d), pm, fsize)
            if frames and frames[-1][0] == 0 and nb != rem:
                return "fits: op %d no-length form leaves %d of %d bytes unused" % (k, rem - nb, rem)
            left = rem - nb
            exp_last = 100 if closed else 104 if count == len(outq) else 101
            if last != exp_last:
                return "loadrc: op %d repeated load stopped with %d, required %d" % (k, last, exp_last)
            if exp_last == 101 and left > len(outq[count]):
                return "loadrc: op %d stopped although the next datagram (%d bytes) fits the %d bytes left" % (k, len(outq[count]), left)
            exp_rec = [count]
            for wl, npad, payload, fsize in frames:
                exp_rec += [wl, len(payload), len(payload)]
            if rest[:len(exp_rec)] != exp_rec:
                return "whole: op %d recorded frames %s" % (k, rest[:len(exp_rec)])
            dv = rest[len(exp_rec):]
            sent = outq[:count]
            outq = outq[count:]
            if dl == 0 or count == 0:
                if dv != [-1]:
                    return "deliver: op %d %s" % (k, dv)
            else:
                rcs = [2 if closed else 1 if f[3] > lm else 0 for f in frames]
                exp_dv = [1, sum(f[1] for f in frames), count] + rcs
                if dv != exp_dv:
                    return "deliver: op %d FrameReader/recv_frame gave %s, required %s" % (k, dv, exp_dv)
                for dgram, rc in zip(sent, rcs):
                    if rc == 0:
                        inq.append(dgram)
        elif tag == 2:
            wl, off, ln = args
            size = 1 + (vsize(ln) if wl else 0) + ln
            exp_r = 2 if closed else 1 if size > lm else 0
            if v != [1, 0, 1, exp_r]:
                return "recvlimit: op %d frame of %d bytes against local max %d gave %s, required %s" % (k, size, lm, v, [1, 0, 1, exp_r])
            if exp_r == 0:
                inq.append([content(off + j) for j in range(ln)])
        elif tag == 3:
            if lm == 0:
                exp = [3]
            elif closed:
                exp = [2]
            elif not inq:
                exp = [0]
            else:
                d = inq.pop(0)
                exp = [1, len(d)] + d
            if v != exp:
                return "read: op %d returned %s…, required %s…" % (k, v[:6], exp[:6])
        elif tag == 4:
            closed = True
            outq = []
            inq = []
    if wirelimit is not None:
        return wirelimit
    if accepted_any and not datagram_offered():
        return ("offered: a datagram was accepted but the datagram queue is not among the 1-RTT packet sources of "
                "Components::packages (DatagramFlow::try_load_data_into has no caller): it is never put on the wire")
    return None


def classify(case, msg, obs):
    # the only open finding of C19; everything else (including a frame above the peer's limit, F35 repaired) is a violation
    return None


def _near(case):
    pm = int(case.cfg[0])
    lm = int(case.cfg[1])
    q = []
    for t, a in case.ops:
        if t == 0:
            if accepts(pm, a[1]):
                q.append(a[1])
            if abs(1 + vsize(a[1]) + a[1] - pm) <= 1:
                return True
        elif t == 1 and q:
            ln = q[0]
            if a[0] > ln:
                q.pop(0)
            if min(abs(a[0] - ln), abs(a[0] - 1 - ln), abs(a[0] - 1 - vsize(ln) - ln)) <= 3:
                return True
        elif t == 2:
            if abs(1 + (vsize(a[2]) if a[0] else 0) + a[2] - lm) <= 1:
                return True
        elif t == 4:
            q = []
        elif t == 5:
            rem = a[0]
            n = 0
            while q and rem > q[0]:
                ln = q.pop(0)
                rem -= (1 + vsize(ln) + ln) if rem - ln >= 1 + vsize(ln) else rem
                n += 1
            if n >= 2:
                return True
    return False


def nontrivial(case):
    return _near(case)


def hist(case):
    pm = int(case.cfg[0])
    lm = int(case.cfg[1])
    lab = ["peer_max:%s" % ("0" if pm == 0 else "<64" if pm < 64 else "<=1200" if pm <= 1200 else "big"),
           "local_max:%s" % ("0" if lm == 0 else "<64" if lm < 64 else "<=1200" if lm <= 1200 else "big")]
    q = []
    for t, a in case.ops:
        lab.append("op:%s" % ("send", "load", "recvframe", "read", "connerr", "loadall")[t])
        if t == 0:
            lab.append("send:%s" % ("accepted" if accepts(pm, a[1]) else "refused"))
            lab.append("len:%s" % ("0" if a[1] == 0 else "<64" if a[1] < 64 else "<16384" if a[1] < 16384 else ">=16384"))
            if accepts(pm, a[1]):
                q.append(a[1])
        elif t == 1:
            if not q:
                lab.append("load:empty")
            elif a[0] <= q[0]:
                lab.append("load:noroom")
            else:
                ln = q.pop(0)
                lab.append("load:%s" % ("withlen" if a[0] - ln >= 1 + vsize(ln) else "nolen-pad%d" % min(a[0] - ln - 1, 9)))
            lab.append("deliver:%d" % (1 if a[1] else 0))
        elif t == 2:
            lab.append("recv:%s" % ("violation" if 1 + (vsize(a[2]) if a[0] else 0) + a[2] > lm else "ok"))
        elif t == 4:
            q = []
        elif t == 5:
            rem = a[0]
            n = 0
            while q and rem > q[0]:
                ln = q.pop(0)
                rem -= (1 + vsize(ln) + ln) if rem - ln >= 1 + vsize(ln) else rem
                n += 1
            lab.append("loadall:%d" % min(n, 4))
    return lab


LIMITS = [0, 1, 2, 3, 5, 10, 63, 64, 65, 66, 67, 100, 1200, 16383, 16384, 16385, 16386, 16387, 16388, 65535]


def gen_random(rng, n, prefix):
    cases = []
    for i in range(n):
        pm = rng.choice(LIMITS) if rng.random() < 0.8 else rng.randint(0, 300)
        r = rng.random()
        lm = pm if r < 0.6 else rng.choice(LIMITS) if r < 0.9 else rng.randint(0, 300)
        ops = []
        q = []
        off = 0
        for _ in range(rng.randint(1, 12)):
            r = rng.random()
            if r < 0.35:
                m = rng.random()
                if m < 0.45 and (pm <= 2000 or rng.random() < 0.04):
                    ln = max(0, pm - 1 - vsize(max(pm - 2, 0)) + rng.randint(-3, 3))
                elif m < 0.6:
                    ln = rng.choice([0, 1, 2, 61, 62, 63, 64, 65, 66])
                elif m < 0.7 and pm > 16000 and rng.random() < 0.1:
                    ln = rng.choice([16381, 16382, 16383, 16384, 16385])
                else:
                    ln = rng.randint(0, min(max(pm, 4) + 3, 400))
                ops.append((0, [off, ln]))
                if accepts(pm, ln):
                    q.append(ln)
                off += ln + rng.randint(0, 3)
            elif r < 0.7:
                ln = q[0] if q else rng.randint(0, 20)
                m = rng.random()
                if m < 0.3:
                    rem = ln + 1 + vsize(ln) + rng.randint(-3, 3)
                elif m < 0.55:
                    rem = ln + 1 + rng.randint(-3, 3)
                elif m < 0.7:
                    rem = ln + rng.randint(-3, 3)
                elif m < 0.85:
                    rem = rng.choice([0, 1, 2, 8, 9, 10, 1200, 1452, 65535])
                else:
                    rem = rng.randint(0, ln + 20)
                rem = max(0, rem)
                if q and rem > q[0]:
                    q.pop(0)
                ops.append((1, [rem, 0 if rng.random() < 0.3 else 1]))
            elif r < 0.82:
                wl = rng.randint(0, 1)
                m = rng.random()
                if m < 0.6 and (lm <= 2000 or rng.random() < 0.04):
                    ln = max(0, lm - 1 - (vsize(max(lm - 2, 0)) if wl else 0) + rng.randint(-3, 3))
                else:
                    ln = rng.randint(0, min(lm + 5, 400))
                ops.append((2, [wl, rng.randint(0, 5000), ln]))
            elif r < 0.88:
                tot = sum(1 + vsize(x) + x for x in q[:4])
                rem = max(0, rng.choice([tot, tot + rng.randint(-4, 4), rng.randint(0, tot + 10), 1200]))
                while q and rem > q[0]:
                    x = q.pop(0)
                    rem -= (1 + vsize(x) + x) if rem - x >= 1 + vsize(x) else rem
                ops.append((5, [max(0, rng.choice([tot, tot + rng.randint(-4, 4), rng.randint(0, tot + 10), 1200])), 0 if rng.random() < 0.25 else 1]))
                q = []   # estimate lost; the oracle keeps the exact queue
            elif r < 0.97:
                ops.append((3, []))
            else:
                ops.append((4, []))
                q = []
        ops.append((3, []))
        cases.append(Case("%s%d" % (prefix, i), ops, cfg=[pm, lm]))
    return cases


def gen_exhaustive(maxpm, prefix, extra_lens=()):
    """every peer_max in 0..maxpm (local = peer): every datagram size 0..peer_max+1 (+extra), every remaining-space
    value from 0 to 1+varint+len+3, delivered and lost; then a READ"""
    cases = []
    n = 0
    for pm in list(range(0, maxpm + 1)):
        for ln in list(range(0, pm + 2)) + [x for x in extra_lens if x <= pm + 1]:
            for rem in range(0, ln + 1 + vsize(ln) + 4):
                for dl in (1, 0):
                    ops = [(0, [n % 97, ln]), (1, [rem, dl]), (3, []), (1, [ln + 12, 1]), (3, [])]
                    cases.append(Case("%s%d" % (prefix, n), ops, cfg=[pm, pm]))
                    n += 1
    return cases


def gen_boundaries(prefix, quick=False):
    """varint-width boundaries of the datagram length x all remaining-space values within +-3 of each form's size
    (the 16 KiB lengths are thinned in the quick tier: the extracted model computes every byte in binary N)"""
    cases = []
    n = 0
    for ln in (62, 63, 64, 65, 16382, 16383, 16384, 16385):
        big = ln > 1000
        pms = (ln + 1, ln + 5) if (big and quick) else (ln, ln + 1, ln + 2, ln + 3, ln + 5, 65535)
        ds = (-1, 0, 1) if (big and quick) else range(-3, 4)
        for pm in pms:
            for base in (ln, ln + 1, ln + 1 + vsize(ln)):
                for d in ds:
                    rem = max(0, base + d)
                    ops = [(0, [n % 251, ln]), (1, [rem, 1]), (3, []), (1, [ln + 9, 1]), (3, [])]
                    cases.append(Case("%s%d" % (prefix, n), ops, cfg=[pm, pm]))
                    n += 1
    return cases


def gen_packing(maxlen, prefix):
    """two or three small datagrams, then ONE packet of every size from 0 to past the total: frames follow frames"""
    cases = []
    n = 0
    lens = range(0, maxlen + 1)
    for trio in itertools.product(lens, repeat=2):
        for third in (None, 0, maxlen):
            ls = list(trio) + ([third] if third is not None else [])
            tot = sum(2 + x for x in ls)
            for rem in range(0, tot + 3):
                for dl in ((1, 0) if rem % 5 == 0 else (1,)):
                    ops = []
                    off = n % 89
                    for x in ls:
                        ops.append((0, [off, x]))
                        off += x + 1
                    ops += [(5, [rem, dl])] + [(3, [])] * (len(ls) + 1) + [(5, [tot + 5, 1])] + [(3, [])] * (len(ls) + 1)
                    cases.append(Case("%s%d" % (prefix, n), ops, cfg=[40, 40]))
                    n += 1
    return cases


def gen_order(prefix, rng, count):
    """several datagrams in flight: FIFO order, never merged, loss of arbitrary frames"""
    cases = []
    for i in range(count):
        pm = rng.choice([20, 64, 100, 1200])
        k = rng.randint(2, 6)
        ops = []
        off = 0
        lens = []
        for _ in range(k):
            ln = rng.randint(0, min(pm - 1, 40))
            ops.append((0, [off, ln]))
            lens.append(ln)
            off += ln + 1
        if rng.random() < 0.4:
            ops.append((5, [rng.randint(0, sum(l + 2 for l in lens) + 3), 1]))
        for ln in lens:
            ops.append((1, [ln + rng.choice([1, 2, 3, 5, 50]), rng.choice([0, 1, 1])]))
            if rng.random() < 0.3:
                ops.append((3, []))
        for _ in range(k + 1):
            ops.append((3, []))
        cases.append(Case("%s%d" % (prefix, i), ops, cfg=[pm, pm + 3]))
    return cases


def gen(rng, tier):
    if tier == "quick":
        return (gen_exhaustive(9, "ex-") + gen_packing(3, "pk-") + gen_boundaries("bd-", quick=True) + gen_order("ord-", rng, 300)
                + gen_random(rng, 2500, "r"))
    return (gen_packing(6, "pk-") + gen_exhaustive(40, "ex-", extra_lens=(62, 63, 64, 65)) + gen_exhaustive(70, "ex70-")[-30000:] + gen_boundaries("bd-")
            + gen_order("ord-", rng, 5000) + gen_random(rng, 60000, "r"))


def mutate(rng, case, j):
    ops = [(t, list(a)) for t, a in case.ops]
    cfg = [int(x) for x in case.cfg]
    for _ in range(rng.randint(1, 3)):
        r = rng.random()
        if r < 0.4 and ops:
            k = rng.randrange(len(ops))
            t, a = ops[k]
            if t == 0:
                a[1] = max(0, a[1] + rng.randint(-2, 2))
            elif t in (1, 5):
                a[0] = max(0, a[0] + rng.randint(-3, 3))
            elif t == 2:
                a[2] = max(0, a[2] + rng.randint(-2, 2))
        elif r < 0.6:
            cfg[rng.randrange(2)] = max(0, cfg[rng.randrange(2)] + rng.randint(-2, 2))
        elif r < 0.8:
            ops.insert(rng.randint(0, len(ops)), (rng.choice([1, 5]), [rng.randint(0, 80), 1]))
        else:
            ops.insert(rng.randint(0, len(ops)), (0, [rng.randint(0, 100), rng.randint(0, 70)]))
    ops.append((3, []))
    return Case("m%d" % j, ops, cfg=cfg)


STREAMS = [{
    "name": "datagram", "pkg": "hd", "bin": "impl_datagram",
    "gen": gen, "oracle": oracle, "nontrivial": nontrivial, "hist": hist, "mutate": mutate, "classify": classify,
    "profiles": ("debug",), "profiles_thorough": ("debug", "release"),
    "rule": RULE,
}]
