(* Reader side over histories: what the application reads is, in order, exactly what the incoming side accepted. *)
From Coq Require Import List NArith ZArith Bool Lia.
From GQ Require Import Lib.Base Lib.Slice Lib.VarintN Model.Datagram Proofs.Datagram Proofs.VarintRT Proofs.DatagramRT.
Import ListNotations.
Local Open Scope N_scope.

Arguments N.add : simpl never.
Arguments N.sub : simpl never.

Definition fits_local (lm : N) (f : pframe) : bool :=
  match f with PDatagram wl d => negb (lm <? frame_hdr_size wl (lenN d) + lenN d) end.
Definition pf_payload (f : pframe) : list Z := match f with PDatagram _ d => d end.
(* the frames of a parsed packet that DatagramIncoming::recv_datagram queues *)
Definition pushed (lm : N) (fs : list pframe) : list (list Z) := map pf_payload (filter (fits_local lm) fs).
Definition frames (bs : list Z) : list pframe := snd (parse bs).

Definition arrivals1 (lm : N) (o : dg_op) (out : dg_out) : list (list Z) :=
  match o, out with
  | DLoad _ _, OLoad r (Some _) => pushed lm (frames (wire_bytes r))
  | DLoadAll _ _, OLoadAll rs _ (Some _) => pushed lm (frames (flat_map wire_bytes rs))
  | DRecvFrame wl d, ORecvFrame _ _ _ => pushed lm (frames (frame_bytes wl d))
  | _, _ => []
  end.
Definition reads1 (out : dg_out) : list (list Z) :=
  match out with ORead (ReadSome d) => [d] | _ => [] end.

Fixpoint arrivals (lm : N) (ops : list dg_op) (outs : list dg_out) : list (list Z) :=
  match ops, outs with
  | o :: ops', out :: outs' => arrivals1 lm o out ++ arrivals lm ops' outs'
  | _, _ => []
  end.
Fixpoint reads (outs : list dg_out) : list (list Z) :=
  match outs with out :: outs' => reads1 out ++ reads outs' | [] => [] end.

Lemma recv_all_rq : forall fs s q, rq s = Some q ->
  rq (fst (recv_all s fs)) = Some (q ++ pushed (local_max s) fs) /\ local_max (fst (recv_all s fs)) = local_max s.
Proof.
  induction fs as [| [wl d] fs IH]; intros s q Hq; cbn [recv_all].
  - cbn [fst]. unfold pushed. cbn [filter map]. rewrite app_nil_r. auto.
  - assert (Hr : recv_datagram s wl d =
                 if local_max s <? frame_hdr_size wl (lenN d) + lenN d then (s, RecvViolation)
                 else (mkdg (peer_max s) (local_max s) (wq s) (Some (q ++ [d])), RecvOk))
      by (unfold recv_datagram; rewrite Hq; reflexivity).
    rewrite Hr. unfold pushed. cbn [filter fits_local].
    destruct (local_max s <? frame_hdr_size wl (lenN d) + lenN d) eqn:El; cbn [negb].
    + specialize (IH s q Hq). destruct (recv_all s fs) as [s2 rs]. exact IH.
    + set (s1 := mkdg (peer_max s) (local_max s) (wq s) (Some (q ++ [d]))).
      specialize (IH s1 (q ++ [d]) eq_refl). destruct (recv_all s1 fs) as [s2 rs]. cbn [fst] in *.
      destruct IH as [I1 I2]. cbn [local_max s1] in *. split; [| exact I2].
      rewrite I1. cbn [map pf_payload]. unfold pushed. rewrite <- app_assoc. reflexivity.
Qed.

Lemma recv_all_closed : forall fs s, rq s = None ->
  rq (fst (recv_all s fs)) = None /\ local_max (fst (recv_all s fs)) = local_max s.
Proof.
  induction fs as [| [wl d] fs IH]; intros s Hq; cbn [recv_all]; [auto |].
  assert (Hr : recv_datagram s wl d = (s, RecvClosed)) by (unfold recv_datagram; rewrite Hq; reflexivity).
  rewrite Hr. specialize (IH s Hq). destruct (recv_all s fs) as [s2 rs]. exact IH.
Qed.

Lemma deliver_bytes_rq s bs :
  local_max (fst (deliver_bytes s bs)) = local_max s /\
  match rq s with
  | Some q => rq (fst (deliver_bytes s bs)) = Some (q ++ pushed (local_max s) (frames bs))
  | None => rq (fst (deliver_bytes s bs)) = None
  end.
Proof.
  unfold deliver_bytes, frames. destruct (parse bs) as [[ok npad] fs]. cbn [snd].
  destruct (rq s) as [q |] eqn:Eq.
  - pose proof (recv_all_rq fs s q Eq) as [H1 H2]. destruct (recv_all s fs) as [s' rs]. auto.
  - pose proof (recv_all_closed fs s Eq) as [H1 H2]. destruct (recv_all s fs) as [s' rs]. auto.
Qed.

Lemma load_rq s rem : rq (fst (load s rem)) = rq s /\ local_max (fst (load s rem)) = local_max s.
Proof.
  unfold load. destruct (wq s) as [[| d q] |]; cbn [fst]; auto.
  destruct (load_choice rem d); cbn [fst rq local_max]; auto.
Qed.

Lemma load_all_rq s rem : rq (fst (fst (load_all s rem))) = rq s /\ local_max (fst (fst (load_all s rem))) = local_max s.
Proof.
  unfold load_all. destruct (wq s) as [q |]; cbn [fst]; auto.
  destruct (load_all_q q rem) as [[rs qf] last]. cbn [fst rq local_max]. auto.
Qed.

(* one step on the incoming queue; [None] stands for the closed state *)
Lemma dg_exec_reads s o s' out :
  dg_exec s o = (s', out) ->
  local_max s' = local_max s /\
  match rq s with
  | Some q =>
      match rq s' with
      | Some q' => reads1 out ++ q' = q ++ arrivals1 (local_max s) o out
      | None => o = DConnErr
      end
  | None => rq s' = None /\ reads1 out = []
  end.
Proof.
  intro E. destruct o as [d | rem dl | rem dl | wl d | | ]; cbn [dg_exec] in E.
  - (* send keeps the incoming side *)
    assert (H : rq (fst (send s d)) = rq s /\ local_max (fst (send s d)) = local_max s).
    { unfold send. destruct (peer_max s =? 0); [auto |]. destruct (wq s); [| auto].
      destruct (peer_max s <? _); cbn [fst rq local_max]; auto. }
    destruct (send s d) as [s1 r]. injection E as <- <-. cbn [fst] in H. destruct H as [H1 H2].
    split; [exact H2 |]. rewrite H1. cbn [reads1 arrivals1 app]. destruct (rq s); [rewrite app_nil_r |]; auto.
  - pose proof (load_rq s rem) as [L1 L2]. destruct (load s rem) as [s1 r]. cbn [fst] in L1, L2.
    assert (Hnone : (s1, OLoad r None) = (s', out) ->
              local_max s' = local_max s /\
              match rq s with
              | Some q => match rq s' with Some q' => reads1 out ++ q' = q ++ arrivals1 (local_max s) (DLoad rem dl) out | None => DLoad rem dl = DConnErr end
              | None => rq s' = None /\ reads1 out = [] end).
    { intros E'. injection E' as <- <-. split; [exact L2 |]. rewrite L1. cbn [reads1 arrivals1 app].
      destruct (rq s); [rewrite app_nil_r |]; auto. }
    destruct r as [ | | | wl npad d | site]; try (apply (Hnone E)).
    destruct dl; [| apply (Hnone E)].
    pose proof (deliver_bytes_rq s1 (wire_bytes (LFrame wl npad d))) as [D1 D2].
    destruct (deliver_bytes s1 (wire_bytes (LFrame wl npad d))) as [s2 dv]. injection E as <- <-. cbn [fst] in *.
    split; [congruence |]. rewrite L1 in D2. cbn [reads1 arrivals1 app]. rewrite <- L2.
    destruct (rq s); [rewrite D2; reflexivity | auto].
  - pose proof (load_all_rq s rem) as [L1 L2]. destruct (load_all s rem) as [[s1 rs] last]. cbn [fst] in L1, L2.
    assert (Hnone : (s1, OLoadAll rs last None) = (s', out) ->
              local_max s' = local_max s /\
              match rq s with
              | Some q => match rq s' with Some q' => reads1 out ++ q' = q ++ arrivals1 (local_max s) (DLoadAll rem dl) out | None => DLoadAll rem dl = DConnErr end
              | None => rq s' = None /\ reads1 out = [] end).
    { intros E'. injection E' as <- <-. split; [exact L2 |]. rewrite L1. cbn [reads1 arrivals1 app].
      destruct (rq s); [rewrite app_nil_r |]; auto. }
    destruct rs as [| r rs']; [apply (Hnone E) |]. destruct dl; [| apply (Hnone E)].
    pose proof (deliver_bytes_rq s1 (flat_map wire_bytes (r :: rs'))) as [D1 D2].
    destruct (deliver_bytes s1 (flat_map wire_bytes (r :: rs'))) as [s2 dv]. injection E as <- <-. cbn [fst] in *.
    split; [congruence |]. rewrite L1 in D2. cbn [reads1 arrivals1 app]. rewrite <- L2.
    destruct (rq s); [rewrite D2; reflexivity | auto].
  - pose proof (deliver_bytes_rq s (frame_bytes wl d)) as [D1 D2].
    destruct (deliver_bytes s (frame_bytes wl d)) as [s2 [[ok npad] rs]]. injection E as <- <-. cbn [fst] in *.
    split; [exact D1 |]. cbn [reads1 arrivals1 app]. destruct (rq s); [rewrite D2; reflexivity | auto].
  - unfold read in E. destruct (local_max s =? 0).
    + injection E as <- <-. split; [reflexivity |]. cbn [reads1 arrivals1 app]. destruct (rq s); [rewrite app_nil_r |]; auto.
    + destruct (rq s) as [[| d q1] |] eqn:Eq; injection E as <- <-; cbn [local_max rq reads1 arrivals1 app];
        rewrite ?Eq; (split; [reflexivity |]); rewrite ?app_nil_r; auto.
  - injection E as <- <-. cbn [conn_error local_max rq reads1]. split; [reflexivity |]. destruct (rq s); auto.
Qed.

Lemma reads_closed s ops s' outs :
  dg_execs s ops = (s', outs) -> rq s = None -> reads outs = [] /\ rq s' = None.
Proof.
  revert s s' outs. induction ops as [| o ops IH]; intros s s' outs E Hc; cbn [dg_execs] in E.
  - injection E as <- <-. auto.
  - destruct (dg_exec s o) as [s1 out] eqn:E1. destruct (dg_execs s1 ops) as [s2 outs2] eqn:E2. injection E as <- <-.
    destruct (dg_exec_reads _ _ _ _ E1) as [_ H]. rewrite Hc in H. destruct H as [H1 H2].
    destruct (IH _ _ _ E2 H1) as [I1 I2]. cbn [reads]. rewrite H2, I1. auto.
Qed.

Lemma dg_execs_reads s ops s' outs q :
  dg_execs s ops = (s', outs) -> rq s = Some q ->
  prefix (reads outs) (q ++ arrivals (local_max s) ops outs) /\
  (forall q', rq s' = Some q' -> reads outs ++ q' = q ++ arrivals (local_max s) ops outs).
Proof.
  revert s s' outs q. induction ops as [| o ops IH]; intros s s' outs q E Hq; cbn [dg_execs] in E.
  - injection E as <- <-. cbn [reads arrivals]. split.
    + exists q. rewrite app_nil_r. reflexivity.
    + intros q' Hq'. rewrite Hq in Hq'. injection Hq' as <-. rewrite app_nil_r. reflexivity.
  - destruct (dg_exec s o) as [s1 out] eqn:E1. destruct (dg_execs s1 ops) as [s2 outs2] eqn:E2. injection E as <- <-.
    destruct (dg_exec_reads _ _ _ _ E1) as [Hlm Hstep]. rewrite Hq in Hstep. cbn [reads arrivals].
    destruct (rq s1) as [q1 |] eqn:Eq1.
    + destruct (IH _ _ _ _ E2 Eq1) as [[rest Hp] Hfin]. rewrite Hlm in *. split.
      * exists rest. rewrite (app_assoc q), <- Hstep, <- (app_assoc (reads1 out) q1), Hp, (app_assoc (reads1 out)). reflexivity.
      * intros q' Hq'. specialize (Hfin q' Hq').
        rewrite <- (app_assoc (reads1 out)), Hfin, (app_assoc (reads1 out)), Hstep, <- app_assoc. reflexivity.
    + subst o. destruct (reads_closed _ _ _ _ E2 Eq1) as [Hr Hc2]. injection E1 as <- <-.
      rewrite Hr. cbn [reads1 arrivals1 app]. split; [exists (q ++ arrivals (local_max s) ops outs2); reflexivity |].
      intros q' Hq'. rewrite Hc2 in Hq'. discriminate.
Qed.

(* c19_reads_in_order *)
Lemma p_c19_reads_in_order : forall pm lm ops s' outs,
  dg_execs (dg_init pm lm) ops = (s', outs) ->
  prefix (reads outs) (arrivals lm ops outs) /\
  (forall q', rq s' = Some q' -> reads outs ++ q' = arrivals lm ops outs).
Proof. intros pm lm ops s' outs E. apply (dg_execs_reads _ _ _ _ [] E). reflexivity. Qed.

(* what one delivered frame contributes: itself if within the local maximum, nothing otherwise *)
Lemma p_c19_arrival_single : forall lm wl npad d,
  lenN d < VARINT_MAX ->
  pushed lm (frames (wire_bytes (LFrame wl npad d))) =
    if lm <? frame_hdr_size wl (lenN d) + lenN d then [] else [d].
Proof.
  intros lm wl npad d Hl. unfold frames. rewrite (p_c19_roundtrip wl npad d Hl). cbn [snd].
  unfold pushed. cbn [filter fits_local]. destruct (lm <? frame_hdr_size wl (lenN d) + lenN d); reflexivity.
Qed.
