(* Round-trip and size proofs for the frame codec (property C05) *)
From Coq Require Import List ZArith NArith Bool Lia.
From GQ Require Import Lib.Wire Model.Varint Model.Frames Proofs.Wire.
Import ListNotations.
Local Open Scope Z_scope.

Ltac Zify.zify_post_hook ::= Z.div_mod_to_equations.

(* ------------------------------------------------------------------ frame type table *)

Lemma ft_roundtrip : forall t, ft_of_code (code_of_ft t) = Some t.
Proof. intro t; destruct t; try (destruct off, len, fin); try (destruct ecn); try (destruct uni);
       try (destruct app); try (destruct with_len); try (destruct v6); vm_compute; reflexivity. Qed.

Lemma ft_code_ok : forall t, varint_ok (code_of_ft t).
Proof. intro t; unfold varint_ok; destruct t; try (destruct off, len, fin); try (destruct ecn); try (destruct uni);
       try (destruct app); try (destruct with_len); try (destruct v6); vm_compute; split; congruence. Qed.

(* codes are unique in the decoding table: decoding is injective on valid codes *)
Lemma ft_lookup_sound : forall tbl v t, ft_lookup tbl v = Some t -> In (v, t) tbl.
Proof.
  induction tbl as [|[c t'] r IH]; intros v t H; cbn [ft_lookup] in H; [discriminate|].
  destruct (Z.eqb_spec c v) as [->|NE]; [injection H as <-; now left|right; auto].
Qed.

Lemma ft_decode_encode : forall v t, ft_of_code v = Some t -> code_of_ft t = v.
Proof.
  intros v t H. apply ft_lookup_sound in H. unfold ft_decode_table in H.
  repeat (destruct H as [H|H]; [injection H as <- <-; reflexivity|]). destruct H.
Qed.

(* every accepted error-kind code is a varint *)
Lemma error_kind_valid_ok k : error_kind_valid k = true -> varint_ok k.
Proof.
  unfold error_kind_valid. intro H. apply existsb_exists in H. destruct H as [[lo hi] [Hin Hr]].
  cbn [fst snd] in Hr. apply andb_true_iff in Hr. destruct Hr as [H1 H2].
  apply Z.leb_le in H1. apply Z.leb_le in H2.
  assert (Hall : Forall (fun r => 0 <= fst r /\ snd r < 2 ^ 62) error_kind_ranges)
    by (unfold error_kind_ranges; repeat constructor; cbn [fst snd]; lia).
  rewrite Forall_forall in Hall. specialize (Hall _ Hin). cbn [fst snd] in Hall. unfold varint_ok. lia.
Qed.

(* standard (non-extension) frame types take one byte, extension types four *)
Definition is_ext (t : ftype) : bool :=
  match t with TAddAddress _ | TRemoveAddress | TPunchMeNow _ | TPunchHello | TPunchDone => true | _ => false end.

Lemma ft_size_std : forall t, is_ext t = false -> ft_size t = 1.
Proof. intro t; destruct t; try (destruct off, len, fin); try (destruct ecn); try (destruct uni);
       try (destruct app); try (destruct with_len); try (destruct v6); cbn [is_ext]; intro H; try discriminate; vm_compute; reflexivity. Qed.

Lemma ft_size_ext : forall t, is_ext t = true -> ft_size t = 4.
Proof. intro t; destruct t; try (destruct v6); cbn [is_ext]; intro H; try discriminate; vm_compute; reflexivity. Qed.

(* ------------------------------------------------------------------ list / primitive lemmas *)

Lemma zlen_app {A} (a b : list A) : zlen (a ++ b) = zlen a + zlen b.
Proof. unfold zlen. rewrite app_length. lia. Qed.
Lemma zlen_cons {A} (x : A) l : zlen (x :: l) = 1 + zlen l.
Proof. unfold zlen. cbn [length]. lia. Qed.
Lemma zlen_nil {A} : zlen (@nil A) = 0.
Proof. reflexivity. Qed.
Lemma zlen_nonneg {A} (l : list A) : 0 <= zlen l.
Proof. unfold zlen. lia. Qed.

Lemma firstn_zlen_app {A} (d r : list A) : firstn (Z.to_nat (zlen d)) (d ++ r) = d.
Proof.
  unfold zlen. rewrite Nat2Z.id, firstn_app, Nat.sub_diag. cbn [firstn].
  rewrite app_nil_r. apply firstn_all.
Qed.
Lemma skipn_zlen_app {A} (d r : list A) : skipn (Z.to_nat (zlen d)) (d ++ r) = r.
Proof.
  unfold zlen. rewrite Nat2Z.id, skipn_app, Nat.sub_diag. cbn [skipn].
  rewrite skipn_all. reflexivity.
Qed.

Lemma firstn_zlen {A} (d : list A) : firstn (Z.to_nat (zlen d)) d = d.
Proof. unfold zlen. rewrite Nat2Z.id. apply firstn_all. Qed.
Lemma skipn_zlen {A} (d : list A) : skipn (Z.to_nat (zlen d)) d = [].
Proof. unfold zlen. rewrite Nat2Z.id. apply skipn_all. Qed.

Lemma take_s_app (d r : list Z) n : n = zlen d -> take_s n (d ++ r) = Ok d r.
Proof.
  intros ->. unfold take_s. rewrite zlen_app.
  destruct (Z.ltb_spec (zlen d + zlen r) (zlen d)); [pose proof (zlen_nonneg r); lia|].
  now rewrite firstn_zlen_app, skipn_zlen_app.
Qed.
Lemma take_c_app (d r : list Z) n : n = zlen d -> take_c n (d ++ r) = Ok d r.
Proof.
  intros ->. unfold take_c. rewrite zlen_app.
  destruct (Z.ltb_spec (zlen d + zlen r) (zlen d)); [pose proof (zlen_nonneg r); lia|].
  now rewrite firstn_zlen_app, skipn_zlen_app.
Qed.

Lemma be_uint_c_put n v r : 0 <= v < 256 ^ Z.of_nat n -> be_uint_c n (put_be n v ++ r) = Ok v r.
Proof. intro H. unfold be_uint_c. now rewrite get_be_put_be_exact. Qed.
Lemma be_uint_s_put n v r : 0 <= v < 256 ^ Z.of_nat n -> be_uint_s n (put_be n v ++ r) = Ok v r.
Proof. intro H. unfold be_uint_s. now rewrite get_be_put_be_exact. Qed.

Lemma put_be_1 v : 0 <= v < 256 -> put_be 1 v = [v].
Proof. intro H. cbn [put_be]. change (256 ^ Z.of_nat 0) with 1. rewrite Z.div_1_r, Z.mod_small by lia. reflexivity. Qed.

(* ------------------------------------------------------------------ well-formed values *)

Definition len_ok (l : list Z) : Prop := zlen l < 2 ^ 32.

Fixpoint ranges_ok (rs : list (Z * Z)) : Prop :=
  match rs with [] => True | (g, a) :: r => varint_ok g /\ varint_ok a /\ ranges_ok r end.

Definition addr_ok (v6 : bool) (port ip : Z) : Prop :=
  0 <= port < 2 ^ 16 /\ 0 <= ip < (if v6 then 2 ^ 128 else 2 ^ 32).

Definition wf_frame (f : frame) : Prop :=
  match f with
  | Padding | Ping | HandshakeDone => True
  | Ack l d fr rs e =>
      varint_ok l /\ varint_ok d /\ varint_ok fr /\ ranges_ok rs /\ varint_ok (zlen rs) /\
      match e with Some (a, b, c) => varint_ok a /\ varint_ok b /\ varint_ok c | None => True end /\
      ack_valid l fr rs = true
  | ResetStream s e fs => varint_ok s /\ varint_ok e /\ varint_ok fs
  | StopSending s e => varint_ok s /\ varint_ok e
  | Crypto off d => varint_ok off /\ off + zlen d <= VARINT_MAX
  | NewToken t => len_ok t
  | Stream s off _ _ d => varint_ok s /\ varint_ok off /\ off + zlen d <= VARINT_MAX /\ len_ok d
  | MaxData v | DataBlocked v | RetireConnectionId v | RemoveAddress v => varint_ok v
  | MaxStreamData s v | StreamDataBlocked s v => varint_ok s /\ varint_ok v
  | MaxStreams _ v => 0 <= v <= MAX_STREAMS_LIMIT
  | StreamsBlocked _ v => varint_ok v
  | NewConnectionId seq rpt cid tok =>
      varint_ok seq /\ 0 <= rpt <= seq /\ 1 <= zlen cid <= MAX_CID_SIZE /\ zlen tok = RESET_TOKEN_SIZE
  | PathChallenge d | PathResponse d => zlen d = 8
  | CloseQuic k ft r => error_kind_valid k = true /\ (exists t, ft_of_code ft = Some t) /\ zlen r < 2 ^ 14
  | CloseApp c r => varint_ok c /\ zlen r < 2 ^ 14
  | Datagram _ d => varint_ok (zlen d)
  | AddAddress v6 seq port ip tire nat =>
      varint_ok seq /\ addr_ok v6 port ip /\ varint_ok tire /\ 0 <= nat <= 5
  | PunchMeNow v6 l r port ip tire nat =>
      varint_ok l /\ varint_ok r /\ addr_ok v6 port ip /\ varint_ok tire /\ 0 <= nat <= 5
  | PunchHello l r p | PunchDone l r p => varint_ok l /\ varint_ok r /\ varint_ok p
  end.

(* frames without an explicit length extend to the end of the packet: they must come last *)
Definition tail_ok (f : frame) (rest : list Z) : Prop :=
  match f with
  | Stream _ _ false _ _ | Datagram false _ => rest = []
  | _ => True
  end.

(* ------------------------------------------------------------------ helper round trips *)

Lemma put_ranges_len rs : ranges_ok rs -> zlen rs <= zlen (put_ranges rs).
Proof.
  induction rs as [|[g a] r IH]; cbn [ranges_ok put_ranges]; intro H; [unfold zlen; cbn; lia|].
  destruct H as (Hg & Ha & Hr). rewrite !zlen_app, zlen_cons, !put_varint_length.
  pose proof (varint_size_pos g). pose proof (varint_size_pos a). specialize (IH Hr). lia.
Qed.

Lemma be_ranges_rt rs : forall fuel rest, ranges_ok rs -> (length rs < fuel)%nat ->
  be_ranges (length rs) fuel (put_ranges rs ++ rest) = Ok rs rest.
Proof.
  induction rs as [|[g a] r IH]; intros fuel rest H Hf.
  - destruct fuel; [inversion Hf|]. reflexivity.
  - destruct fuel as [|fuel]; [inversion Hf|]. cbn [length] in *. cbn [ranges_ok put_ranges] in *.
    destruct H as (Hg & Ha & Hr).
    cbn [be_ranges]. unfold bind at 1. rewrite <- ?app_assoc. rewrite be_varint_put_varint by assumption.
    unfold bind at 1. rewrite be_varint_put_varint by assumption.
    unfold bind at 1. rewrite IH by (assumption || lia). reflexivity.
Qed.

Lemma be_cid_rt cid rest : 0 <= zlen cid <= MAX_CID_SIZE -> be_cid (put_cid cid ++ rest) = Ok cid rest.
Proof.
  unfold MAX_CID_SIZE. intro H. unfold be_cid, put_cid. unfold bind at 1.
  cbn [app]. unfold be_uint_s. cbn [get_be]. rewrite Z.mul_0_l, Z.add_0_l.
  unfold MAX_CID_SIZE. destruct (Z.ltb_spec 20 (zlen cid)); [lia|].
  apply take_s_app. reflexivity.
Qed.

Lemma be_addr_rt v6 port ip rest : addr_ok v6 port ip ->
  be_addr v6 (put_addr v6 port ip ++ rest) = Ok (port, ip) rest.
Proof.
  intros [Hp Hi]. unfold be_addr, put_addr. rewrite <- app_assoc.
  unfold bind at 1. rewrite be_uint_c_put by (change (256 ^ Z.of_nat 2) with (2^16); lia).
  unfold bind at 1. destruct v6.
  - rewrite be_uint_c_put by (change (256 ^ Z.of_nat 16) with (2^128); lia). reflexivity.
  - rewrite be_uint_c_put by (change (256 ^ Z.of_nat 4) with (2^32); lia). reflexivity.
Qed.

Lemma be_nat_rt n rest : 0 <= n <= 5 -> be_nat (put_varint n ++ rest) = Ok n rest.
Proof.
  intro H. unfold be_nat. unfold bind at 1. rewrite be_varint_put_varint by (unfold varint_ok; lia).
  unfold nat_type_of. rewrite Z.mod_small by lia. destruct (Z.leb_spec n 5); [reflexivity|lia].
Qed.

Lemma mod32 l : len_ok l -> zlen l mod 2 ^ 32 = zlen l.
Proof. unfold len_ok. intro H. pose proof (zlen_nonneg l). apply Z.mod_small. lia. Qed.

Lemma len_varint_ok l : len_ok l -> varint_ok (zlen l).
Proof. unfold len_ok, varint_ok. pose proof (zlen_nonneg l). lia. Qed.

Ltac vstep := unfold bind at 1; rewrite be_varint_put_varint by (assumption || (unfold varint_ok in *; lia)).

(* ------------------------------------------------------------------ body round trip *)

Lemma body_rt f rest : wf_frame f -> tail_ok f rest ->
  be_body (frame_type f) (skipn (length (put_ft (frame_type f))) (put_frame f) ++ rest) = Ok f rest.
Proof.
  intros Hwf Htl. unfold put_frame. rewrite skipn_app, skipn_all, Nat.sub_diag. cbn [app skipn].
  destruct f; cbn [frame_type be_body wf_frame tail_ok] in *.
  - reflexivity.
  - reflexivity.
  - reflexivity.
  - (* Ack *)
    destruct Hwf as (H1 & H2 & H3 & H4 & H5 & H6 & Hav). unfold bind at 1. unfold be_ack. rewrite <- ?app_assoc.
    do 4 vstep.
    match goal with |- context [put_ranges ranges ++ ?t] => set (tl := t) end.
    assert (Hmin : Z.to_nat (Z.min (zlen ranges) (zlen (put_ranges ranges ++ tl) + 1)) = length ranges).
    { rewrite zlen_app. pose proof (put_ranges_len _ H4). pose proof (zlen_nonneg tl).
      rewrite Z.min_l by lia. unfold zlen. now rewrite Nat2Z.id. }
    rewrite Hmin. unfold bind at 1.
    rewrite be_ranges_rt; [|assumption|].
    2:{ rewrite app_length. pose proof (put_ranges_len _ H4). unfold zlen in *. lia. }
    unfold tl.
    destruct ecn as [[[a b] c]|].
    + destruct H6 as (Ha & Hb & Hc). rewrite <- ?app_assoc. do 3 vstep.
      unfold ret at 1. cbn [ack_verify]. rewrite Hav. reflexivity.
    + unfold ret at 1. cbn [ack_verify]. rewrite Hav. reflexivity.
  - destruct Hwf as (H1 & H2 & H3). rewrite <- ?app_assoc. do 3 vstep. reflexivity.
  - destruct Hwf as (H1 & H2). rewrite <- ?app_assoc. do 2 vstep. reflexivity.
  - (* Crypto *)
    destruct Hwf as (H1 & H2). rewrite <- ?app_assoc. vstep.
    unfold bind at 1. rewrite be_varint_put_varint by (unfold varint_ok, VARINT_MAX in *; pose proof (zlen_nonneg data); lia).
    destruct (Z.ltb_spec VARINT_MAX (off + zlen data)); [lia|].
    rewrite zlen_app. destruct (Z.ltb_spec (zlen data + zlen rest) (zlen data)); [pose proof (zlen_nonneg rest); lia|].
    now rewrite firstn_zlen_app, skipn_zlen_app.
  - (* NewToken *)
    rewrite (mod32 _ Hwf). rewrite <- ?app_assoc. unfold bind at 1.
    rewrite be_varint_put_varint by (now apply len_varint_ok).
    unfold bind at 1. rewrite take_s_app by reflexivity. reflexivity.
  - (* Stream *)
    destruct Hwf as (H1 & H2 & H3 & H4). rewrite <- ?app_assoc. vstep.
    destruct (Z.eqb_spec off 0) as [E0|NE0]; cbn [negb app].
    + unfold bind at 1. unfold ret at 1. subst off.
      destruct len_bit.
      * rewrite (mod32 _ H4). rewrite <- ?app_assoc. rewrite be_varint_put_varint by (now apply len_varint_ok).
        destruct (Z.ltb_spec VARINT_MAX (0 + zlen data)); [lia|].
        rewrite zlen_app. destruct (Z.ltb_spec (zlen data + zlen rest) (zlen data)); [pose proof (zlen_nonneg rest); lia|].
        now rewrite firstn_zlen_app, skipn_zlen_app.
      * subst rest. cbn [app]. rewrite app_nil_r.
        destruct (Z.ltb_spec VARINT_MAX (0 + zlen data)); [lia|].
        destruct (Z.ltb_spec (zlen data) (zlen data)); [lia|].
        rewrite firstn_zlen, skipn_zlen. reflexivity.
    + rewrite <- ?app_assoc. vstep.
      destruct len_bit.
      * rewrite (mod32 _ H4). rewrite <- ?app_assoc. rewrite be_varint_put_varint by (now apply len_varint_ok).
        destruct (Z.ltb_spec VARINT_MAX (off + zlen data)); [lia|].
        rewrite zlen_app. destruct (Z.ltb_spec (zlen data + zlen rest) (zlen data)); [pose proof (zlen_nonneg rest); lia|].
        now rewrite firstn_zlen_app, skipn_zlen_app.
      * subst rest. cbn [app]. rewrite app_nil_r.
        destruct (Z.ltb_spec VARINT_MAX (off + zlen data)); [lia|].
        destruct (Z.ltb_spec (zlen data) (zlen data)); [lia|].
        rewrite firstn_zlen, skipn_zlen. reflexivity.
  - vstep. reflexivity.
  - destruct Hwf as (H1 & H2). rewrite <- ?app_assoc. do 2 vstep. reflexivity.
  - (* MaxStreams *)
    unfold MAX_STREAMS_LIMIT in *. unfold bind at 1. rewrite be_varint_put_varint by (unfold varint_ok; lia).
    destruct (Z.ltb_spec (2 ^ 60 - 1) v); [lia|]. reflexivity.
  - vstep. reflexivity.
  - destruct Hwf as (H1 & H2). rewrite <- ?app_assoc. do 2 vstep. reflexivity.
  - vstep. reflexivity.
  - (* NewConnectionId *)
    destruct Hwf as (H1 & H2 & H3 & H4). unfold be_new_cid. rewrite <- ?app_assoc. vstep.
    unfold bind at 1. rewrite be_varint_put_varint by (unfold varint_ok in *; lia).
    destruct (Z.ltb_spec seq rpt); [lia|].
    unfold bind at 1. rewrite be_cid_rt by lia.
    destruct cid as [|c0 cid']; [unfold zlen in H3; cbn in H3; lia|].
    unfold bind at 1. rewrite take_c_app; [reflexivity|]. lia.
  - vstep. reflexivity.
  - unfold bind at 1. rewrite take_s_app; [reflexivity|lia].
  - unfold bind at 1. rewrite take_c_app; [reflexivity|lia].
  - (* CloseQuic *)
    destruct Hwf as (H1 & (t & H2) & H3). unfold be_close_quic. rewrite <- ?app_assoc.
    unfold bind at 1. rewrite be_varint_put_varint.
    2:{ now apply error_kind_valid_ok. }
    rewrite H1. cbn [negb].
    assert (Hft : varint_ok fty) by (rewrite <- (ft_decode_encode _ _ H2); apply ft_code_ok).
    rewrite be_varint_put_varint by assumption. rewrite H2.
    assert (Hl : len_ok reason) by (unfold len_ok; lia).
    rewrite (mod32 _ Hl). unfold bind at 1. rewrite be_varint_put_varint by (now apply len_varint_ok).
    unfold bind at 1. rewrite take_c_app by reflexivity. reflexivity.
  - (* CloseApp *)
    destruct Hwf as (H1 & H3). unfold be_close_app. rewrite <- ?app_assoc. vstep.
    assert (Hl : len_ok reason) by (unfold len_ok; lia).
    rewrite (mod32 _ Hl). unfold bind at 1. rewrite be_varint_put_varint by (now apply len_varint_ok).
    unfold bind at 1. rewrite take_c_app by reflexivity. reflexivity.
  - (* Datagram *)
    destruct with_len.
    + rewrite <- ?app_assoc. vstep. rewrite zlen_app.
      destruct (Z.ltb_spec (zlen data + zlen rest) (zlen data)); [pose proof (zlen_nonneg rest); lia|].
      now rewrite firstn_zlen_app, skipn_zlen_app.
    + subst rest. cbn [app]. now rewrite app_nil_r.
  - (* AddAddress *)
    destruct Hwf as (H1 & H2 & H3 & H4). rewrite <- ?app_assoc. vstep.
    unfold bind at 1. rewrite be_addr_rt by assumption. vstep.
    unfold bind at 1. rewrite be_nat_rt by assumption. reflexivity.
  - vstep. reflexivity.
  - (* PunchMeNow *)
    destruct Hwf as (H1 & H2 & H3 & H4 & H5). rewrite <- ?app_assoc. do 2 vstep.
    unfold bind at 1. rewrite be_addr_rt by assumption. vstep.
    unfold bind at 1. rewrite be_nat_rt by assumption. reflexivity.
  - destruct Hwf as (H1 & H2 & H3). rewrite <- ?app_assoc. do 3 vstep. reflexivity.
  - destruct Hwf as (H1 & H2 & H3). rewrite <- ?app_assoc. do 3 vstep. reflexivity.
Qed.

(* ------------------------------------------------------------------ the round-trip theorem *)

Lemma put_frame_split f : put_frame f = put_ft (frame_type f) ++ skipn (length (put_ft (frame_type f))) (put_frame f).
Proof.
  unfold put_frame at 1. f_equal. unfold put_frame. rewrite skipn_app, skipn_all, Nat.sub_diag. reflexivity.
Qed.

Lemma p_c05_frame_rt p f rest :
  wf_frame f -> belongs (frame_type f) p = true -> tail_ok f rest ->
  be_frame p (put_frame f ++ rest) = FOk (zlen (put_frame f)) f (frame_type f).
Proof.
  intros Hwf Hb Htl. unfold be_frame.
  assert (E : put_frame f ++ rest =
              put_varint (code_of_ft (frame_type f)) ++ (skipn (length (put_ft (frame_type f))) (put_frame f) ++ rest)).
  { rewrite (put_frame_split f) at 1. rewrite <- app_assoc. reflexivity. }
  rewrite E at 1. rewrite be_varint_put_varint by apply ft_code_ok.
  rewrite ft_roundtrip, Hb. cbn [negb].
  rewrite (body_rt f rest Hwf Htl). f_equal. rewrite zlen_app. lia.
Qed.

(* ------------------------------------------------------------------ sizes *)

Lemma ranges_len rs : zlen (put_ranges rs) = ranges_size rs.
Proof.
  induction rs as [|[g a] r IH]; cbn [put_ranges ranges_size]; [reflexivity|].
  rewrite !zlen_app, !put_varint_length, IH. lia.
Qed.

Lemma ranges_size_bound rs : ranges_size rs <= zlen rs * 16.
Proof.
  induction rs as [|[g a] r IH]; cbn [ranges_size]; [unfold zlen; cbn; lia|].
  rewrite zlen_cons. pose proof (varint_size_pos g). pose proof (varint_size_pos a). lia.
Qed.

Lemma put_be_zlen n v : zlen (put_be n v) = Z.of_nat n.
Proof. unfold zlen. now rewrite put_be_length. Qed.

Lemma put_ft_len t : zlen (put_ft t) = ft_size t.
Proof. unfold put_ft, ft_size. apply put_varint_length. Qed.

Ltac fts := match goal with |- context [ft_size ?t] => first [rewrite (ft_size_std t eq_refl) | rewrite (ft_size_ext t eq_refl)] end.
Ltac szn := rewrite ?zlen_app, ?put_varint_length, ?zlen_nil, ?ranges_len, ?zlen_cons, ?put_be_zlen.
Ltac vsp := repeat match goal with |- context [varint_size ?x] => lazymatch goal with
           | H : 1 <= varint_size x <= 8 |- _ => fail
           | _ => pose proof (varint_size_pos x) end end.

Lemma p_c05_size f : wf_frame f -> zlen (put_frame f) = wire_size f.
Proof.
  intro Hwf. unfold put_frame, wire_size. rewrite zlen_app, put_ft_len.
  destruct f as [ | | | l d fr rs e | s e fs | s e | off data | tok | s off lb fin data | v | s v | u v | v | s v | u v
                | seq rpt cid tok | seq | d | d | k ft r | c r | w data | v6 seq port ip tire nat | seq
                | v6 l r port ip tire nat | l r p | l r p ];
    cbn [frame_type encoding_size wf_frame] in *.
  - fts. szn. lia.
  - fts. szn. lia.
  - fts. szn. lia.
  - fts. szn. destruct e as [[[a b] c]|]; szn; lia.
  - fts. szn. lia.
  - fts. szn. lia.
  - fts. szn. lia.
  - fts. rewrite (mod32 _ Hwf). szn. lia.
  - destruct Hwf as (H1 & H2 & H3 & H4). rewrite (mod32 _ H4).
    fts. destruct (off =? 0), lb; szn; lia.
  - fts. szn. lia.
  - fts. szn. lia.
  - fts. szn. lia.
  - fts. szn. lia.
  - fts. szn. lia.
  - fts. szn. lia.
  - fts. unfold put_cid. szn. destruct Hwf as (_ & _ & _ & H4). lia.
  - fts. szn. lia.
  - fts. szn. lia.
  - fts. szn. lia.
  - fts. destruct Hwf as (_ & _ & H3).
    assert (Hl : len_ok r) by (unfold len_ok; lia). rewrite (mod32 _ Hl). szn. lia.
  - fts. destruct Hwf as (_ & H3).
    assert (Hl : len_ok r) by (unfold len_ok; lia). rewrite (mod32 _ Hl). szn. lia.
  - fts. destruct w; szn; lia.
  - unfold put_addr. szn. destruct v6; lia.
  - szn. lia.
  - unfold put_addr. szn. destruct v6; lia.
  - szn. lia.
  - szn. lia.
Qed.

Lemma reason_vs (r : list Z) : 0 <= zlen r < 2 ^ 14 -> varint_size (zlen r) <= 2.
Proof. intro H. unfold varint_size. destruct (zlen r <? 2^6); [lia|]. destruct (Z.ltb_spec (zlen r) (2^14)); lia. Qed.

Lemma p_c05_max f : wf_frame f -> encoding_size f <= max_encoding_size f.
Proof.
  intro Hwf.
  destruct f as [ | | | l d fr rs e | s e fs | s e | off data | tok | s off lb fin data | v | s v | u v | v | s v | u v
                | seq rpt cid tok | seq | d | d | k ft r | c r | w data | v6 seq port ip tire nat | seq
                | v6 l r port ip tire nat | l r p | l r p ];
    cbn [encoding_size max_encoding_size wf_frame] in *.
  - lia.
  - lia.
  - lia.
  - pose proof (ranges_size_bound rs). destruct e as [[[a b] c]|]; vsp; lia.
  - vsp; lia.
  - vsp; lia.
  - vsp; lia.
  - lia.
  - destruct (off =? 0), lb; vsp; lia.
  - vsp; lia.
  - vsp; lia.
  - vsp; lia.
  - vsp; lia.
  - vsp; lia.
  - vsp; lia.
  - destruct Hwf as (_ & _ & H3 & _). unfold MAX_CID_SIZE, RESET_TOKEN_SIZE in *. vsp; lia.
  - vsp; lia.
  - lia.
  - lia.
  - destruct Hwf as (_ & _ & H3). pose proof (zlen_nonneg r). pose proof (reason_vs r ltac:(lia)). vsp; lia.
  - destruct Hwf as (_ & H3). pose proof (zlen_nonneg r). pose proof (reason_vs r ltac:(lia)). vsp; lia.
  - destruct w; vsp; lia.
  - destruct v6; fts; vsp; lia.
  - fts; vsp; lia.
  - destruct v6; fts; vsp; lia.
  - fts; vsp; lia.
  - fts; vsp; lia.
Qed.
