"""C13 — loss detection and congestion control follow RFC 9002 (qcongestion, driven through ArcCC)."""
import itertools
import vlib
from vlib import Case

PROP_FILE = "Properties/C13.v"
RULE = ("cases = op lists over SENT epoch pn eliciting inflight bytes / ACK epoch delay ecn ranges / ADV dt / TICK / "
        "HS key|ack|confirmed / DISCARD epoch / QUOTA / GRANT on both roles, several MTUs and max_ack_delays; "
        "non-trivial (judged on the implementation's own observations) = at least one may_loss callback, at least one PTO expiry "
        "(pto_count incremented by a TICK) and packets accepted in at least two packet-number spaces; distinct by hash of the op list")
TRUSTED_BASE = [
    "models coq/Model/{NewReno,LossDetect,Pto}.v restate NewReno, PacketSpace and CongestionController/Pacer branch by branch in integer "
    "nanoseconds; the deque index walks (binary search + merge) are restated on a sorted list; equality with the Rust is checked by stream `cc`, not proved",
    "the floating-point RTT filter (Rtt::update/try_backoff_rtt/loss_delay) and the pacer's float refill are NOT modelled: loss_delay, smoothed_rtt, "
    "rttvar and the refill are read from the implementation via ArcCC::verif_snapshot on every operation and fed to the model as inputs "
    "(tools/vlib.py MODEL_INPUT_HOOKS); theorems quantify over them (Section variables / per-step arguments, loss_delay >= 1 ms where needed)",
    "read-only cfg(gmquic_verif) hooks in qcongestion: Control::verif_state, ArcRtt::verif_fields, Pacer::verif_state (+ recording the float rate/refill "
    "of the last schedule), ArcCC::verif_snapshot",
    "harness preconditions mirrored in the model: packet numbers strictly increase per space (journal invariant, C07), ack-eliciting implies in-flight "
    "(qbase frame specs), ACK ranges well formed and descending (AckFrame wire format), Data space never discarded; after TooManyPtos the path is dead (Path::drive)",
]
MODELLED = ("qcongestion/src/algorithm/new_reno.rs (all), packets.rs PacketSpace (sent side), congestion.rs CongestionController + ArcCC Transport "
            "(on_pkt_sent, on_ack_rcvd, do_tick, send_quota, discard_epoch, need_send_ack_eliciting), pacing.rs token bucket (integer part), rtt.rs base_pto; "
            "not modelled: rtt.rs float filter (input), RcvdRecords/need_ack, on_pkt_rcvd/on_datagram_rcvd, real tokio timers (virtual clock only), BBR")
ASSUMPTIONS = ["RTT filter outputs are inputs with loss_delay >= 1 ms (GRANULARITY), checked on every observation",
               "max_datagram_size constant during a connection (Path::new never stores pmtu again)",
               "timers are driven by explicit TICKs under a paused tokio clock; the 10 ms drive loop of Path::drive is not exercised in real time",
               "level is partial: the RTT filter is an input and real timers are runtime"]

MANIFEST = {
    "text": "Machine-checked Coq theorems (Properties/C13.v) over executable integer models of NewReno, PacketSpace loss detection, the PTO/loss timer logic of "
            "CongestionController and the pacer bucket: for every history of sends (three spaces, sizes, flags), ACK frames (ranges, ECN), clock advances, ticks, "
            "handshake flags and discards, and for every value of the RTT-filter inputs, bytes_in_flight equals the sum of the sizes of the counted in-flight packets "
            "(no saturating_sub ever saturates, no checked subtraction underflows), the window stays >= 2 datagrams, grows only on acknowledgements outside recovery, "
            "an acknowledged packet is never declared lost (also as a trace theorem over every continuation), an operation outside the F25 class takes at most one datagram off the window, every state visited by run_cc is reachable, a declared loss satisfies the coded time or index threshold, an expired timer either declares losses or "
            "requests a probe and increments pto_count, and TooManyPtos is returned exactly above 6. After the `fix:` commits for F16 and F17 the clauses 'successive PTO intervals double' and 'a burst admitted by send_quota "
            "keeps bytes_in_flight within the window (one datagram of overshoot for a pending probe)' are proved at full strength on the model of the fixed code. Two RFC 9002 "
            "clauses remain REFUTED on the faithful model with vm_compute witnesses that replay on the real controller (F15 loss by age alone, F25 a second window reduction "
            "per loss event via the 3-consecutive-loss 'persistent' rule); each has a conditional theorem outside its class. The model is tied to the Rust by running the extracted model and the real ArcCC (paused tokio clock) on the same op lists every run, and every "
            "clause is also evaluated directly on the implementation's observations by a Python oracle.",
    "note": "Level partial by design: the floating-point RTT filter and the pacer's float refill are inputs read from the implementation on every step, and real timers "
            "are runtime (explicit TICKs under a paused clock). Trusted: Coq kernel, extraction, OCaml driver, Rust harness + 4 read-only cfg hooks, Python generators/oracle.",
    "technique": "Coq proof (invariants over operation lists, refinement of bytes_in_flight to a sum over packet lists) + differential correspondence model/implementation",
}

MS = 1000000
DEFAULT_IN = [37124999, 33000000, 16500000, 0, 0, 0]

# ---------------------------------------------------------------------------------------------
# implementation observations: cache + model input hook
# ---------------------------------------------------------------------------------------------
_OBS = {}


def impl_obs(cases):
    """observations of the real controller (debug harness), cached by case key"""
    need = [c for c in cases if c.key() not in _OBS]
    if need:
        binp = vlib.build_harness("hc", "impl_cc", "debug")
        uniq = {}
        for c in need:
            uniq.setdefault(c.key(), c)
        batch = [Case("k%d" % i, c.ops, c.cfg) for i, c in enumerate(uniq.values())]
        out, _ = vlib.run_binary([binp], batch, tag="c13-pre")
        for b, k in zip(batch, uniq.keys()):
            _OBS[k] = out.get(b.name, ["! missing"])
        if len(_OBS) > 400000:
            for k in list(_OBS.keys())[:200000]:
                del _OBS[k]
    return [_OBS.get(c.key(), ["! missing"]) for c in cases]


def feed(cases):
    """prefix every op with the six float-side inputs the implementation reported for it"""
    res = []
    for c, obs in zip(cases, impl_obs(cases)):
        ops = []
        for k, (t, a) in enumerate(c.ops):
            ins = DEFAULT_IN
            if k < len(obs) and not obs[k].startswith("!"):
                v = obs[k].split()
                if len(v) >= 8:
                    ins = [int(x) for x in v[2:8]]
            ops.append((t, list(ins) + list(a)))
        res.append(Case(c.name, ops, c.cfg))
    return res


vlib.MODEL_INPUT_HOOKS["cc"] = feed


# ---------------------------------------------------------------------------------------------
# parsing one observation line
# ---------------------------------------------------------------------------------------------
class O:
    pass


def parse(line):
    v = [int(x) for x in line.split()]
    o = O()
    if len(v) < 8:
        o.short = v
        return o
    o.short = None
    (o.flag, o.result, o.ld, o.srtt, o.rttvar, o.latest, o.has, o.newtok) = v[0:8]
    (o.now, o.cwnd, o.ssthresh, o.bif, o.rstart, o.pto, o.timer, o.pending, o.cap, o.tokens) = v[8:18]
    o.ce = v[18:21]
    i = 21
    o.sp = []
    for e in range(3):
        s = O()
        s.la, s.tolae, s.loss_time, s.need, n = v[i:i + 5]
        i += 5
        s.pk = [tuple(v[i + 6 * j: i + 6 * j + 6]) for j in range(n)]
        i += 6 * n
        o.sp.append(s)
    n = v[i]
    i += 1
    o.lost = [(v[i + 2 * j], v[i + 2 * j + 1]) for j in range(n)]
    return o


def ack_ranges(a):
    r = a[3:]
    return [(r[i], r[i + 1]) for i in range(0, len(r) - 1, 2)]


KNOWN_PREFIX = {"F15": "F15", "F25": "F25"}      # F16, F17 repaired by `fix:` commits: a reappearance is a violation


def oracle_all(case, obs):
    """every clause of C13 stated directly on the implementation's observations.
    returns the list of failure messages; messages of the listed finding classes start with their id"""
    msgs = []
    if len(obs) != len(case.ops):
        return ["length: %d observations for %d ops (%s)" % (len(obs), len(case.ops), obs[-1] if obs else "")]
    cfg = [int(x) for x in case.cfg] if len(case.cfg) == 3 else [0, 1200, 25000]
    server, mtu, mad = cfg[0] != 0, cfg[1], cfg[2] * 1000
    sent = [dict(), dict(), dict()]       # pn -> (time, elic, infl, bytes)
    acked = [set(), set(), set()]         # sent pns covered by an accepted ACK frame
    lostset = [set(), set(), set()]
    la = [-1, -1, -1]                     # largest acknowledged = max `largest` field of the accepted ACK frames (RFC 9002 A.7)
    gone = [set(), set(), set()]          # discarded
    outstanding = {}                      # (e, pn) -> bytes  (in-flight counted, unresolved)
    budget = 0
    quota_probe = False
    quota_bif = 0
    prev = None
    reductions = []                       # (time, cleared_recovery)
    ce_max = [0, 0, 0]                    # highest ECN-CE count reported by the peer so far, per space (RFC 9002 B.7)
    last_pto = None                       # (count, interval, srtt, rttvar)
    validated = False                     # HS ack / HS confirmed seen (peer_completed_address_validation of a client)
    now = 0
    dead = False
    for k, ((tag, a), line) in enumerate(zip(case.ops, obs)):
        if line.startswith("!"):
            msgs.append("abnormal: op %d -> %s" % (k, line))
            break
        o = parse(line)
        if o.short is not None:
            if o.short == [-2] and dead:
                continue
            if o.short == [-99]:
                continue
            msgs.append("abnormal: op %d short observation %s" % (k, o.short))
            break
        if o.ld < MS:
            msgs.append("hyp: op %d loss_delay %d ns below the 1 ms granularity" % (k, o.ld))
        if tag == 2 and o.flag == 1:
            now += a[0]
        if o.now != now:
            msgs.append("clock: op %d controller time %d, advanced time %d" % (k, o.now, now))
        pre_rstart = prev.rstart if prev else -1
        pre_cwnd = prev.cwnd if prev else o.cwnd
        newly = []                        # (e, pn) newly acknowledged by this op
        newly_live = []
        discards = []
        admitted = False
        if tag == 0 and o.flag == 1:
            e = min(a[0], 2)
            sent[e][a[1]] = (now, a[2] != 0, a[3] != 0, a[4])
            if a[3] != 0:
                outstanding[(e, a[1])] = a[4]
                if 0 < a[4] <= budget:
                    budget -= a[4]
                    admitted = True
                else:
                    budget = 0
            if e == 1 and not server:
                discards.append(0)
        elif tag == 1 and o.flag == 1:
            e = min(a[0], 2)
            rs = ack_ranges(a)
            la[e] = max(la[e], rs[0][0])
            for pn in sent[e]:
                if pn not in acked[e] and pn not in gone[e] and any(lo <= pn <= hi for hi, lo in rs):
                    newly.append((e, pn))
            # packets already declared lost have left the sender's records (RFC 9002 A.7 / A.10): a late ACK for them
            # is not "newly acknowledged" for the purposes of ECN processing
            newly_live = [(ee, pn) for (ee, pn) in newly if pn not in lostset[ee]]
            for (_, pn) in newly:
                acked[e].add(pn)
                outstanding.pop((e, pn), None)
            if e == 1 and server:
                discards.append(0)
        elif tag == 5 and o.flag == 1:
            discards.append(a[0])
        elif tag == 3 and o.result == 1:
            dead = True
        if tag != 0:
            budget = 0
        if tag == 6 and o.result > 0:
            budget = o.result
            quota_probe = any(s.need > 0 for s in o.sp)        # RFC 9002 7.5: a pending PTO probe may exceed the window
            quota_bif = o.bif

        # --- a packet reported lost: sent, unresolved, never acknowledged; loss rule
        for (e, pn) in o.lost:
            if pn not in sent[e] or pn in gone[e]:
                msgs.append("lostunknown: op %d reports loss of packet %d/%d that is not outstanding" % (k, e, pn))
                continue
            if pn in acked[e]:
                msgs.append("ackedlost: op %d declares packet %d/%d lost after it was acknowledged" % (k, e, pn))
            if pn in lostset[e]:
                msgs.append("losttwice: op %d declares packet %d/%d lost a second time" % (k, e, pn))
            lostset[e].add(pn)
            outstanding.pop((e, pn), None)
            t0 = sent[e][pn][0]
            if la[e] <= pn:
                msgs.append("F15 lossrule: op %d declares packet %d/%d (sent %d ns) lost at %d ns although no later packet of that space has been acknowledged"
                            % (k, e, pn, t0, now))
            elif not (la[e] >= pn + 3 or t0 + o.ld <= now):
                msgs.append("lossthreshold: op %d declares packet %d/%d lost: largest acked %d < pn+3 and age %d ns < loss_delay %d ns"
                            % (k, e, pn, la[e], now - t0, o.ld))
        for e in discards:
            for pn in list(sent[e].keys()):
                gone[e].add(pn)
                outstanding.pop((e, pn), None)

        # --- bytes in flight: equal to the oracle's own bookkeeping and to the packets the controller lists
        mine = sum(outstanding.values())
        if o.bif != mine:
            msgs.append("bif: op %d bytes_in_flight %d, outstanding in-flight packets sum to %d" % (k, o.bif, mine))
        listed = sum(p[4] for s in o.sp for p in s.pk if p[3] == 1 and p[5] == 0)
        if o.bif != listed:
            msgs.append("biflist: op %d bytes_in_flight %d, counted Inflight packets in the three spaces sum to %d" % (k, o.bif, listed))
        # --- minimum window
        if o.cwnd < 2 * mtu:
            msgs.append("cwndmin: op %d congestion window %d below two datagrams (%d)" % (k, o.cwnd, 2 * mtu))
        # --- window growth only on acknowledgements outside recovery
        if prev is not None and o.cwnd > pre_cwnd:
            ok = [(e, pn) for (e, pn) in newly if sent[e][pn][2] and (pre_rstart < 0 or sent[e][pn][0] > pre_rstart)]
            if tag != 1 or not ok:
                msgs.append("grow: op %d window grew %d -> %d without a newly acknowledged in-flight packet sent after the recovery start %d"
                            % (k, pre_cwnd, o.cwnd, pre_rstart))
            elif o.cwnd - pre_cwnd > sum(sent[e][pn][3] for (e, pn) in ok):
                msgs.append("growamount: op %d window grew by %d, more than the %d bytes newly acknowledged outside recovery"
                            % (k, o.cwnd - pre_cwnd, sum(sent[e][pn][3] for (e, pn) in ok)))
        # --- reductions: only on loss / ECN, once per recovery period
        if prev is not None and (o.ssthresh != prev.ssthresh or o.cwnd < pre_cwnd):
            trig = [sent[e][pn][0] for (e, pn) in o.lost if pn in sent[e] and sent[e][pn][2]]
            ecn = tag == 1 and o.flag == 1 and a[2] >= 0 and o.ce != prev.ce
            if ecn and newly:
                trig.append(sent[newly[0][0]][max(pn for (_, pn) in newly)][0])
            if not trig and len(o.lost) >= 3 and o.rstart < 0:
                msgs.append("F25 shrinkcause: op %d halves the window %d -> %d on the loss of %d packets none of which was in flight (persistent rule)"
                            % (k, pre_cwnd, o.cwnd, len(o.lost)))
            elif not trig:
                msgs.append("shrinkcause: op %d window/ssthresh changed (%d,%d)->(%d,%d) without a lost in-flight packet or a new ECN-CE mark"
                            % (k, pre_cwnd, prev.ssthresh, o.cwnd, o.ssthresh))
            else:
                cleared_before = any(c for (_, c) in reductions)
                late = [t for (t, _) in reductions if max(trig) <= t]
                if o.rstart != now:
                    msgs.append("F25 onceperrtt: op %d reduces the window %d -> %d (ssthresh %d) twice in one loss event and leaves no recovery period open "
                                "(recovery start %d at %d ns): 3 index-consecutive losses are treated as persistent congestion"
                                % (k, pre_cwnd, o.cwnd, o.ssthresh, o.rstart, now))
                if late:
                    m = ("onceperrtt: op %d reduces the window again although every triggering packet was sent (<= %d ns) before the reduction at %d ns"
                         % (k, max(trig), late[-1]))
                    msgs.append(("F25 " + m) if (cleared_before or o.rstart != now) else m)
                reductions.append((now, o.rstart != now))
        # --- an expired timer resolves or probes
        if tag == 3 and prev is not None and prev.timer >= 0 and prev.timer <= now and not msgs_fatal(msgs):
            lts = [(prev.sp[e].loss_time, e) for e in range(3) if prev.sp[e].loss_time >= 0]
            if lts:
                es = min(lts)[1]
                emad = mad if es == 2 else 0
                for p in prev.sp[es].pk:
                    if p[5] == 0 and p[1] + o.ld + emad < now and (es, p[0]) not in o.lost:
                        msgs.append("resolve: op %d timer expired, packet %d/%d sent %d ns is older than loss_delay+max_ack_delay but was not declared lost"
                                    % (k, es, p[0], p[1]))
            else:
                probes = sum(s.need for s in o.sp) - sum(s.need for s in prev.sp)
                if o.pto != prev.pto + 1 or probes != 1:
                    msgs.append("probe: op %d timer expired with no loss time armed: pto_count %d -> %d, probes requested %d (expected +1 and 1)"
                                % (k, prev.pto, o.pto, probes))
                if (o.result == 1) != (o.pto > 6):
                    msgs.append("abandon: op %d TooManyPtos=%d with pto_count %d" % (k, o.result, o.pto))
        # --- an outstanding ack-eliciting in-flight packet always has a timer
        if any(sent[e][pn][1] for (e, pn) in outstanding) and o.timer < 0:
            msgs.append("timer: op %d ack-eliciting packets in flight but no loss-detection timer armed" % k)
        # --- PTO backoff doubles
        if tag == 3 and prev is not None and o.pto == prev.pto + 1 and o.timer >= 0 and all(s.loss_time < 0 for s in o.sp):
            interval = o.timer - now
            if last_pto is not None and last_pto[0] + 1 == o.pto and last_pto[2:] == (o.srtt, o.rttvar):
                if interval != 2 * last_pto[1]:
                    msgs.append("ptodouble: op %d PTO interval after %d expiries is %d ns, previous %d ns: ratio %.3f, not 2 (srtt %d, rttvar %d)"
                                % (k, o.pto, interval, last_pto[1], interval / max(1, last_pto[1]), o.srtt, o.rttvar))
            last_pto = (o.pto, interval, o.srtt, o.rttvar)
        elif prev is not None and (o.pto != prev.pto or o.timer != prev.timer):
            if all(s.loss_time < 0 for s in o.sp) and o.timer >= 0:
                last_pto = (o.pto, o.timer - now, o.srtt, o.rttvar)
            else:
                last_pto = None
        # --- the sender does not add in-flight bytes beyond the window
        if admitted and o.bif > (max(o.cwnd, quota_bif + mtu) if quota_probe else o.cwnd):
            msgs.append("window: op %d bytes_in_flight %d exceeds the congestion window %d after a send admitted by send_quota%s"
                        % (k, o.bif, o.cwnd, " (probe pending: one datagram of overshoot allowed)" if quota_probe else ""))
        # --- pacer sanity
        if o.tokens > o.cap:
            msgs.append("tokens: op %d pacer tokens %d above capacity %d" % (k, o.tokens, o.cap))
        # --- RFC 9002 6.2.1 / A.7: the PTO back-off is reset by an ACK only when the peer has completed address validation
        #     (we are the server, or a Handshake ACK was received, or the handshake is confirmed); it never goes down otherwise
        if tag == 4 and o.flag == 1 and a[0] >= 1:
            validated = True
        if prev is not None and not prev.short and not o.short and o.pto < prev.pto:
            if tag == 1 and not (server or validated):
                msgs.append("ptoreset: op %d an ACK reset the PTO back-off %d -> %d on a client whose peer has not completed address validation "
                            "(no Handshake ACK, handshake not confirmed): the probe interval no longer doubles" % (k, prev.pto, o.pto))
        # --- RFC 9002 6.1.2: the time threshold is 9/8 * max(smoothed_rtt, latest_rtt), at least kGranularity (1 ms); the value
        #     the loss detector works with is an input of the Coq model, so it is checked here against the estimator's own fields
        if not o.short:
            want_ld = max(1000000, max(o.srtt, o.latest) * 9 // 8)
            # the snapshot reads the threshold and the estimator at slightly different moments of one operation (an RTT
            # back-off or sample inside the op moves the estimator): the value must match the estimator before or after it
            alt = [want_ld]
            if prev is not None and not prev.short:
                alt.append(max(1000000, max(prev.srtt, prev.latest) * 9 // 8))
                alt.append(max(1000000, max(o.srtt, prev.latest) * 9 // 8))
                alt.append(max(1000000, max(prev.srtt, o.latest) * 9 // 8))
            if all(abs(o.ld - w) > 2 + w // 500000 for w in alt):       # f32 multiplication: relative error below 2e-6
                msgs.append("lossdelay: op %d time threshold %d ns, RFC 9002 6.1.2 gives 9/8 * max(smoothed %d, latest %d) = %d ns (>= 1 ms)"
                            % (k, o.ld, o.srtt, o.latest, want_ld))
        # --- RFC 9002 B.7: the stored ECN-CE counter of a space is the highest value reported so far: it never goes down
        #     (an older ACK overtaken by a newer one carries a smaller count), and it only takes values the peer reported
        if prev is not None and not prev.short and not o.short:
            for e3 in range(3):
                if o.ce[e3] < prev.ce[e3]:
                    msgs.append("ceregress: op %d the stored ECN-CE counter of space %d went down %d -> %d (a later ACK with the old count would be taken for a new congestion event)"
                                % (k, e3, prev.ce[e3], o.ce[e3]))
                elif o.ce[e3] != prev.ce[e3] and not (tag == 1 and min(a[0], 2) == e3 and a[2] == o.ce[e3]):
                    msgs.append("cesource: op %d the stored ECN-CE counter of space %d changed %d -> %d without an ACK frame reporting that count"
                                % (k, e3, prev.ce[e3], o.ce[e3]))
        prev = o
    return msgs


def msgs_fatal(msgs):
    return any(m.startswith(("abnormal", "length")) for m in msgs)


def is_known(m):
    return m[:3] in KNOWN_PREFIX and m[3] == " "


def oracle(case, obs):
    msgs = oracle_all(case, obs)
    new = [m for m in msgs if not is_known(m)]
    if new:
        return new[0]
    for fid in ("F25", "F15"):      # rarest class first, so that no class masks another across a batch
        for m in msgs:
            if m.startswith(fid + " "):
                return m
    return None


def classify(case, msg, obs):
    """finding classes of DESIGN Appendix B, decided on the replay itself (the oracle re-states the class predicate)"""
    if msg is not None and is_known(msg):
        return msg[:3]
    return None


# ---------------------------------------------------------------------------------------------
# non-triviality and histogram, judged on the implementation's observations
# ---------------------------------------------------------------------------------------------
def facts(case):
    obs = impl_obs([case])[0]
    losses = ptos = persistent = 0
    epochs = set()
    prev_pto = 0
    flagged0 = 0
    dead = False
    for (t, a), line in zip(case.ops, obs):
        if line.startswith("!"):
            break
        v = line.split()
        if len(v) < 21:
            dead = True
            continue
        if v[0] == "0":
            flagged0 += 1
        o = parse(line)
        if o.lost:
            losses += 1
            if o.rstart < 0:
                persistent += 1
        if t == 3 and o.pto == prev_pto + 1:
            ptos += 1
        prev_pto = o.pto
        if t == 0 and o.flag == 1:
            epochs.add(min(a[0], 2))
    return losses, ptos, epochs, flagged0, dead, persistent


def nontrivial(case):
    losses, ptos, epochs, _, _, _ = facts(case)
    return losses >= 1 and ptos >= 1 and len(epochs) >= 2


NAMES = ("sent", "ack", "adv", "tick", "hs", "discard", "quota", "grant")


def hist(case):
    lab = ["role:%s" % ("server" if case.cfg and str(case.cfg[0]) != "0" else "client"),
           "mtu:%s" % (case.cfg[1] if len(case.cfg) > 1 else "?"), "mad_us:%s" % (case.cfg[2] if len(case.cfg) > 2 else "?")]
    for t, a in case.ops:
        lab.append("op:%s" % (NAMES[t] if t < len(NAMES) else "?"))
        if t == 0:
            lab.append("sent:e%d/%s%s" % (min(a[0], 2), "E" if a[2] else "-", "I" if a[3] else "-"))
            lab.append("size:%s" % ("<=100" if a[4] <= 100 else "<=1200" if a[4] <= 1200 else ">1200"))
        elif t == 1:
            lab.append("ack:ranges%d%s" % (min(len(a[3:]) // 2, 4), "+ecn" if a[2] >= 0 else ""))
        elif t == 2:
            lab.append("adv:%s" % ("0" if a[0] == 0 else "<1ms" if a[0] < MS else "<40ms" if a[0] < 40 * MS else "<1s" if a[0] < 1000 * MS else ">=1s"))
    losses, ptos, epochs, flagged0, dead, persistent = facts(case)
    lab.append("losses:%s" % ("0" if losses == 0 else "1-2" if losses <= 2 else "3+"))
    lab.append("pto-expiries:%s" % ("0" if ptos == 0 else "1-2" if ptos <= 2 else "3+"))
    lab.append("epochs:%d" % len(epochs))
    if flagged0:
        lab.append("rejected-ops:%s" % ("1-2" if flagged0 <= 2 else "3+"))
    if dead:
        lab.append("too-many-ptos")
    if persistent:
        lab.append("persistent-loss")
    return lab


# ---------------------------------------------------------------------------------------------
# generators
# ---------------------------------------------------------------------------------------------
ADVS = [0, 1, 999999, MS, 2 * MS, 5 * MS, 10 * MS, 25 * MS, 33 * MS, 37124999, 37125000, 37125001, 41765623, 50 * MS,
        62125000, 62125001, 100 * MS, 150 * MS, 250 * MS, 400 * MS, 1000 * MS, 3000 * MS]


def mk_ack(rng, e, pns, nextpn, ce_state):
    """an ACK frame over a list of sent pns: descending disjoint ranges with gaps"""
    if not pns:
        pns = [0]
    mode = rng.random()
    top = pns[-1]
    if mode < 0.08:
        top = nextpn + rng.randint(0, 3)          # acknowledges a number never sent
    elif mode < 0.35 and len(pns) > 1:
        top = rng.choice(pns)
    rs = []
    hi = top
    for _ in range(rng.choice([1, 1, 1, 2, 2, 3, 4])):
        lo = max(0, hi - rng.choice([0, 0, 0, 1, 2, 3, 6]))
        rs += [hi, lo]
        hi = lo - 2 - rng.choice([0, 0, 1, 2, 5])
        if hi < 0:
            break
    ce = -1
    if rng.random() < 0.15:
        if ce_state[e] > 0 and rng.random() < 0.3:
            ce = max(0, ce_state[e] - rng.choice([1, 2]))     # an older ACK overtaken by a newer one: smaller count
        else:
            ce_state[e] += rng.choice([0, 1, 1, 3])
            ce = ce_state[e]
    delay = rng.choice([0, 0, 100, 1000, 8000, 25000, 200000])
    return (1, [e, delay, ce] + rs)


def gen_scenario(rng, name):
    server = rng.random() < 0.5
    mtu = rng.choice([1200, 1200, 1200, 1252, 1350, 1500, 4000])
    mad = rng.choice([0, 1000, 25000, 25000, 50000])
    ops = []
    nextpn = [0, 0, 0]
    sentp = [[], [], []]
    ce_state = [0, 0, 0]
    phase = 0                      # 0 initial, 1 handshake keys, 2 confirmed
    if rng.random() < 0.85:
        ops.append((7, []))
    n = rng.randint(6, 60)
    style = rng.random()
    for _ in range(n):
        r = rng.random()
        if phase == 0:
            es = [0, 0, 0, 2] if rng.random() < 0.9 else [0, 1, 2]
        elif phase == 1:
            es = [0, 1, 1, 2]
        else:
            es = [1, 2, 2, 2, 2]
        if r < 0.34:
            e = rng.choice(es)
            burst = rng.choice([1, 1, 2, 3, 5, 10]) if style < 0.7 else rng.choice([1, 4, 12, 20])
            if rng.random() < 0.5:
                ops.append((6, []))
            for _ in range(burst):
                f = rng.random()
                el, inf = (1, 1) if f < 0.78 else (0, 1) if f < 0.88 else (0, 0)
                size = rng.choice([mtu, mtu, mtu, 1200, rng.randint(1, mtu), rng.randint(20, 200)])
                if rng.random() < 0.1:
                    nextpn[e] += rng.randint(1, 4)
                ops.append((0, [e, nextpn[e], el, inf, size]))
                sentp[e].append(nextpn[e])
                nextpn[e] += 1
                if rng.random() < 0.15:
                    ops.append((2, [rng.choice([1, 1000, 100000, MS])]))
        elif r < 0.54:
            e = rng.choice([x for x in range(3) if sentp[x]] or [0])
            ops.append(mk_ack(rng, e, sentp[e][-12:], nextpn[e], ce_state))
        elif r < 0.74:
            ops.append((2, [rng.choice(ADVS) if rng.random() < 0.8 else rng.randint(0, 500 * MS)]))
            if rng.random() < 0.7:
                ops.append((3, []))
        elif r < 0.84:
            for _ in range(rng.randint(1, 8)):       # the 10 ms drive loop
                ops.append((2, [10 * MS]))
                ops.append((3, []))
        elif r < 0.88:
            ops.append((3, []))
        elif r < 0.94:
            if phase == 0:
                ops.append((4, [0]))
                phase = 1
            elif phase == 1:
                ops.append((4, [rng.choice([1, 2, 2])]))
                if ops[-1][1][0] == 2:
                    phase = 2
                    if rng.random() < 0.6:
                        ops.append((5, [1]))
            else:
                ops.append((4, [rng.choice([0, 1, 2])]))
        elif r < 0.97:
            ops.append((5, [rng.choice([0, 0, 1])]))
        elif r < 0.985:
            ops.append((7, []))
        else:
            # malformed / boundary: rejected by the harness preconditions, both sides must agree
            m = rng.random()
            if m < 0.3:
                ops.append((0, [rng.choice(es), max(0, nextpn[es[0]] - 1), 1, 1, 100]))
            elif m < 0.5:
                ops.append((0, [2, nextpn[2] + 1000, 1, 0, 100]))
            elif m < 0.7:
                ops.append((1, [rng.choice(es), 0, -1, 3, 5]))
            elif m < 0.85:
                ops.append((1, [rng.choice(es), 0, -1, 9, 8, 7, 5]))
            else:
                ops.append((5, [2]))
    if rng.random() < 0.5:
        for _ in range(rng.randint(1, 12)):
            ops.append((2, [rng.choice([10 * MS, 100 * MS, 500 * MS, 2000 * MS])]))
            ops.append((3, []))
    return Case(name, ops, [1 if server else 0, mtu, mad])


def gen_pto(rng, name):
    """client before address validation: everything acknowledged or lost, then PTO expiries up to TooManyPtos"""
    mtu = rng.choice([1200, 1350])
    mad = rng.choice([0, 25000])
    ops = [(7, [])]
    k = rng.randint(1, 4)
    for i in range(k):
        ops.append((0, [0, i, 1, 1, rng.choice([mtu, 300])]))
    ops.append((2, [rng.choice([0, MS, 20 * MS, 50 * MS, 80 * MS])]))
    if rng.random() < 0.7:
        ops.append((1, [0, rng.choice([0, 1000]), -1, k - 1, 0]))
    if rng.random() < 0.5:
        ops.append((4, [0]))
    if rng.random() < 0.4:
        ops.append((0, [2, 0, 1, 1, 200]))
    step = rng.choice([50, 100, 400, 1000, 5000]) * MS
    for i in range(rng.randint(2, 12)):
        ops.append((2, [step * (2 ** min(i, 6)) if rng.random() < 0.5 else step]))
        ops.append((3, []))
        if rng.random() < 0.15:
            ops.append((0, [0, k + i, rng.choice([0, 1]), 1, 100]))
        if rng.random() < 0.05:
            ops.append((4, [rng.choice([1, 2])]))
    return Case(name, ops, [0, mtu, mad])


def gen_exhaustive(depth, prefix, server):
    """every sequence of `depth` symbols over a small alphabet after GRANT"""
    alpha = ["s", "a", "t40", "t1", "k", "q"]
    cases = []
    n = 0
    for seq in itertools.product(alpha, repeat=depth):
        ops = [(7, [])]
        pn = 0
        for s in seq:
            if s == "s":
                ops.append((0, [2, pn, 1, 1, 1200]))
                pn += 1
            elif s == "a":
                ops.append((1, [2, 0, -1, max(0, pn - 1), max(0, pn - 1)]))
            elif s == "t40":
                ops.append((2, [40 * MS]))
            elif s == "t1":
                ops.append((2, [MS]))
            elif s == "k":
                ops.append((3, []))
            else:
                ops.append((6, []))
        cases.append(Case("%s%d" % (prefix, n), ops, [1 if server else 0, 1200, 0]))
        n += 1
    return cases


def gen(rng, tier):
    if tier == "quick":
        cases = gen_exhaustive(4, "ex4s-", True) + gen_exhaustive(4, "ex4c-", False)
        cases += [gen_scenario(rng, "r%d" % i) for i in range(1100)]
        cases += [gen_pto(rng, "p%d" % i) for i in range(250)]
        return cases
    # sized so that the thorough tier stays within ~20 minutes on 16 cores (the oracle walks full state dumps)
    cases = gen_exhaustive(5, "ex5s-", True) + gen_exhaustive(5, "ex5c-", False)
    cases += [gen_scenario(rng, "r%d" % i) for i in range(15000)]
    cases += [gen_pto(rng, "p%d" % i) for i in range(3000)]
    return cases


def mutate(rng, case, j):
    ops = [(t, list(a)) for t, a in case.ops]
    for _ in range(rng.randint(1, 3)):
        r = rng.random()
        if r < 0.4 and ops:
            k = rng.randrange(len(ops))
            t, a = ops[k]
            if t == 0:
                a[4] = max(0, a[4] + rng.randint(-50, 50))
                if rng.random() < 0.3:
                    a[2] = 1 - a[2] if a[3] else 0
            elif t == 2:
                a[0] = max(0, a[0] + rng.choice([-MS, -1, 1, MS, 25 * MS]))
            elif t == 1 and len(a) >= 5:
                a[4] = max(0, min(a[3], a[4] + rng.randint(-2, 2)))
        elif r < 0.7:
            ops.insert(rng.randint(0, len(ops)), (2, [rng.choice(ADVS)]))
            ops.insert(rng.randint(0, len(ops)), (3, []))
        elif r < 0.85:
            ops.insert(rng.randint(0, len(ops)), (6, []))
        else:
            ops.insert(rng.randint(0, len(ops)), (4, [rng.randint(0, 2)]))
    return Case("m%d" % j, ops, case.cfg)


STREAMS = [{
    "name": "cc", "pkg": "hc", "bin": "impl_cc",
    "gen": gen, "oracle": oracle, "nontrivial": nontrivial, "hist": hist, "mutate": mutate, "classify": classify,
    "profiles": ("debug",), "profiles_thorough": ("debug", "release"),
    "rule": RULE,
}]
