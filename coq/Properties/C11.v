(* C11 — flow-control limits are never exceeded and violations are detected.
   Only the property theorems live here; each is closed by a lemma of Proofs/Flow.v or
   Proofs/StreamCtl.v and its assumptions are printed for the audit.  `as_is` is the code as it
   stands, `fixed` the code after the `fix:` commits for F12, F13, F26, F27, F33 and F34. *)
From Coq Require Import List NArith ZArith Bool Lia.
From GQ Require Import Model.StreamCtl Proofs.Flow Proofs.StreamCtl Proofs.StreamLift.
Import ListNotations.
Local Open Scope N_scope.

(* ---- which parameter feeds which window *)
Theorem c11_window_table_recv : forall loc d,
  open_recv_window loc = rfc_recv_window true Bi loc
  /\ accept_recv_window loc d = rfc_recv_window false d loc.
Proof. exact p_c11_window_table_recv. Qed.

Theorem c11_window_table : forall d mem remote peer,
  (mem = Some peer \/ (mem = None /\ remote = Some peer)) ->
  open_send_window fixed d mem remote = Some (rfc_send_window true d peer)
  /\ accept_send_window peer = rfc_send_window false Bi peer
  /\ revise_send_window peer d = rfc_send_window true d peer.
Proof. exact p_c11_window_table_send_fixed. Qed.

(* as coded: conditional on the known class F12 *)
Theorem c11_window_table_asis : forall d mem remote peer,
  (mem = Some peer \/ (mem = None /\ remote = Some peer)) ->
  ~ (mem = None /\ d = Uni /\ p_sdu peer <> p_sdbr peer) ->          (* ~ KnownClass F12 *)
  open_send_window as_is d mem remote = Some (rfc_send_window true d peer).
Proof. exact p_c11_window_table_send_asis. Qed.

Theorem c11_window_table_refuted :
  exists peer, open_send_window as_is Uni None (Some peer) <> Some (rfc_send_window true Uni peer).
Proof. exact p_c11_window_table_refuted. Qed.

(* F12 on the whole model: peer uni = 0, bidi_remote = 1000: 50 bytes leave on uni stream 2;
   the repaired model sends nothing *)
Example c11_f12_replay :
  let cfg := [0; 0; 0; 10; 10; 100000; 1000; 1000; 1000; 5; 5; 100000; 700; 1000; 0; 0; 0; 0; 0; 0; 0]%Z in
  let ops := [(0, [0%Z]); (1, [1%Z]); (2, [2; 50]%Z); (6, [1200%Z])] in
  nth 3 (run_streams cfg ops) [] = [1; 0; 1147; 1; 1; 2; 0; 50; 0]%Z
  /\ nth 3 (run_streams_fixed cfg ops) [] = [0; 0; 1200; 0]%Z.
Proof. vm_compute. split; reflexivity. Qed.

(* F26 on the whole model: a server-initiated bidi stream touched by revise_params sends 900
   bytes although the peer's bidi_local window is 100; the repaired model stops at 100 *)
Example c11_f26_replay :
  let cfg := [0; 1; 0; 4; 4; 100000; 500; 500; 500; 4; 4; 100000; 100; 1000; 300; 4; 4; 100000; 100; 1000; 300]%Z in
  let ops := [(7, [1; 0; 1; 0]%Z); (1, [0%Z]); (0, [0%Z]); (5, [0%Z]); (2, [1; 900]%Z); (6, [1200%Z])] in
  nth 5 (run_streams cfg ops) [] = [1; 0; 296; 1; 1; 1; 0; 900; 0]%Z
  /\ nth 5 (run_streams_fixed cfg ops) [] = [1; 0; 1096; 1; 1; 1; 0; 100; 0]%Z.
Proof. vm_compute. split; reflexivity. Qed.

Theorem c11_revise_scope : forall s rej sid sn,
  In (sid, sn) (revise_outs fixed s rej) -> sid_role sid <> d_role s -> In (sid, sn) (d_outs s).
Proof. exact p_c11_revise_scope_fixed. Qed.

(* ---- per-stream limit: every frame taken from a stream ends within its current window; the
   window only moves to the maximum of the values supplied *)
Theorem c11_stream_limit : forall s fl av s' st e fresh eos,
  Winv s -> snd_try_load s fl av = (s', Some (st, e, fresh, eos)) ->
  Winv s' /\ sn_window s' = sn_window s /\ st <= e <= sn_window s
  /\ (fresh = true -> e - st <= fl).
Proof. exact p_c11_stream_limit_step. Qed.

Theorem c11_stream_limit_roundrobin : forall order cap fl outs outs' sid tok st e fresh eos,
  (forall k sn, alookup outs k = Some sn -> Winv sn) ->
  try_streams outs order cap fl = (outs', Some (sid, tok, (st, e, fresh, eos))) ->
  exists sn, Winv sn /\ st <= e <= sn_window sn /\ (fresh = true -> e - st <= fl).
Proof. exact try_streams_spec. Qed.

Theorem c11_window_update : forall s v,
  Winv s -> Winv (snd_update_window s v) /\ sn_window (snd_update_window s v) = N.max (sn_window s) v.
Proof. exact p_c11_window_update. Qed.

Theorem c11_window_write : forall s len,
  Winv s -> sn_state s <> SDataSent -> Winv (snd_write s len) /\ sn_window (snd_write s len) = sn_window s.
Proof. exact p_c11_window_write. Qed.

Theorem c11_window_loss : forall s a b f,
  Winv s -> Winv (snd_may_loss s a b f) /\ sn_window (snd_may_loss s a b f) = sn_window s.
Proof. exact p_c11_window_loss. Qed.

(* ---- connection limit (repaired controller, F34): for EVERY history of credits, posts, drops,
   MAX_DATA updates and handshakes - 0-RTT rejections included, no guard - the accounting identity
   `charged + slack = fresh bytes posted since the last rejection + outstanding` holds and
   charged <= max_data, so `max_data - sent_data` never underflows.  [ss_slack] is the unused budget
   Credits taken before the last rejection still held at that moment (defined in s_step); it is 0
   when no Credit is alive across a rejection (c11_conn_limit_quiet: then fresh bytes since the
   rejection <= the most recent MAX_DATA, each byte charged once; once every credit is dropped the
   charge is exactly the fresh bytes posted) *)
Theorem c11_conn_limit : forall ops m st,
  s_exec true (s_init m) ops = Some st ->
  Sinv st /\ ss_posted st <= max_data (ss_c st) + ss_slack st
  /\ sc_available (ss_c st) = Some (max_data (ss_c st) - sent_data (ss_c st))
  /\ (ss_slack st = 0 -> outstanding (ss_cr st) = 0 -> sent_data (ss_c st) = ss_posted st).
Proof. exact p_c11_conn_limit. Qed.

Theorem c11_conn_limit_quiet : forall ops m st,
  s_quiet true (s_init m) ops -> s_exec true (s_init m) ops = Some st ->
  ss_slack st = 0 /\ sent_data (ss_c st) = ss_posted st + outstanding (ss_cr st)
  /\ ss_posted st <= max_data (ss_c st).
Proof. exact p_c11_conn_limit_quiet. Qed.

(* the only arithmetic panics left are the callers': posting beyond a credit, or returning a
   Credit whose unused budget was taken before a rejection *)
Theorem c11_conn_no_underflow : forall ops m,
  s_exec true (s_init m) ops = None ->
  exists pre o rest st i av,
    ops = pre ++ o :: rest /\ s_exec true (s_init m) pre = Some st
    /\ nth_error (ss_cr st) i = Some (Some av)
    /\ ((exists n, o = SPost i n /\ av < n)
        \/ (o = SDrop i /\ sent_data (ss_c st) < av /\ 0 < ss_slack st)).
Proof. exact p_c11_conn_no_underflow. Qed.

Theorem c11_retransmission_free : forall fx st i st',
  s_step fx st (SPost i 0) = Some st' -> ss_posted st' = ss_posted st /\ ss_c st' = ss_c st.
Proof. exact p_c11_retransmission_free. Qed.

(* the limit never goes down except at a rejection, where it becomes the server's new value and
   the charge restarts from 0 (as it was: the charge was kept) *)
Theorem c11_send_limit_monotone : forall fx st o st',
  sop_ok o -> s_step fx st o = Some st' -> max_data (ss_c st) <= max_data (ss_c st').
Proof. exact p_c11_send_limit_monotone. Qed.

Theorem c11_revise_rejected : forall s v,
  max_data (sc_revise s true v) = v /\ sent_data (sc_revise s true v) = 0
  /\ sent_data (sc_revise_asis s true v) = sent_data s.
Proof. exact p_c11_revise_rejected. Qed.


(* ---- the composed model: one packet-loading step, and every whole-DataStreams op list *)
(* try_load_data_into_once: no arithmetic panic, max_data untouched, sent_data raised by exactly
   the fresh bytes of the frame emitted (0 for a retransmission, 0 if nothing goes out), still
   within max_data, and the frame ends within the window its stream had *)
Theorem c11_load_once_charge : forall v s cap,
  Dinv s ->
  let '(r, s', _) := load_once v s cap in
  Dinv s' /\ max_data (d_fs s') = max_data (d_fs s)
  /\ (forall k, wmap (d_outs s') k = wmap (d_outs s) k)
  /\ d_l s' = d_l s /\ d_r s' = d_r s /\ d_lq s' = d_lq s /\ d_role s' = d_role s
  /\ match r with
     | None => sent_data (d_fs s') = sent_data (d_fs s)
     | Some (s2, _, fs) =>
       s2 = s' /\
       exists (sid off len : N) (fin fresh : bool),
         fs = [FStream sid off len fin]
         /\ sent_data (d_fs s') = sent_data (d_fs s) + (if fresh then len else 0)
         /\ (exists w, wmap (d_outs s) sid = Some w /\ off + len <= w)
     end.
Proof. exact p_c11_load_once_charge. Qed.

(* the invariant (every sender within its window, sent_data <= max_data) holds after every
   whole-DataStreams op list - for the repaired variant a 0-RTT rejection included; all_ok only
   asks that a handshake keeps the window of a stream whose FIN is out above what it covers, and,
   for a variant without the repair of F34, that the handshake is not a rejection *)
Theorem c11_ds_invariant : forall v ops s,
  Dinv s -> all_ok v s ops -> Dinv (ds_exec v s ops).
Proof. exact p_c11_ds_invariant. Qed.

Theorem c11_ds_invariant_init : forall r c loc rem mem, Dinv (ds_init r c loc rem mem).
Proof. exact Dinv_init. Qed.

(* c11_stream_limit and c11_conn_limit at every reachable state of the composed model *)
Theorem c11_limits_ds : forall v ops s0 cap fuel,
  Dinv s0 -> all_ok v s0 ops ->
  let s := ds_exec v s0 ops in
  (exists c q b, sc_credit (d_fs s) cap = Some (c, q, b))
  /\ let '(s', _, sf, _, _) := load_loop v fuel s cap [] [] false in
     Forall (frame_in_window (d_outs s)) sf
     /\ sent_data (d_fs s) <= sent_data (d_fs s') <= sent_data (d_fs s) + frames_len sf
     /\ sent_data (d_fs s') <= max_data (d_fs s') /\ max_data (d_fs s') = max_data (d_fs s).
Proof. exact p_c11_limits_ds. Qed.

(* no operation other than LOAD charges the connection-level budget; the only other operation that
   moves it is a rejected handshake (repaired code), which restarts it: charge 0, limit = the
   server's initial_max_data *)
Theorem c11_only_load_charges : forall v s o,
  (forall cap, o <> OLoad cap) -> (fix34 v = true -> o <> OHandshake true) ->
  sent_data (d_fs (fst (ds_step v s o))) = sent_data (d_fs s).
Proof. exact ds_step_sent. Qed.

Theorem c11_rejected_restarts : forall v s,
  fix34 v = true -> d_closed s = false -> d_hs s = false ->
  let s' := fst (ds_step v s (OHandshake true)) in
  sent_data (d_fs s') = 0 /\ max_data (d_fs s') = p_md (d_rem s).
Proof. exact p_c11_rejected_restarts. Qed.


(* ---- F33 repaired: a locally opened stream sends only while its index is below the peer's
   current stream limit (after a rejected 0-RTT attempt the limit may be below what was opened) *)
Theorem c11_load_within_stream_limit : forall v s cap,
  fix33 v = true ->
  let '(r, _, _) := load_once v s cap in
  match r with
  | Some (_, _, fs) =>
    forall sid off len fin, In (FStream sid off len fin) fs -> sid_role sid = d_role s ->
                            sid_idx sid < pget (l_max (d_l s)) (sid_dir sid)
  | None => True
  end.
Proof. exact p_c11_load_within_stream_limit. Qed.

(* as it was: remembered limit 5, three bidi streams opened, rejected handshake with limit 1:
   streams 8 and 4 (indices 2, 1) still send; repaired, only stream 0 does *)
Example c11_f33_replay :
  let cfg := [0; 1; 0; 3; 3; 100000; 100; 100; 100; 1; 1; 100000; 900; 800; 700; 5; 5; 100000; 900; 800; 700]%Z in
  let ops := [(1, [0%Z]); (1, [0%Z]); (1, [0%Z]); (2, [0; 50]%Z); (2, [4; 50]%Z); (2, [8; 50]%Z); (0, [1%Z]); (6, [1200%Z])] in
  nth 7 (run_streams cfg ops) [] = [1; 0; 1041; 3; 1; 8; 0; 50; 0; 1; 4; 0; 50; 0; 1; 0; 0; 50; 0]%Z
  /\ nth 7 (run_streams_fixed cfg ops) [] = [1; 0; 1147; 1; 1; 0; 0; 50; 0]%Z.
Proof. vm_compute. split; reflexivity. Qed.

(* ---- F34 (repaired; regression statement).  As it was, revise_max_data kept sent_data across a
   0-RTT rejection while max_data restarted from the new value: with every credit returned before
   the rejection and nobody posting beyond a credit, sent_data > max_data afterwards and the next
   credit() underflows `max_data - sent_data` (debug panic, release wrap = unlimited credit); the
   repaired controller answers the same history *)
Theorem c11_conn_limit_asis_refuted :
  exists ops m st,
    s_exec false (s_init m) ops = Some st /\ ss_slack st = 0 /\ outstanding (ss_cr st) = 0
    /\ ~ sent_data (ss_c st) <= max_data (ss_c st)
    /\ s_step false st (SCredit 10) = None
    /\ exists st', s_exec true (s_init m) (ops ++ [SCredit 10]) = Some st'.
Proof. exact p_c11_conn_limit_asis_refuted. Qed.

(* on the public FlowController: limit 1000, 800 posted, rejection with 500: as it was the next
   credit() panics (-3); repaired, it grants 10 of the fresh 500 *)
Example c11_f34_replay :
  let ops := [(0, [800%Z]); (1, [0; 800]%Z); (2, [0%Z]); (5, [1; 500]%Z); (0, [10%Z])] in
  run_flow [1000; 0]%Z ops = [[1; 800; 0; 0]; [1; 0]; [1]; [1]; [-3]]%Z
  /\ run_flow_fixed [1000; 0]%Z ops = [[1; 800; 0; 0]; [1; 0]; [1]; [1]; [1; 10; 0; 0]]%Z.
Proof. vm_compute. split; reflexivity. Qed.

(* on the whole model (corpus/C11/streams/f34.case): 0-RTT client sends 800 bytes under a
   remembered MAX_DATA of 1000, the handshake is rejected with MAX_DATA 500: as it was the next
   LOAD dies in credit() (the model's outcome is the inert `nothing loaded`, the Rust panics);
   repaired, it re-sends the first 500 bytes as fresh (with DATA_BLOCKED 500) and stops there *)
Example c11_f34_replay_streams :
  let cfg := [0; 1; 0; 3; 3; 100000; 100; 100; 100; 5; 5; 500; 900; 800; 700; 5; 5; 1000; 900; 800; 700]%Z in
  let ops := [(1, [0%Z]); (2, [0; 800]%Z); (6, [1200%Z]); (0, [1%Z]); (6, [1200%Z]); (6, [1200%Z])] in
  nth 4 (run_streams_with (mkvar true true true true true false) cfg ops) [] = [0; 0; 1200; 0]%Z
  /\ nth 4 (run_streams_fixed cfg ops) [] = [1; 0; 696; 2; 1; 0; 0; 500; 0; 8; 500; 0; 0; 0]%Z
  /\ nth 5 (run_streams_fixed cfg ops) [] = [0; 0; 1200; 0]%Z.
Proof. vm_compute. repeat split. Qed.

(* ---- receive side: detection *)
Theorem c11_recv_detects : forall r off len fin final,
  rc_phase r = PRecv ->
  (rc_maxsd r < off + len -> rc_recv_data fixed r off len fin = inr EFlowControl)
  /\ (rc_maxsd r < final -> rc_recv_reset fixed r final = inr EFlowControl).
Proof. exact p_c11_recv_detects_stream_fixed. Qed.

(* as coded: conditional on the known class F13 (the frame carries FIN, or is a RESET_STREAM) *)
Theorem c11_recv_detects_asis : forall r off len,
  rc_phase r = PRecv -> rc_maxsd r < off + len ->
  rc_recv_data as_is r off len false = inr EFlowControl.
Proof. exact p_c11_recv_detects_stream_asis. Qed.

Theorem c11_recv_detects_refuted :
  exists r off len final,
    rc_phase r = PRecv /\ rc_maxsd r < off + len /\ rc_maxsd r < final
    /\ (exists r', rc_recv_data as_is r off len true = inl r')
    /\ (exists r' n, rc_recv_reset as_is r final = inl (r', n)).
Proof. exact p_c11_recv_detects_refuted. Qed.

(* F13 on the whole model: limit 100; (5000,10) is refused, with FIN accepted, RESET 5010 accepted;
   the repaired model answers FlowControl (3) to all three *)
Example c11_f13_replay :
  let cfg := [1; 0; 0; 10; 10; 100000; 100; 100; 100; 5; 5; 100000; 700; 1000; 0; 0; 0; 0; 0; 0; 0]%Z in
  nth 1 (run_streams cfg [(0, [0%Z]); (7, [0; 5000; 10; 0]%Z)]) [] = [3; 0; 0]%Z
  /\ nth 1 (run_streams cfg [(0, [0%Z]); (7, [0; 5000; 10; 1]%Z)]) [] = [0; 5010; 0]%Z
  /\ nth 1 (run_streams cfg [(0, [0%Z]); (8, [0; 7; 5010]%Z)]) [] = [0; 5010; 0]%Z
  /\ nth 1 (run_streams_fixed cfg [(0, [0%Z]); (7, [0; 5000; 10; 1]%Z)]) [] = [3; 0; 0]%Z
  /\ nth 1 (run_streams_fixed cfg [(0, [0%Z]); (8, [0; 7; 5010]%Z)]) [] = [3; 0; 0]%Z.
Proof. vm_compute. repeat split. Qed.

Theorem c11_recv_flow_only : forall v r off len fin,
  rc_recv_data v r off len fin = inr EFlowControl -> rc_phase r = PRecv /\ rc_maxsd r < off + len.
Proof. exact p_c11_recv_flow_only. Qed.

Theorem c11_recv_detects_conn : forall s a,
  (rmax_data s < rcvd_data s + a -> snd (on_new_rcvd s a) = RcvFlowControl)
  /\ (rcvd_data s + a <= rmax_data s -> snd (on_new_rcvd s a) <> RcvFlowControl).
Proof. exact p_c11_recv_detects_conn. Qed.

(* ---- advertised limits never decrease *)
Theorem c11_advertised_monotone : forall s amounts,
  rmax_data s <= rmax_data (fst (r_exec s amounts)).
Proof. exact p_c11_advertised_monotone. Qed.

Theorem c11_advertised_monotone_frame : forall s a,
  rmax_data s <= rmax_data (fst (on_new_rcvd s a))
  /\ (forall m, snd (on_new_rcvd s a) = RcvOk (Some m) -> m = rmax_data (fst (on_new_rcvd s a)) /\ rmax_data s <= m)
  /\ rstep (fst (on_new_rcvd s a)) = rstep s
  /\ rcvd_data (fst (on_new_rcvd s a)) = rcvd_data s + a.
Proof. exact p_c11_advertised_monotone_step. Qed.

Theorem c11_advertised_monotone_stream : forall r room,
  let '(r', _, _, m) := rc_read r room in
  rc_maxsd r <= rc_maxsd r' /\ match m with Some x => x = rc_maxsd r' /\ rc_maxsd r < x | None => rc_maxsd r' = rc_maxsd r end.
Proof. exact p_c11_maxsd_monotone. Qed.

Theorem c11_recv_no_panic : forall init amounts,
  let s := fst (r_exec (rctl_new init) amounts) in
  rmax_data s <= init + rcvd_data s + 2 * (init / 2).
Proof. exact p_c11_recv_no_panic. Qed.

(* non-vacuity: a history that reaches the limit, returns unused credit, is raised, posts a
   retransmission, is then rejected with a smaller limit and fills the new limit exactly; a history
   in which a Credit straddles the rejection (the slack term is needed: 50 fresh bytes since the
   rejection against a limit of 30); and a receive history that advertises twice and then overflows *)
Example c11_nonvacuous :
  (exists st, s_exec true (s_init 100)
                [SCredit 1200; SPost 0 60; SDrop 0; SCredit 1200; SPost 1 0; SPost 1 40; SDrop 1;
                 SCredit 5; SDrop 2; SIncrease 250; SCredit 1200; SPost 3 100; SDrop 3;
                 SRevise true 120; SCredit 1200; SPost 4 120; SDrop 4] = Some st
              /\ ss_posted st = 120 /\ sent_data (ss_c st) = 120 /\ max_data (ss_c st) = 120 /\ ss_slack st = 0)
  /\ (exists st, s_exec true (s_init 100)
                   [SCredit 50; SRevise true 30; SPost 0 20; SCredit 100; SPost 1 30; SDrop 0; SDrop 1] = Some st
                 /\ ss_posted st = 50 /\ sent_data (ss_c st) = 0 /\ max_data (ss_c st) = 30 /\ ss_slack st = 50)
  /\ snd (r_exec (rctl_new 100) [20; 30; 40; 200]) = [RcvOk None; RcvOk (Some 150); RcvOk None; RcvFlowControl].
Proof. vm_compute. split; [eexists; repeat split|split; [eexists; repeat split|reflexivity]]. Qed.

Print Assumptions c11_window_table_recv.
Print Assumptions c11_window_table.
Print Assumptions c11_window_table_asis.
Print Assumptions c11_window_table_refuted.
Print Assumptions c11_f12_replay.
Print Assumptions c11_f26_replay.
Print Assumptions c11_revise_scope.
Print Assumptions c11_stream_limit.
Print Assumptions c11_stream_limit_roundrobin.
Print Assumptions c11_window_update.
Print Assumptions c11_window_write.
Print Assumptions c11_window_loss.
Print Assumptions c11_conn_limit.
Print Assumptions c11_conn_limit_quiet.
Print Assumptions c11_revise_rejected.
Print Assumptions c11_rejected_restarts.
Print Assumptions c11_conn_no_underflow.
Print Assumptions c11_retransmission_free.
Print Assumptions c11_send_limit_monotone.
Print Assumptions c11_recv_detects.
Print Assumptions c11_recv_detects_asis.
Print Assumptions c11_recv_detects_refuted.
Print Assumptions c11_f13_replay.
Print Assumptions c11_recv_flow_only.
Print Assumptions c11_recv_detects_conn.
Print Assumptions c11_advertised_monotone.
Print Assumptions c11_advertised_monotone_frame.
Print Assumptions c11_advertised_monotone_stream.
Print Assumptions c11_recv_no_panic.
Print Assumptions c11_nonvacuous.
Print Assumptions c11_load_once_charge.
Print Assumptions c11_ds_invariant.
Print Assumptions c11_ds_invariant_init.
Print Assumptions c11_limits_ds.
Print Assumptions c11_only_load_charges.
Print Assumptions c11_load_within_stream_limit.
Print Assumptions c11_f33_replay.
Print Assumptions c11_conn_limit_asis_refuted.
Print Assumptions c11_f34_replay.
Print Assumptions c11_f34_replay_streams.
