//! Correspondence stream `datagram` (C19): drives the real `qdatagram::DatagramFlow`
//! (writer queue + `try_load_data_into` into a capture target with a hard byte limit, the
//! captured bytes re-parsed by the real `qbase::frame::FrameReader` and handed to the incoming
//! side through `ReceiveFrame::recv_frame`, reader side through `DatagramReader::poll_recv`).
//!
//! CASE cfg: `peer_max local_max`
//!   peer_max  = the remote's max_datagram_frame_size (limits what the writer accepts; 0 = disabled)
//!   local_max = our max_datagram_frame_size (limits what the incoming side accepts; 0 = disabled)
//! ops:
//!   0 off len              SEND   writer.send_bytes(content[off..off+len])
//!                          -> 0 ok | 1 InvalidInput (too large) | 2 connection error | 3 no writer (disabled)
//!   1 remaining deliver    LOAD   try_load_data_into(target with `remaining` bytes of room)
//!                          -> rc nbytes bytes… nrec (with_len declared_len payload_len)* dcode [npad ndg rc*]
//!                             rc: 0 ok | 100+signal bits (104 empty queue, 101 no room, 100 closed)
//!                             dcode: -1 not delivered (loss) | 1 parsed by FrameReader | 0 parse error
//!                             per datagram frame found: 0 accepted | 1 ProtocolViolation | 2 other error
//!   2 with_len off len     RECVFRAME  a peer-made DATAGRAM frame (type, [varint len], payload) through
//!                          FrameReader + recv_frame -> dcode npad ndg rc*
//!   3                      READ   reader.poll_recv -> 1 len bytes… | 0 pending | 2 error | 3 no reader
//!   4                      CONNERR on_conn_error(Internal) -> 0
//!   5 remaining deliver    LOADALL try_load_data_into repeated into ONE target until it declines (= `Repeat(source)`)
//!                          -> count last_rc nbytes bytes… nrec (with_len declared_len payload_len)* dcode [npad ndg rc*]
use std::task::{Context, Poll};

use bytes::{BufMut, Bytes, buf::UninitSlice};
use hproto::{Obs, Op, content_slice};
use qbase::{
    error::{ErrorKind, QuicError},
    frame::{
        DatagramFrame, Frame, FrameReader, FrameType,
        io::{ReceiveFrame, WriteFrameType},
    },
    packet::{
        RecordFrame,
        r#type::{Type, short::OneRtt},
    },
    varint::{VarInt, WriteVarInt},
};
use qdatagram::{DatagramFlow, DatagramReader, DatagramWriter};

/// capture target: exactly `limit` bytes of room, like the `&mut [u8]`-backed packet writers
struct Cap {
    buf: Vec<u8>,
    cursor: usize,
    rec: Vec<(i64, i64, i64)>,
}

impl Cap {
    fn new(limit: usize) -> Self {
        Cap { buf: vec![0xEE; limit], cursor: 0, rec: Vec::new() }
    }
    fn written(&self) -> &[u8] {
        &self.buf[..self.cursor]
    }
}

unsafe impl BufMut for Cap {
    fn remaining_mut(&self) -> usize {
        self.buf.len() - self.cursor
    }
    unsafe fn advance_mut(&mut self, cnt: usize) {
        if self.remaining_mut() < cnt {
            panic!("advance out of bounds");
        }
        self.cursor += cnt;
    }
    fn chunk_mut(&mut self) -> &mut UninitSlice {
        let c = self.cursor;
        UninitSlice::new(&mut self.buf[c..])
    }
}

impl RecordFrame<Frame<Bytes>, Bytes> for Cap {
    fn record_frame(&mut self, frame: &Frame<Bytes>) {
        match frame {
            Frame::Datagram(f, d) => {
                self.rec.push((f.encode_len() as i64, f.len().into_u64() as i64, d.len() as i64))
            }
            _ => self.rec.push((-1, -1, -1)),
        }
    }
}

struct St {
    flow: DatagramFlow,
    writer: Option<DatagramWriter>,
    reader: Option<DatagramReader>,
}

fn new_case(cfg: &[&str]) -> St {
    let peer_max: u64 = cfg.first().and_then(|s| s.parse().ok()).unwrap_or(1200);
    let local_max: u64 = cfg.get(1).and_then(|s| s.parse().ok()).unwrap_or(1200);
    let flow = DatagramFlow::new(local_max, Default::default());
    let writer = flow.writer(peer_max).ok();
    let reader = flow.reader().ok();
    St { flow, writer, reader }
}

/// FrameReader round trip of `bytes` as a 1-RTT payload, every DATAGRAM frame handed to the incoming side
fn deliver(st: &St, bytes: &[u8], o: &mut Obs) {
    let rd = FrameReader::new(Bytes::copy_from_slice(bytes), Type::Short(OneRtt(0.into())));
    let mut npad = 0i64;
    let mut rcs = Vec::new();
    let mut ok = 1i64;
    for item in rd {
        match item {
            Ok((Frame::Padding(_), _)) => npad += 1,
            Ok((Frame::Datagram(f, d), _)) => {
                let rc = match st.flow.recv_frame((f, d)) {
                    Ok(()) => 0i64,
                    Err(e) if e.kind() == ErrorKind::ProtocolViolation => 1,
                    Err(_) => 2,
                };
                rcs.push(rc);
            }
            Ok(_) => {
                ok = 0;
                break;
            }
            Err(_) => {
                ok = 0;
                break;
            }
        }
    }
    o.push(ok).push(npad).push(rcs.len() as i64);
    for r in rcs {
        o.push(r);
    }
}

fn step(st: &mut St, op: &Op, _i: usize) -> Obs {
    let mut o = Obs::new();
    match op.tag {
        0 => {
            let data = Bytes::from(content_slice(op.u(0), op.u(1)));
            match &st.writer {
                None => {
                    o.push(3u8);
                }
                Some(w) => match w.send_bytes(data) {
                    Ok(()) => {
                        o.push(0u8);
                    }
                    Err(e) if e.kind() == std::io::ErrorKind::InvalidInput => {
                        o.push(1u8);
                    }
                    Err(_) => {
                        o.push(2u8);
                    }
                },
            }
        }
        1 => {
            let mut cap = Cap::new(op.u(0) as usize);
            let rc = match st.flow.try_load_data_into(&mut cap) {
                Ok(()) => 0i64,
                Err(s) => 100 + s.bits() as i64,
            };
            o.push(rc).push_usize(cap.written().len());
            o.push_bytes(cap.written());
            o.push_usize(cap.rec.len());
            for (a, b, c) in &cap.rec {
                o.push(*a).push(*b).push(*c);
            }
            if rc == 0 && op.u(1) != 0 {
                let bytes = cap.written().to_vec();
                deliver(st, &bytes, &mut o);
            } else {
                o.push(-1i32);
            }
        }
        5 => {
            let mut cap = Cap::new(op.u(0) as usize);
            let mut count = 0i64;
            let last = loop {
                match st.flow.try_load_data_into(&mut cap) {
                    Ok(()) => count += 1,
                    Err(s) => break 100 + s.bits() as i64,
                }
            };
            o.push(count).push(last).push_usize(cap.written().len());
            o.push_bytes(cap.written());
            o.push_usize(cap.rec.len());
            for (a, b, c) in &cap.rec {
                o.push(*a).push(*b).push(*c);
            }
            if count > 0 && op.u(1) != 0 {
                let bytes = cap.written().to_vec();
                deliver(st, &bytes, &mut o);
            } else {
                o.push(-1i32);
            }
        }
        2 => {
            let with_len = op.u(0) != 0;
            let data = content_slice(op.u(1), op.u(2));
            let mut raw: Vec<u8> = Vec::new();
            raw.put_frame_type(FrameType::Datagram(with_len as u8));
            if with_len {
                raw.put_varint(&VarInt::try_from(data.len()).unwrap());
            }
            raw.put_slice(&data);
            // the frame value the sender side would have recorded, for reference only
            let _ = DatagramFrame::new(with_len, VarInt::try_from(data.len()).unwrap());
            deliver(st, &raw, &mut o);
        }
        3 => match &st.reader {
            None => {
                o.push(3u8);
            }
            Some(r) => {
                let mut cx = Context::from_waker(futures::task::noop_waker_ref());
                match r.poll_recv(&mut cx) {
                    Poll::Ready(Ok(b)) => {
                        o.push(1u8).push_usize(b.len());
                        o.push_bytes(&b);
                    }
                    Poll::Pending => {
                        o.push(0u8);
                    }
                    Poll::Ready(Err(_)) => {
                        o.push(2u8);
                    }
                }
            }
        },
        4 => {
            let e = QuicError::new(ErrorKind::Internal, FrameType::Datagram(0).into(), "verif");
            st.flow.on_conn_error(&e.into());
            o.push(0u8);
        }
        _ => {
            o.push(-99i32);
        }
    }
    o
}

fn main() {
    hproto::run(new_case, step);
}
