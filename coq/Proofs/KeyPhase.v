(* OneRttPacketKeys as a state machine over key generations: which key does get_remote select?
   (C06, clause "receiver selects the generation the sender used, across key updates") *)
From Coq Require Import List ZArith NArith Bool Lia.
From GQ Require Import Model.KeyPhase.
Import ListNotations.
Local Open Scope N_scope.

(* ------------------------------------------------------------------ no panic in get_remote *)

Definition cur_present (s : kstate) : Prop := k_slot s (k_cur s) <> None.

Lemma cur_present_init : cur_present k_init.
Proof. discriminate. Qed.

Lemma cur_present_update s : cur_present (k_update s).
Proof. unfold cur_present, k_update, k_set_slot, k_slot. destruct (k_cur s); cbn; discriminate. Qed.

Lemma cur_present_phase_out s : cur_present s -> cur_present (k_phase_out s).
Proof. unfold cur_present, k_phase_out, k_set_slot, k_slot. destruct s as [c n r0 r1 l]. destruct c; cbn; auto. Qed.

Lemma cur_present_get_remote s p : cur_present s ->
  cur_present (snd (k_get_remote s p)) /\ fst (k_get_remote s p) <> GPanic.
Proof.
  intro H. unfold k_get_remote.
  destruct (negb (eqb p (k_cur s)) && is_none (k_slot s p)) eqn:E; cbn [fst snd].
  - split; [apply cur_present_update|].
    apply andb_prop in E. destruct E as [E1 _]. apply negb_true_iff, eqb_false_iff in E1.
    assert (Hp : p = negb (k_cur s)) by (revert E1; destruct p, (k_cur s); intro E1; try reflexivity; exfalso; apply E1; reflexivity).
    subst p. unfold k_update, k_set_slot, k_slot. destruct (k_cur s); cbn; discriminate.
  - split; [exact H|].
    apply andb_false_iff in E. destruct E as [E|E].
    + apply negb_false_iff, eqb_prop in E. subst p. unfold cur_present in H.
      destruct (k_slot s (k_cur s)); [discriminate|contradiction].
    + destruct (k_slot s p); [discriminate|discriminate E].
Qed.

(* ------------------------------------------------------------------ the selection invariant *)

Definition other (b : kstate) : option N := k_slot b (negb (k_cur b)).

Definition Inv (gs : N) (b : kstate) : Prop :=
  k_next b = k_loc b + 1 /\ k_cur b = phase_of (k_loc b) /\ k_slot b (k_cur b) = Some (k_loc b) /\
  ( (k_loc b = gs /\ (other b = None \/ (1 <= gs /\ other b = Some (gs - 1))))
  \/ (k_loc b + 1 = gs /\ (other b = None \/ (2 <= gs /\ other b = Some (gs - 2))))
  \/ (k_loc b = gs + 1 /\ other b = Some gs)).

Lemma phase_succ g : phase_of (g + 1) = negb (phase_of g).
Proof. unfold phase_of. rewrite N.add_1_r, N.odd_succ, <- N.negb_odd. reflexivity. Qed.

Lemma Inv_init : Inv 0 k_init.
Proof. unfold Inv, other. cbn. repeat split; auto. Qed.

(* facts about update on a state satisfying the first three conjuncts *)
Lemma update_facts b : k_next b = k_loc b + 1 -> k_cur b = phase_of (k_loc b) -> k_slot b (k_cur b) = Some (k_loc b) ->
  let b' := k_update b in
  k_next b' = k_loc b' + 1 /\ k_cur b' = phase_of (k_loc b') /\ k_slot b' (k_cur b') = Some (k_loc b') /\
  k_loc b' = k_loc b + 1 /\ other b' = Some (k_loc b) /\ k_cur b' = negb (k_cur b).
Proof.
  intros Hn Hc Hs. destruct b as [c n r0 r1 l]. cbn in *. subst n.
  unfold k_update, other, k_set_slot, k_slot in *. cbn in *.
  destruct c; cbn in *; subst; rewrite ?phase_succ, <- ?Hc; cbn; repeat split; auto.
Qed.

Definition step_ok (gs : N) (r : gres) : Prop :=
  r = GKey gs \/ (2 <= gs /\ r = GKey (gs - 2)).

(* one delivery: the key is the sender's generation, or the stale key of two generations ago (F20) *)
Lemma deliver_inv gs b : Inv gs b ->
  let r := k_get_remote b (phase_of gs) in Inv gs (snd r) /\ step_ok gs (fst r).
Proof.
  intros (Hn & Hc & Hs & H). cbv zeta. unfold k_get_remote.
  destruct H as [(Hl & Ho)|[(Hl & Ho)|(Hl & Ho)]].
  - (* same generation: phase = cur *)
    assert (Hp : phase_of gs = k_cur b) by (rewrite Hc, Hl; reflexivity).
    rewrite Hp, eqb_reflx. cbn [negb andb fst snd]. rewrite Hs. split.
    + unfold Inv. split; [|split; [|split]]; auto.
    + left. congruence.
  - (* receiver one behind: phase <> cur *)
    assert (Hp : phase_of gs = negb (k_cur b)) by (rewrite <- Hl, phase_succ, Hc; reflexivity).
    rewrite Hp. replace (eqb (negb (k_cur b)) (k_cur b)) with false by (destruct (k_cur b); reflexivity).
    cbn [negb andb]. fold (other b). destruct Ho as [Ho|(H2 & Ho)]; rewrite Ho; cbn [is_none fst snd].
    + destruct (update_facts b Hn Hc Hs) as (A1 & A2 & A3 & A4 & A5 & A6).
      rewrite <- A6, A3. split.
      * unfold Inv. split; [|split; [|split]]; auto. left. split; [lia|]. right. split; [lia|].
        rewrite A5. f_equal. lia.
      * left. f_equal. lia.
    + fold (other b). rewrite Ho. split.
      * unfold Inv. split; [|split; [|split]]; auto. right; left. split; auto.
      * right. split; auto.
  - (* receiver one ahead: the previous key is retained *)
    assert (Hp : phase_of gs = negb (k_cur b)).
    { rewrite Hc, Hl, phase_succ. destruct (phase_of gs); reflexivity. }
    rewrite Hp. replace (eqb (negb (k_cur b)) (k_cur b)) with false by (destruct (k_cur b); reflexivity).
    cbn [negb andb]. fold (other b). rewrite Ho. cbn [is_none fst snd]. fold (other b). rewrite Ho. split.
    + unfold Inv. split; [|split; [|split]]; auto.
    + left. reflexivity.
Qed.

Lemma phase_out_inv gs b : Inv gs b -> k_loc b <= gs -> Inv gs (k_phase_out b).
Proof.
  intros (Hn & Hc & Hs & H) Hle.
  assert (F : k_next (k_phase_out b) = k_next b /\ k_loc (k_phase_out b) = k_loc b /\ k_cur (k_phase_out b) = k_cur b /\
              k_slot (k_phase_out b) (k_cur b) = k_slot b (k_cur b) /\ other (k_phase_out b) = None).
  { destruct b as [c n r0 r1 l]. unfold k_phase_out, other, k_set_slot, k_slot. destruct c; cbn; auto. }
  destruct F as (F1 & F2 & F3 & F4 & F5).
  unfold Inv. rewrite F1, F2, F3, F4, F5. split; [|split; [|split]]; auto.
  destruct H as [(Hl & _)|[(Hl & _)|(Hl & _)]]; [left|right; left|lia]; auto.
Qed.

Lemma recv_update_inv gs b : Inv gs b -> k_loc b <= gs -> Inv gs (k_update b).
Proof.
  intros (Hn & Hc & Hs & H) Hle.
  destruct (update_facts b Hn Hc Hs) as (A1 & A2 & A3 & A4 & A5 & A6).
  unfold Inv. split; [|split; [|split]]; auto.
  destruct H as [(Hl & _)|[(Hl & _)|(Hl & _)]].
  - right; right. split; [lia|]. rewrite A5. f_equal. exact Hl.
  - left. split; [lia|]. right. split; [lia|]. rewrite A5. f_equal. lia.
  - lia.
Qed.

Lemma sender_update_inv gs b : Inv gs b -> gs <= k_loc b -> Inv (gs + 1) b.
Proof.
  intros (Hn & Hc & Hs & H) Hle. unfold Inv. split; [|split; [|split]]; auto.
  destruct H as [(Hl & Ho)|[(Hl & _)|(Hl & Ho)]].
  - right; left. split; [lia|]. destruct Ho as [Ho|(H1 & Ho)]; [left; exact Ho|right].
    split; [lia|]. rewrite Ho. f_equal. lia.
  - lia.
  - left. split; [lia|]. right. split; [lia|]. rewrite Ho. f_equal. lia.
Qed.

Definition log_ok (x : N * gres) : Prop := step_ok (fst x) (snd x).

Lemma sys_run_inv : forall l s s', Inv (s_gs s) (s_b s) -> Forall log_ok (s_sel s) ->
  sys_run k_get_remote s l = Some s' -> Inv (s_gs s') (s_b s') /\ Forall log_ok (s_sel s').
Proof.
  induction l as [|e l IH]; intros s s' HI HL Hr; cbn [sys_run] in Hr.
  - injection Hr as <-. auto.
  - destruct (sys_step k_get_remote s e) as [s1|] eqn:E; [|discriminate].
    apply (IH s1 s'); auto; destruct e; cbn [sys_step] in E.
    + destruct (N.leb_spec (s_gs s) (k_loc (s_b s))); [|discriminate]. injection E as <-. cbn.
      apply sender_update_inv; auto.
    + injection E as <-. cbn. apply deliver_inv; auto.
    + destruct (N.leb_spec (k_loc (s_b s)) (s_gs s)); [|discriminate]. injection E as <-. cbn.
      apply recv_update_inv; auto.
    + destruct (N.leb_spec (k_loc (s_b s)) (s_gs s)); [|discriminate]. injection E as <-. cbn.
      apply phase_out_inv; auto.
    + destruct (N.leb_spec (s_gs s) (k_loc (s_b s))); [|discriminate]. injection E as <-. exact HL.
    + injection E as <-. cbn. apply Forall_app. split; [exact HL|]. constructor; [|constructor].
      unfold log_ok. cbn. apply deliver_inv; auto.
    + destruct (N.leb_spec (k_loc (s_b s)) (s_gs s)); [|discriminate]. injection E as <-. exact HL.
    + destruct (N.leb_spec (k_loc (s_b s)) (s_gs s)); [|discriminate]. injection E as <-. exact HL.
Qed.

(* CONDITIONAL THEOREM (the code as it is): every delivered packet is opened with the generation
   it was protected with, or — class F20 — the sender is at generation >= 2 and the receiver picked
   the key of two generations before *)
Lemma p_c06_keyphase_known l s' : sys_run k_get_remote sys_init l = Some s' ->
  Forall (fun x => sel_ok x \/ (2 <= fst x /\ snd x = GKey (fst x - 2))) (s_sel s').
Proof.
  intro Hr. destruct (sys_run_inv l sys_init s' Inv_init (Forall_nil _) Hr) as [_ H].
  eapply Forall_impl; [|exact H]. intros x Hx. exact Hx.
Qed.

(* in particular everything is right up to and including the first key update of the sender *)
Lemma p_c06_keyphase_first l s' : sys_run k_get_remote sys_init l = Some s' ->
  Forall (fun x => fst x <= 1 -> sel_ok x) (s_sel s').
Proof.
  intro Hr. eapply Forall_impl; [|exact (p_c06_keyphase_known l s' Hr)].
  intros x [H|(H & _)] Hle; [exact H|lia].
Qed.

(* FULL-STRENGTH STATEMENT IS REFUTED: no phase_out (nobody calls it), two sender updates *)
Lemma p_c06_keyphase_refuted :
  exists l s', sys_run k_get_remote sys_init l = Some s' /\ ~ Forall sel_ok (s_sel s') /\
               ~ In ERecvPhaseOut l /\ s_sel s' = [(0, GKey 0); (1, GKey 1); (2, GKey 0)].
Proof.
  exists [EDeliver; ESenderUpdate; EDeliver; ESenderUpdate; EDeliver].
  eexists. split; [vm_compute; reflexivity|]. split; [|split; [|reflexivity]].
  - intro H. inversion H as [|? ? _ H1]; subst. inversion H1 as [|? ? _ H2]; subst.
    inversion H2 as [|? ? H3 _]; subst. unfold sel_ok in H3. cbn in H3. discriminate.
  - cbn. intuition discriminate.
Qed.

(* ------------------------------------------------------------------ with the intended discipline *)
(* "If the old one don't go, the new ones won't come": phase_out() is meant to run between two key
   updates.  [sys_step_d] is the system in which the sender only moves to the next generation from a
   synchronised state after the receiver has phased the old key out. *)
Definition sys_step_d (s : ksys) (e : kev) : option ksys :=
  match e with
  | ESenderUpdate =>
      if (k_loc (s_b s) =? s_gs s) && negb (is_none (other (s_b s))) then None else sys_step k_get_remote s e
  | _ => sys_step k_get_remote s e
  end.

Fixpoint sys_run_d (s : ksys) (l : list kev) : option ksys :=
  match l with
  | [] => Some s
  | e :: r => match sys_step_d s e with Some s' => sys_run_d s' r | None => None end
  end.

Definition InvD (gs : N) (b : kstate) : Prop :=
  Inv gs b /\ (k_loc b + 1 = gs -> other b = None).

Lemma sys_run_d_inv : forall l s s', InvD (s_gs s) (s_b s) -> Forall sel_ok (s_sel s) ->
  sys_run_d s l = Some s' -> InvD (s_gs s') (s_b s') /\ Forall sel_ok (s_sel s').
Proof.
  induction l as [|e l IH]; intros s s' [HI HD] HL Hr; cbn [sys_run_d] in Hr.
  - injection Hr as <-. split; [split|]; auto.
  - destruct (sys_step_d s e) as [s1|] eqn:E; [|discriminate].
    apply (IH s1 s'); auto; destruct e; cbn [sys_step_d sys_step] in E.
    + destruct ((k_loc (s_b s) =? s_gs s) && negb (is_none (other (s_b s)))) eqn:Eg; [discriminate|].
      destruct (N.leb_spec (s_gs s) (k_loc (s_b s))); [|discriminate]. injection E as <-. cbn. split.
      * apply sender_update_inv; auto.
      * intro Hl. apply andb_false_iff in Eg. destruct Eg as [Eg|Eg].
        -- apply N.eqb_neq in Eg. lia.
        -- apply negb_false_iff in Eg. destruct (other (s_b s)); [discriminate|reflexivity].
    + injection E as <-. cbn. destruct (deliver_inv _ _ HI) as [H1 H2]. split; [exact H1|].
      intro Hl. (* after a delivery the receiver is never behind *)
      destruct HI as (Hn & Hc & Hs & H). unfold k_get_remote in *.
      destruct H as [(Hl' & Ho)|[(Hl' & Ho)|(Hl' & Ho)]].
      * assert (Hp : phase_of (s_gs s) = k_cur (s_b s)) by (rewrite Hc, Hl'; reflexivity).
        rewrite Hp, eqb_reflx in Hl. cbn in Hl. lia.
      * assert (Hp : phase_of (s_gs s) = negb (k_cur (s_b s))) by (rewrite <- Hl', phase_succ, Hc; reflexivity).
        rewrite Hp in Hl. replace (eqb (negb (k_cur (s_b s))) (k_cur (s_b s))) with false in Hl by (destruct (k_cur (s_b s)); reflexivity).
        cbn [negb andb] in Hl. fold (other (s_b s)) in Hl. rewrite (HD Hl') in Hl. cbn [is_none snd] in Hl.
        destruct (update_facts _ Hn Hc Hs) as (_ & _ & _ & A4 & _). rewrite A4 in Hl. lia.
      * assert (Hp : phase_of (s_gs s) = negb (k_cur (s_b s))).
        { rewrite Hc, Hl', phase_succ. destruct (phase_of (s_gs s)); reflexivity. }
        rewrite Hp in Hl. replace (eqb (negb (k_cur (s_b s))) (k_cur (s_b s))) with false in Hl by (destruct (k_cur (s_b s)); reflexivity).
        cbn [negb andb] in Hl. fold (other (s_b s)) in Hl. rewrite Ho in Hl. cbn in Hl. lia.
    + destruct (N.leb_spec (k_loc (s_b s)) (s_gs s)); [|discriminate]. injection E as <-. cbn. split.
      * apply recv_update_inv; auto.
      * intro Hl. destruct HI as (Hn & Hc & Hs & H4).
        destruct (update_facts _ Hn Hc Hs) as (_ & _ & _ & A4 & _). rewrite A4 in Hl.
        (* loc+2 = gs contradicts |gs - loc| <= 1 *)
        exfalso. destruct H4 as [(?&_)|[(?&_)|(?&_)]]; lia.
    + destruct (N.leb_spec (k_loc (s_b s)) (s_gs s)); [|discriminate]. injection E as <-. cbn. split.
      * apply phase_out_inv; auto.
      * intros _. destruct (s_b s) as [c n r0 r1 lo]. unfold k_phase_out, other, k_set_slot, k_slot. destruct c; reflexivity.
    + destruct ((k_loc (s_b s) =? s_gs s) && negb (is_none (other (s_b s)))); [discriminate|].
      destruct (N.leb_spec (s_gs s) (k_loc (s_b s))); [|discriminate]. injection E as <-. exact HL.
    + injection E as <-. cbn. apply Forall_app. split; [exact HL|]. constructor; [|constructor].
      unfold sel_ok. cbn. destruct (deliver_inv _ _ HI) as [_ [H2|(H2 & H3)]]; [exact H2|].
      (* the stale branch needs the receiver one behind with the old slot occupied: excluded by InvD *)
      exfalso. destruct HI as (Hn & Hc & Hs & H). unfold k_get_remote in H3.
      destruct H as [(Hl' & Ho)|[(Hl' & Ho)|(Hl' & Ho)]].
      * assert (Hp : phase_of (s_gs s) = k_cur (s_b s)) by (rewrite Hc, Hl'; reflexivity).
        rewrite Hp, eqb_reflx in H3. cbn in H3. rewrite Hs in H3. injection H3 as H3. lia.
      * assert (Hp : phase_of (s_gs s) = negb (k_cur (s_b s))) by (rewrite <- Hl', phase_succ, Hc; reflexivity).
        rewrite Hp in H3. replace (eqb (negb (k_cur (s_b s))) (k_cur (s_b s))) with false in H3 by (destruct (k_cur (s_b s)); reflexivity).
        cbn [negb andb] in H3. fold (other (s_b s)) in H3. rewrite (HD Hl') in H3. cbn [is_none fst snd] in H3.
        destruct (update_facts _ Hn Hc Hs) as (_ & _ & A3 & A4 & _ & A6). rewrite <- A6, A3 in H3. injection H3 as H3. lia.
      * assert (Hp : phase_of (s_gs s) = negb (k_cur (s_b s))).
        { rewrite Hc, Hl', phase_succ. destruct (phase_of (s_gs s)); reflexivity. }
        rewrite Hp in H3. replace (eqb (negb (k_cur (s_b s))) (k_cur (s_b s))) with false in H3 by (destruct (k_cur (s_b s)); reflexivity).
        cbn [negb andb] in H3. fold (other (s_b s)) in H3. rewrite Ho in H3. cbn in H3. fold (other (s_b s)) in H3.
        rewrite Ho in H3. injection H3 as H3. lia.
    + destruct (N.leb_spec (k_loc (s_b s)) (s_gs s)); [|discriminate]. injection E as <-. exact HL.
    + destruct (N.leb_spec (k_loc (s_b s)) (s_gs s)); [|discriminate]. injection E as <-. exact HL.
Qed.

Lemma p_c06_keyphase_with_phase_out l s' : sys_run_d sys_init l = Some s' -> Forall sel_ok (s_sel s').
Proof.
  intro Hr. refine (proj2 (sys_run_d_inv l sys_init s' _ (Forall_nil _) Hr)).
  split; [exact Inv_init|]. cbn. intro H. discriminate.
Qed.

(* get_remote never reaches its unwrap() on None, whatever is called in whatever order *)
Inductive kcall := CUpdate | CPhaseOut | CGetRemote (p : bool).
Definition k_call (s : kstate) (c : kcall) : kstate :=
  match c with CUpdate => k_update s | CPhaseOut => k_phase_out s | CGetRemote p => snd (k_get_remote s p) end.

Lemma p_c06_get_remote_no_panic l p : fst (k_get_remote (fold_left k_call l k_init) p) <> GPanic.
Proof.
  assert (H : cur_present (fold_left k_call l k_init)).
  { generalize cur_present_init. generalize k_init. induction l as [|c l IH]; intros s Hs; [exact Hs|].
    cbn [fold_left]. apply IH. destruct c; cbn [k_call].
    - apply cur_present_update. - apply cur_present_phase_out, Hs. - apply cur_present_get_remote, Hs. }
  apply cur_present_get_remote, H.
Qed.
