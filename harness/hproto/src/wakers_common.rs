//! Shared by the `impl_wakers*` binaries (included with `#[path]`, so that no shared crate changes):
//! counting wakers, one per waiter id, and the op / observation conventions of the `wakers*`
//! streams (C16).
//!
//! ops:  `0 w [arg]` POLL by waiter w;  `1 args…` NOTIFY;  `2 [k]` CLOSE;  `3 w` DROPW
//! obs:  `code c0 c1 c2` — result code of the op, then the cumulative wake count of waiters 0..2
//! codes of a poll: 0 Pending, 1 Ready, 2 Ready(closed/None/error), 3 Ready(Ok(None)), 100+v Ready(v);
//! -9: op skipped (outside the caller contract of the Rust object; the model skips it too).
#![allow(dead_code)]
use std::sync::Arc;
use std::sync::atomic::{AtomicU64, Ordering};
use std::task::{Context, Wake, Waker};

pub const NW: usize = 3;
pub const SKIP: i64 = -9;

pub struct Cnt(pub AtomicU64);
impl Wake for Cnt {
    fn wake(self: Arc<Self>) {
        self.0.fetch_add(1, Ordering::SeqCst);
    }
    fn wake_by_ref(self: &Arc<Self>) {
        self.0.fetch_add(1, Ordering::SeqCst);
    }
}

pub struct Waiters {
    cnts: Vec<Arc<Cnt>>,
    wakers: Vec<Waker>,
}

impl Waiters {
    pub fn new() -> Self {
        let cnts: Vec<Arc<Cnt>> = (0..NW).map(|_| Arc::new(Cnt(AtomicU64::new(0)))).collect();
        let wakers = cnts.iter().map(|c| Waker::from(c.clone())).collect();
        Waiters { cnts, wakers }
    }
    pub fn waker(&self, w: usize) -> &Waker {
        &self.wakers[w]
    }
    pub fn cx(&self, w: usize) -> Context<'_> {
        Context::from_waker(&self.wakers[w])
    }
    pub fn count(&self, w: usize) -> u64 {
        self.cnts[w].0.load(Ordering::SeqCst)
    }
    pub fn obs(&self, code: i64) -> hproto::Obs {
        let mut o = hproto::Obs::new();
        o.push(code);
        for w in 0..NW {
            o.push(self.count(w));
        }
        o
    }
}

/// waiter id of a POLL / DROPW op, if it is a valid id
pub fn wid(op: &hproto::Op, i: usize) -> Option<usize> {
    let v = *op.args.get(i)?;
    if v >= 0 && (v as usize) < NW { Some(v as usize) } else { None }
}
