(* Round trip of the QUIC varint codec of Lib/VarintN.v, and of the DATAGRAM wire form of Model/Datagram.v. *)
From Coq Require Import List NArith ZArith Bool Lia.
From GQ Require Import Lib.Base Lib.Slice Lib.VarintN Model.Datagram Proofs.Datagram.
Import ListNotations.
Local Open Scope N_scope.

Arguments N.add : simpl never.
Arguments N.sub : simpl never.
Arguments N.mul : simpl never.
Arguments N.pow : simpl never.
Arguments N.modulo : simpl never.
Arguments N.div : simpl never.

Lemma be_value_cons acc b l : be_value acc (b :: l) = be_value (acc * 256 + Z.to_N b) l.
Proof. reflexivity. Qed.

Lemma be_value_be_bytes n : forall acc x,
  be_value acc (be_bytes n x) = acc * 256 ^ N.of_nat n + x mod 256 ^ N.of_nat n.
Proof.
  induction n as [| k IH]; intros acc x.
  - cbn [be_bytes]. unfold be_value. cbn [fold_left]. change (N.of_nat 0) with 0. rewrite N.pow_0_r, N.mod_1_r. lia.
  - cbn [be_bytes]. rewrite be_value_cons, N2Z.id, IH.
    rewrite Nnat.Nat2N.inj_succ, N.pow_succ_r'.
    assert (Hp : 256 ^ N.of_nat k <> 0) by (apply N.pow_nonzero; lia).
    rewrite (N.mul_comm 256 (256 ^ N.of_nat k)).
    rewrite (N.mod_mul_r x (256 ^ N.of_nat k) 256) by lia.
    lia.
Qed.

Lemma takeN_app_exact {A} (l1 l2 : list A) : takeN (lenN l1) (l1 ++ l2) = l1.
Proof.
  unfold takeN, lenN. rewrite Nnat.Nat2N.id. rewrite firstn_app, Nat.sub_diag, firstn_all. cbn [firstn]. apply app_nil_r.
Qed.

Lemma dropN_app_exact {A} (l1 l2 : list A) : dropN (lenN l1) (l1 ++ l2) = l2.
Proof.
  unfold dropN, lenN. rewrite Nnat.Nat2N.id. rewrite skipn_app, Nat.sub_diag, skipn_all. reflexivity.
Qed.

Lemma lenN_be_bytes n x : lenN (be_bytes n x) = N.of_nat n.
Proof. unfold lenN. rewrite be_bytes_length. reflexivity. Qed.

(* decoding (k+1) big-endian bytes whose top two bits are p *)
Lemma dec_be k p x rest :
  varint_follow (x / 256 ^ N.of_nat k) = N.of_nat k ->
  x / 256 ^ N.of_nat k < 256 ->
  x / 256 ^ N.of_nat k / 64 = p ->
  varint_dec (be_bytes (S k) x ++ rest) = Some (x - p * 64 * 256 ^ N.of_nat k, rest).
Proof.
  intros Hf Hq Hp. cbn [be_bytes app]. unfold varint_dec. rewrite N2Z.id.
  rewrite (N.mod_small _ 256 Hq). rewrite Hf.
  rewrite lenN_app, lenN_be_bytes.
  destruct (N.ltb_spec (N.of_nat k + lenN rest) (N.of_nat k)) as [H | _]; [lia |].
  assert (Ht : takeN (N.of_nat k) (be_bytes k x ++ rest) = be_bytes k x)
    by (rewrite <- (lenN_be_bytes k x) at 1; apply takeN_app_exact).
  assert (Hd : dropN (N.of_nat k) (be_bytes k x ++ rest) = rest)
    by (rewrite <- (lenN_be_bytes k x) at 1; apply dropN_app_exact).
  rewrite Ht, Hd, be_value_be_bytes.
  f_equal. f_equal.
  assert (H256 : 256 ^ N.of_nat k <> 0) by (apply N.pow_nonzero; lia).
  pose proof (N.div_mod x (256 ^ N.of_nat k) H256) as Hdm.
  pose proof (N.div_mod (x / 256 ^ N.of_nat k) 64 ltac:(lia)) as Hdm2.
  rewrite Hp in Hdm2.
  set (q := x / 256 ^ N.of_nat k) in *. set (r := x mod 256 ^ N.of_nat k) in *.
  set (P := 256 ^ N.of_nat k) in *. set (m := q mod 64) in *.
  assert (Hx : x = (64 * p + m) * P + r) by (rewrite Hdm; rewrite Hdm2 at 1; lia).
  rewrite Hx. nia.
Qed.

Lemma varint_rt v rest : v < VARINT_MAX -> varint_dec (varint_enc v ++ rest) = Some (v, rest).
Proof.
  intro Hv. unfold VARINT_MAX in Hv. unfold varint_enc.
  destruct (N.ltb_spec v (2 ^ 6)) as [H1 | H1].
  - rewrite (dec_be 0 0 v rest).
    + f_equal. f_equal. lia.
    + change (256 ^ N.of_nat 0) with 1. rewrite N.div_1_r. unfold varint_follow.
      rewrite (N.div_small v 64) by (change (2^6) with 64 in H1; lia). reflexivity.
    + change (256 ^ N.of_nat 0) with 1. rewrite N.div_1_r. change (2^6) with 64 in H1. lia.
    + change (256 ^ N.of_nat 0) with 1. rewrite N.div_1_r. apply N.div_small. change (2^6) with 64 in H1. lia.
  - destruct (N.ltb_spec v (2 ^ 14)) as [H2 | H2].
    + change (2 ^ 14) with 16384 in *. change (2 ^ 6) with 64 in *.
      assert (Hq : (v + 16384) / 256 ^ N.of_nat 1 / 64 = 1).
      { change (256 ^ N.of_nat 1) with 256. rewrite N.div_div by lia. change (256 * 64) with 16384.
        symmetry; apply N.div_unique with (r := v); lia. }
      assert (Hq2 : (v + 16384) / 256 ^ N.of_nat 1 < 256).
      { change (256 ^ N.of_nat 1) with 256. apply N.div_lt_upper_bound; lia. }
      rewrite (dec_be 1 1 (v + 16384) rest); [| | exact Hq2 | exact Hq].
      * f_equal. f_equal. change (256 ^ N.of_nat 1) with 256. lia.
      * unfold varint_follow. rewrite Hq. reflexivity.
    + destruct (N.ltb_spec v (2 ^ 30)) as [H3 | H3].
      * change (2 ^ 30) with 1073741824 in *. change (2 ^ 31) with 2147483648.
        assert (Hq : (v + 2147483648) / 256 ^ N.of_nat 3 / 64 = 2).
        { change (256 ^ N.of_nat 3) with 16777216. rewrite N.div_div by lia. change (16777216 * 64) with 1073741824.
          symmetry; apply N.div_unique with (r := v); lia. }
        assert (Hq2 : (v + 2147483648) / 256 ^ N.of_nat 3 < 256).
        { change (256 ^ N.of_nat 3) with 16777216. apply N.div_lt_upper_bound; lia. }
        rewrite (dec_be 3 2 (v + 2147483648) rest); [| | exact Hq2 | exact Hq].
        -- f_equal. f_equal. change (256 ^ N.of_nat 3) with 16777216. lia.
        -- unfold varint_follow. rewrite Hq. reflexivity.
      * change (2 ^ 30) with 1073741824 in *. change (2 ^ 62) with 4611686018427387904 in *.
        change (2 ^ 63) with 9223372036854775808.
        assert (Hq : (v + 9223372036854775808 + 4611686018427387904) / 256 ^ N.of_nat 7 / 64 = 3).
        { change (256 ^ N.of_nat 7) with 72057594037927936. rewrite N.div_div by lia.
          change (72057594037927936 * 64) with 4611686018427387904.
          symmetry; apply N.div_unique with (r := v); lia. }
        assert (Hq2 : (v + 9223372036854775808 + 4611686018427387904) / 256 ^ N.of_nat 7 < 256).
        { change (256 ^ N.of_nat 7) with 72057594037927936. apply N.div_lt_upper_bound; lia. }
        rewrite (dec_be 7 3 _ rest); [| | exact Hq2 | exact Hq].
        -- f_equal. f_equal. change (256 ^ N.of_nat 7) with 72057594037927936. lia.
        -- unfold varint_follow. rewrite Hq. reflexivity.
Qed.
