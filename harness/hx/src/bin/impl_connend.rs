//! Correspondence stream `connend` (C17): REAL `dquic::{QuicClient, QuicListeners}` endpoints over the
//! in-memory network of `hx::net` (no faults, 5 ms one-way latency) under PAUSED tokio time, with
//! application operations of every kind left pending on both endpoints while the connection is ended
//! through the real `qconnection::Components::enter_closing` (local `Connection::close`) or
//! `Components::enter_draining` (the peer's CONNECTION_CLOSE: the peer application closed, or the server
//! refused the client while processing its ClientHello, i.e. before the client has seen the server's
//! transport parameters) at any point of the connection's life.
//!
//! Every application operation is a spawned tokio task; the harness only observes WHEN it completes
//! (which `ADVANCE` reports it) and HOW (Ok / the connection's terminating error / another error).
//!
//! CASE cfg: refuse            (1 = the server's client-name verification refuses the client)
//! ops:
//!   1 START side kind   -> tid (= op index) | -1 the side has no established connection object
//!                          (the server's is visible once its handshake completed) | -2 single-waker slot busy
//!        kinds: 1 open_bi 2 open_uni 3 accept_bi 4 accept_uni 5 datagram recv 6 datagram_writer()
//!               7 handshaked() 8 terminated() 9 open_bi then read
//!   2 ADVANCE ms        -> now_ms  n (tid code)*n  tc ts
//!        the runtime runs for `ms` of virtual time; the tasks that completed, in tid order, with
//!        code 1 Ok | 2 the terminating error of its endpoint | 3 Ok(None) / an io error that is no connection error
//!             | 4 a connection error different from the terminating one | 5 a connection error although the
//!             endpoint has not terminated;  tc / ts = `terminated()` has resolved on the client / (visible) server
//!   3 CLOSE side code   -> 0 closed now | 1 was terminated already | -1 not visible
//! Time discipline of the generator (the model relies on it): an ADVANCE is either "short" (1 ms, at most
//! two per case: nothing crosses the network) or "long" (>= 1000 ms: everything in flight has settled).
use std::{
    sync::{Arc, Mutex},
    time::Duration,
};

use dquic::{
    prelude::{handy::*, *},
    qinterface::{component::route::QuicRouter, manager::InterfaceManager},
    qresolve::Source,
};
use hproto::{Obs, Op};
use hx::net::{Factory, Faults, Net};
use rustls::pki_types::{CertificateDer, pem::PemObject};
use tokio::io::AsyncReadExt;

const CA_CERT: &[u8] = include_bytes!("../../../../rp/tests/keychain/localhost/ca.cert");
const SERVER_CERT: &[u8] = include_bytes!("../../../../rp/tests/keychain/localhost/server.cert");
const SERVER_KEY: &[u8] = include_bytes!("../../../../rp/tests/keychain/localhost/server.key");

struct Refuse;
impl AuthClient for Refuse {
    fn verify_client_name(&self, _: &LocalAgent, _: Option<&str>) -> ClientNameVerifyResult {
        ClientNameVerifyResult::Refuse("who are you".to_owned())
    }
    fn verify_client_agent(&self, _: &LocalAgent, _: &RemoteAgent) -> ClientAgentVerifyResult {
        ClientAgentVerifyResult::Accept
    }
}

#[derive(Clone, Debug)]
enum Res {
    Ok,
    ConnErr(Error),
    Other,
}

type Slot<T> = Arc<Mutex<Option<T>>>;

struct St {
    rt: tokio::runtime::Runtime,
    t0: tokio::time::Instant,
    conns: [Slot<Connection>; 2],
    term: [Slot<Error>; 2],
    done: Arc<Mutex<Vec<(usize, usize, Res)>>>, // tid side result
    pending: Vec<(usize, usize, u64)>,          // tid side kind
    keep: Option<(Arc<QuicListeners>, Arc<QuicClient>)>,
}

impl Drop for St {
    fn drop(&mut self) {
        // connections close themselves when dropped and need the runtime for that
        let _g = self.rt.enter();
        for c in &self.conns {
            c.lock().unwrap().take();
        }
        self.keep.take();
    }
}

fn io_res<T>(r: std::io::Result<T>) -> Res {
    match r {
        Ok(_) => Res::Ok,
        Err(e) => {
            let inner = e.get_ref();
            if let Some(ce) = inner.and_then(|r| r.downcast_ref::<Error>()) {
                Res::ConnErr(ce.clone())
            } else if let Some(StreamError::Connection(ce)) = inner.and_then(|r| r.downcast_ref::<StreamError>()) {
                Res::ConnErr(ce.clone())
            } else {
                Res::Other
            }
        }
    }
}

#[allow(deprecated)]
async fn run_kind(conn: Connection, kind: u64) -> Res {
    match kind {
        1 => match conn.open_bi_stream().await {
            Ok(Some(_)) => Res::Ok,
            Ok(None) => Res::Other,
            Err(e) => Res::ConnErr(e),
        },
        2 => match conn.open_uni_stream().await {
            Ok(Some(_)) => Res::Ok,
            Ok(None) => Res::Other,
            Err(e) => Res::ConnErr(e),
        },
        3 => match conn.accept_bi_stream().await {
            Ok(_) => Res::Ok,
            Err(e) => Res::ConnErr(e),
        },
        4 => match conn.accept_uni_stream().await {
            Ok(_) => Res::Ok,
            Err(e) => Res::ConnErr(e),
        },
        5 => match conn.datagram_reader() {
            Err(e) => Res::ConnErr(e),
            Ok(Err(e)) => io_res::<()>(Err(e)),
            Ok(Ok(mut reader)) => io_res(reader.recv().await),
        },
        6 => match conn.datagram_writer().await {
            Err(e) => Res::ConnErr(e),
            Ok(r) => io_res(r),
        },
        7 => match conn.handshaked().await {
            Ok(()) => Res::Ok,
            Err(e) => Res::ConnErr(e),
        },
        8 => Res::ConnErr(conn.terminated().await),
        _ => match conn.open_bi_stream().await {
            Ok(Some((_sid, (mut reader, _writer)))) => {
                let mut buf = [0u8; 16];
                io_res(reader.read(&mut buf).await)
            }
            Ok(None) => Res::Other,
            Err(e) => Res::ConnErr(e),
        },
    }
}

fn new_case(words: &[&str]) -> St {
    let refuse = words.first().and_then(|w| w.parse::<u64>().ok()).unwrap_or(0) == 1;
    let rt = tokio::runtime::Builder::new_current_thread().enable_all().start_paused(true).build().unwrap();
    let conns: [Slot<Connection>; 2] = [Arc::new(Mutex::new(None)), Arc::new(Mutex::new(None))];
    let term: [Slot<Error>; 2] = [Arc::new(Mutex::new(None)), Arc::new(Mutex::new(None))];
    let (listeners, client) = rt.block_on(async {
        let faults = Faults { latency_ms: 5, budget: Some(0), ..Default::default() };
        let net = Net::new(1, faults);
        let factory: Arc<Factory> = Arc::new(Factory(net.clone()));
        let router = Arc::new(QuicRouter::default());
        let mgr = Arc::new(InterfaceManager::new());
        let mut sp = server_parameters();
        let mut cp = client_parameters();
        for (p, v) in [(ParameterId::MaxIdleTimeout, Duration::from_secs(120))] {
            sp.set(p, v).unwrap();
            cp.set(p, v).unwrap();
        }
        sp.set(ParameterId::MaxDatagramFrameSize, 1200u32).unwrap();
        cp.set(ParameterId::MaxDatagramFrameSize, 1200u32).unwrap();
        let builder = QuicListeners::builder()
            .with_router(router.clone())
            .with_iface_factory(factory.clone())
            .with_iface_manager(mgr.clone())
            .without_client_cert_verifier()
            .with_parameters(sp);
        let builder = if refuse { builder.with_client_auther(Refuse) } else { builder };
        let listeners = builder.listen(16).unwrap();
        listeners
            .add_server("localhost", SERVER_CERT, SERVER_KEY, [BindUri::from("inet://127.0.0.1:0").alloc_port()], None)
            .await
            .unwrap();
        let server_addr = listeners
            .get_server("localhost")
            .unwrap()
            .bind_interfaces()
            .into_iter()
            .next()
            .unwrap()
            .1
            .borrow()
            .bound_addr()
            .unwrap();
        net.set_server_addr(server_addr);
        // the server's connection becomes visible once its handshake completed
        tokio::spawn({
            let (listeners, slot, term) = (listeners.clone(), conns[1].clone(), term[1].clone());
            async move {
                while let Ok((conn, _name, _pathway, _link)) = listeners.accept().await {
                    let (slot, term) = (slot.clone(), term.clone());
                    tokio::spawn(async move {
                        if conn.handshaked().await.is_ok() {
                            *slot.lock().unwrap() = Some(conn.clone());
                            let e = conn.terminated().await;
                            term.lock().unwrap().get_or_insert(e);
                        }
                    });
                }
            }
        });
        let mut roots = rustls::RootCertStore::empty();
        roots.add_parsable_certificates(CertificateDer::pem_slice_iter(CA_CERT).map(Result::unwrap));
        let client = QuicClient::builder()
            .with_router(router.clone())
            .with_iface_factory(factory.clone())
            .with_iface_manager(mgr.clone())
            .with_root_certificates(roots)
            .with_parameters(cp)
            .without_cert()
            .bind([BindUri::from("inet://127.0.0.1:0").alloc_port()])
            .await
            .build();
        let client = Arc::new(client);
        let conn = client
            .connected_to_with_source("localhost", [(Source::System, server_addr.into())])
            .await
            .expect("in-memory bind cannot fail");
        *conns[0].lock().unwrap() = Some(conn.clone());
        tokio::spawn({
            let term = term[0].clone();
            async move {
                let e = conn.terminated().await;
                term.lock().unwrap().get_or_insert(e);
            }
        });
        (listeners, client)
    });
    let t0 = rt.block_on(async { tokio::time::Instant::now() });
    St { rt, t0, conns, term, done: Arc::new(Mutex::new(Vec::new())), pending: Vec::new(), keep: Some((listeners, client)) }
}

fn step(st: &mut St, op: &Op, idx: usize) -> Obs {
    let mut o = Obs::new();
    match op.tag {
        1 if op.args.len() == 2 => {
            let side = (op.u(0).min(1)) as usize;
            let kind = op.u(1);
            let Some(conn) = st.conns[side].lock().unwrap().clone() else {
                o.push(-1);
                return o;
            };
            if (3..=5).contains(&kind) && st.pending.iter().any(|&(_, s, k)| s == side && k == kind) {
                o.push(-2);
                return o;
            }
            if !(1..=9).contains(&kind) {
                o.push(-99);
                return o;
            }
            let done = st.done.clone();
            st.rt.spawn(async move {
                let r = run_kind(conn, kind).await;
                done.lock().unwrap().push((idx, side, r));
            });
            st.pending.push((idx, side, kind));
            o.push_usize(idx);
        }
        2 if op.args.len() == 1 => {
            let ms = op.u(0).min(100_000);
            st.rt.block_on(async {
                tokio::time::sleep(Duration::from_millis(ms)).await;
                for _ in 0..8 {
                    tokio::task::yield_now().await;
                }
            });
            let now = st.rt.block_on(async { tokio::time::Instant::now() }).duration_since(st.t0).as_millis();
            let mut done: Vec<(usize, usize, Res)> = std::mem::take(&mut *st.done.lock().unwrap());
            done.sort_by_key(|d| d.0);
            o.push(now as i128).push_usize(done.len());
            for (tid, side, r) in done {
                st.pending.retain(|p| p.0 != tid);
                let code = match r {
                    Res::Ok => 1,
                    Res::Other => 3,
                    Res::ConnErr(e) => match st.term[side].lock().unwrap().as_ref() {
                        Some(t) if *t == e => 2,
                        Some(_) => 4,
                        None => 5,
                    },
                };
                o.push_usize(tid).push(code);
            }
            let tc = st.term[0].lock().unwrap().is_some();
            let ts = st.conns[1].lock().unwrap().is_some() && st.term[1].lock().unwrap().is_some();
            o.push_bool(tc).push_bool(ts);
        }
        3 if op.args.len() == 2 => {
            let side = (op.u(0).min(1)) as usize;
            let Some(conn) = st.conns[side].lock().unwrap().clone() else {
                o.push(-1);
                return o;
            };
            let _g = st.rt.enter();
            match conn.close("bye", op.u(1).min(1000)) {
                Ok(()) => o.push(0),
                Err(_) => o.push(1),
            };
        }
        _ => {
            o.push(-99);
        }
    }
    o
}

fn main() {
    if std::env::var("VERIF_SHOW_PANICS").is_ok() {
        // debugging aid: build one case with the default panic hook still installed
        let _ = new_case(&["0"]);
    }
    hproto::run(new_case, step);
}
