(* Model of the routing table of qinterface/src/component/route.rs.  Definitions only.

   QuicRouter.table : DashMap<Signpost, Arc<RcvdPacketQueue>>.  A signpost built from a
   non-empty connection ID is that ID (peer = None); the value is the receive queue of one
   connection, compared by pointer (Arc / Weak ptr_eq).  So the table is a finite map
   [cid -> owner], [owner] standing for the identity of a connection's queue.

     QuicRouter::insert            -> t_insert      (unconditional, overwrites: origin DCID)
     QuicRouter::remove            -> t_remove      (unconditional: RetireCid::retire_cid)
     QuicRouterEntry::remove/drop  -> t_remove_if   (remove_if with the pointer-equality guard)
     QuicRouter::find_entry        -> t_get
     QuicRouterRegistry::gen_unique_cid -> gen_unique (loop over random candidates until one
                                      is vacant, then entry.insert)

   Randomness is an ORACLE: a stream [rnd : N -> cid] of candidates and a position counter in
   the environment.  The Rust loop has no bound; the model loop has [fuel] and returns None
   when it runs out (the Rust would still be spinning).  Every theorem is for all [rnd] and
   all [fuel].  A hash map has no order: only [t_get] is observable. *)
From Coq Require Import List NArith ZArith Bool.
Import ListNotations.
Local Open Scope N_scope.

Definition cid := N.      (* abstract connection-ID value: only equality matters *)
Definition owner := N.    (* identity (pointer) of a connection's RcvdPacketQueue *)
Definition table := list (cid * owner).

Fixpoint t_get (t : table) (k : cid) : option owner :=
  match t with
  | [] => None
  | (k', v) :: r => if k' =? k then Some v else t_get r k
  end.

Fixpoint t_remove (t : table) (k : cid) : table :=
  match t with
  | [] => []
  | (k', v) :: r => if k' =? k then t_remove r k else (k', v) :: t_remove r k
  end.

Definition t_insert (t : table) (k : cid) (v : owner) : table := (k, v) :: t_remove t k.

(* DashMap::remove_if(&signpost, |_, q| Weak::ptr_eq(downgrade(q), &self.queue)) *)
Definition t_remove_if (t : table) (k : cid) (q : owner) : table :=
  match t_get t k with
  | Some q' => if q' =? q then t_remove t k else t
  | None => t
  end.

(* environment shared by all connections: the table and the number of randoms consumed *)
Record renv := mkEnv { e_tab : table; e_k : N }.

Section Gen.
  Variable rnd : N -> cid.
  Variable fuel : nat.

  Fixpoint gen_loop (f : nat) (t : table) (k : N) : option (cid * N) :=
    match f with
    | O => None
    | S f' =>
        let c := rnd k in
        match t_get t c with
        | Some _ => gen_loop f' t (k + 1)      (* Entry::Occupied -> try the next random *)
        | None => Some (c, k + 1)              (* vacant -> entry.insert(queue) *)
        end
    end.

  Definition gen_unique (q : owner) (e : renv) : option (renv * cid) :=
    match gen_loop fuel (e_tab e) (e_k e) with
    | None => None
    | Some (c, k') => Some (mkEnv (t_insert (e_tab e) c q) k', c)
    end.
End Gen.

Definition retire_cid (e : renv) (c : cid) : renv := mkEnv (t_remove (e_tab e) c) (e_k e).
Definition insert_odcid (e : renv) (c : cid) (q : owner) : renv := mkEnv (t_insert (e_tab e) c q) (e_k e).
Definition entry_drop (e : renv) (c : cid) (q : owner) : renv := mkEnv (t_remove_if (e_tab e) c q) (e_k e).
Definition route (e : renv) (c : cid) : option owner := t_get (e_tab e) c.
