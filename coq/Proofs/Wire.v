(* Round-trip and size lemmas for the wire primitives and the QUIC varint. *)
From Coq Require Import List ZArith NArith Bool Lia.
From GQ Require Import Lib.Wire Model.Varint.
Import ListNotations.
Local Open Scope Z_scope.

Lemma put_be_length n v : length (put_be n v) = n.
Proof. induction n as [|n IH]; cbn [put_be length]; [reflexivity|now rewrite IH]. Qed.

Lemma put_be_bytes n v : bytes_ok (put_be n v).
Proof.
  induction n as [|n IH]; cbn [put_be]; [constructor|].
  constructor; [|exact IH]. apply Z.mod_pos_bound. lia.
Qed.

Lemma get_be_put_be n : forall acc v rest, 0 <= v ->
  get_be n acc (put_be n v ++ rest) = Some (acc * 256 ^ Z.of_nat n + v mod 256 ^ Z.of_nat n, rest).
Proof.
  induction n as [|n IH]; intros acc v rest Hv.
  - cbn [put_be get_be app]. rewrite Z.pow_0_r, Z.mod_1_r. do 2 f_equal. lia.
  - cbn [put_be get_be app]. rewrite IH by assumption. do 2 f_equal.
    rewrite Nat2Z.inj_succ, Z.pow_succ_r by lia.
    assert (Hp : 0 < 256 ^ Z.of_nat n) by (apply Z.pow_pos_nonneg; lia).
    rewrite (Z.mul_comm 256 (256 ^ Z.of_nat n)).
    rewrite (Z.rem_mul_r v (256 ^ Z.of_nat n) 256) by lia.
    lia.
Qed.

Lemma get_be_put_be_exact n v rest : 0 <= v < 256 ^ Z.of_nat n ->
  get_be n 0 (put_be n v ++ rest) = Some (v, rest).
Proof. intro H. rewrite get_be_put_be by lia. rewrite Z.mod_small by lia. reflexivity. Qed.

Lemma get_be_short n : forall acc bs, (length bs < n)%nat -> get_be n acc bs = None.
Proof.
  induction n as [|n IH]; intros acc bs H; [inversion H|].
  destruct bs as [|b r]; cbn [get_be]; [reflexivity|]. apply IH. cbn [length] in H. lia.
Qed.

Lemma get_be_some n : forall acc bs, (n <= length bs)%nat ->
  exists v, get_be n acc bs = Some (v, skipn n bs).
Proof.
  induction n as [|n IH]; intros acc bs H.
  - exists acc. reflexivity.
  - destruct bs as [|b r]; [cbn [length] in H; lia|]. cbn [get_be skipn]. apply IH. cbn [length] in H. lia.
Qed.

Lemma get_be_rest n : forall acc bs v r, get_be n acc bs = Some (v, r) -> r = skipn n bs /\ (n <= length bs)%nat.
Proof.
  induction n as [|n IH]; intros acc bs v r H.
  - cbn [get_be] in H. injection H as <- <-. split; [reflexivity|lia].
  - destruct bs as [|b t]; cbn [get_be] in H; [discriminate|].
    apply IH in H. cbn [skipn length]. destruct H; split; [assumption|lia].
Qed.

(* ---------- varint ---------- *)

Lemma varint_size_cases x : varint_size x = 1 \/ varint_size x = 2 \/ varint_size x = 4 \/ varint_size x = 8.
Proof. unfold varint_size. destruct (x <? 2^6), (x <? 2^14), (x <? 2^30); auto. Qed.

Lemma varint_size_pos x : 1 <= varint_size x <= 8.
Proof. destruct (varint_size_cases x) as [H|[H|[H|H]]]; rewrite H; lia. Qed.

Lemma put_varint_length x : zlen (put_varint x) = varint_size x.
Proof.
  unfold put_varint, varint_size, zlen.
  destruct (x <? 2^6); [now rewrite put_be_length|].
  destruct (x <? 2^14); [now rewrite put_be_length|].
  destruct (x <? 2^30); now rewrite put_be_length.
Qed.

Lemma put_varint_bytes x : bytes_ok (put_varint x).
Proof. unfold put_varint. destruct (x <? 2^6), (x <? 2^14), (x <? 2^30); apply put_be_bytes. Qed.

Lemma put_varint_nonempty x : put_varint x <> [].
Proof.
  intro H. pose proof (put_varint_length x) as L. rewrite H in L. cbn in L.
  pose proof (varint_size_pos x). lia.
Qed.

Ltac Zify.zify_post_hook ::= Z.div_mod_to_equations.
Ltac eqb_consts := repeat match goal with |- context [Z.eqb ?a ?b] => let v := eval vm_compute in (Z.eqb a b) in change (Z.eqb a b) with v end; cbv beta iota zeta.

Lemma be_varint_put_varint x rest : varint_ok x -> be_varint (put_varint x ++ rest) = Ok x rest.
Proof.
  unfold varint_ok, put_varint. intros [H0 H1].
  destruct (Z.ltb_spec x (2^6)) as [C1|C1].
  { unfold be_varint. cbn [put_be app]. change (256 ^ Z.of_nat 0) with 1. rewrite Z.div_1_r.
    rewrite (Z.mod_small x 256) by lia.
    assert (E : x / 64 = 0) by (apply Z.div_small; lia). rewrite E. eqb_consts.
    cbn [get_be]. change (8 * Z.of_nat 1 - 2) with 6. rewrite Z.mod_small by lia.
    f_equal. }
  destruct (Z.ltb_spec x (2^14)) as [C2|C2].
  { unfold be_varint.
    assert (Hb : put_be 2 (2^14 + x) = ((2^14 + x) / 256) mod 256 :: put_be 1 (2^14 + x)) by reflexivity.
    rewrite Hb. cbn [app].
    assert (E : (((2^14 + x) / 256) mod 256) / 64 = 1) by lia. rewrite E. eqb_consts.
    rewrite <- Hb, <- app_comm_cons || idtac.
    change (((2 ^ 14 + x) / 256) mod 256 :: put_be 1 (2 ^ 14 + x) ++ rest) with (put_be 2 (2^14 + x) ++ rest).
    rewrite get_be_put_be_exact by (change (256 ^ Z.of_nat 2) with 65536; lia).
    change (8 * Z.of_nat 2 - 2) with 14. f_equal. lia. }
  destruct (Z.ltb_spec x (2^30)) as [C3|C3].
  { unfold be_varint.
    assert (Hb : put_be 4 (2 * 2^30 + x) = ((2 * 2^30 + x) / 256^3) mod 256 :: put_be 3 (2 * 2^30 + x)) by reflexivity.
    rewrite Hb. cbn [app].
    assert (E : (((2 * 2^30 + x) / 256^3) mod 256) / 64 = 2) by lia. rewrite E. eqb_consts.
    change (((2 * 2 ^ 30 + x) / 256 ^ 3) mod 256 :: put_be 3 (2 * 2 ^ 30 + x) ++ rest) with (put_be 4 (2 * 2^30 + x) ++ rest).
    rewrite get_be_put_be_exact by (change (256 ^ Z.of_nat 4) with 4294967296; lia).
    change (8 * Z.of_nat 4 - 2) with 30. f_equal. lia. }
  { unfold be_varint.
    assert (Hb : put_be 8 (3 * 2^62 + x) = ((3 * 2^62 + x) / 256^7) mod 256 :: put_be 7 (3 * 2^62 + x)) by reflexivity.
    rewrite Hb. cbn [app].
    assert (E : (((3 * 2^62 + x) / 256^7) mod 256) / 64 = 3) by lia. rewrite E. eqb_consts.
    change (((3 * 2 ^ 62 + x) / 256 ^ 7) mod 256 :: put_be 7 (3 * 2 ^ 62 + x) ++ rest) with (put_be 8 (3 * 2^62 + x) ++ rest).
    rewrite get_be_put_be_exact by (change (256 ^ Z.of_nat 8) with 18446744073709551616; lia).
    change (8 * Z.of_nat 8 - 2) with 62. f_equal. lia. }
Qed.
