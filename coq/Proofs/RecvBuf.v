(* Proofs about Model/RecvBuf.v (property C08). *)
From Coq Require Import List NArith ZArith Bool Lia.
From GQ Require Import Lib.Base Lib.Slice Model.RecvBuf.
Import ListNotations.
Local Open Scope N_scope.

Arguments N.add : simpl never.
Arguments N.sub : simpl never.
Arguments N.min : simpl never.
Arguments N.max : simpl never.

Definition in_seg (s : seg) (i : N) : Prop := s_off s <= i < s_end s.
Definition covers (ss : list seg) (i : N) : Prop := exists s, In s ss /\ in_seg s i.

(* sorted, disjoint, non-empty, every segment a slice of the content [c], all at or after [lo] *)
Fixpoint wf (c : N -> Z) (lo : N) (ss : list seg) : Prop :=
  match ss with
  | [] => True
  | s :: r => lo <= s_off s /\ 0 < s_len s /\ is_slice c (s_off s) (s_data s) /\ wf c (s_end s) r
  end.

Lemma covers_nil i : covers [] i <-> False.
Proof. split; [intros [s [[] _]]|intros []]. Qed.

Lemma covers_cons s r i : covers (s :: r) i <-> in_seg s i \/ covers r i.
Proof.
  unfold covers; split.
  - intros [s' [[E|Hin] Hi]]; [subst; now left|right; eauto].
  - intros [Hi|[s' [Hin Hi]]]; [exists s; split; [now left|exact Hi]|exists s'; split; [now right|exact Hi]].
Qed.

Lemma s_end_mk a d : s_end (mkseg a d) = a + lenN d.
Proof. reflexivity. Qed.
Lemma s_len_mk a d : s_len (mkseg a d) = lenN d.
Proof. reflexivity. Qed.
Lemma s_off_mk a d : s_off (mkseg a d) = a.
Proof. reflexivity. Qed.
Lemma s_data_mk a d : s_data (mkseg a d) = d.
Proof. reflexivity. Qed.
Lemma s_end_eq s : s_end s = s_off s + s_len s.
Proof. reflexivity. Qed.

Lemma wf_weaken c lo lo' ss : lo' <= lo -> wf c lo ss -> wf c lo' ss.
Proof. destruct ss as [|s r]; cbn [wf]; [trivial|]. intros H (H1 & H2 & H3 & H4). repeat split; try assumption; lia. Qed.

Lemma wf_covers_ge c lo ss i : wf c lo ss -> covers ss i -> lo <= i.
Proof.
  revert lo; induction ss as [|s r IH]; intros lo Hwf Hc.
  - now apply covers_nil in Hc.
  - cbn [wf] in Hwf. destruct Hwf as (H1 & H2 & H3 & H4).
    apply covers_cons in Hc. destruct Hc as [Hi|Hc].
    + unfold in_seg in Hi. lia.
    + specialize (IH _ H4 Hc). rewrite s_end_eq in IH. lia.
Qed.

(* ---------------- ins ---------------- *)

Lemma ins_nil_data ss start : ins ss start [] = (ss, 0).
Proof. destruct ss; reflexivity. Qed.

Lemma ins_nil_ss start data : data <> [] -> ins [] start data = ([mkseg start data], start + lenN data).
Proof. destruct data; [congruence|reflexivity]. Qed.

Lemma ins_cons s rest start data : data <> [] ->
  ins (s :: rest) start data =
      if start + lenN data <=? s_off s then
        (mkseg start data :: s :: rest, start + lenN data)
      else if start <? s_off s then
        let gap := s_off s - start in
        let data' := dropN gap data in
        let cov := N.min (lenN data') (s_len s) in
        let '(rest', m) := ins rest (s_off s + cov) (dropN cov data') in
        (mkseg start (takeN gap data) :: s :: rest', N.max (s_off s) m)
      else if s_end s <=? start then
        let '(rest', m) := ins rest start data in (s :: rest', m)
      else
        let cov := N.min (lenN data) (s_end s - start) in
        let '(rest', m) := ins rest (start + cov) (dropN cov data) in
        (s :: rest', m).
Proof. destruct data; [congruence|reflexivity]. Qed.

Definition ins_post (c : N -> Z) (lo : N) (ss : list seg) (start : N) (data : list Z)
           (ss' : list seg) (m : N) : Prop :=
  wf c lo ss' /\
  (forall i, covers ss' i <-> covers ss i \/ (start <= i < start + lenN data)) /\
  m <= start + lenN data /\
  (forall s', In s' ss' -> In s' ss \/ s_end s' <= m).

Lemma ins_spec c ss : forall start data lo ss' m,
  wf c lo ss -> (data <> [] -> lo <= start) -> is_slice c start data ->
  ins ss start data = (ss', m) ->
  ins_post c lo ss start data ss' m.
Proof.
  induction ss as [|s rest IH]; intros start data lo ss' m Hwf Hlo Hsl Hins.
  - destruct data as [|d data0] eqn:Ed.
    + rewrite ins_nil_data in Hins. injection Hins as <- <-.
      unfold ins_post. rewrite lenN_nil. split; [assumption|]. split; [|split; [lia|intros; now left]].
      intro i. split; [intro; now left|intros [H|H]; [exact H|lia]].
    + rewrite <- Ed in *. assert (Hne : data <> []) by (rewrite Ed; discriminate).
      clear Ed. rewrite ins_nil_ss in Hins by assumption. injection Hins as <- <-.
      assert (0 < lenN data) by (now apply lenN_pos).
      unfold ins_post. split; [|split; [|split]].
      * cbn [wf]. rewrite s_off_mk, s_len_mk, s_data_mk. repeat split; auto.
      * intro i. rewrite covers_cons, covers_nil. unfold in_seg. rewrite s_off_mk, s_end_mk. tauto.
      * lia.
      * intros s' [<-|[]]. right. rewrite s_end_mk. lia.
  - destruct data as [|d data0] eqn:Ed.
    + rewrite ins_nil_data in Hins. injection Hins as <- <-.
      unfold ins_post. rewrite lenN_nil. split; [assumption|]. split; [|split; [lia|intros; now left]].
      intro i. split; [intro; now left|intros [H|H]; [exact H|lia]].
    + rewrite <- Ed in *. assert (Hne : data <> []) by (rewrite Ed; discriminate).
      clear Ed d data0. specialize (Hlo Hne).
      assert (Hlen : 0 < lenN data) by (now apply lenN_pos).
      rewrite ins_cons in Hins by assumption.
      cbn [wf] in Hwf. destruct Hwf as (W1 & W2 & W3 & W4).
      pose proof (s_end_eq s) as Es.
      destruct (N.leb_spec (start + lenN data) (s_off s)) as [C1|C1].
      { (* entirely before s *)
        injection Hins as <- <-. unfold ins_post. split; [|split; [|split]].
        - cbn [wf]. rewrite s_off_mk, s_len_mk, s_data_mk, s_end_mk. repeat split; auto.
        - intro i. rewrite !covers_cons. unfold in_seg at 1. rewrite s_off_mk, s_end_mk. tauto.
        - lia.
        - intros s' [<-|Hin]; [right; rewrite s_end_mk; lia|now left]. }
      destruct (N.ltb_spec start (s_off s)) as [C2|C2].
      { (* head in the gap, then s *)
        cbv zeta in Hins.
        set (gap := s_off s - start) in *.
        set (data' := dropN gap data) in *.
        set (cov := N.min (lenN data') (s_len s)) in *.
        destruct (ins rest (s_off s + cov) (dropN cov data')) as [rest' m'] eqn:Erec.
        injection Hins as <- <-.
        assert (Ld' : lenN data' = lenN data - gap) by (unfold data'; apply lenN_dropN).
        assert (Sd' : is_slice c (s_off s) data').
        { replace (s_off s) with (start + gap) by lia. unfold data'. apply is_slice_drop; [lia|assumption]. }
        assert (Ld'' : lenN (dropN cov data') = lenN data' - cov) by apply lenN_dropN.
        apply IH with (lo := s_end s) in Erec; [| assumption | |].
        2:{ intro Hne'. apply lenN_pos in Hne'. lia. }
        2:{ apply is_slice_drop; [lia|assumption]. }
        destruct Erec as (R1 & R2 & R3 & R4).
        unfold ins_post. split; [|split; [|split]].
        - cbn [wf]. rewrite s_off_mk, s_len_mk, s_data_mk, s_end_mk, lenN_takeN.
          split; [lia|]. split; [lia|]. split; [apply is_slice_take; assumption|].
          split; [lia|]. split; [assumption|]. split; [assumption|].
          exact R1.
        - intro i. rewrite !covers_cons, R2. unfold in_seg. rewrite s_off_mk, s_end_mk, lenN_takeN.
          split; intro H; intuition lia.
        - lia.
        - intros s' [<-|[<-|Hin]].
          + right. rewrite s_end_mk, lenN_takeN. lia.
          + left; now left.
          + destruct (R4 _ Hin) as [H|H]; [left; now right|right; lia]. }
      destruct (N.leb_spec (s_end s) start) as [C3|C3].
      { (* s entirely before the data *)
        destruct (ins rest start data) as [rest' m'] eqn:Erec.
        injection Hins as <- <-.
        apply IH with (lo := s_end s) in Erec; [| assumption | intros _; lia | assumption].
        destruct Erec as (R1 & R2 & R3 & R4).
        unfold ins_post. split; [|split; [|split]].
        - cbn [wf]. repeat split; auto.
        - intro i. rewrite !covers_cons, R2. tauto.
        - exact R3.
        - intros s' [<-|Hin]; [left; now left|].
          destruct (R4 _ Hin) as [H|H]; [left; now right|now right]. }
      { (* data starts inside s *)
        cbv zeta in Hins.
        set (cov := N.min (lenN data) (s_end s - start)) in *.
        destruct (ins rest (start + cov) (dropN cov data)) as [rest' m'] eqn:Erec.
        injection Hins as <- <-.
        assert (Ld'' : lenN (dropN cov data) = lenN data - cov) by apply lenN_dropN.
        apply IH with (lo := s_end s) in Erec; [| assumption | |].
        2:{ intro Hne'. apply lenN_pos in Hne'. lia. }
        2:{ apply is_slice_drop; [lia|assumption]. }
        destruct Erec as (R1 & R2 & R3 & R4).
        unfold ins_post. split; [|split; [|split]].
        - cbn [wf]. repeat split; auto.
        - intro i. rewrite !covers_cons, R2. unfold in_seg. split; intro H; intuition lia.
        - lia.
        - intros s' [<-|Hin]; [left; now left|].
          destruct (R4 _ Hin) as [H|H]; [left; now right|now right]. }
Qed.

(* ---------------- buffer invariant and recv ---------------- *)

Definition Inv (c : N -> Z) (b : rcvbuf) : Prop :=
  wf c (nread b) (segs b) /\ nread b <= largest b /\
  (forall s, In s (segs b) -> s_end s <= largest b).

Definition covered (b : rcvbuf) (i : N) : Prop := i < nread b \/ covers (segs b) i.

Lemma Inv_empty c : Inv c empty_buf.
Proof. unfold Inv, empty_buf; cbn [nread largest segs wf]. split; [exact I|]. split; [lia|intros s []]. Qed.

Lemma Inv_covered_lt c b i : Inv c b -> covered b i -> i < largest b.
Proof.
  intros (H1 & H2 & H3) [H|[s [Hin Hi]]]; [lia|].
  specialize (H3 _ Hin). unfold in_seg in Hi. lia.
Qed.

Lemma recv_spec c b off len b' r :
  Inv c b -> recv b off (slice c off len) = (b', r) ->
  Inv c b' /\ nread b' = nread b /\
  (forall i, covered b' i <-> covered b i \/ off <= i < off + len) /\
  largest b' = (if len =? 0 then largest b else N.max (largest b) (off + len)) /\
  r = largest b' - largest b.
Proof.
  intros HI Hr. pose proof HI as (I1 & I2 & I3).
  unfold recv in Hr.
  set (start := N.max off (nread b)) in *.
  rewrite lenN_slice in Hr.
  set (trim := N.min len (start - off)) in *.
  set (data' := dropN trim (slice c off len)) in *.
  assert (Hs : start = N.max off (nread b)) by reflexivity.
  assert (Ht : trim = N.min len (start - off)) by reflexivity.
  clearbody start trim.
  destruct (ins (segs b) start data') as [ss m] eqn:Eins.
  injection Hr as <- <-. cbn [nread largest segs].
  assert (Ed : data' = slice c (off + trim) (len - trim)) by (unfold data'; apply dropN_slice; lia).
  assert (Ld : lenN data' = len - trim) by (rewrite Ed; apply lenN_slice).
  assert (Sd : is_slice c start data').
  { destruct (N.eq_dec (len - trim) 0) as [Z|NZ].
    - rewrite Ed, Z. apply is_slice_nil.
    - replace start with (off + trim) by lia. rewrite Ed. apply is_slice_slice. }
  pose proof Eins as Eins0.
  apply ins_spec with (c := c) (lo := nread b) in Eins; [| assumption | intros _; lia | assumption].
  destruct Eins as (R1 & R2 & R3 & R4).
  assert (Hcov : forall i, (i < nread b \/ covers ss i) <-> covered b i \/ off <= i < off + len).
  { intro i. unfold covered. rewrite R2, Ld. split; intro H; intuition lia. }
  assert (Hlarge : N.max (largest b) m = (if len =? 0 then largest b else N.max (largest b) (off + len))).
  { destruct (N.eqb_spec len 0) as [Z|NZ].
    { assert (data' = []) by (rewrite Ed; replace (len - trim) with 0 by lia; apply slice_0).
      subst data'. rewrite H, ins_nil_data in Eins0. injection Eins0 as _ <-. lia. }
    destruct (N.le_gt_cases (off + len) (largest b)) as [Hle|Hgt]; [lia|].
    (* the last byte of the fragment is covered afterwards, by a new segment *)
    assert (Hp : covers ss (off + len - 1)) by (apply R2; right; lia).
    destruct Hp as [s' [Hin Hi]]. unfold in_seg in Hi.
    destruct (R4 _ Hin) as [Hold|Hnew]; [specialize (I3 _ Hold); lia|lia]. }
  split; [|split; [reflexivity|split; [exact Hcov|split; [exact Hlarge|reflexivity]]]].
  unfold Inv. cbn [nread largest segs]. split; [exact R1|]. split; [lia|].
  intros s Hin. destruct (R4 _ Hin) as [H|H]; [specialize (I3 _ H); lia|lia].
Qed.

(* ---------------- reading ---------------- *)

Ltac split3 := split; [|split].
Ltac split4 := split; [|split; [|split]].

Lemma contig_spec c ss : forall pos, wf c pos ss ->
  pos <= contig_end ss pos /\
  (forall i, pos <= i < contig_end ss pos -> covers ss i) /\
  ~ covers ss (contig_end ss pos).
Proof.
  induction ss as [|s r IH]; intros pos Hwf; cbn [contig_end].
  - split3; [lia|intros; lia|now rewrite covers_nil].
  - cbn [wf] in Hwf. destruct Hwf as (W1 & W2 & W3 & W4). pose proof (s_end_eq s) as Es.
    destruct (N.eqb_spec (s_off s) pos) as [E|NE].
    + destruct (IH _ W4) as (A1 & A2 & A3). split3.
      * lia.
      * intros i Hi. apply covers_cons. unfold in_seg.
        destruct (N.lt_ge_cases i (s_end s)); [left; lia|right; apply A2; lia].
      * rewrite covers_cons. unfold in_seg. intros [H|H]; [lia|contradiction].
    + split3; [lia|intros; lia|].
      intro Hc. assert (Hw : wf c (s_off s) (s :: r)) by (cbn [wf]; split4; auto; lia).
      pose proof (wf_covers_ge _ _ _ _ Hw Hc). lia.
Qed.

Lemma read_loop_spec c ss : forall pos room ss' pos' out,
  wf c pos ss -> read_loop ss pos room = (ss', pos', out) ->
  let k := N.min room (contig_end ss pos - pos) in
  pos' = pos + k /\ out = slice c pos k /\ wf c pos' ss' /\
  (forall i, pos' <= i -> (covers ss' i <-> covers ss i)).
Proof.
  induction ss as [|s r IH]; intros pos room ss' pos' out Hwf Hrl; cbn [read_loop contig_end] in *.
  - injection Hrl as <- <- <-. replace (N.min room (pos - pos)) with 0 by lia.
    cbv zeta. split4; [lia|reflexivity|exact I|tauto].
  - pose proof Hwf as Hwf0.
    cbn [wf] in Hwf. destruct Hwf as (W1 & W2 & W3 & W4). pose proof (s_end_eq s) as Es.
    destruct (N.eqb_spec (s_off s) pos) as [E|NE]; cbn [negb orb] in Hrl.
    2:{ injection Hrl as <- <- <-. replace (N.min room (pos - pos)) with 0 by lia. cbv zeta.
        split4; [lia|reflexivity| |tauto]. replace (pos + 0) with pos by lia. exact Hwf0. }
    destruct (N.eqb_spec room 0) as [RZ|RNZ].
    { injection Hrl as <- <- <-. subst room. rewrite N.min_0_l. cbv zeta.
      split4; [lia|reflexivity| |tauto]. replace (pos + 0) with pos by lia. exact Hwf0. }
    destruct (contig_spec c r _ W4) as (A1 & _ & _).
    destruct (N.ltb_spec (N.min room (s_len s)) (s_len s)) as [Lt|Ge].
    + injection Hrl as <- <- <-.
      replace (N.min room (contig_end r (s_end s) - pos)) with room by lia.
      replace (N.min room (s_len s)) with room by lia.
      assert (Hl : room < lenN (s_data s)) by (unfold s_len, lenN in *; lia).
      cbv zeta. split4.
      * reflexivity.
      * rewrite <- E. unfold is_slice in W3. rewrite W3. apply takeN_slice. lia.
      * cbn [wf]. rewrite s_off_mk, s_len_mk, s_data_mk, s_end_mk, lenN_dropN.
        split4; [lia|lia| |].
        -- apply is_slice_drop; [lia|assumption].
        -- replace (s_off s + room + (lenN (s_data s) - room)) with (s_end s)
             by (unfold s_end, s_len, lenN in *; lia). exact W4.
      * intros i Hi. rewrite !covers_cons. unfold in_seg. rewrite s_off_mk, s_end_mk, lenN_dropN.
        unfold s_end, s_len, lenN in *. split; intro H; intuition lia.
    + replace (N.min room (s_len s)) with (s_len s) in Hrl by lia.
      destruct (read_loop r (pos + s_len s) (room - s_len s)) as [[ss1 pos1] out1] eqn:Erec.
      injection Hrl as <- <- <-.
      replace (pos + s_len s) with (s_end s) in Erec by lia.
      apply IH in Erec; [|assumption]. cbv zeta in Erec.
      destruct Erec as (B1 & B2 & B3 & B4).
      set (k1 := N.min (room - s_len s) (contig_end r (s_end s) - s_end s)) in *.
      assert (Hk1 : k1 = N.min (room - s_len s) (contig_end r (s_end s) - s_end s)) by reflexivity.
      clearbody k1.
      replace (N.min room (contig_end r (s_end s) - pos)) with (s_len s + k1) by lia.
      cbv zeta. split4.
      * lia.
      * rewrite slice_app, <- E. unfold is_slice in W3.
        change (slice c (s_off s) (s_len s)) with (slice c (s_off s) (lenN (s_data s))).
        rewrite <- W3, B2. replace (s_off s + s_len s) with (s_end s) by lia. reflexivity.
      * exact B3.
      * intros i Hi. rewrite covers_cons. unfold in_seg. split.
        -- intro Hc. right. apply B4; [lia|exact Hc].
        -- intros [Hc|Hc]; [lia|]. apply B4; [lia|exact Hc].
Qed.

Lemma available_spec c b : Inv c b ->
  (forall i, nread b <= i < nread b + available b -> covered b i) /\
  ~ covered b (nread b + available b).
Proof.
  intros (I1 & I2 & I3). destruct (contig_spec c _ _ I1) as (A1 & A2 & A3).
  unfold available, covered. split.
  - intros i Hi. right. apply A2. lia.
  - replace (nread b + (contig_end (segs b) (nread b) - nread b)) with (contig_end (segs b) (nread b)) by lia.
    intros [H|H]; [lia|contradiction].
Qed.

Lemma try_read_spec c b room b' out :
  Inv c b -> try_read b room = (b', out) ->
  let k := N.min room (available b) in
  Inv c b' /\ nread b' = nread b + k /\ out = slice c (nread b) k /\
  largest b' = largest b /\ (forall i, covered b' i <-> covered b i).
Proof.
  intros HI Hr. pose proof HI as (I1 & I2 & I3).
  unfold try_read in Hr.
  destruct (read_loop (segs b) (nread b) room) as [[ss pos] o] eqn:Erl.
  injection Hr as <- <-. cbn [nread largest segs].
  pose proof (read_loop_spec c _ _ _ _ _ _ I1 Erl) as HR. cbv zeta in HR.
  fold (available b) in HR. destruct HR as (R1 & R2 & R3 & R4).
  destruct (contig_spec c _ _ I1) as (A1 & A2 & A3).
  assert (Hcov : forall i, (i < pos \/ covers ss i) <-> covered b i).
  { intro i. unfold covered. split.
    - intros [H|H].
      + destruct (N.lt_ge_cases i (nread b)); [now left|right].
        apply A2. unfold available in R1. lia.
      + right. apply R4; [|exact H]. eapply wf_covers_ge; eauto.
    - intros [H|H]; [left; lia|].
      destruct (N.lt_ge_cases i pos); [now left|right; now apply R4]. }
  assert (Hends : forall s, In s ss -> s_end s <= largest b).
  { intros s Hin. destruct (N.le_gt_cases (s_end s) (largest b)) as [|Hgt]; [assumption|exfalso].
    assert (W : wf c pos ss) by exact R3.
    assert (Hpos : 0 < s_len s).
    { clear - W Hin. revert pos W. induction ss as [|a r IH]; [destruct Hin|].
      intros pos (W1 & W2 & W3 & W4). destruct Hin as [<-|Hin]; [assumption|eauto]. }
    assert (Hc : covers ss (s_end s - 1)).
    { exists s. split; [assumption|]. unfold in_seg. rewrite s_end_eq in *. lia. }
    assert (Hcb : covered b (s_end s - 1)) by (apply Hcov; now right).
    pose proof (Inv_covered_lt _ _ _ HI Hcb). lia. }
  cbv zeta. split; [|split; [exact R1|split; [exact R2|split; [reflexivity|exact Hcov]]]].
  unfold Inv; cbn [nread largest segs]. split3; [exact R3| |exact Hends].
  destruct (N.eq_dec pos (nread b)) as [->|NE]; [assumption|].
  assert (Hc : covered b (pos - 1)). { right. apply A2. unfold available in R1. lia. }
  pose proof (Inv_covered_lt _ _ _ HI Hc). lia.
Qed.

Lemma try_next_spec c b b' d :
  Inv c b -> try_next b = (b', d) ->
  match d with
  | None => b' = b /\ available b = 0
  | Some out =>
      exists k, 0 < k <= available b /\ out = slice c (nread b) k /\ nread b' = nread b + k /\
      Inv c b' /\ largest b' = largest b /\ (forall i, covered b' i <-> covered b i)
  end.
Proof.
  intros HI Hn. pose proof HI as (I1 & I2 & I3). unfold try_next in Hn.
  destruct (segs b) as [|s r] eqn:Es.
  - injection Hn as <- <-. split; [reflexivity|]. unfold available. rewrite Es. cbn [contig_end]. lia.
  - cbn [wf] in I1. destruct I1 as (W1 & W2 & W3 & W4).
    destruct (N.eqb_spec (s_off s) (nread b)) as [E|NE].
    + injection Hn as <- <-. exists (s_len s).
      destruct (contig_spec c r _ W4) as (A1 & A2 & A3).
      assert (Hav : available b = contig_end r (s_end s) - nread b).
      { unfold available. rewrite Es. cbn [contig_end]. rewrite (proj2 (N.eqb_eq _ _) E). reflexivity. }
      pose proof (s_end_eq s) as Ee.
      cbn [nread largest segs].
      split; [lia|]. split; [rewrite <- E; exact W3|]. split; [reflexivity|].
      split; [|split; [reflexivity|]].
      * unfold Inv; cbn [nread largest segs]. split3.
        -- replace (nread b + s_len s) with (s_end s) by lia. exact W4.
        -- assert (Hin : In s (s :: r)) by (now left). specialize (I3 _ Hin). lia.
        -- intros s' Hin. apply I3. now right.
      * intro i. unfold covered. cbn [nread segs]. rewrite Es, covers_cons. unfold in_seg.
        split; intro H; intuition lia.
    + injection Hn as <- <-. split; [reflexivity|]. unfold available. rewrite Es. cbn [contig_end].
      destruct (N.eqb_spec (s_off s) (nread b)); [contradiction|lia].
Qed.

(* ---------------- histories ---------------- *)

Definition out_bytes (o : rb_out) : list Z :=
  match o with
  | ORead d => d
  | ONext (Some d) => d
  | _ => []
  end.
Definition bytes_of (outs : list rb_out) : list Z := concat (map out_bytes outs).

Definition out_fresh (o : rb_out) : N := match o with ORecv r => r | _ => 0 end.
Definition fresh_of (outs : list rb_out) : N := fold_right (fun o a => out_fresh o + a) 0 outs.

Definition arrived (ops : list rb_op) (i : N) : Prop :=
  exists off len, In (RbRecv off len) ops /\ off <= i < off + len.

Fixpoint max_end (ops : list rb_op) : N :=
  match ops with
  | [] => 0
  | RbRecv off len :: r => if len =? 0 then max_end r else N.max (off + len) (max_end r)
  | _ :: r => max_end r
  end.

Lemma arrived_nil i : arrived [] i <-> False.
Proof. split; [intros (o & l & [] & _)|intros []]. Qed.

Lemma arrived_cons_recv off len r i :
  arrived (RbRecv off len :: r) i <-> (off <= i < off + len) \/ arrived r i.
Proof.
  unfold arrived; split.
  - intros (o & l & [E|Hin] & Hi); [injection E as <- <-; now left|right; eauto].
  - intros [Hi|(o & l & Hin & Hi)]; [exists off, len; split; [now left|exact Hi]|exists o, l; split; [now right|exact Hi]].
Qed.

Lemma arrived_cons_other o r i :
  (forall off len, o <> RbRecv off len) -> (arrived (o :: r) i <-> arrived r i).
Proof.
  intro Hne; unfold arrived; split.
  - intros (of & l & [E|Hin] & Hi); [exfalso; eapply Hne; eauto|eauto].
  - intros (of & l & Hin & Hi). exists of, l. split; [now right|exact Hi].
Qed.

(* the general step lemma: what one operation does to the abstract state *)
Ltac split6 := split; [|split; [|split; [|split; [|split]]]].

Lemma arrived_single_other o i :
  (forall off len, o <> RbRecv off len) -> ~ arrived [o] i.
Proof. intros Hne H. rewrite arrived_cons_other, arrived_nil in H; assumption. Qed.

Lemma exec_spec c b o b' out :
  Inv c b -> rb_exec c b o = (b', out) ->
  Inv c b' /\
  nread b <= nread b' /\
  out_bytes out = slice c (nread b) (nread b' - nread b) /\
  (forall i, covered b' i <-> covered b i \/ arrived [o] i) /\
  largest b' = N.max (largest b) (max_end [o]) /\
  out_fresh out = largest b' - largest b.
Proof.
  intros HI He. destruct o as [off len|room|]; cbn [rb_exec] in He.
  - destruct (recv b off (slice c off len)) as [b1 r] eqn:Er. injection He as <- <-.
    destruct (recv_spec _ _ _ _ _ _ HI Er) as (S1 & S2 & S3 & S4 & S5).
    cbn [out_bytes out_fresh max_end]. rewrite S2, N.sub_diag.
    split6; [assumption|lia|reflexivity| | |assumption].
    + intro i. rewrite S3, arrived_cons_recv, arrived_nil. tauto.
    + rewrite S4. destruct (len =? 0); lia.
  - destruct (try_read b room) as [b1 d] eqn:Er. injection He as <- <-.
    pose proof (try_read_spec _ _ _ _ _ HI Er) as HS. cbv zeta in HS.
    destruct HS as (S1 & S2 & S3 & S4 & S5).
    cbn [out_bytes out_fresh max_end].
    split6; [assumption|lia| | |lia|lia].
    + rewrite S3. f_equal. lia.
    + intro i. rewrite S5. split; [intro; now left|intros [H|H]; [assumption|]].
      exfalso. eapply arrived_single_other; [|exact H]. discriminate.
  - destruct (try_next b) as [b1 d] eqn:En. injection He as <- <-.
    pose proof (try_next_spec _ _ _ _ HI En) as HS.
    cbn [out_fresh max_end].
    destruct d as [d|].
    + destruct HS as (k & K1 & K2 & K3 & K4 & K5 & K6). cbn [out_bytes].
      split6; [assumption|lia| | |lia|lia].
      * rewrite K2. f_equal. lia.
      * intro i. rewrite K6. split; [intro; now left|intros [H|H]; [assumption|]].
        exfalso. eapply arrived_single_other; [|exact H]. discriminate.
    + destruct HS as (-> & _). cbn [out_bytes]. rewrite N.sub_diag.
      split6; [assumption|lia|reflexivity| |lia|lia].
      intro i. split; [intro; now left|intros [H|H]; [assumption|]].
      exfalso. eapply arrived_single_other; [|exact H]. discriminate.
Qed.

Lemma max_end_cons o r : max_end (o :: r) = N.max (max_end [o]) (max_end r).
Proof. destruct o as [off len| |]; cbn [max_end]; try lia. destruct (len =? 0); lia. Qed.

Lemma arrived_cons o r i : arrived (o :: r) i <-> arrived [o] i \/ arrived r i.
Proof.
  unfold arrived; split.
  - intros (of & l & [E|Hin] & Hi); [left; exists of, l; split; [now left|exact Hi]|right; eauto].
  - intros [(of & l & [E|[]] & Hi)|(of & l & Hin & Hi)]; exists of, l; (split; [|exact Hi]); [now left|now right].
Qed.

Lemma execs_spec c ops : forall b b' outs,
  Inv c b -> rb_execs c b ops = (b', outs) ->
  Inv c b' /\
  nread b <= nread b' /\
  bytes_of outs = slice c (nread b) (nread b' - nread b) /\
  (forall i, covered b' i <-> covered b i \/ arrived ops i) /\
  largest b' = N.max (largest b) (max_end ops) /\
  fresh_of outs = largest b' - largest b.
Proof.
  induction ops as [|o r IH]; intros b b' outs HI He; cbn [rb_execs] in He.
  - injection He as <- <-. cbn [bytes_of map concat fresh_of fold_right max_end].
    rewrite N.sub_diag. split6; [assumption|lia|reflexivity| |lia|lia].
    intro i. rewrite arrived_nil. tauto.
  - destruct (rb_exec c b o) as [b1 out] eqn:E1.
    destruct (rb_execs c b1 r) as [b2 outs2] eqn:E2.
    injection He as <- <-.
    destruct (exec_spec _ _ _ _ _ HI E1) as (S1 & S2 & S3 & S4 & S5 & S6).
    destruct (IH _ _ _ S1 E2) as (T1 & T2 & T3 & T4 & T5 & T6).
    split6.
    + exact T1.
    + lia.
    + unfold bytes_of in *. cbn [map concat]. rewrite S3, T3.
      replace (nread b2 - nread b) with ((nread b1 - nread b) + (nread b2 - nread b1)) by lia.
      rewrite slice_app. do 2 f_equal. lia.
    + intro i. rewrite T4, S4, (arrived_cons o r). tauto.
    + rewrite T5, S5, (max_end_cons o r). lia.
    + cbn [fresh_of fold_right]. fold (fresh_of outs2). rewrite T6, S6.
      assert (largest b <= largest b1) by lia. assert (largest b1 <= largest b2) by lia. lia.
Qed.

(* ---------------- statements used by Properties/C08.v ---------------- *)

(* a state reachable from the empty buffer by any operation list over content [c] *)
Definition reach (c : N -> Z) (ops : list rb_op) (b : rcvbuf) (outs : list rb_out) : Prop :=
  rb_execs c empty_buf ops = (b, outs).

(* the contiguous prefix that has fully arrived: [a] is its length beyond [pos] *)
Definition contiguous_arrived (ops : list rb_op) (pos a : N) : Prop :=
  (forall i, pos <= i < pos + a -> arrived ops i \/ i < pos) /\ ~ arrived ops (pos + a).

Lemma p_c08_inv : forall c ops b outs, reach c ops b outs -> Inv c b.
Proof. intros c ops b outs H. exact (proj1 (execs_spec c ops _ _ _ (Inv_empty c) H)). Qed.

(* everything ever handed to the reader, concatenated, is the prefix [0, nread) of the content *)
Lemma p_c08_read_prefix : forall c ops b outs, reach c ops b outs ->
  bytes_of outs = slice c 0 (nread b).
Proof.
  intros c ops b outs H.
  destruct (execs_spec c ops _ _ _ (Inv_empty c) H) as (_ & _ & E & _).
  cbn [nread empty_buf] in E. now rewrite N.sub_0_r in E.
Qed.

(* nothing received is lost, nothing is invented *)
Lemma p_c08_coverage : forall c ops b outs, reach c ops b outs ->
  forall i, covered b i <-> arrived ops i.
Proof.
  intros c ops b outs H i.
  destruct (execs_spec c ops _ _ _ (Inv_empty c) H) as (_ & _ & _ & E & _).
  rewrite E. split; [|tauto].
  intros [[Hlt|Hc]|Ha]; [cbn [nread empty_buf] in Hlt; lia|cbn [segs empty_buf] in Hc; now apply covers_nil in Hc|exact Ha].
Qed.

(* the newly-covered amounts reported by recv add up to the highest offset seen *)
Lemma p_c08_fresh_sum : forall c ops b outs, reach c ops b outs ->
  fresh_of outs = max_end ops /\ largest b = max_end ops.
Proof.
  intros c ops b outs H.
  destruct (execs_spec c ops _ _ _ (Inv_empty c) H) as (_ & _ & _ & _ & E1 & E2).
  cbn [largest empty_buf] in *. lia.
Qed.

(* a read in any reachable state returns exactly the arrived contiguous prefix, cut to the room *)
Lemma p_c08_read_exact : forall c ops b outs room b' out,
  reach c ops b outs -> try_read b room = (b', out) ->
  exists a, contiguous_arrived ops (nread b) a /\
            out = slice c (nread b) (N.min room a) /\ nread b' = nread b + N.min room a.
Proof.
  intros c ops b outs room b' out H Hr.
  pose proof (p_c08_inv _ _ _ _ H) as HI.
  pose proof (try_read_spec _ _ _ _ _ HI Hr) as HS. cbv zeta in HS.
  destruct HS as (_ & S2 & S3 & _).
  destruct (available_spec _ _ HI) as (A1 & A2).
  exists (available b). split; [|split; assumption].
  split.
  - intros i Hi. left. apply (p_c08_coverage _ _ _ _ H). apply A1. exact Hi.
  - intro Ha. apply A2. apply (p_c08_coverage _ _ _ _ H). exact Ha.
Qed.

(* try_next hands out a non-empty piece of the arrived contiguous prefix, or nothing when there is none *)
Lemma p_c08_next_exact : forall c ops b outs b' d,
  reach c ops b outs -> try_next b = (b', d) ->
  exists a, contiguous_arrived ops (nread b) a /\
    match d with
    | None => a = 0 /\ b' = b
    | Some out => exists k, 0 < k <= a /\ out = slice c (nread b) k /\ nread b' = nread b + k
    end.
Proof.
  intros c ops b outs b' d H Hn.
  pose proof (p_c08_inv _ _ _ _ H) as HI.
  pose proof (try_next_spec _ _ _ _ HI Hn) as HS.
  destruct (available_spec _ _ HI) as (A1 & A2).
  exists (available b). split.
  - split.
    + intros i Hi. left. apply (p_c08_coverage _ _ _ _ H). apply A1. exact Hi.
    + intro Ha. apply A2. apply (p_c08_coverage _ _ _ _ H). exact Ha.
  - destruct d as [out|].
    + destruct HS as (k & K1 & K2 & K3 & _). exists k. auto.
    + destruct HS as (-> & ->). auto.
Qed.

