(* C20 — lemmas about the serde schema model (Model/Serde.v) and the regenerated schema table. *)
From Coq Require Import List ZArith Bool NArith String Lia.
From GQ Require Import Model.Serde Generated.QeventSchema.
From GQ Require Export Proofs.SerdeRT.
Import ListNotations.
Local Open Scope Z_scope.

(* ------------------------------------------------------------------ the regenerated table *)
Definition diag_top (s : schema) : list problem :=
  match s with SNamed _ b => diag b | _ => diag s end.

Definition defects_of (tbl : list (str * schema)) : list (str * Z * str) :=
  flat_map (fun ns => map (fun p => (fst ns, fst p, snd p)) (diag_top (snd ns))) tbl.

(* the static defects present in the repository today (known findings F50 = kind 1, F51 = kind 7) *)
Definition known_defects : list (str * Z * str) := [
  (k "quic::connectivity::ConnectionState", 7, k "closed");
  (k "quic::transport::VersionInformation", 1, k "server_versions");
  (k "quic::transport::VersionInformation", 1, k "client_versions");
  (k "quic::transport::PacketSent", 1, k "supported_versions");
  (k "quic::transport::PacketReceived", 1, k "supported_versions");
  (k "quic::transport::PacketsAcked", 1, k "packet_nubers");
  (k "quic::transport::UdpDatagramsSent", 1, k "raw");
  (k "quic::transport::UdpDatagramsSent", 1, k "ecn");
  (k "quic::transport::UdpDatagramsSent", 1, k "datagram_ids");
  (k "quic::transport::UdpDatagramsReceived", 1, k "raw");
  (k "quic::transport::UdpDatagramsReceived", 1, k "ecn");
  (k "quic::transport::UdpDatagramsReceived", 1, k "datagram_ids");
  (k "legacy::quic::TransportVersionInformation", 1, k "server_versions");
  (k "legacy::quic::TransportVersionInformation", 1, k "client_versions");
  (k "legacy::quic::TransportPacketReceived", 1, k "supported_versions");
  (k "legacy::quic::TransportPacketSent", 1, k "supported_versions")
]%string.

Lemma p_c20_schema_wf : forallb (fun ns => wf (snd ns)) qevent_types = true.
Proof. vm_compute. reflexivity. Qed.

Lemma p_c20_schema_defects : defects_of qevent_types = known_defects.
Proof. vm_compute. reflexivity. Qed.

Lemma p_c20_schema_wf_in : forall n s, In (n, s) qevent_types -> wf s = true.
Proof.
  intros n s H. pose proof p_c20_schema_wf as A. rewrite forallb_forall in A. exact (A (n, s) H).
Qed.


(* ------------------------------------------------------------------ mandatory qlog fields *)
Fixpoint all_newtype (vs : variants) : bool :=
  match vs with
  | VNil => true
  | VCons _ untag sh r => negb untag && negb (is_unit sh) && all_newtype r
  end.

(* shape of a top-level Event: first regular field `time` (never skipped), flattened adjacently tagged
   EventData with tag `name` / content `data` whose variants all carry a payload *)
Definition event_shape (s : schema) : bool :=
  match s with
  | SNamed _ (SStruct (FCons key0 SkNever _ _ _) (FLCons (SNamed _ (SEnum (TAdj tag c) vs)) FLNil) _) =>
      str_eqb key0 (k "time") && str_eqb tag (k "name") && str_eqb c (k "data") && all_newtype vs
  | _ => false
  end.

Definition has_key (key : str) (j : json) : Prop := In key (map fst (members j)).

Lemma all_newtype_nth : forall vs i name untag sh, all_newtype vs = true ->
  nth_variant vs i = Some (name, untag, sh) -> untag = false /\ is_unit sh = false.
Proof.
  induction vs as [|n u s r IH]; intros i name untag sh H E; cbn in *; [discriminate|].
  apply andb_true_iff in H. destruct H as [H H3]. apply andb_true_iff in H. destruct H as [H1 H2].
  destruct i; [inversion E; subst; split; apply negb_true_iff; assumption | eapply IH; eauto].
Qed.

Lemma mandatory_generic : forall s v, event_shape s = true -> conformsb s v = true ->
  has_key (k "time") (ser s v) /\ has_key (k "name") (ser s v) /\ has_key (k "data") (ser s v).
Proof.
  intros s v S C. unfold event_shape in S.
  destruct s as [| | | | | | | | | | | | |n0 s]; try discriminate.
  destruct s as [| | | | | | | | | |regs flats any| | |]; try discriminate.
  destruct regs as [|key0 sk d s0 rest]; try discriminate. destruct sk; try discriminate.
  destruct flats as [|fs fr]; try discriminate. destruct fs as [| | | | | | | | | | | | |n1 fs]; try discriminate.
  destruct fs as [| | | | | | | | | | |t vs| |]; try discriminate. destruct t as [| |tag c|]; try discriminate.
  destruct fr; try discriminate.
  apply andb_true_iff in S. destruct S as [S S4]. apply andb_true_iff in S. destruct S as [S S3].
  apply andb_true_iff in S. destruct S as [S1 S2].
  apply str_eqb_eq in S1, S2, S3. subst key0 tag c.
  cbn [conformsb] in C. destruct v as [z|z|b|x|l| |v|l|lr lf ex|i p|m]; try discriminate.
  apply andb_true_iff in C. destruct C as [C _]. apply andb_true_iff in C. destruct C as [C _].
  apply andb_true_iff in C. destruct C as [C _]. apply andb_true_iff in C. destruct C as [C1 C2].
  cbn [conf_fields] in C1. destruct lr as [|v0 lr]; [discriminate|].
  cbn [conf_flats] in C2. destruct lf as [|vf lf]; [discriminate|].
  apply andb_true_iff in C2. destruct C2 as [Cf _].
  cbn [conformsb] in Cf. destruct vf as [z|z|b|x|l| |v|l|lr' lf' ex'|i p|m]; try discriminate.
  apply andb_true_iff in Cf. destruct Cf as [Cv _].
  destruct (nth_variant_conf _ _ _ Cv) as [name [untag [sh [E Cs]]]].
  destruct (all_newtype_nth _ _ _ _ _ S4 E) as [U1 U2]. subst untag.
  unfold has_key. cbn [ser members ser_fields ser_flats skipped].
  rewrite (ser_variants_nth _ _ _ _ _ _ _ E). unfold wrap. rewrite U2. cbn [members app map fst].
  rewrite !map_app. cbn [map fst].
  split; [left; reflexivity|].
  split; right; apply in_app_iff; right; cbn; auto.
Qed.

Lemma p_c20_mandatory : forall v, conformsb event_schema v = true ->
  has_key (k "time") (ser event_schema v) /\ has_key (k "name") (ser event_schema v) /\ has_key (k "data") (ser event_schema v).
Proof. intros v C. apply mandatory_generic; [vm_compute; reflexivity | exact C]. Qed.

Lemma p_c20_mandatory_legacy : forall v, conformsb legacy_event_schema v = true ->
  has_key (k "time") (ser legacy_event_schema v) /\ has_key (k "name") (ser legacy_event_schema v)
  /\ has_key (k "data") (ser legacy_event_schema v).
Proof. intros v C. apply mandatory_generic; [vm_compute; reflexivity | exact C]. Qed.

(* group_id is the 5th regular field of Event (skipped exactly when None) *)
Lemma p_c20_group_id : forall t p tf pt g si fl ex,
  let v := VStruct [t; p; tf; pt; g; si] fl ex in
  conformsb event_schema v = true ->
  (g <> VNone -> has_key (k "group_id") (ser event_schema v)).
Proof.
  intros t p tf pt g si fl ex v C G. unfold has_key, v.
  change (ser event_schema (VStruct [t; p; tf; pt; g; si] fl ex))
    with (ser (match event_schema with SNamed _ b => b | x => x end) (VStruct [t; p; tf; pt; g; si] fl ex)).
  cbn [event_schema T_Event ser ser_fields members]. rewrite !map_app. rewrite !in_app_iff.
  left. right. right. right. right. left.
  destruct g; cbn; auto; contradiction.
Qed.

(* ------------------------------------------------------------------ the known defect classes, on the model *)
Definition rt_fails (s : schema) (v : value) : bool :=
  match de s (ser s v) with Some v' => negb (value_eqb v v') | None => true end.

(* F50: PacketsAcked {} — `packet_nubers` is skipped when empty and has no default *)
Definition w_f50 : value := VStruct [VNone; VSeq []] [] [].
(* F51: ConnectionState::Granular(Closed) reads back as Base(Closed) *)
Definition w_f51 : value := VEnum 1 (VEnum 5 VUnit).
(* F52: ReferenceTime { clock_type: Monotaonic, epoch: default } is refused by its own validator *)
Definition w_f52 : value := VStruct [VEnum 1 VUnit; VEnum 1 (VStr (k "1970-01-01T00:00:00.000Z")); VNone] [] [].
(* F53: an Event whose custom field is called `time` *)
Definition w_f53 : value :=
  VStruct [VFloat 4607182418800017408; VNone; VNone; VNone; VNone; VNone]
          [VEnum 37 (VStruct [VStr (k "m")] [] [])] [(k "time", JStr (k "x"))].

Lemma p_c20_refuted :
  (conformsb T_quic_transport_PacketsAcked w_f50 = false /\ de T_quic_transport_PacketsAcked (ser T_quic_transport_PacketsAcked w_f50) = None)
  /\ (conformsb T_quic_connectivity_ConnectionState w_f51 = false
      /\ de T_quic_connectivity_ConnectionState (ser T_quic_connectivity_ConnectionState w_f51) = Some (VEnum 0 (VEnum 3 VUnit)))
  /\ (conformsb T_ReferenceTime w_f52 = false /\ de T_ReferenceTime (ser T_ReferenceTime w_f52) = None)
  /\ (conformsb event_schema w_f53 = false /\ rt_fails event_schema w_f53 = true
      /\ de event_schema (canon (ser event_schema w_f53)) = None).
Proof. vm_compute. repeat split. Qed.

(* non-vacuity: a packet_sent Event with header, three frames, versions, custom field *)
Definition w_event : value :=
  (VStruct [(VFloat 4607182418800017408); (VSome (VStr [112; 48])); VNone; (VSome (VSeq [(VStr [81; 85; 73; 67])])); (VSome (VStr [97; 98; 99; 100])); VNone] [(VEnum 12 (VStruct [(VStruct [(VBool true); (VEnum 3 (VStruct [] [] [])); (VSome (VInt 4611686018427387903)); VNone; VNone; (VSome (VInt 65535)); (VSome (VBytes [0; 0; 0; 1])); VNone; (VSome (VInt 8)); VNone; (VSome (VBytes [1; 2; 3; 4; 5; 6; 7; 8]))] [] []); (VSome (VSeq [(VEnum 7 (VStruct [(VInt 4); (VInt 0); (VInt 1200); (VBool true); VNone] [] [])); (VEnum 2 (VStruct [(VSome (VFloat 4607182418800017408)); (VSeq [(VSeq [(VInt 1); (VInt 3)])]); VNone; VNone; VNone; (VSome (VInt 7)); VNone] [] [])); (VEnum 19 (VStruct [] [] []))])); VNone; (VSeq [(VBytes [0; 0; 0; 1])]); VNone; (VSome (VInt 7)); (VBool false); (VSome (VEnum 2 (VStruct [] [] [])))] [] []))] [([116; 111; 95; 114; 111; 117; 116; 101; 114], (JBool true))]).

Lemma p_c20_nonvacuous :
  wf event_schema = true /\ conformsb event_schema w_event = true
  /\ de event_schema (ser event_schema w_event) = Some w_event
  /\ map fst (members (canon (ser event_schema w_event))) =
     [k "data"; k "group_id"; k "name"; k "path"; k "protocol_types"; k "time"; k "to_router"].
Proof. vm_compute. repeat split. Qed.

Lemma p_c20_roundtrip_table : forall n s v, In (n, s) qevent_types -> conformsb s v = true ->
  de s (ser s v) = Some v.
Proof. intros n s v H C. apply p_c20_roundtrip; [eapply p_c20_schema_wf_in; eauto | exact C]. Qed.
