"""C10 — acknowledgement bookkeeping is truthful in both directions."""
from props import _journal as J

PROP_FILE = "Properties/C10.v"
RULE = ("cases = op lists over the `journal` stream (RCVD/DECODE/GENACK/PEERACK/TICK/NEEDACK on the received journal, "
        "NEWPKT guard lives and ROTATE guard lives on the sent journal, dumps through the cfg hook); non-trivial = "
        "sent side: >= 1 multi-frame packet, >= 1 trivial packet, >= 1 abandoned guard and acks out of order; or received side: "
        ">= 2 gaps, >= 1 duplicate arrival and an ACK generated with a capacity below the full size; distinct by hash of the op list")
TRUSTED_BASE = ["models coq/Model/{RcvdJournal,SentJournal,AckFrame,Journal}.v transcribe rcvd.rs / sent.rs / ack.rs loop by loop "
                "(IndexDeque as offset + list, HashSet as sorted list, Instants as integer milliseconds); equality with the Rust is "
                "checked by stream `journal` (all observations incl. full state dumps), not proved"]
MODELLED = ("qrecovery/src/journal/rcvd.rs: State, decode_pn, on_rcvd_pn, on_rcvd_ack, rotate_queue, gen_ack_frame_util, need_ack; "
            "qrecovery/src/journal/sent.rs: SentPktState, on_packet_acked, may_loss_packet, fast_retransmit, resize, update_largest, "
            "NewPacketGuard life cycle; qbase/src/frame/ack.rs: encoding_size, iter; qbase/src/util/index_deque.rs: get/insert/"
            "push_back/pop_front/advance as used (u32 counters of gen_ack_frame_util and usize arithmetic are unbounded in the model)")
ASSUMPTIONS = ["guard discipline of qconnection/src/tx.rs (from Packages::dump returning Err only when nothing was written): a guard that "
               "recorded a frame is always built; a guard that is built recorded a frame or record_trivial",
               "gen_ack_frame_util is called with a `largest` that was registered by on_rcvd_pn (AckPackege::dump passes "
               "need_ack = (largest received, its time))",
               "fewer than 2^32 records in the received journal (u32 counters)",
               "HashSet / VecDeque / RwLock / Mutex behave as documented; paused tokio clock"]

MANIFEST = {
    "text": "Machine-checked Coq theorems (Properties/C10.v) over executable models of RcvdJournal, SentJournal and AckFrame: for every "
            "operation history, an ACK frame generated for a registered `largest` enumerates only registered packet numbers, reports the "
            "requested largest, has non-negative fields (no u32 underflow) and an encoding size <= the capacity given; with a capacity "
            ">= the full size it lists every tracked number <= largest (full strength since the fix of F30, `capacity >= size`), and "
            "generating a frame never removes a number from the tracked set, so what was cut for capacity is listed by the next frame "
            "with room; a registered number is never accepted again by decode_pn; the sent "
            "journal keeps |queue| = sum of nframes and on_packet_acked / may_loss_packet yield exactly the frames recorded for that "
            "packet number while it is in flight, and nothing after it was acknowledged. The models are tied to the Rust by running the "
            "extracted model and the real ArcRcvdJournal / ArcSentJournal on the same op lists (full state dumps through a cfg hook), and "
            "the property is evaluated directly on the implementation's observations.",
    "note": "Trusted: Coq kernel, extraction, OCaml driver, Rust harness, Python generators/oracle. Hand-written models, equality with "
            "the Rust checked by correspondence, not proved. Guard discipline of tx.rs and `largest` registered are hypotheses.",
    "technique": "Coq proof (invariants over operation lists, refinement to per-packet frame lists, loop invariants of the ACK range "
                 "fold) + differential correspondence model/implementation",
}


def oracle(case, obs):
    return J.oracle(case, obs, want=("C10",))


STREAMS = [{
    "name": "journal", "pkg": "hr", "bin": "impl_journal",
    "gen": J.gen, "oracle": oracle, "nontrivial": J.nontrivial, "hist": J.hist, "mutate": J.mutate,
    "profiles": ("debug",), "profiles_thorough": ("debug",),
    "rule": RULE,
}]
