(* C20 — a schema language for the serde shapes used by qevent, with generic `ser` / `de` over JSON
   trees.  Definitions only (proofs in Proofs/Serde.v).

   JSON trees have NO floating-point numbers: a float-typed field (`time`, the RTT fields) is an
   opaque token `JFloat bits` (IEEE-754 bit pattern of a finite double) which the model passes
   through unchanged; that serde_json maps a finite f32/f64 to a number and back exactly is an
   assumption of the model, exercised by the correspondence stream only.

   Strings are lists of Unicode code points.  Objects are association lists; `canon` gives the
   sorted / last-insert-wins form that `serde_json::to_value` (a BTreeMap) produces. *)
From Coq Require Import List ZArith Bool NArith String Ascii.
Import ListNotations.
Local Open Scope Z_scope.

Definition str := list Z.

Definition k (x : string) : str := map (fun c => Z.of_N (N_of_ascii c)) (list_ascii_of_string x).

Fixpoint str_eqb (a b : str) : bool :=
  match a, b with
  | [], [] => true
  | x :: a', y :: b' => Z.eqb x y && str_eqb a' b'
  | _, _ => false
  end.

Fixpoint mem_str (x : str) (l : list str) : bool :=
  match l with [] => false | y :: r => str_eqb x y || mem_str x r end.

Fixpoint nodupb (l : list str) : bool :=
  match l with [] => true | x :: r => negb (mem_str x r) && nodupb r end.

Definition disjointb (a b : list str) : bool := forallb (fun x => negb (mem_str x b)) a.

(* ------------------------------------------------------------------ JSON *)
Inductive json :=
| JNull | JBool (b : bool) | JInt (z : Z) | JFloat (bits : Z) | JStr (s : str)
| JArr (l : list json) | JObj (m : list (str * json)).

Definition members (j : json) : list (str * json) := match j with JObj m => m | _ => [] end.

Fixpoint lookup (key : str) (m : list (str * json)) : option json :=
  match m with
  | [] => None
  | (k', j) :: r => if str_eqb key k' then Some j else lookup key r
  end.

Definition remove_key (key : str) (m : list (str * json)) : list (str * json) :=
  filter (fun kv => negb (str_eqb key (fst kv))) m.

(* ------------------------------------------------------------------ values *)
Inductive value :=
| VInt (z : Z) | VFloat (bits : Z) | VBool (b : bool) | VStr (x : str) | VBytes (l : list Z)
| VNone | VSome (v : value) | VSeq (l : list value)
| VStruct (regs flats : list value) (extra : list (str * json))
| VEnum (i : nat) (p : value)
| VMap (m : list (str * json)).

Definition VUnit : value := VStruct [] [] [].

(* ------------------------------------------------------------------ schemas *)
Inductive skipk := SkNever | SkNone | SkEmpty.
Inductive tagging := TExt | TInt (tag : str) | TAdj (tag content : str) | TUntagged.

Inductive schema :=
| SInt (lo hi : Z)                 (* u8/u16/u32/u64 *)
| SFloat | SBool | SStr
| SHex (lo : nat) (hi : option nat) (* serde_with::hex::Hex over Bytes / Vec<u8> / [u8; n]; byte-length bounds *)
| SHexSuffix (p : str)             (* hand-written impl: prefix ++ two lower-case hex digits of a u8 *)
| SOpt (s : schema)                (* Option<T>: null <-> None *)
| SSeq (s : schema)                (* Vec<T> *)
| SArr (n : nat) (s : schema)      (* [T; n] *)
| SAny                             (* HashMap<String, serde_json::Value> *)
| SStruct (regs : fields) (flats : flist) (any : bool)
       (* named fields; #[serde(flatten)] sub-structs/enums; any = a flattened HashMap catch-all *)
| SEnum (t : tagging) (vs : variants)
| SRefine (p : N) (s : schema)     (* #[serde(try_from = ..)] validator number p *)
| SNamed (name : str) (s : schema) (* transparent marker: Rust type name (also newtype / transparent) *)
with fields :=
| FNil
| FCons (key : str) (sk : skipk) (d : option value) (s : schema) (r : fields)
       (* final key (rename resolved); skip_serializing_if kind; value used when the key is missing *)
with flist := FLNil | FLCons (s : schema) (r : flist)
with variants :=
| VNil
| VCons (name : str) (untag : bool) (sh : vshape) (r : variants)
with vshape := ShUnit | ShNew (s : schema) | ShStruct (fs : fields).

Fixpoint reg_keys (fs : fields) : list str :=
  match fs with FNil => [] | FCons key _ _ _ r => key :: reg_keys r end.

Fixpoint strip_named (s : schema) : schema :=
  match s with SNamed _ s' => strip_named s' | SRefine _ s' => strip_named s' | _ => s end.

(* keys a flattened field takes from the enclosing object *)
Definition flat_keys (s : schema) : list str :=
  match strip_named s with
  | SStruct regs FLNil false => reg_keys regs
  | SEnum (TAdj t c) _ => [t; c]
  | _ => []
  end.

Fixpoint flats_keys (fl : flist) : list str :=
  match fl with FLNil => [] | FLCons s r => flat_keys s ++ flats_keys r end.

(* ------------------------------------------------------------------ hex *)
Definition hexdig (n : Z) : Z := if n <? 10 then 48 + n else 87 + n.
Definition hex_byte (b : Z) : str := [hexdig (b / 16); hexdig (b mod 16)].
Definition hex_of (l : list Z) : str := flat_map hex_byte l.

Definition unhexdig (c : Z) : option Z :=
  if (48 <=? c) && (c <=? 57) then Some (c - 48)
  else if (97 <=? c) && (c <=? 102) then Some (c - 87)
  else if (65 <=? c) && (c <=? 70) then Some (c - 55)
  else None.

Fixpoint unhex (x : str) : option (list Z) :=
  match x with
  | [] => Some []
  | a :: b :: r =>
      match unhexdig a, unhexdig b, unhex r with
      | Some h, Some l, Some t => Some (16 * h + l :: t)
      | _, _, _ => None
      end
  | _ => None
  end.

Fixpoint strip_prefix (p x : str) : option str :=
  match p, x with
  | [], _ => Some x
  | a :: p', b :: x' => if Z.eqb a b then strip_prefix p' x' else None
  | _, [] => None
  end.

(* u8::from_str_radix(_, 16) without sign: one or more hex digits, value <= 255 *)
Fixpoint radix16 (acc : Z) (x : str) : option Z :=
  match x with
  | [] => Some acc
  | c :: r => match unhexdig c with Some d => radix16 (16 * acc + d) r | None => None end
  end.
Definition parse_hex_u8 (x : str) : option Z :=
  match x with
  | [] => None
  | _ => match radix16 0 x with Some v => if v <=? 255 then Some v else None | None => None end
  end.

Definition isbyte (z : Z) : bool := (0 <=? z) && (z <=? 255).

Definition len_ok {A} (lo : nat) (hi : option nat) (l : list A) : bool :=
  (lo <=? List.length l)%nat && match hi with Some h => (List.length l <=? h)%nat | None => true end.

(* ------------------------------------------------------------------ validators (try_from) *)
(* 0, 1: ReferenceTime — clock_type "monotaonic" (variant 1) requires epoch == Unknow (variant 0);
         regs = [clock_type; epoch; wall_clock_time].
   The two numbers differ in what the public BUILDER of the type does (`build_norm` below):
   0 = the builder stores the epoch it was given / its default (the shape before the repair of F52),
   1 = the builder stores Unknow whenever the clock type is monotonic (derive_builder `field(build = ..)`). *)
Definition reftime_ok (v : value) : bool :=
  match v with
  | VStruct (VEnum 1 _ :: VEnum (S _) _ :: _) _ _ => false
  | _ => true
  end.

Definition refine_pred (p : N) (v : value) : bool :=
  match p with
  | 0%N => reftime_ok v
  | 1%N => reftime_ok v
  | _ => true
  end.

(* what the builder of a validated type does to the field values it is given *)
Definition build_norm (p : N) (v : value) : value :=
  match p with
  | 1%N =>
      match v with
      | VStruct (VEnum 1 c :: VEnum (S _) _ :: r) f e => VStruct (VEnum 1 c :: VEnum 0 VUnit :: r) f e
      | _ => v
      end
  | _ => v
  end.

(* ------------------------------------------------------------------ ser *)
Definition skipped (sk : skipk) (v : value) : bool :=
  match sk, v with
  | SkNone, VNone => true
  | SkEmpty, VSeq [] => true
  | SkEmpty, VMap [] => true
  | _, _ => false
  end.

Definition is_unit (sh : vshape) : bool := match sh with ShUnit => true | _ => false end.

Definition wrap (t : tagging) (name : str) (untag unit : bool) (pj : json) : json :=
  if untag then (if unit then JNull else pj) else
  match t with
  | TUntagged => if unit then JNull else pj
  | TExt => if unit then JStr name else JObj [(name, pj)]
  | TInt tag => JObj ((tag, JStr name) :: (if unit then [] else members pj))
  | TAdj tag c => JObj ((tag, JStr name) :: (if unit then [] else [(c, pj)]))
  end.

Fixpoint ser (s : schema) (v : value) {struct s} : json :=
  match s with
  | SInt _ _ => match v with VInt z => JInt z | _ => JNull end
  | SFloat => match v with VFloat z => JFloat z | _ => JNull end
  | SBool => match v with VBool b => JBool b | _ => JNull end
  | SStr => match v with VStr x => JStr x | _ => JNull end
  | SHex _ _ => match v with VBytes l => JStr (hex_of l) | _ => JNull end
  | SHexSuffix p => match v with VInt z => JStr (p ++ hex_byte z) | _ => JNull end
  | SOpt s' => match v with VSome v' => ser s' v' | _ => JNull end
  | SSeq s' => match v with VSeq l => JArr (map (ser s') l) | _ => JNull end
  | SArr _ s' => match v with VSeq l => JArr (map (ser s') l) | _ => JNull end
  | SAny => match v with VMap m => JObj m | _ => JNull end
  | SStruct regs flats _ =>
      match v with
      | VStruct lr lf ex => JObj (ser_fields regs lr ++ ser_flats flats lf ++ ex)
      | _ => JNull
      end
  | SEnum t vs => match v with VEnum i p => ser_variants t vs i p | _ => JNull end
  | SRefine _ s' => ser s' v
  | SNamed _ s' => ser s' v
  end
with ser_fields (fs : fields) (l : list value) {struct fs} : list (str * json) :=
  match fs with
  | FNil => []
  | FCons key sk _ s r =>
      match l with
      | v :: l' => (if skipped sk v then [] else [(key, ser s v)]) ++ ser_fields r l'
      | [] => []
      end
  end
with ser_flats (fl : flist) (l : list value) {struct fl} : list (str * json) :=
  match fl with
  | FLNil => []
  | FLCons s r =>
      match l with
      | v :: l' => members (ser s v) ++ ser_flats r l'
      | [] => []
      end
  end
with ser_variants (t : tagging) (vs : variants) (i : nat) (p : value) {struct vs} : json :=
  match vs with
  | VNil => JNull
  | VCons name untag sh r =>
      match i with
      | O => wrap t name untag (is_unit sh) (ser_shape sh p)
      | S i' => ser_variants t r i' p
      end
  end
with ser_shape (sh : vshape) (p : value) {struct sh} : json :=
  match sh with
  | ShUnit => JNull
  | ShNew s => ser s p
  | ShStruct fs => match p with VStruct lr _ _ => JObj (ser_fields fs lr) | _ => JNull end
  end.

(* ------------------------------------------------------------------ build *)
(* the value a type's public builders produce from the field values handed to them, inside out:
   the identity except at validated types whose builder normalises (build_norm) *)
Fixpoint build (s : schema) (v : value) {struct s} : value :=
  match s with
  | SOpt s' => match v with VSome v' => VSome (build s' v') | _ => v end
  | SSeq s' => match v with VSeq l => VSeq (map (build s') l) | _ => v end
  | SArr _ s' => match v with VSeq l => VSeq (map (build s') l) | _ => v end
  | SStruct regs flats _ =>
      match v with
      | VStruct lr lf ex => VStruct (build_fields regs lr) (build_flats flats lf) ex
      | _ => v
      end
  | SEnum _ vs => match v with VEnum i p => VEnum i (build_variants vs i p) | _ => v end
  | SRefine p s' => build_norm p (build s' v)
  | SNamed _ s' => build s' v
  | _ => v
  end
with build_fields (fs : fields) (l : list value) {struct fs} : list value :=
  match fs with
  | FNil => l
  | FCons _ _ _ s r => match l with v :: l' => build s v :: build_fields r l' | [] => [] end
  end
with build_flats (fl : flist) (l : list value) {struct fl} : list value :=
  match fl with
  | FLNil => l
  | FLCons s r => match l with v :: l' => build s v :: build_flats r l' | [] => [] end
  end
with build_variants (vs : variants) (i : nat) (p : value) {struct vs} : value :=
  match vs with
  | VNil => p
  | VCons _ _ sh r => match i with O => build_shape sh p | S i' => build_variants r i' p end
  end
with build_shape (sh : vshape) (p : value) {struct sh} : value :=
  match sh with
  | ShUnit => p
  | ShNew s => build s p
  | ShStruct fs => match p with VStruct lr lf ex => VStruct (build_fields fs lr) lf ex | _ => p end
  end.

(* ------------------------------------------------------------------ de *)
Definition missing (d : option value) (s : schema) : option value :=
  match d with
  | Some dv => Some dv
  | None => match s with SOpt _ => Some VNone | _ => None end
  end.

Fixpoint mapM {A B} (f : A -> option B) (l : list A) : option (list B) :=
  match l with
  | [] => Some []
  | x :: r => match f x, mapM f r with Some y, Some t => Some (y :: t) | _, _ => None end
  end.

Definition shift (r : option (nat * value)) : option (nat * value) :=
  match r with Some (i, p) => Some (S i, p) | None => None end.

(* where the payload of a tagged variant comes from *)
Inductive psrc := PNone | PJson (j : json).

Fixpoint de (s : schema) (j : json) {struct s} : option value :=
  match s with
  | SInt lo hi => match j with JInt z => if (lo <=? z) && (z <=? hi) then Some (VInt z) else None | _ => None end
  | SFloat => match j with JFloat z => Some (VFloat z) | _ => None end
  | SBool => match j with JBool b => Some (VBool b) | _ => None end
  | SStr => match j with JStr x => Some (VStr x) | _ => None end
  | SHex lo hi =>
      match j with
      | JStr x =>
          match unhex x with
          | Some l => if len_ok lo hi l then Some (VBytes l) else None
          | None => None
          end
      | _ => None
      end
  | SHexSuffix p =>
      match j with
      | JStr x => match strip_prefix p x with
                  | Some r => match parse_hex_u8 r with Some z => Some (VInt z) | None => None end
                  | None => None
                  end
      | _ => None
      end
  | SOpt s' => match j with JNull => Some VNone | _ => match de s' j with Some v => Some (VSome v) | None => None end end
  | SSeq s' => match j with JArr l => match mapM (de s') l with Some l' => Some (VSeq l') | None => None end | _ => None end
  | SArr n s' =>
      match j with
      | JArr l => if Nat.eqb (List.length l) n
                  then match mapM (de s') l with Some l' => Some (VSeq l') | None => None end
                  else None
      | _ => None
      end
  | SAny => match j with JObj m => Some (VMap m) | _ => None end
  | SStruct regs flats any =>
      match j with
      | JObj m =>
          match de_fields regs m, de_flats flats m with
          | Some lr, Some lf =>
              Some (VStruct lr lf
                      (if any
                       then filter (fun kv => negb (mem_str (fst kv) (reg_keys regs ++ flats_keys flats))) m
                       else []))
          | _, _ => None
          end
      | _ => None
      end
  | SEnum t vs =>
      let tagged :=
        match t with
        | TUntagged => None
        | TExt =>
            match j with
            | JStr n => de_named vs n PNone
            | JObj [(n, pj)] => de_named vs n (PJson pj)
            | _ => None
            end
        | TInt tag =>
            match j with
            | JObj m => match lookup tag m with
                        | Some (JStr n) => de_named vs n (PJson (JObj (remove_key tag m)))
                        | _ => None
                        end
            | _ => None
            end
        | TAdj tag c =>
            match j with
            | JObj m => match lookup tag m with
                        | Some (JStr n) =>
                            de_named vs n (match lookup c m with Some pj => PJson pj | None => PNone end)
                        | _ => None
                        end
            | _ => None
            end
        end in
      match tagged with
      | Some (i, p) => Some (VEnum i p)
      | None =>
          match de_untag (match t with TUntagged => true | _ => false end) vs j with
          | Some (i, p) => Some (VEnum i p)
          | None => None
          end
      end
  | SRefine pid s' =>
      match de s' j with
      | Some v => if refine_pred pid v then Some v else None
      | None => None
      end
  | SNamed _ s' => de s' j
  end
with de_fields (fs : fields) (m : list (str * json)) {struct fs} : option (list value) :=
  match fs with
  | FNil => Some []
  | FCons key _ d s r =>
      match (match lookup key m with Some j => de s j | None => missing d s end), de_fields r m with
      | Some v, Some l => Some (v :: l)
      | _, _ => None
      end
  end
with de_flats (fl : flist) (m : list (str * json)) {struct fl} : option (list value) :=
  match fl with
  | FLNil => Some []
  | FLCons s r =>
      match de s (JObj m), de_flats r m with
      | Some v, Some l => Some (v :: l)
      | _, _ => None
      end
  end
with de_named (vs : variants) (n : str) (ps : psrc) {struct vs} : option (nat * value) :=
  match vs with
  | VNil => None
  | VCons name untag sh r =>
      if negb untag && str_eqb name n
      then match de_shape sh ps with Some p => Some (O, p) | None => None end
      else shift (de_named r n ps)
  end
with de_untag (all : bool) (vs : variants) (j : json) {struct vs} : option (nat * value) :=
  match vs with
  | VNil => None
  | VCons _ untag sh r =>
      if all || untag
      then match (match sh with
                  | ShUnit => match j with JNull => Some VUnit | _ => None end
                  | _ => de_shape sh (PJson j)
                  end) with
           | Some p => Some (O, p)
           | None => shift (de_untag all r j)
           end
      else shift (de_untag all r j)
  end
with de_shape (sh : vshape) (ps : psrc) {struct sh} : option value :=
  match sh with
  | ShUnit => Some VUnit
  | ShNew s => match ps with PJson j => de s j | PNone => None end
  | ShStruct fs =>
      match ps with
      | PJson (JObj m) => match de_fields fs m with Some lr => Some (VStruct lr [] []) | None => None end
      | _ => None
      end
  end.

(* ------------------------------------------------------------------ conforms *)
(* a skipped field must come back from the missing-key path: its `missing` value has to be the skipped value *)
Definition skip_ok (sk : skipk) (d : option value) (s : schema) : bool :=
  match sk with
  | SkNever => true
  | SkNone => match s with
              | SOpt _ => match d with None => true | Some VNone => true | _ => false end
              | _ => false
              end
  | SkEmpty => match s, d with
               | SSeq _, Some (VSeq []) => true
               | SAny, Some (VMap []) => true
               | _, _ => false
               end
  end.


Fixpoint nth_variant (vs : variants) (i : nat) : option (str * bool * vshape) :=
  match vs with
  | VNil => None
  | VCons name untag sh r => match i with O => Some (name, untag, sh) | S i' => nth_variant r i' end
  end.

Definition is_untag_variant (t : tagging) (vs : variants) (i : nat) : bool :=
  match t with
  | TUntagged => true
  | _ => match nth_variant vs i with Some (_, u, _) => u | None => false end
  end.

(* the alternative that `de` selects for the JSON of this enum value is the value's own one *)
Definition selected (t : tagging) (vs : variants) (i : nat) (p : value) : bool :=
  match de (SEnum t vs) (ser (SEnum t vs) (VEnum i p)) with
  | Some (VEnum i' _) => Nat.eqb i i'
  | _ => false
  end.

Definition is_nil {A} (l : list A) : bool := match l with [] => true | _ => false end.

Fixpoint conformsb (s : schema) (v : value) {struct s} : bool :=
  match s with
  | SInt lo hi => match v with VInt z => (lo <=? z) && (z <=? hi) | _ => false end
  | SFloat => match v with VFloat _ => true | _ => false end
  | SBool => match v with VBool _ => true | _ => false end
  | SStr => match v with VStr _ => true | _ => false end
  | SHex lo hi => match v with VBytes l => forallb isbyte l && len_ok lo hi l | _ => false end
  | SHexSuffix _ => match v with VInt z => isbyte z | _ => false end
  | SOpt s' => match v with VNone => true | VSome v' => conformsb s' v' | _ => false end
  | SSeq s' => match v with VSeq l => forallb (conformsb s') l | _ => false end
  | SArr n s' => match v with VSeq l => Nat.eqb (List.length l) n && forallb (conformsb s') l | _ => false end
  | SAny => match v with VMap m => nodupb (map fst m) | _ => false end
  | SStruct regs flats any =>
      match v with
      | VStruct lr lf ex =>
          conf_fields regs lr && conf_flats flats lf && (any || is_nil ex)
          && nodupb (map fst ex) && disjointb (map fst ex) (reg_keys regs ++ flats_keys flats)
      | _ => false
      end
  | SEnum t vs =>
      match v with
      | VEnum i p => conf_variants vs i p && (if is_untag_variant t vs i then selected t vs i p else true)
      | _ => false
      end
  | SRefine pid s' => conformsb s' v && refine_pred pid v
  | SNamed _ s' => conformsb s' v
  end
with conf_fields (fs : fields) (l : list value) {struct fs} : bool :=
  match fs with
  | FNil => is_nil l
  | FCons _ sk d s r =>
      match l with
      | v :: l' => conformsb s v && (skip_ok sk d s || negb (skipped sk v)) && conf_fields r l'
      | [] => false
      end
  end
with conf_flats (fl : flist) (l : list value) {struct fl} : bool :=
  match fl with
  | FLNil => is_nil l
  | FLCons s r => match l with v :: l' => conformsb s v && conf_flats r l' | [] => false end
  end
with conf_variants (vs : variants) (i : nat) (p : value) {struct vs} : bool :=
  match vs with
  | VNil => false
  | VCons _ _ sh r => match i with O => conf_shape sh p | S i' => conf_variants r i' p end
  end
with conf_shape (sh : vshape) (p : value) {struct sh} : bool :=
  match sh with
  | ShUnit => match p with VStruct [] [] [] => true | _ => false end
  | ShNew s => conformsb s p
  | ShStruct fs => match p with VStruct lr [] [] => conf_fields fs lr | _ => false end
  end.

(* ------------------------------------------------------------------ wf (static) *)
Fixpoint tagged_names (vs : variants) : list str :=
  match vs with
  | VNil => []
  | VCons name untag _ r => if untag then tagged_names r else name :: tagged_names r
  end.

Fixpoint emits_null (s : schema) : bool :=
  match s with
  | SOpt _ => true
  | SRefine _ s' => emits_null s'
  | SNamed _ s' => emits_null s'
  | SEnum t vs => en_variants (match t with TUntagged => true | _ => false end) vs
  | _ => false
  end
with en_variants (all : bool) (vs : variants) : bool :=
  match vs with
  | VNil => false
  | VCons _ untag sh r =>
      ((all || untag) && match sh with ShUnit => true | ShNew s => emits_null s | ShStruct _ => false end)
      || en_variants all r
  end.

Fixpoint no_untag (vs : variants) : bool :=
  match vs with VNil => true | VCons _ untag _ r => negb untag && no_untag r end.

Definition flattenable (s : schema) : bool :=
  match strip_named s with
  | SStruct _ FLNil false => true
  | SEnum (TAdj _ _) vs => no_untag vs
  | _ => false
  end.

(* what a variant may look like under each tagging (the shapes the round-trip proof covers) *)
Definition shape_ok (t : tagging) (untag : bool) (sh : vshape) : bool :=
  if untag then true else
  match t with
  | TUntagged => true
  | TExt => is_unit sh
  | TInt tag => match sh with
                | ShUnit => true
                | ShStruct fs => negb (mem_str tag (reg_keys fs))
                | ShNew _ => false
                end
  | TAdj tag c => negb (str_eqb tag c)
  end.

Fixpoint wf (s : schema) : bool :=
  match s with
  | SOpt s' => wf s' && negb (emits_null s')
  | SSeq s' => wf s'
  | SArr _ s' => wf s'
  | SRefine _ s' => wf s'
  | SNamed _ s' => wf s'
  | SStruct regs flats _ =>
      wf_fields regs && wf_flats flats && nodupb (reg_keys regs ++ flats_keys flats)
  | SEnum t vs => wf_variants t vs && nodupb (tagged_names vs)
  | _ => true
  end
with wf_fields (fs : fields) : bool :=
  match fs with
  | FNil => true
  | FCons _ _ _ s r => wf s && wf_fields r
  end
with wf_flats (fl : flist) : bool :=
  match fl with
  | FLNil => true
  | FLCons s r => wf s && flattenable s && wf_flats r
  end
with wf_variants (t : tagging) (vs : variants) : bool :=
  match vs with
  | VNil => true
  | VCons _ untag sh r => shape_ok t untag sh && wf_shape sh && wf_variants t r
  end
with wf_shape (sh : vshape) : bool :=
  match sh with
  | ShUnit => true
  | ShNew s => wf s
  | ShStruct fs => wf_fields fs && nodupb (reg_keys fs)
  end.

(* every skipped field (at any depth) comes back from its missing-value: the side condition
   `skip_ok || negb skipped` of conformsb then holds for every value of the field *)
Fixpoint skips_ok (s : schema) : bool :=
  match s with
  | SOpt s' | SSeq s' | SArr _ s' | SRefine _ s' | SNamed _ s' => skips_ok s'
  | SStruct regs flats _ => skips_ok_fields regs && skips_ok_flats flats
  | SEnum _ vs => skips_ok_variants vs
  | _ => true
  end
with skips_ok_fields (fs : fields) : bool :=
  match fs with
  | FNil => true
  | FCons _ sk d s r => skip_ok sk d s && skips_ok s && skips_ok_fields r
  end
with skips_ok_flats (fl : flist) : bool :=
  match fl with FLNil => true | FLCons s r => skips_ok s && skips_ok_flats r end
with skips_ok_variants (vs : variants) : bool :=
  match vs with
  | VNil => true
  | VCons _ _ sh r =>
      (match sh with ShUnit => true | ShNew s => skips_ok s | ShStruct fs => skips_ok_fields fs end)
      && skips_ok_variants r
  end.

(* the same struct schema with the missing-value of field `key` removed (a regression of F50) *)
Fixpoint undefault_fields (key : str) (fs : fields) : fields :=
  match fs with
  | FNil => FNil
  | FCons k' sk d s r => FCons k' sk (if str_eqb key k' then None else d) s (undefault_fields key r)
  end.

Fixpoint undefault (key : str) (s : schema) : schema :=
  match s with
  | SNamed n s' => SNamed n (undefault key s')
  | SRefine p s' => SRefine p (undefault key s')
  | SStruct regs flats any => SStruct (undefault_fields key regs) flats any
  | _ => s
  end.

(* the same validated type with another validator / builder number *)
Fixpoint with_refine (p : N) (s : schema) : schema :=
  match s with
  | SNamed n s' => SNamed n (with_refine p s')
  | SRefine _ s' => SRefine p s'
  | _ => s
  end.

(* ------------------------------------------------------------------ diagnostics (per named type, shallow) *)
(* kinds: 1 skipped field whose missing-value is not the skipped value; 2 duplicate key;
          3 Option of a nullable; 4 flatten of a non-flattenable; 5 variant shape outside the covered ones;
          6 duplicate variant name; 7 an untagged alternative is statically shadowed by an earlier one *)
Definition problem := (Z * str)%type.

Fixpoint dups (l : list str) : list str :=
  match l with [] => [] | x :: r => (if mem_str x r then [x] else []) ++ dups r end.

(* finite string languages of alternatives, for the shadowing lint: Some names = exactly these strings *)
Fixpoint unit_names (vs : variants) : option (list str) :=
  match vs with
  | VNil => Some []
  | VCons name false ShUnit r => match unit_names r with Some l => Some (name :: l) | None => None end
  | _ => None
  end.

Definition str_lang (s : schema) : option (list str) :=
  match strip_named s with
  | SEnum TExt vs => unit_names vs
  | _ => None
  end.

(* strings an alternative accepts when tried as an untagged variant: None = not only strings / unknown *)
Fixpoint shadow_lint (seen : list str) (vs : variants) : list problem :=
  match vs with
  | VNil => []
  | VCons name _ (ShNew s) r =>
      match str_lang s with
      | Some l => map (fun x => (7, x)) (filter (fun x => mem_str x seen) l) ++ shadow_lint (seen ++ l) r
      | None => shadow_lint seen r
      end
  | VCons _ _ _ r => shadow_lint seen r
  end.

Fixpoint diag (s : schema) : list problem :=
  match s with
  | SOpt s' => (if emits_null s' then [(3, [])] else []) ++ diag s'
  | SSeq s' => diag s'
  | SArr _ s' => diag s'
  | SRefine _ s' => diag s'
  | SNamed _ _ => []
  | SStruct regs flats _ =>
      diag_fields regs ++ diag_flats flats ++ map (fun x => (2, x)) (dups (reg_keys regs ++ flats_keys flats))
  | SEnum t vs =>
      diag_variants t vs ++ map (fun x => (6, x)) (dups (tagged_names vs))
      ++ (match t with TUntagged => shadow_lint [] vs | _ => [] end)
  | _ => []
  end
with diag_fields (fs : fields) : list problem :=
  match fs with
  | FNil => []
  | FCons key sk d s r => (if skip_ok sk d s then [] else [(1, key)]) ++ diag s ++ diag_fields r
  end
with diag_flats (fl : flist) : list problem :=
  match fl with
  | FLNil => []
  | FLCons s r => (if flattenable s then [] else [(4, [])]) ++ diag s ++ diag_flats r
  end
with diag_variants (t : tagging) (vs : variants) : list problem :=
  match vs with
  | VNil => []
  | VCons name untag sh r =>
      (if shape_ok t untag sh then [] else [(5, name)])
      ++ (match sh with
          | ShUnit => []
          | ShNew s => diag s
          | ShStruct fs => diag_fields fs ++ map (fun x => (2, x)) (dups (reg_keys fs))
          end)
      ++ diag_variants t r
  end.

(* named types mentioned inside a schema (for the taint of known-defective types) *)
Fixpoint mentions (bad : list str) (s : schema) : bool :=
  match s with
  | SOpt s' | SSeq s' | SArr _ s' | SRefine _ s' => mentions bad s'
  | SNamed n s' => mem_str n bad || mentions bad s'
  | SStruct regs flats _ => mentions_fields bad regs || mentions_flats bad flats
  | SEnum _ vs => mentions_variants bad vs
  | _ => false
  end
with mentions_fields (bad : list str) (fs : fields) : bool :=
  match fs with FNil => false | FCons _ _ _ s r => mentions bad s || mentions_fields bad r end
with mentions_flats (bad : list str) (fl : flist) : bool :=
  match fl with FLNil => false | FLCons s r => mentions bad s || mentions_flats bad r end
with mentions_variants (bad : list str) (vs : variants) : bool :=
  match vs with
  | VNil => false
  | VCons _ _ sh r =>
      (match sh with ShUnit => false | ShNew s => mentions bad s | ShStruct fs => mentions_fields bad fs end)
      || mentions_variants bad r
  end.

(* ------------------------------------------------------------------ canonical form and integer encodings *)
Fixpoint str_ltb (a b : str) : bool :=
  match a, b with
  | [], [] => false
  | [], _ :: _ => true
  | _ :: _, [] => false
  | x :: a', y :: b' => (x <? y) || ((x =? y) && str_ltb a' b')
  end.

(* BTreeMap insert: sorted by key, a later insert of the same key replaces the value *)
Fixpoint insert_sorted (key : str) (j : json) (m : list (str * json)) : list (str * json) :=
  match m with
  | [] => [(key, j)]
  | (k', j') :: r =>
      if str_eqb key k' then (key, j) :: r
      else if str_ltb key k' then (key, j) :: m
      else (k', j') :: insert_sorted key j r
  end.

Fixpoint canon (j : json) : json :=
  match j with
  | JArr l => JArr (map canon l)
  | JObj m =>
      JObj ((fix go (m : list (str * json)) (acc : list (str * json)) : list (str * json) :=
               match m with
               | [] => acc
               | (key, v) :: r => go r (insert_sorted key (canon v) acc)
               end) m [])
  | _ => j
  end.

Definition enc_str (x : str) : list Z := Z.of_nat (List.length x) :: x.

Fixpoint enc_json (j : json) : list Z :=
  match j with
  | JNull => [0]
  | JBool b => [1; if b then 1 else 0]
  | JInt z => [2; z]
  | JFloat z => [3; z]
  | JStr x => 4 :: enc_str x
  | JArr l => 5 :: Z.of_nat (List.length l) :: flat_map enc_json l
  | JObj m =>
      6 :: Z.of_nat (List.length m)
        :: (fix go (m : list (str * json)) : list Z :=
              match m with
              | [] => []
              | (key, v) :: r => enc_str key ++ enc_json v ++ go r
              end) m
  end.

Definition take_str (l : list Z) : option (str * list Z) :=
  match l with
  | n :: r => if (0 <=? n) && (Z.to_nat n <=? List.length r)%nat
              then Some (firstn (Z.to_nat n) r, skipn (Z.to_nat n) r) else None
  | [] => None
  end.

Fixpoint dec_json (fuel : nat) (l : list Z) : option (json * list Z) :=
  match fuel with
  | O => None
  | S f =>
      match l with
      | 0 :: r => Some (JNull, r)
      | 1 :: b :: r => Some (JBool (negb (b =? 0)), r)
      | 2 :: z :: r => Some (JInt z, r)
      | 3 :: z :: r => Some (JFloat z, r)
      | 4 :: r => match take_str r with Some (x, r') => Some (JStr x, r') | None => None end
      | 5 :: n :: r =>
          (fix go (n : nat) (r : list Z) (acc : list json) : option (json * list Z) :=
             match n with
             | O => Some (JArr (rev acc), r)
             | S n' => match dec_json f r with Some (x, r') => go n' r' (x :: acc) | None => None end
             end) (Z.to_nat n) r []
      | 6 :: n :: r =>
          (fix go (n : nat) (r : list Z) (acc : list (str * json)) : option (json * list Z) :=
             match n with
             | O => Some (JObj (rev acc), r)
             | S n' =>
                 match take_str r with
                 | Some (key, r1) =>
                     match dec_json f r1 with Some (x, r') => go n' r' ((key, x) :: acc) | None => None end
                 | None => None
                 end
             end) (Z.to_nat n) r []
      | _ => None
      end
  end.

(* values: 0 int, 1 float, 2 bool, 3 str, 4 bytes, 5 none, 6 some, 7 seq, 8 struct, 9 enum, 10 map *)
Fixpoint dec_entries (fuel : nat) (n : nat) (r : list Z) (acc : list (str * json)) : option (list (str * json) * list Z) :=
  match n with
  | O => Some (rev acc, r)
  | S n' =>
      match take_str r with
      | Some (key, r1) =>
          match dec_json fuel r1 with Some (x, r') => dec_entries fuel n' r' ((key, x) :: acc) | None => None end
      | None => None
      end
  end.

Fixpoint dec_value (fuel : nat) (l : list Z) : option (value * list Z) :=
  match fuel with
  | O => None
  | S f =>
      let many := (fix go (n : nat) (r : list Z) (acc : list value) : option (list value * list Z) :=
                     match n with
                     | O => Some (rev acc, r)
                     | S n' => match dec_value f r with Some (x, r') => go n' r' (x :: acc) | None => None end
                     end) in
      match l with
      | 0 :: z :: r => Some (VInt z, r)
      | 1 :: z :: r => Some (VFloat z, r)
      | 2 :: b :: r => Some (VBool (negb (b =? 0)), r)
      | 3 :: r => match take_str r with Some (x, r') => Some (VStr x, r') | None => None end
      | 4 :: r => match take_str r with Some (x, r') => Some (VBytes x, r') | None => None end
      | 5 :: r => Some (VNone, r)
      | 6 :: r => match dec_value f r with Some (x, r') => Some (VSome x, r') | None => None end
      | 7 :: n :: r => match many (Z.to_nat n) r [] with Some (xs, r') => Some (VSeq xs, r') | None => None end
      | 8 :: n :: r =>
          match many (Z.to_nat n) r [] with
          | Some (lr, n2 :: r1) =>
              match many (Z.to_nat n2) r1 [] with
              | Some (lf, n3 :: r2) =>
                  match dec_entries (S f) (Z.to_nat n3) r2 [] with
                  | Some (ex, r3) => Some (VStruct lr lf ex, r3)
                  | None => None
                  end
              | _ => None
              end
          | _ => None
          end
      | 9 :: i :: r => match dec_value f r with Some (x, r') => Some (VEnum (Z.to_nat i) x, r') | None => None end
      | 10 :: n :: r => match dec_entries (S f) (Z.to_nat n) r [] with Some (m, r') => Some (VMap m, r') | None => None end
      | _ => None
      end
  end.

(* ------------------------------------------------------------------ equality tests used by the stream *)
Fixpoint json_eqb (a b : json) : bool :=
  match a, b with
  | JNull, JNull => true
  | JBool x, JBool y => Bool.eqb x y
  | JInt x, JInt y => x =? y
  | JFloat x, JFloat y => x =? y
  | JStr x, JStr y => str_eqb x y
  | JArr x, JArr y =>
      (fix go (x y : list json) : bool :=
         match x, y with
         | [], [] => true
         | p :: x', q :: y' => json_eqb p q && go x' y'
         | _, _ => false
         end) x y
  | JObj x, JObj y =>
      (fix go (x y : list (str * json)) : bool :=
         match x, y with
         | [], [] => true
         | (k1, p) :: x', (k2, q) :: y' => str_eqb k1 k2 && json_eqb p q && go x' y'
         | _, _ => false
         end) x y
  | _, _ => false
  end.

Fixpoint entries_eqb (x y : list (str * json)) : bool :=
  match x, y with
  | [], [] => true
  | (k1, p) :: x', (k2, q) :: y' => str_eqb k1 k2 && json_eqb p q && entries_eqb x' y'
  | _, _ => false
  end.

(* maps are compared as maps (canonical order), everything else structurally *)
Fixpoint value_eqb (a b : value) : bool :=
  let list_eqb := (fix go (x y : list value) : bool :=
                     match x, y with
                     | [], [] => true
                     | p :: x', q :: y' => value_eqb p q && go x' y'
                     | _, _ => false
                     end) in
  match a, b with
  | VInt x, VInt y => x =? y
  | VFloat x, VFloat y => x =? y
  | VBool x, VBool y => Bool.eqb x y
  | VStr x, VStr y => str_eqb x y
  | VBytes x, VBytes y => str_eqb x y
  | VNone, VNone => true
  | VSome x, VSome y => value_eqb x y
  | VSeq x, VSeq y => list_eqb x y
  | VStruct r1 f1 e1, VStruct r2 f2 e2 =>
      list_eqb r1 r2 && list_eqb f1 f2 && json_eqb (canon (JObj e1)) (canon (JObj e2))
  | VEnum i x, VEnum j y => Nat.eqb i j && value_eqb x y
  | VMap x, VMap y => json_eqb (canon (JObj x)) (canon (JObj y))
  | _, _ => false
  end.
