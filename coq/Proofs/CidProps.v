(* The lemmas p_c14_* that carry the statements of Properties/C14.v. *)
From Coq Require Import List NArith ZArith Bool Lia Permutation.
From GQ Require Import Lib.Base Model.Router Model.LocalCid Model.RemoteCid Model.Cid
  Proofs.Router Proofs.LocalCid Proofs.RemoteCid Proofs.RemoteInv Proofs.RouterInv Proofs.Cid Proofs.CidSys.
Import ListNotations.
Local Open Scope N_scope.

Definition no_force (ops : list op) : bool := forallb (fun o => negb (is_force o)) ops.

(* the class of the known finding F18: a frame whose span [retire_prior_to, sequence] has limit+1 numbers *)
Definition f18_class (lim : N) (o : op) : bool :=
  match o with
  | ONewCid seq rpt _ => (rpt <=? seq) && (seq - rpt =? lim)
  | _ => false
  end.
Definition no_f18 (lim : N) (ops : list op) : bool := forallb (fun o => negb (f18_class lim o)) ops.

Definition stored (s : sys) : N := N.of_nat (count_some (r_cids (s_remote s))).

Lemma nseq_nodup : forall n a, NoDup (nseq a n).
Proof.
  induction n; intros a; cbn [nseq]; constructor; [|apply IHn].
  rewrite in_nseq. lia.
Qed.

Lemma nodup_app_l : forall (a b : list N), NoDup (a ++ b) -> NoDup a.
Proof.
  induction a as [|x r IH]; intros b H; [constructor|]. cbn [app] in H. inversion H; subst.
  constructor; [|eapply IH; eassumption]. intro Hin. apply H2. apply in_or_app. left. assumption.
Qed.

Lemma nodup_app_r : forall (a b : list N), NoDup (a ++ b) -> NoDup b.
Proof. induction a as [|x r IH]; intros b H; [assumption|]. cbn [app] in H. inversion H; subst. auto. Qed.

Lemma count_some_le : forall A (l : list (option A)), (count_some l <= length l)%nat.
Proof. induction l as [|[x|] r IH]; cbn; lia. Qed.

Section Sys.
  Variable rnd : N -> cid.
  Variable fuel : nat.

  (* ---- our own IDs ---- *)

  Lemma p_c14_local_sys : forall chk post limit npre hs id0 ops s xs,
    steps chk post rnd fuel (sys_init limit npre hs id0) ops = (s, xs) ->
    forall i cn l, nth_error (s_conns s) i = Some cn -> c_local cn = Some l ->
      (exists fs, lreach renv (genq rnd fuel (N.of_nat i)) retire_cid l fs) /\
      (forall n, l_limit l = Some n -> l_active l <= n) /\
      (l_limit l = None -> l_active l <= 2).
  Proof.
    intros chk post limit npre hs id0 ops s xs H i cn l Hn Hl.
    assert (HR : LReach rnd fuel s).
    { eapply steps_reach; [|exact H]. intros j cn0 l0 Hj. destruct j; discriminate. }
    destruct (HR i cn l Hn Hl) as [fs Hfs]. split; [exists fs; exact Hfs|split].
    - eapply p_c14_local_count; eassumption.
    - eapply p_c14_local_count_unset; eassumption.
  Qed.

  (* ---- the router ---- *)

  Lemma p_c14_router : forall chk post limit npre hs id0 ops s xs,
    steps chk post rnd fuel (sys_init limit npre hs id0) ops = (s, xs) ->
    (* every routed ID belongs to a connection that is alive and still owns it *)
    (forall x q, route (s_env s) x = Some q ->
       exists i cn l, q = N.of_nat i /\ nth_error (s_conns s) i = Some cn /\ c_local cn = Some l /\
                      (In (Some x) (l_cells l) \/ c_odcid cn = Some x)) /\
    (no_force ops = true ->
       (* every active ID is routed to its own connection; no ID has two owners *)
       (forall i cn l x, nth_error (s_conns s) i = Some cn -> c_local cn = Some l ->
          In (Some x) (l_cells l) -> route (s_env s) x = Some (N.of_nat i)) /\
       (forall i j ci cj li lj x, nth_error (s_conns s) i = Some ci -> nth_error (s_conns s) j = Some cj ->
          c_local ci = Some li -> c_local cj = Some lj ->
          In (Some x) (l_cells li) -> In (Some x) (l_cells lj) -> i = j)).
  Proof.
    intros chk post limit npre hs id0 ops s xs H.
    destruct (init_views limit npre hs id0) as [HB0 [HC0 _]].
    pose proof (steps_VB chk post rnd fuel _ _ _ _ H HB0) as HB.
    split.
    - intros x q Hx. destruct (HB x q Hx) as [i [Hq Ho]]. cbn [view_of v_act v_od] in Ho.
      unfold acts, odc in Ho. destruct (nth_error (s_conns s) i) as [[[l|] od h]|] eqn:EN.
      + exists i, (mkC (Some l) od h), l. split; [assumption|split; [exact EN|split; [reflexivity|]]].
        destruct Ho as [Ho|Ho]; [left; apply in_somes; assumption|right; assumption].
      + destruct Ho as [[]|Ho]; discriminate.
      + destruct Ho as [[]|Ho]; discriminate.
    - intros Hnf. pose proof (steps_VC chk post rnd fuel _ _ _ _ Hnf H HC0) as [HC1 _].
      assert (Hroute : forall i cn l x, nth_error (s_conns s) i = Some cn -> c_local cn = Some l ->
                In (Some x) (l_cells l) -> route (s_env s) x = Some (N.of_nat i)).
      { intros i cn l x Hn Hl Hin. apply (HC1 i x). cbn [view_of v_act]. unfold acts. rewrite Hn.
        destruct cn as [lo od h]. cbn [c_local] in Hl. subst lo. apply in_somes. assumption. }
      split; [exact Hroute|].
      intros i j ci cj li lj x Hi Hj Hli Hlj Hxi Hxj.
      pose proof (Hroute _ _ _ _ Hi Hli Hxi) as R1. pose proof (Hroute _ _ _ _ Hj Hlj Hxj) as R2.
      rewrite R1 in R2. inversion R2. lia.
  Qed.

  (* the pointer-equality guard of QuicRouterEntry::remove *)
  Lemma p_c14_router_guard : forall e x q k q',
    route e x = Some q' -> q' <> q -> route (entry_drop e k q) x = Some q'.
  Proof. intros. unfold route, entry_drop in *. cbn [e_tab]. apply remove_if_guard; assumption. Qed.

  (* ---- the peer's IDs ---- *)

  Lemma p_c14_remote_struct : forall chk post limit npre hs id0 ops s xs,
    (hs < npre)%nat ->
    steps chk post rnd fuel (sys_init limit npre hs id0) ops = (s, xs) ->
    RPre (s_remote s) (emitted xs) /\ Arranged (s_remote s).
  Proof.
    intros chk post limit npre hs id0 ops s xs Hhs H.
    pose proof (steps_remote chk post rnd fuel _ _ _ _ _ (init_RInv limit npre hs id0 Hhs) H) as HI.
    cbn [app] in HI. exact HI.
  Qed.

  Lemma p_c14_one_cid_per_path : forall chk post limit npre hs id0 ops s xs,
    (hs < npre)%nat ->
    steps chk post rnd fuel (sys_init limit npre hs id0) ops = (s, xs) ->
    let r := s_remote s in
    (* no sequence number is held twice, by one path or by two *)
    NoDup (held (r_cells r)) /\
    forall p, (p < length (r_cells r))%nat ->
      let c := get_cell (r_cells r) p in
      (a_retired c = true -> a_alloc c = []) /\
      (a_retired c = false -> a_using c = false -> (length (a_alloc c) <= 1)%nat).
  Proof.
    intros chk post limit npre hs id0 ops s xs Hhs H. cbv zeta.
    destruct (p_c14_remote_struct _ _ _ _ _ _ _ _ _ Hhs H) as [HP _]. split.
    - pose proof (p_perm _ _ HP) as HPm.
      assert (NoDup (emitted xs ++ held (r_cells (s_remote s)))).
      { eapply Permutation_NoDup; [symmetry; exact HPm|apply nseq_nodup]. }
      apply nodup_app_r in H0. assumption.
    - intros p Hp. exact (p_cells _ _ HP p Hp).
  Qed.

  Lemma p_c14_retire_prior_to : forall chk post limit npre hs id0 ops s xs,
    (hs < npre)%nat ->
    steps chk post rnd fuel (sys_init limit npre hs id0) ops = (s, xs) ->
    let r := s_remote s in
    (* every sequence number below the cursor: one RETIRE_CONNECTION_ID, or still held by one path *)
    Permutation (emitted xs ++ held (r_cells r)) (nseq 0 (N.to_nat (r_cursor r))) /\
    NoDup (emitted xs) /\
    (* stored IDs start at retire-prior-to; the cursor is past it *)
    r_coff r = r_roff r /\ r_roff r <= r_cursor r /\
    (* paths in ready_cells have switched: retired, or their newest ID is their index >= retire-prior-to *)
    (forall j p, nth_error (r_ready r) j = Some p ->
       a_retired (get_cell (r_cells r) p) = true \/
       exists id rest, a_alloc (get_cell (r_cells r) p) = (r_roff r + N.of_nat j, id) :: rest) /\
    (* no stored ID waits at the cursor while a path is pending *)
    (r_pending r = [] \/ forall x, dq_get (r_coff r) (r_cids r) (r_cursor r) <> Some (Some x)).
  Proof.
    intros chk post limit npre hs id0 ops s xs Hhs H. cbv zeta.
    destruct (p_c14_remote_struct _ _ _ _ _ _ _ _ _ Hhs H) as [HP HA].
    pose proof (p_perm _ _ HP) as HPm.
    split; [exact HPm|]. split.
    - assert (NoDup (emitted xs ++ held (r_cells (s_remote s)))).
      { eapply Permutation_NoDup; [symmetry; exact HPm|apply nseq_nodup]. }
      apply nodup_app_l in H0. assumption.
    - split; [exact (p_al _ _ HP)|]. split; [rewrite (p_cur _ _ HP); lia|].
      split; [exact (p_ready _ _ HP)|exact HA].
  Qed.

  Lemma p_c14_drain_assert : forall chk post limit npre hs id0 ops s xs seq rpt id,
    (hs < npre)%nat ->
    steps chk post rnd fuel (sys_init limit npre hs id0) ops = (s, xs) ->
    rpt <= seq -> r_coff (s_remote s) <= seq -> r_roff (s_remote s) < rpt ->
    drain_ok (inserted (s_remote s) seq id) rpt = true.
  Proof.
    intros chk post limit npre hs id0 ops s xs seq rpt id Hhs H H1 H2 H3.
    destruct (p_c14_remote_struct _ _ _ _ _ _ _ _ _ Hhs H) as [HP _].
    apply p_drain_ok; auto. exact (p_al _ _ HP).
  Qed.

  Lemma p_c14_remote_limit_sound : forall chk post limit npre hs id0 ops s xs,
    sound_chk chk -> 1 <= limit -> (hs < npre)%nat ->
    steps chk post rnd fuel (sys_init limit npre hs id0) ops = (s, xs) ->
    stored s <= limit /\ lenN (r_cids (s_remote s)) <= limit /\ r_limit (s_remote s) = limit.
  Proof.
    intros chk post limit npre hs id0 ops s xs HS Hl Hhs H.
    destruct (init_cids limit npre hs id0) as [C1 C2].
    assert (HF0 : LimInv (sys_init limit npre hs id0)).
    { unfold LimInv, Fits, sys_init. cbn [s_remote]. rewrite C1, C2. unfold lenN. cbn. lia. }
    destruct (steps_fits chk post rnd fuel _ _ _ _ _ HS (init_RInv limit npre hs id0 Hhs) HF0 H) as [HF HL].
    unfold sys_init in HL. cbn [s_remote] in HL. rewrite C2 in HL.
    unfold LimInv, Fits in HF. rewrite HL in HF. split; [|split; assumption].
    unfold stored. pose proof (count_some_le _ (r_cids (s_remote s))). unfold lenN in HF. lia.
  Qed.

  Lemma p_c14_remote_limit_fixed : forall limit npre hs id0 ops s xs,
    1 <= limit -> (hs < npre)%nat ->
    steps chk_fixed no_post rnd fuel (sys_init limit npre hs id0) ops = (s, xs) ->
    stored s <= limit /\ lenN (r_cids (s_remote s)) <= limit /\ r_limit (s_remote s) = limit.
  Proof. intros. eapply p_c14_remote_limit_sound; eauto. exact chk_fixed_sound. Qed.

  (* outside the class F18 the code as it stands behaves like the repaired code *)
  Lemma step_agree : forall s o,
    f18_class (r_limit (s_remote s)) o = false ->
    step chk_coded no_post rnd fuel s o = step chk_fixed no_post rnd fuel s o.
  Proof.
    intros s o H. destruct o; try reflexivity. cbn [step f18_class] in *.
    destruct (seq <? rpt) eqn:E; [reflexivity|]. apply N.ltb_ge in E.
    replace (rpt <=? seq) with true in H by (symmetry; apply N.leb_le; assumption).
    cbn [andb] in H. apply N.eqb_neq in H.
    unfold recv_new_cid. rewrite (chk_agree _ _ _ E H). reflexivity.
  Qed.

  Lemma steps_agree : forall ops s em limit,
    RInv s em -> LimInv s -> r_limit (s_remote s) = limit -> no_f18 limit ops = true ->
    steps chk_coded no_post rnd fuel s ops = steps chk_fixed no_post rnd fuel s ops.
  Proof.
    induction ops as [|o rest IH]; intros s em limit HI HF HL Hn; [reflexivity|].
    cbn [no_f18 forallb] in Hn. apply andb_true_iff in Hn. destruct Hn as [Hn1 Hn2].
    apply negb_true_iff in Hn1. cbn [steps]. rewrite <- HL in Hn1. rewrite (step_agree _ _ Hn1).
    destruct (step chk_fixed no_post rnd fuel s o) as [s1 x] eqn:E1.
    destruct (step_fits chk_fixed no_post rnd fuel _ _ _ _ _ chk_fixed_sound HI HF E1) as [F1 L1].
    pose proof (step_remote chk_fixed no_post rnd fuel _ _ _ _ _ HI E1) as HI1.
    rewrite (IH s1 _ limit HI1 F1); [reflexivity|congruence|exact Hn2].
  Qed.

  Lemma p_c14_remote_limit_conditional : forall limit npre hs id0 ops s xs,
    1 <= limit -> (hs < npre)%nat -> no_f18 limit ops = true ->
    steps chk_coded no_post rnd fuel (sys_init limit npre hs id0) ops = (s, xs) ->
    stored s <= limit /\ lenN (r_cids (s_remote s)) <= limit.
  Proof.
    intros limit npre hs id0 ops s xs Hl Hhs Hn H.
    destruct (init_cids limit npre hs id0) as [C1 C2].
    assert (HF0 : LimInv (sys_init limit npre hs id0)).
    { unfold LimInv, Fits, sys_init. cbn [s_remote]. rewrite C1, C2. unfold lenN. cbn. lia. }
    rewrite (steps_agree ops _ [] limit (init_RInv limit npre hs id0 Hhs) HF0) in H; [| |exact Hn].
    - destruct (p_c14_remote_limit_fixed _ _ _ _ _ _ _ Hl Hhs H) as [A [B _]]. auto.
    - unfold sys_init. cbn [s_remote]. exact C2.
  Qed.
  (* ---- the RFC-exact repair: count the active IDs after processing ---- *)

  Lemma local_op_not_newcid : forall s i f s' r fr, local_op s i f <> (s', XNewCid r fr).
  Proof.
    intros s i f s' r fr H. unfold local_op in H.
    destruct (nth_error (s_conns s) i) as [[[l|] od h]|]; try (inversion H; fail).
    destruct (f (s_env s) l) as [[[[e1 l1] fs] r0]|]; inversion H.
  Qed.

  Lemma conn_new_not_newcid : forall s od s' r fr, conn_new rnd fuel s od <> (s', XNewCid r fr).
  Proof.
    intros s od s' r fr H. unfold conn_new in H.
    destruct (genq rnd fuel (N.of_nat (length (s_conns s))) (s_env s)) as [[e1 scid]|]; [|inversion H].
    match type of H with context [l_new ?a ?b ?c ?d] => destruct (l_new a b c d) as [[[e3 l] fs]|] end; inversion H.
  Qed.

  Lemma step_newcid_out : forall chk post s o s' r fr,
    step chk post rnd fuel s o = (s', XNewCid r fr) ->
    exists seq rpt id, o = ONewCid seq rpt id /\ rpt <= seq /\
      recv_new_cid chk post (s_remote s) seq rpt id = (s_remote s', fr, r).
  Proof.
    intros chk post s o s' r fr H. destruct o; cbn [step] in H.
    - destruct (seq <? rpt) eqn:E; [inversion H|]. apply N.ltb_ge in E.
      destruct (recv_new_cid chk post (s_remote s) seq rpt id) as [[r0 fr0] res] eqn:ER.
      inversion H; subst. exists seq, rpt, id. cbn [set_remote s_remote]. auto.
    - exfalso. eapply local_op_not_newcid; exact H.
    - exfalso. eapply local_op_not_newcid; exact H.
    - destruct (apply_dcid (s_remote s)) as [[r0 p] fr0]. inversion H.
    - destruct ((p <? length (r_cells (s_remote s)))%nat && negb (nmem p (s_held s))); [|inversion H].
      destruct (path_borrow (s_remote s) p) as [r0 res]. inversion H.
    - destruct (nmem p (s_held s) && (p <? length (r_cells (s_remote s)))%nat); [|inversion H].
      destruct (path_release (s_remote s) p) as [r0 fr0]. inversion H.
    - destruct (p <? length (r_cells (s_remote s)))%nat; [|inversion H].
      destruct (path_retire (s_remote s) p) as [r0 fr0]. inversion H.
    - exfalso. eapply conn_new_not_newcid; exact H.
    - destruct (route (s_env s) x); [inversion H|]. exfalso. eapply conn_new_not_newcid; exact H.
    - exfalso. eapply conn_new_not_newcid; exact H.
    - destruct (nth_error (s_conns s) c) as [[[l|] od h]|]; inversion H.
    - inversion H.
    - destruct (nth_error (s_conns s) c) as [[[l|] od h]|]; inversion H.
    - inversion H.
  Qed.

  Lemma step_limit : forall chk post s o s' x,
    step chk post rnd fuel s o = (s', x) -> r_limit (s_remote s') = r_limit (s_remote s).
  Proof.
    intros chk post s o s' x H. destruct o; cbn [step] in H.
    - destruct (seq <? rpt); [inversion H; reflexivity|].
      pose proof (recv_limit chk post (s_remote s) seq rpt id) as HL.
      destruct (recv_new_cid chk post (s_remote s) seq rpt id) as [[r0 fr0] res]. inversion H; subst. exact HL.
    - apply local_op_remote in H. destruct H as [-> _]. reflexivity.
    - apply local_op_remote in H. destruct H as [-> _]. reflexivity.
    - destruct (apply_dcid (s_remote s)) as [[r0 p] fr0] eqn:EA. inversion H; subst.
      apply apply_fields in EA. cbn [set_remote s_remote]. tauto.
    - destruct ((p <? length (r_cells (s_remote s)))%nat && negb (nmem p (s_held s))); [|inversion H; reflexivity].
      unfold path_borrow in H. destruct (cell_borrow (get_cell (r_cells (s_remote s)) p)) as [c' r0].
      inversion H; subst. reflexivity.
    - destruct (nmem p (s_held s) && (p <? length (r_cells (s_remote s)))%nat); [|inversion H; reflexivity].
      unfold path_release in H. destruct (cell_renew (get_cell (r_cells (s_remote s)) p)) as [c' r0].
      inversion H; subst. reflexivity.
    - destruct (p <? length (r_cells (s_remote s)))%nat; [|inversion H; reflexivity].
      unfold path_retire in H. destruct (cell_retire (get_cell (r_cells (s_remote s)) p)) as [c' r0].
      inversion H; subst. reflexivity.
    - apply conn_new_remote in H. destruct H as [-> _]. reflexivity.
    - destruct (route (s_env s) x0); [inversion H; reflexivity|].
      apply conn_new_remote in H. destruct H as [-> _]. reflexivity.
    - apply conn_new_remote in H. destruct H as [-> _]. reflexivity.
    - destruct (nth_error (s_conns s) c) as [[[l|] od h]|]; try (inversion H; reflexivity).
    - inversion H; reflexivity.
    - destruct (nth_error (s_conns s) c) as [[[l|] od h]|]; try (inversion H; reflexivity).
    - inversion H; reflexivity.
  Qed.

  Lemma steps_limit : forall chk post ops s s' xs,
    steps chk post rnd fuel s ops = (s', xs) -> r_limit (s_remote s') = r_limit (s_remote s).
  Proof.
    intros chk post. induction ops as [|o rest IH]; intros s s' xs H; cbn [steps] in H.
    - inversion H; reflexivity.
    - destruct (step chk post rnd fuel s o) as [s1 x] eqn:E1.
      destruct (steps chk post rnd fuel s1 rest) as [s2 xs2] eqn:E2. inversion H; subst.
      rewrite (IH _ _ _ E2). eapply step_limit. exact E1.
  Qed.

  (* full strength: whatever happened before, a NEW_CONNECTION_ID frame that is ACCEPTED leaves at
     most [limit] active peer IDs *)
  Lemma p_c14_remote_limit_count : forall limit npre hs id0 ops s xs o s' fr,
    steps no_pre post_count rnd fuel (sys_init limit npre hs id0) ops = (s, xs) ->
    step no_pre post_count rnd fuel s o = (s', XNewCid NAccepted fr) ->
    active (s_remote s') <= limit.
  Proof.
    intros limit npre hs id0 ops s xs o s' fr H Ho.
    assert (HL : r_limit (s_remote s) = limit).
    { rewrite (steps_limit _ _ _ _ _ _ H). unfold sys_init. cbn [s_remote]. apply init_cids. }
    apply step_newcid_out in Ho. destruct Ho as [seq [rpt [id [_ [_ Hr]]]]].
    rewrite recv_count_spec in Hr. destruct (seq <? r_coff (s_remote s)); [inversion Hr|].
    destruct (processed (s_remote s) seq rpt id) as [s3 fr3].
    destruct (r_limit (s_remote s) <? active s3) eqn:E; inversion Hr; subst.
    apply N.ltb_ge in E. exact E.
  Qed.
End Sys.

(* no false rejection: the verdict CONNECTION_ID_LIMIT_ERROR is given exactly when the frame, once
   processed (ID added, everything below retire_prior_to retired, idle IDs arranged), leaves more
   than [limit] active IDs; a frame below the current retire_prior_to is discarded, never an error *)
Lemma p_c14_remote_no_false_reject : forall s seq rpt id,
  let '(s', fr, res) := recv_new_cid no_pre post_count s seq rpt id in
  (res = NErrLimit <-> (r_coff s <= seq /\ r_limit s < active (fst (processed s seq rpt id)))) /\
  (r_coff s <= seq -> (s', fr) = processed s seq rpt id) /\
  (seq < r_coff s -> s' = s /\ fr = [] /\ res = NDiscarded).
Proof.
  intros s seq rpt id. rewrite recv_count_spec.
  destruct (N.ltb_spec seq (r_coff s)) as [Hlt|Hge].
  - split; [split; [discriminate|intros [H _]; lia]|split; [intros; lia|auto]].
  - destruct (processed s seq rpt id) as [s3 fr3]. cbn [fst].
    destruct (N.ltb_spec (r_limit s) (active s3)) as [H1|H1].
    + split; [split; auto|split; [reflexivity|intros; lia]].
    + split; [split; [discriminate|intros [_ H]; lia]|split; [reflexivity|intros; lia]].
Qed.

(* the scenario of corpus/C14/cid/conservative.case: a compliant peer replaces an ID that one of
   our paths retired and keeps retire_prior_to at 0 *)
Definition conservative_ops : list op :=
  [OPathApply; ONewCid 1 0 1001; OPathRetire 1; ONewCid 2 0 1002; OPathApply; OPathRetire 2; ONewCid 3 0 1003].

Lemma p_c14_conservative :
  let run chk post := snd (steps chk post rnd_exec fuel_exec (sys_init 2 1 0 1000) conservative_ops) in
  run no_pre post_count =
    [XPath 1 []; XNewCid NAccepted []; XFrames [1]; XNewCid NAccepted []; XPath 2 []; XFrames [2]; XNewCid NAccepted []] /\
  nth 6 (run chk_coded no_post) XDone = XNewCid NErrLimit [] /\
  nth 3 (run chk_fixed no_post) XDone = XNewCid NErrLimit [].
Proof. vm_compute. repeat split. Qed.

(* F18: limit 2, NEW_CONNECTION_ID 1 and 2 with retire_prior_to 0 are both accepted *)
Definition f18_ops : list op := [ONewCid 1 0 1001; ONewCid 2 0 1002].

Lemma p_c14_remote_limit_refuted :
  exists limit npre hs id0 ops,
    1 <= limit /\ (hs < npre)%nat /\
    let '(s, xs) := steps chk_coded no_post rnd_exec fuel_exec (sys_init limit npre hs id0) ops in
    xs = [XNewCid NAccepted []; XNewCid NAccepted []] /\ stored s = 3 /\ limit = 2.
Proof. exists 2, 1%nat, 0%nat, 1000, f18_ops. vm_compute. repeat split; try lia; discriminate. Qed.
