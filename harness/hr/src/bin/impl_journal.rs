//! Correspondence stream `journal` (C10, C07): drives the real `qrecovery::journal::{ArcRcvdJournal,
//! ArcSentJournal}` under a paused tokio current_thread clock.
//! CASE <name> <max_ack_delay ms | -1>
//! ops:  0 dt                      advance the clock by dt ms
//!       1 w x                     decode_pn(PacketNumber::U{8w}(x))
//!       2 pn eliciting pto_ms     on_rcvd_pn
//!       3 pn largest rt_ms cap    gen_ack_frame_util(pn, largest, base+rt, cap)
//!       4 largest delay first (gap ack)*   on_rcvd_ack(AckFrame)
//!       5                         need_ack
//!       6                         dump of the received journal (cfg hook)
//!      10 trivial mode retran expire frame*   one NewPacketGuard life (mode 0 build_with_time, 1 build_trivial, 2 drop)
//!      11 (kind arg)*             one SentRotateGuard life (kind 0 acked pn, 1 may_loss pn, 2 fast_retransmit, 3 update_largest v)
//!      12                         dump of the sent journal (cfg hook)
//! a panic inside an operation prints -77 (the lock of that journal is poisoned from then on).
use std::panic::{AssertUnwindSafe, catch_unwind};

use bytes::BufMut;
use hproto::{Obs, Op};
use qbase::{
    frame::{AckFrame, EncodeSize, io::WriteFrame},
    packet::{InvalidPacketNumber, PacketNumber},
    varint::VarInt,
};
use qrecovery::journal::{ArcRcvdJournal, ArcSentJournal};
use tokio::time::{Duration, Instant};

const PANIC: i128 = -77;

struct St {
    rt: tokio::runtime::Runtime,
    base: Instant,
    rj: ArcRcvdJournal,
    sj: ArcSentJournal<u64>,
}

fn vi(v: u64) -> VarInt {
    VarInt::from_u64(v).expect("harness: generator keeps varints below 2^62")
}

fn new_case(words: &[&str]) -> St {
    let rt = tokio::runtime::Builder::new_current_thread()
        .enable_time()
        .start_paused(true)
        .build()
        .unwrap();
    let mad: i64 = words.first().and_then(|w| w.parse().ok()).unwrap_or(-1);
    let (base, rj, sj) = {
        let _g = rt.enter();
        let base = Instant::now();
        let mad = if mad < 0 { None } else { Some(Duration::from_millis(mad as u64)) };
        (base, ArcRcvdJournal::with_capacity(16, mad), ArcSentJournal::with_capacity(16))
    };
    St { rt, base, rj, sj }
}

fn pnum(w: u64, x: u64) -> PacketNumber {
    match w {
        1 => PacketNumber::U8(x as u8),
        2 => PacketNumber::U16(x as u16),
        3 => PacketNumber::U24(x as u32),
        _ => PacketNumber::U32(x as u32),
    }
}

fn pnum_parts(p: PacketNumber) -> (i128, i128) {
    match p {
        PacketNumber::U8(x) => (1, x as i128),
        PacketNumber::U16(x) => (2, x as i128),
        PacketNumber::U24(x) => (3, x as i128),
        PacketNumber::U32(x) => (4, x as i128),
    }
}

fn step(st: &mut St, op: &Op, _i: usize) -> Obs {
    let _g = st.rt.enter();
    let mut out: Vec<i128> = Vec::new();
    let r = catch_unwind(AssertUnwindSafe(|| match op.tag {
        0 => {
            st.rt.block_on(tokio::time::advance(Duration::from_millis(op.u(0))));
            out.push(Instant::now().saturating_duration_since(st.base).as_millis() as i128);
        }
        1 => match st.rj.decode_pn(pnum(op.u(0), op.u(1))) {
            Ok(pn) => out.extend([0, pn as i128]),
            Err(InvalidPacketNumber::TooOld) => out.push(1),
            Err(InvalidPacketNumber::Duplicate) => out.push(2),
            Err(InvalidPacketNumber::TooLarge) => out.push(3),
        },
        2 => {
            st.rj.on_rcvd_pn(op.u(0), op.u(1) != 0, Duration::from_millis(op.u(2)));
            out.push(0);
        }
        3 => {
            let rt = st.base + Duration::from_millis(op.u(2));
            match st.rj.gen_ack_frame_util(op.u(0), op.u(1), rt, op.u(3) as usize) {
                Ok(f) => {
                    out.extend([0, f.largest() as i128, f.delay() as i128, f.first_range() as i128, f.ranges().len() as i128]);
                    for (g, a) in f.ranges() {
                        out.extend([g.into_u64() as i128, a.into_u64() as i128]);
                    }
                    let mut buf: Vec<u8> = Vec::new();
                    buf.put_frame(&f);
                    let _ = buf.remaining_mut();
                    if buf.len() == f.encoding_size() {
                        out.push(buf.len() as i128);
                    } else {
                        out.extend([-88, buf.len() as i128, f.encoding_size() as i128]);
                    }
                }
                Err(_) => out.push(1),
            }
        }
        4 => {
            let ranges: Vec<(VarInt, VarInt)> = op.args[3..].chunks(2).filter(|c| c.len() == 2).map(|c| (vi(c[0] as u64), vi(c[1] as u64))).collect();
            let f = AckFrame::new(vi(op.u(0)), vi(op.u(1)), vi(op.u(2)), ranges, None);
            st.rj.on_rcvd_ack(&f);
            out.push(0);
        }
        5 => match st.rj.need_ack() {
            Some((l, t)) => out.extend([1, l as i128, t.saturating_duration_since(st.base).as_millis() as i128]),
            None => out.push(0),
        },
        6 => out.extend(st.rj.verif_dump(st.base)),
        10 => {
            let trivial = op.u(0) != 0;
            let mode = op.u(1);
            let retran = Duration::from_millis(op.u(2));
            let expire = Duration::from_millis(op.u(3));
            let mut g = st.sj.new_packet();
            let (pn, enc) = g.pn();
            let (w, x) = pnum_parts(enc);
            out.extend([pn as i128, w, x]);
            for f in &op.args[4..] {
                g.record_frame(*f as u64);
            }
            if trivial {
                g.record_trivial();
            }
            match mode {
                0 => g.build_with_time(retran, expire),
                1 => g.build_trivial(),
                _ => drop(g),
            }
            let next = st.sj.new_packet().pn().0;
            out.push((next != pn) as i128);
        }
        11 => {
            let mut g = st.sj.rotate();
            for c in op.args.chunks(2).filter(|c| c.len() == 2) {
                let (k, p) = (c[0], c[1] as u64);
                match k {
                    0 => {
                        let v: Vec<u64> = g.on_packet_acked(p).collect();
                        out.push(v.len() as i128);
                        out.extend(v.iter().map(|f| *f as i128));
                    }
                    1 => {
                        let v: Vec<u64> = g.may_loss_packet(p).collect();
                        out.push(v.len() as i128);
                        out.extend(v.iter().map(|f| *f as i128));
                    }
                    2 => {
                        let v: Vec<u64> = g.fast_retransmit().collect();
                        out.push(v.len() as i128);
                        out.extend(v.iter().map(|f| *f as i128));
                    }
                    _ => {
                        let f = AckFrame::new(vi(p), vi(0), vi(0), vec![], None);
                        out.push(if g.update_largest(&f).is_ok() { 0 } else { 1 });
                    }
                }
            }
            drop(g);
        }
        12 => out.extend(st.sj.verif_dump(st.base, |f| *f as i128)),
        _ => out.push(-99),
    }));
    if r.is_err() {
        out.push(PANIC);
    }
    // built through the public constructor so that later extensions of `Obs` do not matter
    let mut o = Obs::new();
    o.0 = out;
    o
}

fn main() {
    hproto::run(new_case, step);
}
