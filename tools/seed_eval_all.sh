#!/bin/bash
# seed_eval_all.sh <lanes>: re-evaluates every seeded change against the CURRENT tree, in <lanes> private copies of the
# framework + git worktrees of /repo (tools/mkws.sh), and copies the result.json files back.  /repo itself is not touched.
L=${1:-3}
cd /verif
ids=($(ls seeded | sort))
for l in $(seq 0 $((L-1))); do
  ( W=$(tools/mkws.sh sev$l) ; cd $W/verif
    i=0
    for id in "${ids[@]}"; do
      if [ $((i % L)) -eq $l ]; then
        props=$(python3 -c "import json;print(','.join(json.load(open('seeded/$id/meta.json')).get('checks') or [json.load(open('seeded/$id/meta.json'))['property']]))")
        timeout 3000 tools/seed_eval.py seeded/$id --props $props > /tmp/sev_$id.log 2>&1
        cp seeded/$id/result.json /verif/seeded/$id/result.json 2>/dev/null
        echo "$id $(tail -1 /tmp/sev_$id.log)"
      fi
      i=$((i+1))
    done
    git -C /repo worktree remove --force $W/repo; rm -rf $W ) &
done
wait
