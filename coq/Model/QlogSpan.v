(* C20 — stream `qlog`: the telemetry layer of qevent as the transport drives it.  Definitions only.
   Modelled code:
     qevent/src/quic.rs            impl From<&Frame<D>> / From<&ReliableFrame> / From<&StreamCtlFrame> / From<&AckFrame> /
                                   From<&ConnectionCloseFrame> / From<(&StreamFrame,&D)> ... for QuicFrame,
                                   QuicFramesCollector::extend (filter first, then the Padding / Ping merge)
     qevent/src/telemetry.rs       Span::{emit, filter_event, filter_raw_data}, the thread-local current span
     qevent/src/telemetry/handy.rs NoopExporter (filters everything), impl ExportEvent for UnboundedSender<Event>
                                   (`_ = self.send(event)`: a closed channel swallows the event), LegacySeqLogger
     qevent/src/telemetry/macro_support.rs build_and_emit_event (filter, build lazily, emit)
     qconnection/src/space.rs      read_plain_packet (collect BEFORE dispatch, no event when a frame is malformed)
     qconnection/src/space/data.rs may_loss (QuicFramesCollector::<PacketLost>)
   Every Rust panic site on the path is an explicit outcome: the u64 subtractions of the ACK range walk
   (overflow-checks are on in debug builds), the integer narrowings (`as u32`: they truncate, they cannot panic —
   a `try_from(..).expect(..)` in their place could), `send` on a channel without receiver (an Err that is dropped).
   ops:  0 kind mask gid | 1 (capturing side goes away) | 2 ptype pn bytes (receive) | 3 ptype pn bytes (lost) | 5 (tick)
   obs:  see harness/he/src/bin/impl_qlog.rs *)
From Coq Require Import List ZArith NArith Bool.
From GQ Require Export Model.FramesIO.
Import ListNotations.
Local Open Scope Z_scope.

(* ------------------------------------------------------------------ conversion of one frame *)

Inductive qres :=
| QOk (fields : list Z)        (* tag :: what a reader of the JSON sees *)
| QPanic (site : N).           (* 1 = largest - first_range, 2 = previous_smallest - gap - 2, 3 = largest - ack *)

(* From<&AckFrame>: the fold over frame.ranges(); `inr site` = a u64 subtraction underflows *)
Fixpoint conv_ranges (prev : Z) (rs : list (Z * Z)) : list Z + N :=
  match rs with
  | [] => inl []
  | (g, a) :: r =>
      if prev <? g then inr 2%N
      else if prev - g <? 2 then inr 2%N
      else let largest := prev - g - 2 in
           if largest <? a then inr 3%N
           else let smallest := largest - a in
                match conv_ranges smallest r with
                | inl t => inl (smallest :: largest :: t)
                | inr s => inr s
                end
  end.

Definition opt3 (e : option (Z * Z * Z)) : list Z :=
  match e with Some (a, b, c) => [a; b; c] | None => [-1; -1; -1] end.

(* RawInfoBuilder::data keeps the bytes only when filter::raw_data() holds *)
Definition dlen (raw : bool) (d : list Z) : Z := if raw then zlen d else -1.

(* [raw]: the exporter wants raw data; [with_data]: the conversion is handed the payload (receive path) *)
Definition conv (raw with_data : bool) (f : frame) : qres :=
  match f with
  | Padding => QOk [0; 1; 1]
  | Ping => QOk [1; 1; 1]
  | Ack l d fr rs e =>
      if l <? fr then QPanic 1 else
      match conv_ranges (l - fr) rs with
      | inr s => QPanic s
      | inl t =>
          QOk ([2; 1 + zlen rs; l - fr; l] ++ t ++ opt3 e ++ [u32 (encoding_size f)])
      end
  | ResetStream s e fs => QOk [3; s / 4; u32 e; fs]
  | StopSending s e => QOk [4; s / 4; u32 e]
  | Crypto off data =>
      let pl := zlen data in
      let len := encoding_size f + pl in
      QOk [5; off; len; u32 pl; len; pl; dlen (raw && with_data) data]
  | NewToken tok => QOk [6; encoding_size f; zlen tok; dlen raw tok]
  | Stream s off _ fin data =>
      let pl := zlen data in
      QOk [7; s; off; pl; b2z fin; encoding_size f + pl; pl; dlen (raw && with_data) data]
  | MaxData v => QOk [8; v]
  | MaxStreamData s v => QOk [9; s / 4; v]
  | MaxStreams uni v => QOk [10; b2z uni; v]
  | DataBlocked v => QOk [11; v]
  | StreamDataBlocked s v => QOk [12; s / 4; v]
  | StreamsBlocked uni v => QOk [13; b2z uni; v]
  | NewConnectionId seq rpt cid _ => QOk [14; u32 seq; u32 rpt; zlen cid]
  | RetireConnectionId seq => QOk [15; u32 seq]
  | PathChallenge d => QOk [16; zlen d]
  | PathResponse d => QOk [17; zlen d]
  | CloseQuic _ ft _ => QOk [18; 0; -4; ft]
  | CloseApp c _ => QOk [18; 1; u32 c; -1]
  | HandshakeDone => QOk [19]
  | AddAddress _ _ _ _ _ _ | RemoveAddress _ | PunchMeNow _ _ _ _ _ _ _ | PunchHello _ _ _ | PunchDone _ _ _ =>
      QOk [20; code_of_ft (frame_type f)]
  | Datagram _ data =>
      let pl := zlen data in
      QOk [21; pl; encoding_size f + pl; pl; dlen raw data]   (* may_loss hands datagrams over with their bytes *)
  end.

(* ------------------------------------------------------------------ QuicFramesCollector::extend *)

(* the last collected frame, if it is a Padding or a Ping, absorbs whatever comes next (as coded: the match is
   on the LAST frame only) and counts it as one more byte *)
Definition absorb (last : list Z) : option (list Z) :=
  match last with
  | [0; l; p] => Some [0; l + 1; p + 1]
  | [1; l; p] => Some [1; l + 1; p + 1]
  | _ => None
  end.

(* frames are kept most recent first *)
Definition push (acc : list (list Z)) (q : list Z) : list (list Z) :=
  match acc with
  | last :: r => match absorb last with Some m => m :: r | None => q :: acc end
  | [] => [q]
  end.

Inductive cres :=
| COk (frames : list (list Z))
| CPanic (site : N).

Fixpoint collect (raw with_data : bool) (acc : list (list Z)) (fs : list frame) : cres :=
  match fs with
  | [] => COk (rev acc)
  | f :: r => match conv raw with_data f with
              | QOk q => collect raw with_data (push acc q) r
              | QPanic s => CPanic s
              end
  end.

(* ------------------------------------------------------------------ exporters and the span *)

Record st := mk { kind : Z; mask : Z; gid : bool; alive : bool }.
Definition st0 : st := mk 0 0 false false.

Definition bit (m i : Z) : bool := Z.odd (m / 2 ^ i).

(* ExportEvent::filter_event of the exporter of the current span, for scheme 0 = packet_received, 1 = packet_lost *)
Definition passes (s : st) (scheme : Z) : bool :=
  if (kind s =? 0) || (kind s =? 1) then false          (* Span::default() and NoopLogger: NoopExporter *)
  else if kind s =? 3 then bit (mask s) scheme
  else true.                                            (* UnboundedSender<Event> keeps the trait's default *)

Definition wants_raw (s : st) : bool := (kind s =? 3) && bit (mask s) 2.

(* does an emitted event reach somebody who can look at it *)
Definition visible (s : st) : bool := ((kind s =? 2) || (kind s =? 3)) && alive s.

Definition group_present (s : st) : bool := if (kind s =? 2) || (kind s =? 3) then gid s else negb (kind s =? 0).

Fixpoint oks (rs : list fres) : option (list frame) :=
  match rs with
  | [] => Some []
  | FOk _ f _ :: r => match oks r with Some l => Some (f :: l) | None => None end
  | _ => None
  end.

(* the frames the collector is shown: every frame up to (not including) the first malformed one *)
Fixpoint seen (rs : list fres) : list frame :=
  match rs with
  | FOk _ f _ :: r => f :: seen r
  | _ => []
  end.

Inductive out :=
| Obs (app log : list Z)
| Crash (site : N).

(* one packet through read_plain_packet (with_data = true) or may_loss (with_data = false) *)
Definition packet (s : st) (scheme : Z) (with_data : bool) (p : Z) (bs : list Z) : out :=
  let rs := frames_of (ptype_of p) bs in
  let app := print_all rs in
  if negb (passes s scheme) then Obs app [0]            (* extend returns at once, event! builds nothing *)
  else match collect (wants_raw s) with_data [] (seen rs) with
       | CPanic site => Crash site
       | COk frames =>
           match oks rs with
           | None => Obs app [0]                        (* Err(..)? before log_received *)
           | Some _ =>
               if visible s
               then Obs app ([1; b2z (group_present s); 1; zlen frames] ++ concat frames)
               else Obs app [0]                         (* emitted into a closed channel / an invisible sink *)
           end
       end.

Definition print_out (o : out) : list Z :=
  match o with
  | Obs app log => app ++ [-7] ++ log
  | Crash site => [-98; Z.of_N site]
  end.

Definition step (s : st) (op : N * list Z) : st * list Z :=
  match op with
  | (0%N, [k; m; g]) => (mk (if k <? 4 then k else 4) m (negb (g =? 0)) true, [k])
  | (1%N, _) => (mk (kind s) (mask s) (gid s) false, [])
  | (2%N, p :: _ :: bs) => (s, print_out (packet s 0 true p bs))
  | (3%N, p :: _ :: bs) => (s, print_out (packet s 1 false p bs))
  | (5%N, _) => (s, [])
  | _ => (s, [-99])
  end.

Fixpoint run_from (s : st) (ops : list (N * list Z)) : list (list Z) :=
  match ops with
  | [] => []
  | op :: r => let '(s', o) := step s op in o :: run_from s' r
  end.

Definition run_qlog (cfg : list Z) (ops : list (N * list Z)) : list (list Z) := run_from st0 ops.
