(* Two method calls of the AntiAmplifier racing on two threads, one atomic operation at a time (`race` of
   Model/AntiAmp.v, stream op RACE): a call running alone is the composite operation; every race finishes within
   the fuel; an arrival racing with a debit is linearizable for EVERY schedule - in particular no debit and no
   deposit is lost, the credit afterwards is what the two calls produce one after the other. *)
From Coq Require Import List NArith ZArith Bool Lia.
From GQ Require Import Lib.Base Model.AntiAmp.
Import ListNotations.
Local Open Scope N_scope.

Arguments N.add : simpl never.
Arguments N.sub : simpl never.
Arguments N.mul : simpl never.
Arguments N.pow : simpl never.
Arguments N.modulo : simpl never.

(* ---- a call running alone is the composite operation of the sequential model ---- *)
Definition composite (a : aa) (c : mcall) : aa :=
  match c with
  | CRcvd n => on_rcvd a n
  | CBalance => fst (balance a)
  | CSent n => on_sent a n
  | CGrant => grant a
  | CAbort => abort a
  | CNop => a
  end.

Lemma p_mrun_alone a c :
  fst (mrun_alone a c) = composite a c /\ pdone (snd (mrun_alone a c)) = true /\
  (c = CBalance -> snd (mrun_alone a c) = PDone (RBal (snd (balance a)))).
Proof.
  destruct a as [s cr cb rg wk].
  destruct c as [n | | n | | | ]; unfold mrun_alone, composite, on_rcvd, on_sent, grant, abort, balance, balance_of;
    cbn [mstart mstep st credit fst snd pdone].
  - destruct (s =? 0); cbn [mstep fst snd pdone]; repeat split; try reflexivity; intro; discriminate.
  - destruct (s =? 1); [cbn [mstep fst snd pdone]; repeat split; reflexivity |].
    destruct (s =? 2); [cbn [mstep fst snd pdone]; repeat split; reflexivity |].
    destruct (s =? 0) eqn:E0; [| cbn [mstep fst snd pdone]; repeat split; reflexivity].
    cbn [mstep st credit]. destruct (cr =? 0); [| cbn [mstep fst snd pdone]; repeat split; reflexivity].
    cbn [mstep st credit]. rewrite E0. cbn [fst snd pdone]. repeat split; reflexivity.
  - destruct (s =? 0); cbn [mstep fst snd pdone]; repeat split; try reflexivity; intro; discriminate.
  - destruct (s =? 0); cbn [mstep fst snd pdone]; repeat split; try reflexivity; intro; discriminate.
  - destruct (s =? 0); cbn [mstep fst snd pdone]; repeat split; try reflexivity; intro; discriminate.
  - repeat split; try reflexivity; intro; discriminate.
Qed.

(* ---- every race finishes: both calls have returned when `race_calls` stops ---- *)
Definition rem (p : mpc) : nat :=
  match p with PStart _ => 3 | PBalCredit => 2 | PBalReload | PRcvdAdd _ | PSentDebit _ => 1 | PDone _ => 0 end.

Lemma mstep_rem a p : pdone p = false -> (rem (snd (mstep a p)) < rem p)%nat.
Proof.
  destruct p as [c | n | | | n | r]; cbn [pdone]; intro H; try discriminate; cbn [mstep].
  - destruct c; cbn [rem];
      repeat match goal with |- context [if ?c then _ else _] => destruct c end; cbn [snd rem]; lia.
  - cbn [snd rem]. lia.
  - destruct (credit a =? 0); cbn [snd rem]; lia.
  - destruct (st a =? 0); cbn [snd rem]; lia.
  - cbn [snd rem]. lia.
Qed.

Lemma pdone_rem p : pdone p = true -> rem p = 0%nat.
Proof. destruct p; cbn; intro; (discriminate || reflexivity). Qed.

Lemma race_done : forall fuel a pa pb na nb sched,
  (rem pa + rem pb < fuel)%nat ->
  let '(_, pa', pb', _, _) := race fuel a pa pb na nb sched in pdone pa' = true /\ pdone pb' = true.
Proof.
  induction fuel as [| f IH]; intros a pa pb na nb sched Hf; [lia |].
  cbn [race].
  destruct (pdone pa) eqn:Da; destruct (pdone pb) eqn:Db; cbn [andb negb].
  - split; assumption.
  - (* only B runs *)
    assert (Hb : (if match sched with [] => false | b :: _ => b end then true else true) = true)
      by (destruct sched as [| [] ?]; reflexivity).
    rewrite Hb. pose proof (mstep_rem a pb Db) as Hr. destruct (mstep a pb) as [a' pb']. cbn [snd] in Hr.
    apply IH. rewrite (pdone_rem pa Da) in *. lia.
  - assert (Hb : (if match sched with [] => false | b :: _ => b end then false else false) = false)
      by (destruct sched as [| [] ?]; reflexivity).
    rewrite Hb. pose proof (mstep_rem a pa Da) as Hr. destruct (mstep a pa) as [a' pa']. cbn [snd] in Hr.
    apply IH. rewrite (pdone_rem pb Db) in *. lia.
  - destruct (match sched with [] => false | b :: _ => b end).
    + pose proof (mstep_rem a pb Db) as Hr. destruct (mstep a pb) as [a' pb']. cbn [snd] in Hr. apply IH. lia.
    + pose proof (mstep_rem a pa Da) as Hr. destruct (mstep a pa) as [a' pa']. cbn [snd] in Hr. apply IH. lia.
Qed.

Lemma p_c15_race_finishes : forall a ca cb sched,
  let '(_, pa, pb, _, _) := race_calls a ca cb sched in pdone pa = true /\ pdone pb = true.
Proof.
  intros. unfold race_calls, RACE_FUEL. apply race_done.
  assert (H : forall c, (rem (mstart c) <= 3)%nat) by (destruct c; cbn; lia).
  pose proof (H ca). pose proof (H cb). lia.
Qed.

(* ---- an arrival racing with a debit: every schedule is one of the two sequential orders ---- *)
Lemma p_c15_race_rcvd_sent : forall a n m sched,
  let '(a', _, _, _, _) := race_calls a (CRcvd n) (CSent m) sched in
  a' = on_sent (on_rcvd a n) m \/ a' = on_rcvd (on_sent a m) n.
Proof.
  intros [s cr cb rg wk] n m sched.
  unfold race_calls, RACE_FUEL, on_sent, on_rcvd. cbn [mstart st].
  destruct (s =? 0) eqn:E0.
  - apply N.eqb_eq in E0. subst s.
    destruct sched as [| b1 [| b2 [| b3 [| b4 rest]]]];
      repeat match goal with b : bool |- _ => destruct b end;
      cbn [race mstep pdone andb negb tl st credit fetch_add set_credit debit wake_credit cbit reg wakes N.eqb];
      ((left; reflexivity) || (right; reflexivity)).
  - destruct sched as [| b1 [| b2 rest]];
      repeat match goal with b : bool |- _ => destruct b end;
      cbn [race mstep pdone andb negb tl st credit]; rewrite ?E0;
      cbn [race mstep pdone andb negb tl st credit]; rewrite ?E0;
      cbn [race mstep pdone andb negb tl st credit]; left; reflexivity.
Qed.

(* the conservation law the lost-update defect breaks: whatever the schedule, an arrival of n bytes racing with a
   debit of m <= credit bytes leaves exactly credit + 3n - m *)
Lemma p_c15_race_conserves : forall a n m sched,
  st a = 0 -> m <= credit a -> credit a + 3 * n < W ->
  let '(a', _, _, _, _) := race_calls a (CRcvd n) (CSent m) sched in
  st a' = 0 /\ credit a' = credit a + 3 * n - m.
Proof.
  intros a n m sched H0 Hm Hw. pose proof (p_c15_race_rcvd_sent a n m sched) as H.
  destruct (race_calls a (CRcvd n) (CSent m) sched) as [[[[a' pa] pb] na] nb].
  assert (Hm3 : n * FACTOR mod W = 3 * n) by (unfold FACTOR; rewrite N.mod_small; lia).
  destruct a as [s cr cb rg wk]. cbn [st credit] in *. subst s.
  unfold on_sent, on_rcvd in H. cbn [st N.eqb fetch_add set_credit credit debit] in H.
  destruct H as [-> | ->];
    destruct cb; cbn [wake_credit fetch_add cbit reg wakes st credit N.eqb debit set_credit]; rewrite ?Hm3;
    (split; [reflexivity |]); rewrite N.mod_small by lia; lia.
Qed.
