(* Liveness of one flow (property C01, progress clause): from every reachable state without
   reset, once the sender has nothing more to emit, delivering and acknowledging every frame of
   the pool makes everything written readable, reports the end after the last byte when shutdown
   was called, and completes flush / shutdown. *)
From Coq Require Import List NArith ZArith Bool Lia.
From GQ Require Import Lib.Base Lib.Slice Model.SendBuf Model.RecvBuf Model.Streams Proofs.Streams.
From GQ Require Proofs.SendBuf Proofs.RecvBuf.
Import ListNotations.
Local Open Scope N_scope.

Arguments N.add : simpl never.
Arguments N.sub : simpl never.
Arguments N.min : simpl never.
Arguments N.max : simpl never.

(* ------------------------------------------------------------------ *)
(* more facts about the C09 buffer, all from its step lemmas *)

Notation colr := SB.colr.

Lemma sent_spec b : sb_ok b ->
  sent b <= size (st b) /\ (forall i, sent b <= i < size (st b) -> colr (st b) i = Pending) /\
  (forall i, i < sent b -> colr (st b) i <> Pending).
Proof. intros [[Hwf _ _] _]. exact (SB.sent_of_spec _ Hwf). Qed.

Lemma sbx_write b n b' : sb_ok b -> write b n = Some b' ->
  sent b' = sent b /\ max_data b' = max_data b /\ (n = 0 -> b' = b).
Proof.
  intros [HI HT] E.
  assert (Ex : sb_exec (fun _ => 0%Z) b (SbWrite n) = (Some b', OUnit)) by (cbn [sb_exec]; rewrite E; reflexivity).
  assert (Hc : SB.class_okb true b (SbWrite n) = true) by reflexivity.
  destruct (SB.step_all true _ _ _ _ _ HI Hc Ex) as (_ & _ & S3 & _).
  split; [exact S3|]. unfold write in E. destruct (N.eqb_spec n 0) as [Z|NZ].
  - injection E as <-. split; [reflexivity|auto].
  - destruct (extend_to _ _); [|discriminate]. injection E as <-. split; [reflexivity|lia].
Qed.

Lemma sbx_pick c b pred flow b' s e fr d :
  sb_ok b -> pred_pos pred -> pick_up c b pred flow = UpOk b' s e fr d ->
  sent b' = (if fr then e else sent b) /\ (fr = true -> s = sent b) /\ (fr = false -> e <= sent b) /\
  max_data b' = max_data b /\ retained b' = retained b /\ base b' = base b /\
  size (st b') = size (st b) /\
  (forall i, i < size (st b) -> colr (st b') i = if (s <=? i) && (i <? e) then Flighting else colr (st b) i).
Proof.
  intros Hok Hp E. pose proof Hok as [HI HT].
  destruct (SB.step_pick _ _ _ _ _ _ _ _ _ HI Hp E) as (_ & _ & P3 & _).
  destruct (SB.pick_up_facts _ _ _ _ _ _ _ _ _ HI Hp E) as (a & _ & Hpost & Eb & Er & Em & _).
  destruct Hpost as (Q1 & _ & Q3 & Q4 & _ & col & Hcol & Hfr & Q6 & Q7 & Q8).
  destruct (sent_spec _ Hok) as (S1 & S2 & S3).
  assert (Hfresh : fr = true -> s = sent b).
  { intros ->. destruct Hcol as [->|(-> & _)]; [discriminate|].
    destruct (N.lt_trichotomy (sent b) s) as [H|[H|H]]; [|auto|]; exfalso.
    - destruct (Q8 _ H) as [Hq|Hq]; rewrite S2 in Hq by lia; discriminate.
    - apply (S3 s H). apply Q6. lia. }
  assert (Hlost : fr = false -> e <= sent b).
  { intros ->. destruct Hcol as [->|(-> & _)]; [|discriminate].
    destruct (N.le_gt_cases e (sent b)); [assumption|exfalso].
    assert (Hq : colr (st b) (e - 1) = Lost) by (apply Q6; lia). rewrite S2 in Hq by lia. discriminate. }
  split; [|split; [exact Hfresh|split; [exact Hlost|split; [exact Em|split; [exact Er|split; [exact Eb|split; [exact Q1|exact Q7]]]]]]].
  rewrite P3. destruct fr; [|reflexivity]. rewrite <- (Hfresh eq_refl). lia.
Qed.

Lemma sbx_ack b s e b' : sb_ok b -> on_data_acked b s e = Some b' ->
  sent b' = sent b /\ max_data b' = max_data b /\ size (st b') = size (st b) /\
  (e <= sent b -> forall i, i < size (st b) -> colr (st b') i = if (s <=? i) && (i <? e) then Recved else colr (st b) i).
Proof.
  intros [HI HT] E.
  destruct (SB.step_ack _ _ _ _ HI E) as (A1 & A2 & A3 & _ & _ & A6 & A7 & A8).
  split; [exact A3|]. split; [exact A6|]. split; [exact A7|].
  intros He i Hi. rewrite A8 by exact Hi. rewrite N.min_l by exact He. reflexivity.
Qed.

Lemma sbx_loss b s e b' : sb_ok b -> may_loss_data b s e = Some b' ->
  sent b' = sent b /\ max_data b' = max_data b /\ retained b' = retained b /\ size (st b') = size (st b).
Proof.
  intros [HI HT] E.
  destruct (SB.step_loss _ _ _ _ HI E) as (A1 & A2 & A3 & _ & _ & A6 & A7 & _ & _ & A10).
  split; [exact A3|]. split; [exact A6|]. split; [exact A10|exact A7].
Qed.

Lemma ack_some b s e : sb_ok b -> exists b', on_data_acked b s e = Some b'.
Proof.
  intros [HI _]. destruct (SB.report_total b s e HI) as [Hn _].
  destruct (on_data_acked b s e); [eauto|congruence].
Qed.

(* ------------------------------------------------------------------ *)
(* the liveness invariant of one flow *)

Definition covers (P : list fframe) (i : N) : Prop :=
  exists off len fin d, In (FrS off len fin d) P /\ off <= i < off + len.
Definition has_fin (P : list fframe) : Prop := exists off len d, In (FrS off len true d) P.
Definition live_st (s : sender) : Prop := sn_st s = SReady \/ sn_st s = SSending \/ sn_st s = SDataSent.

Definition LS (s : sender) (P : list fframe) : Prop :=
  (forall off len fin d, In (FrS off len fin d) P -> off + len <= sent (sn_buf s)) /\
  (forall i, i < sent (sn_buf s) -> covers P i) /\
  (sn_st s = SReady \/ sn_st s = SSending -> sn_shutw s = sn_shutcalled s) /\
  (sn_st s = SReady -> forall off len fin d, ~ In (FrS off len fin d) P) /\
  (sn_st s = SDataSent ->
   has_fin P /\ sent (sn_buf s) = written (sn_buf s) /\ ~ (retained (sn_buf s) = 0 /\ sn_fin s = FinRcvd) /\
   sn_shutw s = true /\ sn_shutcalled s = true) /\
  (sn_st s = SDataRcvd ->
   has_fin P /\ sent (sn_buf s) = written (sn_buf s) /\ retained (sn_buf s) = 0 /\ sn_shutcalled s = true) /\
  (live_st s -> sn_inset s = true).

Definition LR (r : recver) : Prop :=
  (forall f, rc_st r = RSizeKnown f -> nread (rc_buf r) + available (rc_buf r) <> f) /\
  (rc_st r = RRecv \/ (exists f, rc_st r = RSizeKnown f) -> rc_inset r = true).

Definition has_reset (P : list fframe) : Prop := exists err final, In (FrR err final) P.

(* after a RESET_STREAM reached the recver nothing is promised *)
Definition LI (fl : flow) (P : list fframe) : Prop :=
  LS (fl_snd fl) P /\ (has_reset P \/ LR (fl_rcv fl)) /\ max_data (sn_buf (fl_snd fl)) <= rc_maxsd (fl_rcv fl).

Lemma covers_incl P P' i : incl P P' -> covers P i -> covers P' i.
Proof. intros Hi (o & l & f & d & Hin & H). exists o, l, f, d. split; [apply Hi; exact Hin|exact H]. Qed.
Lemma has_fin_incl P P' : incl P P' -> has_fin P -> has_fin P'.
Proof. intros Hi (o & l & d & Hin). exists o, l, d. apply Hi; exact Hin. Qed.

(* the fields LS looks at *)
Lemma LS_fields s s' P :
  sn_st s' = sn_st s -> sent (sn_buf s') = sent (sn_buf s) -> written (sn_buf s') = written (sn_buf s) ->
  retained (sn_buf s') = retained (sn_buf s) -> sn_shutw s' = sn_shutw s -> sn_shutcalled s' = sn_shutcalled s ->
  sn_fin s' = sn_fin s -> sn_inset s' = sn_inset s -> LS s P -> LS s' P.
Proof. unfold LS, live_st. intros -> -> -> -> -> -> -> ->. auto. Qed.

(* extra frames that are not STREAM frames *)
Lemma LS_add_ctl s P fs : (forall off len fin d, ~ In (FrS off len fin d) fs) -> LS s P -> LS s (P ++ fs).
Proof.
  intros Hn (L1 & L2 & L3 & L4 & L5 & L6 & L7).
  assert (Hi : incl P (P ++ fs)) by (apply incl_appl, incl_refl).
  assert (Hs : forall off len fin d, In (FrS off len fin d) (P ++ fs) -> In (FrS off len fin d) P).
  { intros off len fin d H. apply in_app_or in H. destruct H as [H|H]; [exact H|exfalso; eapply Hn; eauto]. }
  split; [intros; eapply L1; eauto|]. split; [intros; eapply covers_incl; eauto|]. split; [exact L3|].
  split; [intros Hst off len fin d H; eapply L4; eauto|].
  split; [intro H; destruct (L5 H) as (A & B); split; [eapply has_fin_incl; eauto|exact B]|].
  split; [intro H; destruct (L6 H) as (A & B); split; [eapply has_fin_incl; eauto|exact B]|exact L7].
Qed.

Ltac ls_split := unfold LS, live_st; sn_simpl; split; [|split; [|split; [|split; [|split; [|split]]]]].
Ltac ls_triv := try (intros; discriminate); try (intros [?H|?H]; discriminate); try (intros [?H|[?H|?H]]; discriminate).

(* entering a reset state: nothing is promised any more *)
Lemma LS_reset s s' P :
  is_reset s' -> sn_buf s' = sn_buf s -> LS s P -> LS s' P.
Proof.
  intros Hr Eb (L1 & L2 & _). unfold LS, live_st. rewrite Eb.
  split; [exact L1|]. split; [exact L2|].
  destruct Hr as [Hr|Hr]; rewrite Hr; (split; [|split; [|split; [|split]]]); ls_triv.
Qed.

Lemma LS_write c s P n s' z : SI c s P -> LS s P -> snd_poll_write s n = (s', z) -> LS s' P.
Proof.
  intros HS HL E. pose proof HS as (Hok & _). pose proof HL as (L1 & L2 & L3 & L4 & L5 & L6 & L7).
  unfold snd_poll_write in E.
  destruct (sn_st s) eqn:Est; try (injection E as <- _; exact HL).
  all: destruct (sn_shutw s) eqn:Esh; [injection E as <- _; exact HL|].
  all: destruct (negb (has_remaining (sn_buf s)));
    [injection E as <- _; eapply LS_fields; [| | | | | | | |exact HL]; sn_simpl; auto|].
  all: destruct (write (sn_buf s) n) as [b|] eqn:Ew; [|injection E as <- _; exact HL].
  all: injection E as <- _; destruct (sbx_write _ _ _ Hok Ew) as (W1 & W2 & _).
  all: unfold live_st in L7; ls_split; rewrite ?W1, ?Est, ?Esh in *; auto; ls_triv.
Qed.

Lemma LS_flush s P s' z : LS s P -> snd_poll_flush s = (s', z) -> LS s' P.
Proof.
  intros HL E. unfold snd_poll_flush in E.
  destruct (sn_st s) eqn:Est; try (injection E as <- _; exact HL).
  1,2: destruct (is_all_rcvd (sn_buf s)); injection E as <- _; [exact HL|].
  all: try (injection E as <- _).
  all: eapply LS_fields; [| | | | | | | |exact HL]; sn_simpl; auto.
Qed.

Lemma LS_shutdown s P s' z : LS s P -> snd_poll_shutdown s = (s', z) -> LS s' P.
Proof.
  intros HL E. pose proof HL as (L1 & L2 & L3 & L4 & L5 & L6 & L7). unfold snd_poll_shutdown in E.
  destruct (sn_st s) eqn:Est; try (injection E as <- _; exact HL); injection E as <- _;
    unfold live_st in L7; ls_split; rewrite ?Est in *; auto; ls_triv.
  intros _. destruct (L5 eq_refl) as (A & B & C & D & F). auto.
Qed.

Lemma no_frs_reset err f : forall off len fin d,
  ~ In (FrS off len fin d) (match f with Some fs => [FrR err fs] | None => [] end).
Proof. intros off len fin d H. destruct f; [destruct H as [H|[]]; discriminate|destruct H]. Qed.

Lemma LS_cancel s P s' f err : LS s P -> snd_cancel s = (s', f) ->
  LS s' (P ++ match f with Some fs => [FrR err fs] | None => [] end).
Proof.
  intros HL E. apply LS_add_ctl; [apply no_frs_reset|]. unfold snd_cancel in E.
  destruct (sn_st s) eqn:Est; try (injection E as <- _; exact HL);
    injection E as <- _; (eapply (LS_reset s); [left; reflexivity|reflexivity|exact HL]).
Qed.

Lemma LS_be_stopped s P s' f err : LS s P -> snd_be_stopped s = (s', f) ->
  LS s' (P ++ match f with Some fs => [FrR err fs] | None => [] end).
Proof.
  intros HL E. apply LS_add_ctl; [apply no_frs_reset|]. unfold snd_be_stopped in E.
  destruct (sn_st s) eqn:Est; try (injection E as <- _; exact HL);
    injection E as <- _; (eapply (LS_reset s); [left; reflexivity|reflexivity|exact HL]).
Qed.

Lemma LS_reset_acked s P s' ok : LS s P -> snd_on_reset_acked s = (s', ok) -> LS s' P.
Proof.
  intros HL E. unfold snd_on_reset_acked in E.
  destruct (sn_st s) eqn:Est; try (injection E as <- _; exact HL);
    injection E as <- _; (eapply (LS_reset s); [right; reflexivity|reflexivity|exact HL]).
Qed.

Lemma covers_app_new P off len fin d i : off <= i < off + len -> covers (P ++ [FrS off len fin d]) i.
Proof. intro H. exists off, len, fin, d. split; [apply in_or_app; right; now left|exact H]. Qed.

(* what a successful pick adds: the frame [s, e) *)
Lemma LS_pick_frames c s P pred credit b' st e fr d fin :
  SI c s P -> LS s P -> pred_pos pred -> pick_up c (sn_buf s) pred credit = UpOk b' st e fr d ->
  (forall off len fin0 d0, In (FrS off len fin0 d0) (P ++ [FrS st (e - st) fin d]) -> off + len <= sent b') /\
  (forall i, i < sent b' -> covers (P ++ [FrS st (e - st) fin d]) i) /\
  sent (sn_buf s) <= sent b' /\ sent b' <= written (sn_buf s) /\
  (e = written (sn_buf s) -> sent b' = written b') /\ retained b' = retained (sn_buf s) /\
  (sent (sn_buf s) = written (sn_buf s) -> sent b' = written b').
Proof.
  intros HS HL Hp E. pose proof HS as (Hok & _). pose proof HL as (L1 & L2 & _).
  destruct (sbx_pick _ _ _ _ _ _ _ _ _ Hok Hp E) as (X1 & X2 & X3 & X4 & X5 & X6 & _).
  destruct (sb_pick _ _ _ _ _ _ _ _ _ Hok Hp E) as (Hok' & Hw & Hse & Hew & _).
  pose proof (sb_sent_le _ Hok) as Hsl. pose proof (sb_sent_le _ Hok') as Hsl'.
  assert (Hmono : sent (sn_buf s) <= sent b').
  { rewrite X1. destruct fr; [rewrite <- (X2 eq_refl); lia|lia]. }
  split; [|split; [|split; [exact Hmono|split; [lia|split; [|split; [exact X5|]]]]]].
  - intros off len fin0 d0 Hin. apply in_app_or in Hin. destruct Hin as [Hin|[Hq|[]]].
    + specialize (L1 _ _ _ _ Hin). lia.
    + injection Hq as <- <- <- <-. rewrite X1. destruct fr; [lia|specialize (X3 eq_refl); lia].
  - intros i Hi. destruct (N.lt_ge_cases i (sent (sn_buf s))) as [Hlt|Hge].
    + eapply covers_incl; [apply incl_appl, incl_refl|apply L2; exact Hlt].
    + apply covers_app_new. rewrite X1 in Hi. destruct fr; [rewrite (X2 eq_refl); lia|lia].
  - intros He. rewrite Hw. rewrite X1 in *. destruct fr; [lia|specialize (X3 eq_refl); lia].
  - intros Hq. lia.
Qed.

Lemma LS_try c s P pred credit s' p :
  SI c s P -> LS s P -> pred_pos pred -> snd_try_load c s pred credit = (s', p) -> LS s' (P ++ pick_frame p).
Proof.
  intros HS HL Hp E. pose proof HS as (Hok & _ & H3 & _). pose proof HL as (L1 & L2 & L3 & L4 & L5 & L6 & L7).
  unfold live_st in L7. unfold snd_try_load in E.
  assert (Early : sn_st s = SReady \/ sn_st s = SSending ->
    (let s1 := snd_set_st s SSending in
     let b := sn_buf s in
     match pick_up c b pred credit with
     | UpOk b' st e fr d =>
       let eos := sn_shutw s && (e =? written b) in
       (if eos then to_data_sent s1 b' else snd_set_buf s1 b', Some (mkpick st e fr eos d))
     | UpErr _ _ _ =>
       if sn_shutw s && (written b =? sent b) then
         match pred (sent b) with
         | Some _ => (to_data_sent s1 b, Some (mkpick (sent b) (sent b) false true []))
         | None => (s1, None)
         end
       else (s1, None)
     | UpPV => (s1, None)
     end) = (s', p) -> LS s' (P ++ pick_frame p)).
  { intros Hst E'. cbv zeta in E'.
    assert (Hsw : sn_shutw s = sn_shutcalled s) by (apply L3; exact Hst).
    assert (Hin : sn_inset s = true) by (apply L7; tauto).
    assert (Stay : LS (snd_set_st s SSending) (P ++ pick_frame None)).
    { cbn [pick_frame]. rewrite app_nil_r. ls_split; auto; ls_triv. }
    destruct (pick_up c (sn_buf s) pred credit) as [b' st e fr d|w f g|] eqn:Ep.
    - destruct (LS_pick_frames c s P pred credit b' st e fr d (sn_shutw s && (e =? written (sn_buf s))) HS HL Hp Ep)
        as (F1 & F2 & F3 & F4 & F5 & F6 & F7).
      destruct (sn_shutw s && (e =? written (sn_buf s))) eqn:Eeos; injection E' as <- <-;
        cbn [pick_frame pk_start pk_end pk_eos pk_data]; ls_split; auto; ls_triv.
      + apply andb_true_iff in Eeos. destruct Eeos as [Esh Ee]. apply N.eqb_eq in Ee. intros _.
        split; [exists st, (e - st), d; apply in_or_app; right; now left|].
        split; [apply F5; exact Ee|]. split; [intros [_ Hq]; discriminate|]. split; [exact Esh|congruence].
    - destruct (sn_shutw s && (written (sn_buf s) =? sent (sn_buf s))) eqn:Eeos; [|injection E' as <- <-; exact Stay].
      apply andb_true_iff in Eeos. destruct Eeos as [Esh Ee]. apply N.eqb_eq in Ee.
      destruct (pred (sent (sn_buf s))); injection E' as <- <-; [|exact Stay].
      cbn [pick_frame pk_start pk_end pk_eos pk_data]. ls_split; auto; ls_triv.
      + intros off len fin0 d0 Hi. apply in_app_or in Hi. destruct Hi as [Hi|[Hq|[]]]; [eauto|].
        injection Hq as <- <- <- <-. lia.
      + intros i Hi. eapply covers_incl; [apply incl_appl, incl_refl|auto].
      + intros _. split; [exists (sent (sn_buf s)), (sent (sn_buf s) - sent (sn_buf s)), []; apply in_or_app; right; now left|].
        split; [lia|]. split; [intros [_ Hq]; discriminate|]. split; [exact Esh|congruence].
    - injection E' as <- <-. exact Stay. }
  destruct (sn_st s) eqn:Est; try (injection E as <- <-; cbn [pick_frame]; rewrite app_nil_r; exact HL).
  - apply Early; auto.
  - apply Early; auto.
  - destruct (L5 eq_refl) as (A1 & A2 & A3 & A4 & A5).
    assert (Hin : sn_inset s = true) by (apply L7; tauto).
    destruct (pick_up c (sn_buf s) pred credit) as [b' st e fr d|w f g|] eqn:Ep.
    + destruct (LS_pick_frames c s P pred credit b' st e fr d (e =? written (sn_buf s)) HS HL Hp Ep)
        as (F1 & F2 & F3 & F4 & F5 & F6 & F7).
      injection E as <- <-. cbn [pick_frame pk_start pk_end pk_eos pk_data]. ls_split; rewrite ?Est; auto; ls_triv.
      intros _. split; [eapply has_fin_incl; [apply incl_appl, incl_refl|exact A1]|].
      split; [apply F7; exact A2|]. split; [rewrite F6; exact A3|auto].
    + destruct (sn_fin s) eqn:Ef; injection E as <- <-; try (cbn [pick_frame]; rewrite app_nil_r; exact HL).
      cbn [pick_frame pk_start pk_end pk_eos pk_data]. ls_split; rewrite ?Est; auto; ls_triv.
      * intros off len fin0 d0 Hi. apply in_app_or in Hi. destruct Hi as [Hi|[Hq|[]]]; [eauto|].
        injection Hq as <- <- <- <-. lia.
      * intros i Hi. eapply covers_incl; [apply incl_appl, incl_refl|auto].
      * intros _. split; [eapply has_fin_incl; [apply incl_appl, incl_refl|exact A1]|].
        split; [exact A2|]. split; [intros [_ Hq]; discriminate|auto].
    + injection E as <- <-. cbn [pick_frame]. rewrite app_nil_r. exact HL.
Qed.

Lemma LS_acked c s P off len fin s' ok :
  SI c s P -> LS s P -> snd_on_acked s off len fin = (s', ok) -> LS s' P.
Proof.
  intros HS HL E. pose proof HS as (Hok & _). pose proof HL as (L1 & L2 & L3 & L4 & L5 & L6 & L7).
  unfold live_st in L7. unfold snd_on_acked in E.
  destruct (sn_st s) eqn:Est; try (injection E as <- _; exact HL).
  - destruct (on_data_acked (sn_buf s) off (off + len)) as [b|] eqn:Eb; [|injection E as <- _; exact HL].
    destruct (sbx_ack _ _ _ _ Hok Eb) as (X1 & X2 & _).
    destruct (is_all_rcvd b && sn_flushw s); injection E as <- _; ls_split; rewrite ?X1, ?Est in *; auto; ls_triv.
  - destruct (on_data_acked (sn_buf s) off (off + len)) as [b|] eqn:Eb; [|injection E as <- _; exact HL].
    destruct (sbx_ack _ _ _ _ Hok Eb) as (X1 & X2 & _).
    destruct (sb_ack _ _ _ _ Hok Eb) as (_ & Hw).
    destruct (L5 eq_refl) as (A1 & A2 & A3 & A4 & A5).
    destruct (is_all_rcvd b && match (if fin then FinRcvd else sn_fin s) with FinRcvd => true | _ => false end) eqn:Ec;
      injection E as <- _; ls_split; rewrite ?X1, ?Est in *; auto; ls_triv.
    + intros _. apply andb_true_iff in Ec. destruct Ec as [E1 E2]. unfold is_all_rcvd in E1. apply N.eqb_eq in E1.
      split; [exact A1|]. split; [lia|]. split; [exact E1|exact A5].
    + intros _. split; [exact A1|]. split; [lia|]. split; [|auto].
      intros [Q1 Q2]. apply andb_false_iff in Ec. destruct Ec as [Ec|Ec].
      * unfold is_all_rcvd in Ec. apply N.eqb_neq in Ec. contradiction.
      * rewrite Q2 in Ec. discriminate.
Qed.

Lemma LS_lost c s P off len fin s' ok :
  SI c s P -> LS s P -> snd_may_loss s off len fin = (s', ok) -> LS s' P.
Proof.
  intros HS HL E. pose proof HS as (Hok & _). pose proof HL as (L1 & L2 & L3 & L4 & L5 & L6 & L7).
  unfold live_st in L7. unfold snd_may_loss in E.
  destruct (sn_st s) eqn:Est; try (injection E as <- _; exact HL).
  - destruct (may_loss_data (sn_buf s) off (off + len)) as [b|] eqn:Eb; [|injection E as <- _; exact HL].
    destruct (sbx_loss _ _ _ _ Hok Eb) as (X1 & X2 & X3 & _).
    injection E as <- _; ls_split; rewrite ?X1, ?Est in *; auto; ls_triv.
  - destruct (L5 eq_refl) as (A1 & A2 & A3 & A4 & A5).
    assert (Hf : forall f0, f0 = (if fin && negb (match sn_fin s with FinRcvd => true | _ => false end) then FinLost else sn_fin s) ->
                 f0 = FinRcvd -> sn_fin s = FinRcvd).
    { intros f0 -> Hq. destruct fin; destruct (sn_fin s); cbn in Hq; congruence. }
    destruct (may_loss_data (sn_buf s) off (off + len)) as [b|] eqn:Eb; injection E as <- _.
    + destruct (sbx_loss _ _ _ _ Hok Eb) as (X1 & X2 & X3 & _). destruct (sb_loss _ _ _ _ Hok Eb) as (_ & Hw).
      ls_split; rewrite ?X1, ?Est in *; auto; ls_triv.
      intros _. split; [exact A1|]. split; [lia|]. split; [|auto].
      intros [Q1 Q2]. apply A3. split; [lia|]. eapply Hf; [reflexivity|exact Q2].
    + ls_split; rewrite ?Est in *; auto; ls_triv.
      intros _. split; [exact A1|]. split; [exact A2|]. split; [|auto].
      intros [Q1 Q2]. apply A3. split; [exact Q1|]. eapply Hf; [reflexivity|exact Q2].
Qed.

(* ---- recver part *)
Ltac lr_split := unfold LR; rc_simpl; split.

Lemma LR_recv_data c r W (pf sc : Prop) P off d fin r' fresh :
  RI c r W pf sc P -> LR r -> rc_recv_data r off d fin = inl (r', fresh) -> LR r' /\ rc_maxsd r' = rc_maxsd r.
Proof.
  intros HR HL E. pose proof HL as [K1 K2]. unfold rc_recv_data in E.
  destruct (rc_st r) eqn:Est; try (injection E as <- _; split; [exact HL|reflexivity]).
  - destruct fin.
    + cbn [rc_wake] in E. destruct (rc_maxsd r <? off + lenN d); [discriminate|].
      destruct (off + lenN d <? largest (rc_buf r)); [discriminate|].
      destruct (recv (rc_buf r) off d) as [b' fr].
      destruct (all_rcvd b' (off + lenN d)) eqn:Ea; injection E as <- _; (split; [|reflexivity]); lr_split.
      * intros f Hq. discriminate.
      * intros [Hq|[f Hq]]; discriminate.
      * intros f Hq. injection Hq as <-. unfold all_rcvd in Ea. apply N.eqb_neq in Ea. exact Ea.
      * reflexivity.
    + destruct (rc_maxsd r <? off + lenN d); [discriminate|].
      destruct (recv (rc_buf r) off d) as [b' fr].
      destruct (is_readable b'); cbn [rc_wake] in E; injection E as <- _; (split; [|reflexivity]); lr_split;
        try (intros f Hq; discriminate); reflexivity.
  - destruct (final <? off + lenN d); [discriminate|].
    destruct (fin && negb (off + lenN d =? final)); [discriminate|].
    destruct (recv (rc_buf r) off d) as [b' fr].
    destruct (is_readable b'); cbn [rc_wake] in E;
      (destruct (all_rcvd b' final) eqn:Ea; injection E as <- _; (split; [|reflexivity]); lr_split;
       [intros f Hq; discriminate|intros [Hq|[f Hq]]; discriminate|
        intros f Hq; injection Hq as <-; unfold all_rcvd in Ea; apply N.eqb_neq in Ea; exact Ea|reflexivity]).
Qed.

Lemma LR_read c r W (pf sc : Prop) P room r' z out :
  RI c r W pf sc P -> LR r -> rc_poll_read r room = (r', z, out) -> LR r' /\ rc_maxsd r <= rc_maxsd r'.
Proof.
  intros HR HL E. pose proof HL as [K1 K2]. pose proof HR as (R1 & _). unfold rc_poll_read in E.
  destruct (rc_st r) eqn:Est.
  - destruct (is_readable (rc_buf r)).
    + destruct (try_read (rc_buf r) room) as [b' o]. injection E as <- _ _. split.
      * lr_split; [intros f Hq; discriminate|intros _; apply K2; now left].
      * rc_simpl. destruct ((rc_maxsd r <? nread b' + 1000000) && (rc_maxsd r <? N.min (nread b' + 2000000) Flow.VARINT_MAX)) eqn:Ec; [|lia].
        apply andb_true_iff in Ec. destruct Ec as [_ Ec]. apply N.ltb_lt in Ec. lia.
    + injection E as <- _ _. split; [|rc_simpl; lia]. lr_split; [intros f Hq; discriminate|intros _; apply K2; now left].
  - destruct (is_readable (rc_buf r)).
    + destruct (try_read (rc_buf r) room) as [b' o] eqn:Et. injection E as <- _ _. split; [|rc_simpl; lia].
      destruct (read_keeps_sum _ _ _ _ _ R1 Et) as (_ & T2 & _).
      lr_split; [|intros _; apply K2; right; eauto].
      intros f Hq. injection Hq as <-. rewrite T2. apply K1. reflexivity.
    + injection E as <- _ _. split; [|rc_simpl; lia]. lr_split; [|intros _; apply K2; right; eauto].
      intros f Hq. injection Hq as <-. apply K1. reflexivity.
  - destruct (try_read (rc_buf r) room) as [b' o]. injection E as <- _ _. split; [|rc_simpl; lia].
    lr_split; [intros f Hq; destruct (segs b'); discriminate|intros [Hq|[f Hq]]; destruct (segs b'); discriminate].
  - injection E as <- _ _. split; [|rc_simpl; lia]. lr_split; [intros f Hq; discriminate|intros [Hq|[f Hq]]; discriminate].
  - injection E as <- _ _. split; [|rc_simpl; lia]. lr_split; [intros f Hq; discriminate|intros [Hq|[f Hq]]; discriminate].
  - injection E as <- _ _. split; [exact HL|lia].
Qed.

Lemma LR_stop r r' b : LR r -> rc_stop r = (r', b) -> LR r' /\ rc_maxsd r' = rc_maxsd r.
Proof.
  intros HL E. pose proof HL as [K1 K2]. unfold rc_stop in E.
  destruct (rc_st r) eqn:Est; try (injection E as <- _; split; [exact HL|reflexivity]);
    (destruct (rc_stopped r); injection E as <- _; (split; [|reflexivity]);
     [exact HL|lr_split; auto]).
Qed.

Lemma maxsd_reset r final r' fresh : rc_recv_reset r final = inl (r', fresh) -> rc_maxsd r' = rc_maxsd r.
Proof.
  intros E. unfold rc_recv_reset in E.
  destruct (rc_st r) eqn:Est; try (injection E as <- _; reflexivity).
  - destruct (rc_maxsd r <? final); [discriminate|]. destruct (final <? rc_largest r); [discriminate|].
    cbn [rc_wake] in E. injection E as <- _. reflexivity.
  - destruct (negb (final =? final0)); [discriminate|].
    cbn [rc_wake] in E. injection E as <- _. reflexivity.
Qed.

Lemma LR_reset_unused r final r' fresh : LR r -> rc_recv_reset r final = inl (r', fresh) -> rc_inset r = false ->
  LR r' /\ rc_maxsd r' = rc_maxsd r.
Proof.
  intros HL E Hin. pose proof HL as [K1 K2]. unfold rc_recv_reset in E.
  destruct (rc_st r) eqn:Est; try (injection E as <- _; split; [exact HL|reflexivity]).
  - destruct (rc_maxsd r <? final); [discriminate|]. destruct (final <? rc_largest r); [discriminate|].
    cbn [rc_wake] in E. injection E as <- _. split; [|reflexivity].
    lr_split; [intros f Hq; discriminate|intros [Hq|[f Hq]]; discriminate].
  - destruct (negb (final =? final0)); [discriminate|].
    cbn [rc_wake] in E. injection E as <- _. split; [|reflexivity].
    lr_split; [intros f Hq; discriminate|intros [Hq|[f Hq]]; discriminate].
Qed.

(* ---- the invariant is inductive *)
Lemma max_data_write b n b' : write b n = Some b' -> max_data b' = max_data b.
Proof.
  unfold write. destruct (n =? 0); [intro H; injection H as <-; reflexivity|].
  destruct (extend_to _ _); [|discriminate]. intro H; injection H as <-; reflexivity.
Qed.

Definition md (s : sender) : N := max_data (sn_buf s).

Lemma md_write s n s' z : snd_poll_write s n = (s', z) -> md s' = md s.
Proof.
  unfold snd_poll_write, md. destruct (sn_st s); try (intro E; injection E as <- _; reflexivity);
    (destruct (sn_shutw s); [intro E; injection E as <- _; reflexivity|]);
    (destruct (negb (has_remaining (sn_buf s))); [intro E; injection E as <- _; reflexivity|]);
    (destruct (write (sn_buf s) n) eqn:Ew; intro E; injection E as <- _; [cbn; eapply max_data_write; eauto|reflexivity]).
Qed.
Lemma md_flush s s' z : snd_poll_flush s = (s', z) -> md s' = md s.
Proof.
  unfold snd_poll_flush, md. destruct (sn_st s); try (intro E; injection E as <- _; reflexivity);
    destruct (is_all_rcvd (sn_buf s)); intro E; injection E as <- _; reflexivity.
Qed.
Lemma md_shutdown s s' z : snd_poll_shutdown s = (s', z) -> md s' = md s.
Proof. unfold snd_poll_shutdown, md. destruct (sn_st s); intro E; injection E as <- _; reflexivity. Qed.
Lemma md_cancel s s' f : snd_cancel s = (s', f) -> md s' = md s.
Proof. unfold snd_cancel, md. destruct (sn_st s); intro E; injection E as <- _; reflexivity. Qed.
Lemma md_be_stopped s s' f : snd_be_stopped s = (s', f) -> md s' = md s.
Proof. unfold snd_be_stopped, md. destruct (sn_st s); intro E; injection E as <- _; reflexivity. Qed.
Lemma md_reset_acked s s' f : snd_on_reset_acked s = (s', f) -> md s' = md s.
Proof. unfold snd_on_reset_acked, md. destruct (sn_st s); intro E; injection E as <- _; reflexivity. Qed.

Lemma md_try c s pred credit s' p : sb_ok (sn_buf s) -> pred_pos pred -> snd_try_load c s pred credit = (s', p) -> md s' = md s.
Proof.
  intros Hok Hp Et. unfold md. unfold snd_try_load in Et.
  assert (Pk : forall b' st e fr d, pick_up c (sn_buf s) pred credit = UpOk b' st e fr d -> max_data b' = max_data (sn_buf s)).
  { intros b' st e fr d Ep. destruct (sbx_pick _ _ _ _ _ _ _ _ _ Hok Hp Ep) as (_ & _ & _ & X & _). exact X. }
  destruct (sn_st s); try (injection Et as <- _; reflexivity).
  - destruct (pick_up c (sn_buf s) pred credit) as [b' st e fr d|w f g|] eqn:Ep.
    + specialize (Pk _ _ _ _ _ eq_refl). destruct (sn_shutw s && (e =? written (sn_buf s))); injection Et as <- _; exact Pk.
    + destruct (sn_shutw s && (written (sn_buf s) =? sent (sn_buf s))); [destruct (pred (sent (sn_buf s)))|]; injection Et as <- _; reflexivity.
    + injection Et as <- _; reflexivity.
  - destruct (pick_up c (sn_buf s) pred credit) as [b' st e fr d|w f g|] eqn:Ep.
    + specialize (Pk _ _ _ _ _ eq_refl). destruct (sn_shutw s && (e =? written (sn_buf s))); injection Et as <- _; exact Pk.
    + destruct (sn_shutw s && (written (sn_buf s) =? sent (sn_buf s))); [destruct (pred (sent (sn_buf s)))|]; injection Et as <- _; reflexivity.
    + injection Et as <- _; reflexivity.
  - destruct (pick_up c (sn_buf s) pred credit) as [b' st e fr d|w f g|] eqn:Ep.
    + specialize (Pk _ _ _ _ _ eq_refl). injection Et as <- _; exact Pk.
    + destruct (sn_fin s); injection Et as <- _; reflexivity.
    + injection Et as <- _; reflexivity.
Qed.

Lemma md_acked s off len fin s' ok : sb_ok (sn_buf s) -> snd_on_acked s off len fin = (s', ok) -> md s' = md s.
Proof.
  intros Hok Ea. unfold md. unfold snd_on_acked in Ea.
  destruct (sn_st s); try (injection Ea as <- _; reflexivity);
    (destruct (on_data_acked (sn_buf s) off (off + len)) as [b|] eqn:Eb; [|injection Ea as <- _; reflexivity]);
    destruct (sbx_ack _ _ _ _ Hok Eb) as (_ & X & _).
  - destruct (is_all_rcvd b && sn_flushw s); injection Ea as <- _; exact X.
  - destruct (is_all_rcvd b && _); injection Ea as <- _; exact X.
Qed.

Lemma md_lost s off len fin s' ok : sb_ok (sn_buf s) -> snd_may_loss s off len fin = (s', ok) -> md s' = md s.
Proof.
  intros Hok Ea. unfold md. unfold snd_may_loss in Ea.
  destruct (sn_st s); try (injection Ea as <- _; reflexivity).
  - destruct (may_loss_data (sn_buf s) off (off + len)) as [b|] eqn:Eb; injection Ea as <- _; [|reflexivity].
    destruct (sbx_loss _ _ _ _ Hok Eb) as (_ & X & _). exact X.
  - destruct (may_loss_data (sn_buf s) off (off + len)) as [b|] eqn:Eb; injection Ea as <- _; [|reflexivity].
    destruct (sbx_loss _ _ _ _ Hok Eb) as (_ & X & _). exact X.
Qed.

Lemma has_reset_incl P P' : incl P P' -> has_reset P -> has_reset P'.
Proof. intros Hi (e & f & H). exists e, f. apply Hi; exact H. Qed.

Lemma LI_snd fl P s' fs :
  LI fl P -> LS s' (P ++ fs) -> md s' = md (fl_snd fl) -> LI (mkflow s' (fl_rcv fl)) (P ++ fs).
Proof.
  intros (_ & H2 & H3) HL Hm. split; [exact HL|]. cbn [fl_snd fl_rcv]. split.
  - destruct H2 as [H2|H2]; [left; eapply has_reset_incl; [apply incl_appl, incl_refl|exact H2]|right; exact H2].
  - unfold md in Hm. rewrite Hm. exact H3.
Qed.

Lemma flow_step_LI c fl P o fl' new out :
  FI c fl P -> LI fl P -> justified P o -> flow_step c fl o = (fl', new, out) -> LI fl' (P ++ new).
Proof.
  intros HFI HLI Hj E. pose proof HFI as [HS HR]. pose proof HLI as (HL & HLR & HM). pose proof HS as (Hok & _).
  unfold flow_step in E.
  destruct o as [n| | |err|room|err|pred credit|off d fin|final|err|off len fin| |off len fin]; cbn [justified] in Hj.
  - destruct (snd_poll_write (fl_snd fl) n) as [s' z] eqn:Es. injection E as <- <- <-.
    apply LI_snd; [exact HLI|rewrite app_nil_r; eapply LS_write; eauto|eapply md_write; eauto].
  - destruct (snd_poll_flush (fl_snd fl)) as [s' z] eqn:Es. injection E as <- <- <-.
    apply LI_snd; [exact HLI|rewrite app_nil_r; eapply LS_flush; eauto|eapply md_flush; eauto].
  - destruct (snd_poll_shutdown (fl_snd fl)) as [s' z] eqn:Es. injection E as <- <- <-.
    apply LI_snd; [exact HLI|rewrite app_nil_r; eapply LS_shutdown; eauto|eapply md_shutdown; eauto].
  - destruct (snd_cancel (fl_snd fl)) as [s' f] eqn:Es. injection E as <- <- <-.
    apply LI_snd; [exact HLI|eapply LS_cancel; eauto|eapply md_cancel; eauto].
  - destruct (rc_poll_read (fl_rcv fl) room) as [[r' z] o] eqn:Er. injection E as <- <- <-. rewrite app_nil_r.
    split; [exact HL|]. cbn [fl_snd fl_rcv].
    destruct HLR as [HLR|HLR].
    + split; [left; exact HLR|]. unfold rc_poll_read in Er.
      assert (rc_maxsd (fl_rcv fl) <= rc_maxsd r').
      { destruct (rc_st (fl_rcv fl)); try (destruct (is_readable (rc_buf (fl_rcv fl)))); try (destruct (try_read (rc_buf (fl_rcv fl)) room) as [b' o']);
          injection Er as <- _ _; rc_simpl; try lia.
        destruct ((rc_maxsd (fl_rcv fl) <? nread b' + 1000000) && (rc_maxsd (fl_rcv fl) <? N.min (nread b' + 2000000) Flow.VARINT_MAX)) eqn:Ec; [|lia].
        apply andb_true_iff in Ec. destruct Ec as [_ Ec]. apply N.ltb_lt in Ec. lia. }
      lia.
    + destruct (LR_read _ _ _ _ _ _ _ _ _ _ HR HLR Er) as [A B]. split; [right; exact A|lia].
  - destruct (rc_stop (fl_rcv fl)) as [r' b] eqn:Er. injection E as <- <- <-.
    assert (Hm : rc_maxsd r' = rc_maxsd (fl_rcv fl)).
    { unfold rc_stop in Er. destruct (rc_st (fl_rcv fl)); try (injection Er as <- _; reflexivity);
        destruct (rc_stopped (fl_rcv fl)); injection Er as <- _; reflexivity. }
    split; [|cbn [fl_snd fl_rcv]; split; [|lia]].
    + cbn [fl_snd]. apply LS_add_ctl; [|exact HL]. intros o l f d H. destruct b; [destruct H as [H|[]]; discriminate|destruct H].
    + destruct HLR as [HLR|HLR]; [left; eapply has_reset_incl; [apply incl_appl, incl_refl|exact HLR]|].
      right. exact (proj1 (LR_stop _ _ _ HLR Er)).
  - destruct (snd_try_load c (fl_snd fl) pred credit) as [s' p] eqn:Es. injection E as <- <- <-.
    apply LI_snd; [exact HLI|eapply LS_try; eauto|eapply md_try; eauto].
  - destruct (rc_inset (fl_rcv fl)); [|injection E as <- <- <-; rewrite app_nil_r; exact HLI].
    destruct (rc_recv_data (fl_rcv fl) off d fin) as [[r' fresh]|e] eqn:Er; injection E as <- <- <-; rewrite app_nil_r; [|exact HLI].
    split; [exact HL|]. cbn [fl_snd fl_rcv]. destruct HLR as [HLR|HLR].
    + split; [left; exact HLR|]. 
      assert (rc_maxsd r' = rc_maxsd (fl_rcv fl)).
      { unfold rc_recv_data in Er. destruct (rc_st (fl_rcv fl)); try (injection Er as <- _; reflexivity).
        - destruct fin; cbn [rc_wake] in Er.
          + destruct (rc_maxsd (fl_rcv fl) <? off + lenN d); [discriminate|]. destruct (off + lenN d <? largest (rc_buf (fl_rcv fl))); [discriminate|].
            destruct (recv (rc_buf (fl_rcv fl)) off d) as [b' fr]. destruct (all_rcvd b' (off + lenN d)); injection Er as <- _; reflexivity.
          + destruct (rc_maxsd (fl_rcv fl) <? off + lenN d); [discriminate|].
            destruct (recv (rc_buf (fl_rcv fl)) off d) as [b' fr]. destruct (is_readable b'); cbn [rc_wake] in Er; injection Er as <- _; reflexivity.
        - destruct (final <? off + lenN d); [discriminate|]. destruct (fin && negb (off + lenN d =? final)); [discriminate|].
          destruct (recv (rc_buf (fl_rcv fl)) off d) as [b' fr].
          destruct (is_readable b'); cbn [rc_wake] in Er; destruct (all_rcvd b' final); injection Er as <- _; reflexivity. }
      lia.
    + destruct (LR_recv_data _ _ _ _ _ _ _ _ _ _ _ HR HLR Er) as [A B]. split; [right; exact A|lia].
  - assert (Hrs : has_reset P) by (destruct Hj as [e Hin]; exists e, final; exact Hin).
    destruct (rc_inset (fl_rcv fl)); [|injection E as <- <- <-; rewrite app_nil_r; exact HLI].
    set (r0 := mkrcv _ _ _ _ _ _ _ false _ _) in E.
    destruct (rc_recv_reset r0 final) as [[r' fresh]|e] eqn:Er; injection E as <- <- <-; rewrite app_nil_r;
      (split; [exact HL|cbn [fl_snd fl_rcv]; split; [left; exact Hrs|]]).
    + rewrite (maxsd_reset _ _ _ _ Er). exact HM.
    + exact HM.
  - destruct (sn_inset (fl_snd fl)); [|injection E as <- <- <-; rewrite app_nil_r; exact HLI].
    destruct (snd_be_stopped (fl_snd fl)) as [s' f] eqn:Es. injection E as <- <- <-.
    apply LI_snd; [exact HLI|eapply LS_be_stopped; eauto|eapply md_be_stopped; eauto].
  - destruct (sn_inset (fl_snd fl)); [|injection E as <- <- <-; rewrite app_nil_r; exact HLI].
    destruct (snd_on_acked (fl_snd fl) off len fin) as [s' ok] eqn:Es. injection E as <- <- <-.
    apply LI_snd; [exact HLI|rewrite app_nil_r; eapply LS_acked; eauto|eapply md_acked; eauto].
  - destruct (sn_inset (fl_snd fl)); [|injection E as <- <- <-; rewrite app_nil_r; exact HLI].
    destruct (snd_on_reset_acked (fl_snd fl)) as [s' ok] eqn:Es. injection E as <- <- <-.
    apply LI_snd; [exact HLI|rewrite app_nil_r; eapply LS_reset_acked; eauto|eapply md_reset_acked; eauto].
  - destruct (sn_inset (fl_snd fl)); [|injection E as <- <- <-; rewrite app_nil_r; exact HLI].
    destruct (snd_may_loss (fl_snd fl) off len fin) as [s' ok] eqn:Es. injection E as <- <- <-.
    apply LI_snd; [exact HLI|rewrite app_nil_r; eapply LS_lost; eauto|eapply md_lost; eauto].
Qed.

Lemma LI_init w : LI (new_flow w) [].
Proof.
  split; [|split].
  - unfold LS, live_st, new_flow, new_sender; sn_simpl. cbn [fl_snd sn_buf sn_st sn_shutw sn_shutcalled sn_inset sn_fin].
    assert (Hs : sent (with_capacity w) = 0) by reflexivity.
    split; [intros o l f d []|]. split; [intros i Hi; rewrite Hs in Hi; lia|]. split; [reflexivity|].
    split; [intros _ o l f d []|]. split; [discriminate|]. split; [discriminate|reflexivity].
  - right. split; [intros f H; discriminate|reflexivity].
  - cbn. lia.
Qed.

Lemma reach_LI c fl P : flow_reach c fl P -> LI fl P.
Proof.
  induction 1; [apply LI_init|]. eapply flow_step_LI; eauto. apply reach_FI; assumption.
Qed.

(* ------------------------------------------------------------------ *)
(* the round *)

Definition good_pred (pred : N -> option N) : Prop := forall o, exists a, pred o = Some a /\ 1 <= a /\ a < two62.

Lemma good_pred_pos pred : good_pred pred -> pred_pos pred.
Proof. intros H o a E. destruct (H o) as (a' & E' & H1 & _). congruence. Qed.

(* with room in the packet and connection credit, a pick fails only when nothing is Pending or Lost *)
Lemma pick_err c b pred credit :
  sb_ok b -> good_pred pred -> credit <> 0 ->
  match pick_up c b pred credit with
  | UpOk _ _ _ _ _ => True
  | UpErr _ _ _ => forall i, i < size (st b) -> colr (st b) i = Flighting \/ colr (st b) i = Recved
  | UpPV => False
  end.
Proof.
  intros [[Hwf Hsz Hsm] _] Hg Hc. unfold pick_up, pick.
  pose proof (SB.pick_scan_spec credit (max_data b) (runs (st b)) true false) as Hs.
  pose proof (SB.wfl_offs_ge _ _ _ Hwf) as Hoff.
  destruct (pick_scan credit (max_data b) (runs (st b)) true false) as [[[[pre [start c0]] rest]|] [w f]].
  - destruct Hs as (Hr & Hst & _). destruct (Hg start) as (a & Ea & Ha1 & Ha2). rewrite Ea.
    assert (Hlt : start < size (st b)).
    { rewrite Hr in Hoff. apply Forall_app in Hoff. destruct Hoff as [_ Hoff]. inversion Hoff; subst. cbn in H1. lia. }
    assert (Hal : match c0 with Lost => a | _ => N.min a credit end <= a) by (destruct c0; lia).
    destruct (N.leb_spec two64 (start + match c0 with Lost => a | _ => N.min a credit end)) as [Hb|Hb].
    + exfalso. unfold two62, two64 in *. lia.
    + destruct (_ <? _); exact I.
  - intros i Hi. unfold colr.
    destruct (SB.col_from_in _ _ _ _ (eq_refl (col_from Recved (runs (st b)) i))) as [Hq|[o [Hin Ho]]]; [right; auto|].
    rewrite Forall_forall in Hs, Hoff. specialize (Hs _ Hin). specialize (Hoff _ Hin). unfold SB.skipped in Hs. cbn [fst snd] in *.
    destruct Hs as [Hk|[Hk|[Hk|[Hk Hz]]]]; [lia|left; exact Hk|right; exact Hk|contradiction].
Qed.

(* the sender has nothing to emit *)
Definition snd_drained (s : sender) : Prop :=
  (forall i, i < size (st (sn_buf s)) -> colr (st (sn_buf s)) i = Flighting \/ colr (st (sn_buf s)) i = Recved) /\
  match sn_st s with
  | SSending => sn_shutcalled s = false
  | SDataSent => sn_fin s <> FinLost
  | SDataRcvd => True
  | _ => False
  end.

Lemma all_FR_sent b : sb_ok b -> (forall i, i < size (st b) -> colr (st b) i = Flighting \/ colr (st b) i = Recved) ->
  sent b = size (st b).
Proof.
  intros Hok H. destruct (sent_spec _ Hok) as (S1 & S2 & _).
  destruct (N.eq_dec (sent b) (size (st b))) as [E|NE]; [exact E|exfalso].
  assert (Hlt : sent b < size (st b)) by lia.
  destruct (H _ Hlt) as [Hq|Hq]; rewrite S2 in Hq by lia; discriminate.
Qed.

Lemma try_none_drained c fl P pred credit fl' new out :
  FI c fl P -> LI fl P -> ~ is_reset (fl_snd fl) -> good_pred pred -> credit <> 0 ->
  wr (fl_snd fl) <= md (fl_snd fl) ->
  flow_step c fl (FTry pred credit) = (fl', new, out) -> fo_pick out = None ->
  new = [] /\ fl_rcv fl' = fl_rcv fl /\ snd_drained (fl_snd fl') /\ ~ is_reset (fl_snd fl') /\ wr (fl_snd fl') = wr (fl_snd fl).
Proof.
  intros [HS HR] (HL & _) Hnr Hg Hc Hw E Hn. pose proof HS as (Hok & _). pose proof HL as (L1 & L2 & L3 & L4 & L5 & L6 & L7).
  cbn [flow_step] in E. destruct (snd_try_load c (fl_snd fl) pred credit) as [s' p] eqn:Et. injection E as <- <- <-.
  cbn [fo_pick] in Hn. subst p. cbn [fl_snd fl_rcv]. split; [reflexivity|]. split; [reflexivity|].
  pose proof (pick_err c _ _ _ Hok Hg Hc) as Hpe. unfold snd_try_load in Et.
  pose proof Hok as [[_ Hsz _] _].
  assert (Hsize : size (st (sn_buf (fl_snd fl))) = wr (fl_snd fl)) by (unfold wr, md in *; lia).
  destruct (sn_st (fl_snd fl)) eqn:Est.
  - (* Ready *)
    destruct (pick_up c (sn_buf (fl_snd fl)) pred credit) as [b' st e fr d|w f g|] eqn:Ep; [|  |contradiction].
    + destruct (sn_shutw (fl_snd fl) && (e =? written (sn_buf (fl_snd fl)))); discriminate Et.
    + pose proof (all_FR_sent _ Hok Hpe) as Hsent.
      assert (Hshw : sn_shutw (fl_snd fl) = sn_shutcalled (fl_snd fl)) by (apply L3; now left).
      destruct (sn_shutw (fl_snd fl) && (written (sn_buf (fl_snd fl)) =? sent (sn_buf (fl_snd fl)))) eqn:Ec.
      * destruct (Hg (sent (sn_buf (fl_snd fl)))) as (a & Ea & _). rewrite Ea in Et. discriminate Et.
      * injection Et as <-. apply andb_false_iff in Ec. unfold snd_drained, is_reset, wr; sn_simpl.
        split; [split; [exact Hpe|]|split; [intros [Hq|Hq]; discriminate|reflexivity]].
        destruct Ec as [Ec|Ec]; [congruence|]. apply N.eqb_neq in Ec. unfold wr in Hsize. lia.
  - destruct (pick_up c (sn_buf (fl_snd fl)) pred credit) as [b' st e fr d|w f g|] eqn:Ep; [|  |contradiction].
    + destruct (sn_shutw (fl_snd fl) && (e =? written (sn_buf (fl_snd fl)))); discriminate Et.
    + pose proof (all_FR_sent _ Hok Hpe) as Hsent.
      assert (Hshw : sn_shutw (fl_snd fl) = sn_shutcalled (fl_snd fl)) by (apply L3; now right).
      destruct (sn_shutw (fl_snd fl) && (written (sn_buf (fl_snd fl)) =? sent (sn_buf (fl_snd fl)))) eqn:Ec.
      * destruct (Hg (sent (sn_buf (fl_snd fl)))) as (a & Ea & _). rewrite Ea in Et. discriminate Et.
      * injection Et as <-. apply andb_false_iff in Ec. unfold snd_drained, is_reset, wr; sn_simpl.
        split; [split; [exact Hpe|]|split; [intros [Hq|Hq]; discriminate|reflexivity]].
        destruct Ec as [Ec|Ec]; [congruence|]. apply N.eqb_neq in Ec. unfold wr in Hsize. lia.
  - destruct (pick_up c (sn_buf (fl_snd fl)) pred credit) as [b' st e fr d|w f g|] eqn:Ep; [|  |contradiction].
    + discriminate Et.
    + destruct (sn_fin (fl_snd fl)) eqn:Ef; try discriminate Et; injection Et as <-;
        (unfold snd_drained, is_reset, wr; sn_simpl; rewrite Est, Ef;
         split; [split; [exact Hpe|discriminate]|split; [intros [Hq'|Hq']; discriminate|reflexivity]]).
  - injection Et as <-. unfold snd_drained, is_reset, wr. rewrite Est.
    split; [|split; [intros [Hq|Hq]; discriminate|reflexivity]]. split; [|exact I].
    (* everything is acknowledged *)
    destruct (L6 eq_refl) as (_ & B1 & B2 & _). destruct Hok as [[Hwf Hsz' _] (T1 & T2 & T3)].
    intros i Hi. right. apply T2. unfold written in *. lia.
  - exfalso. apply Hnr. left. exact Est.
  - exfalso. apply Hnr. right. exact Est.
Qed.

(* ---- running a list of operations on one flow *)
Fixpoint run (c : N -> Z) (fl : flow) (P : list fframe) (ops : list fop) : flow * list fframe :=
  match ops with
  | [] => (fl, P)
  | o :: rest => let '(fl', new, _) := flow_step c fl o in run c fl' (P ++ new) rest
  end.

Definition deliver_op (f : fframe) : list fop := match f with FrS off _ fin d => [FDeliverS off d fin] | _ => [] end.
Definition ack_op (f : fframe) : list fop := match f with FrS off len fin _ => [FAck off len fin] | _ => [] end.
Definition lose_op (f : fframe) : list fop := match f with FrS off len fin _ => [FLose off len fin] | _ => [] end.

Definition open_r (r : recver) : Prop := rc_st r = RRecv \/ exists f, rc_st r = RSizeKnown f.
Definition done_r (r : recver) : Prop := (exists f, rc_st r = RDataRcvd f) \/ rc_st r = RDataRead.

Lemma no_reset_rcv c fl P : FI c fl P -> ~ is_reset (fl_snd fl) -> open_r (fl_rcv fl) \/ done_r (fl_rcv fl).
Proof.
  intros [(_ & HF & _) (_ & _ & _ & _ & _ & R6)] Hn. unfold open_r, done_r.
  destruct (rc_st (fl_rcv fl)) eqn:E; eauto.
  - exfalso. destruct (R6 (or_introl eq_refl)) as (e & f & Hin). destruct (HF _ Hin) as [_ Hr]. exact (Hn Hr).
  - exfalso. destruct (R6 (or_intror eq_refl)) as (e & f & Hin). destruct (HF _ Hin) as [_ Hr]. exact (Hn Hr).
Qed.

Lemma no_reset_frames c fl P : FI c fl P -> ~ is_reset (fl_snd fl) -> ~ has_reset P.
Proof. intros [(_ & HF & _) _] Hn (e & f & Hin). destruct (HF _ Hin) as [_ Hr]. exact (Hn Hr). Qed.

(* delivering one frame of the pool *)
Lemma deliver_step c fl P off len fin d fl' new out :
  FI c fl P -> LI fl P -> ~ is_reset (fl_snd fl) -> In (FrS off len fin d) P ->
  flow_step c fl (FDeliverS off d fin) = (fl', new, out) ->
  new = [] /\ fl_snd fl' = fl_snd fl /\ nread (rc_buf (fl_rcv fl')) = nread (rc_buf (fl_rcv fl)) /\
  (done_r (fl_rcv fl) -> fl' = fl) /\
  (open_r (fl_rcv fl) ->
   (forall i, RB.covered (rc_buf (fl_rcv fl')) i <-> RB.covered (rc_buf (fl_rcv fl)) i \/ off <= i < off + len) /\
   (fin = true -> rc_st (fl_rcv fl') <> RRecv) /\ (rc_st (fl_rcv fl) <> RRecv -> rc_st (fl_rcv fl') <> RRecv)).
Proof.
  intros HFI HLI Hnr Hin E. pose proof HFI as [HS HR]. pose proof HLI as (HL & HLR & HM).
  pose proof HS as (Hok & HF & _). specialize (HF _ Hin). cbn [frame_ok] in HF. destruct HF as (F1 & F2 & F3 & _).
  pose proof HL as (L1 & _). specialize (L1 _ _ _ _ Hin).
  pose proof HR as (R1 & R2 & R3 & R4 & R5 & R6).
  assert (Hl : lenN d = len) by (rewrite F1; apply lenN_slice).
  destruct HLR as [HLR|[K1 K2]]; [exfalso; eapply no_reset_frames; eauto|].
  destruct (sent_spec _ Hok) as (S1 & _). pose proof Hok as [[_ Hsz _] _].
  assert (Hmd : off + len <= rc_maxsd (fl_rcv fl)) by (unfold md in HM; lia).
  unfold flow_step in E. cbv zeta in E.
  destruct (rc_inset (fl_rcv fl)) eqn:Ein.
  2:{ injection E as <- <- <-. split; [reflexivity|]. split; [reflexivity|]. split; [reflexivity|]. split; [auto|].
      intros Ho. specialize (K2 Ho). congruence. }
  unfold rc_recv_data in E. rewrite Hl in E.
  destruct (rc_st (fl_rcv fl)) eqn:Est.
  - (* Recv *)
    assert (Hdone : done_r (fl_rcv fl) -> False) by (unfold done_r; rewrite Est; intros [[f Hq]|Hq]; discriminate).
    destruct fin.
    + destruct (F3 eq_refl) as (G1 & G2 & G3). cbn [rc_wake] in E.
      destruct (N.ltb_spec (rc_maxsd (fl_rcv fl)) (off + len)); [lia|].
      destruct (N.ltb_spec (off + len) (largest (rc_buf (fl_rcv fl)))); [lia|].
      destruct (recv (rc_buf (fl_rcv fl)) off d) as [b' fr] eqn:Er. rewrite F1 in Er.
      destruct (RB.recv_spec _ _ _ _ _ _ R1 Er) as (Q1 & Q2 & Q3 & _).
      destruct (all_rcvd b' (off + len)); injection E as <- <- <-; cbn [fl_snd fl_rcv rc_buf rc_st];
        (split; [reflexivity|split; [reflexivity|split; [exact Q2|split; [intro Hq; destruct (Hdone Hq)|]]]]);
        intros _; (split; [exact Q3|split; [intros _; discriminate|intros _; discriminate]]).
    + destruct (N.ltb_spec (rc_maxsd (fl_rcv fl)) (off + len)); [lia|].
      destruct (recv (rc_buf (fl_rcv fl)) off d) as [b' fr] eqn:Er. rewrite F1 in Er.
      destruct (RB.recv_spec _ _ _ _ _ _ R1 Er) as (Q1 & Q2 & Q3 & _).
      destruct (is_readable b'); cbn [rc_wake] in E; injection E as <- <- <-; cbn [fl_snd fl_rcv rc_buf rc_st];
        (split; [reflexivity|split; [reflexivity|split; [exact Q2|split; [intro Hq; destruct (Hdone Hq)|]]]]);
        intros _; (split; [exact Q3|split; [discriminate|intro Hq; exfalso; apply Hq; reflexivity]]).
  - (* SizeKnown *)
    assert (Hdone : done_r (fl_rcv fl) -> False) by (unfold done_r; rewrite Est; intros [[f Hq]|Hq]; discriminate).
    destruct R4 as (A1 & A2 & A3). unfold wr in *.
    destruct (N.ltb_spec final (off + len)); [lia|].
    assert (Hfe : fin && negb (off + len =? final) = false).
    { destruct fin; [|reflexivity]. destruct (F3 eq_refl) as (G1 & _). cbn [andb]. apply negb_false_iff. apply N.eqb_eq. lia. }
    rewrite Hfe in E.
    destruct (recv (rc_buf (fl_rcv fl)) off d) as [b' fr] eqn:Er. rewrite F1 in Er.
    destruct (RB.recv_spec _ _ _ _ _ _ R1 Er) as (Q1 & Q2 & Q3 & _).
    destruct (is_readable b'); cbn [rc_wake] in E; destruct (all_rcvd b' final); injection E as <- <- <-; cbn [fl_snd fl_rcv rc_buf rc_st];
      (split; [reflexivity|split; [reflexivity|split; [exact Q2|split; [intro Hq; destruct (Hdone Hq)|]]]]);
      intros _; (split; [exact Q3|split; [intros _; discriminate|intros _; discriminate]]).
  - injection E as <- <- <-. split; [reflexivity|]. split; [reflexivity|]. split; [reflexivity|]. split; [destruct fl; reflexivity|].
    unfold open_r. rewrite Est. intros [Hq|[f Hq]]; discriminate.
  - injection E as <- <- <-. split; [reflexivity|]. split; [reflexivity|]. split; [reflexivity|]. split; [destruct fl; reflexivity|].
    unfold open_r. rewrite Est. intros [Hq|[f Hq]]; discriminate.
  - injection E as <- <- <-. split; [reflexivity|]. split; [reflexivity|]. split; [reflexivity|]. split; [destruct fl; reflexivity|].
    unfold open_r. rewrite Est. intros [Hq|[f Hq]]; discriminate.
  - injection E as <- <- <-. split; [reflexivity|]. split; [reflexivity|]. split; [reflexivity|]. split; [destruct fl; reflexivity|].
    unfold open_r. rewrite Est. intros [Hq|[f Hq]]; discriminate.
Qed.

Lemma covers_cons_other f L i : (forall off len fin d, f <> FrS off len fin d) -> (covers (f :: L) i <-> covers L i).
Proof.
  intro Hn. split; intros (o & l & fn & d & Hin & H); exists o, l, fn, d; (split; [|exact H]).
  - destruct Hin as [Hq|Hin]; [exfalso; eapply Hn; eauto|exact Hin].
  - now right.
Qed.

Lemma deliver_phase c : forall L fl P,
  FI c fl P -> LI fl P -> ~ is_reset (fl_snd fl) -> incl L P ->
  exists fl', run c fl P (flat_map deliver_op L) = (fl', P) /\ fl_snd fl' = fl_snd fl /\ FI c fl' P /\ LI fl' P /\
    (done_r (fl_rcv fl) -> fl' = fl) /\
    (done_r (fl_rcv fl') \/
     (open_r (fl_rcv fl') /\
      (forall i, RB.covered (rc_buf (fl_rcv fl)) i \/ covers L i -> RB.covered (rc_buf (fl_rcv fl')) i) /\
      (has_fin L \/ rc_st (fl_rcv fl) <> RRecv -> rc_st (fl_rcv fl') <> RRecv))).
Proof.
  induction L as [|f L IH]; intros fl P HFI HLI Hnr Hin.
  - exists fl. cbn [flat_map run]. split; [reflexivity|]. split; [reflexivity|]. split; [exact HFI|]. split; [exact HLI|].
    split; [auto|]. destruct (no_reset_rcv _ _ _ HFI Hnr) as [Ho|Hd]; [right|left; exact Hd].
    split; [exact Ho|]. split.
    + intros i [H|(o & l & fn & d & [] & _)]. exact H.
    + intros [(o & l & d & [])|H]. exact H.
  - assert (HinL : incl L P) by (intros x Hx; apply Hin; now right).
    assert (HfP : In f P) by (apply Hin; now left).
    destruct f as [off len fin d|err final|err].
    2,3: (destruct (IH fl P HFI HLI Hnr HinL) as (fl' & E1 & E2 & E3 & E4 & E5 & E6); exists fl'; cbn [flat_map deliver_op app];
          split; [exact E1|split; [exact E2|split; [exact E3|split; [exact E4|split; [exact E5|]]]]];
          destruct E6 as [E6|(O1 & O2 & O3)]; [left; exact E6|right; split; [exact O1|split]];
          [intros i [H|H]; apply O2; [left; exact H|right; apply covers_cons_other in H; [exact H|intros; discriminate]]
          |intros [(o & l & d & [Hq|Hq])|H]; apply O3; [discriminate|left; exists o, l, d; exact Hq|right; exact H]]).
    cbn [flat_map deliver_op app run].
    destruct (flow_step c fl (FDeliverS off d fin)) as [[fl1 new] out] eqn:Es.
    destruct (deliver_step _ _ _ _ _ _ _ _ _ _ HFI HLI Hnr HfP Es) as (D1 & D2 & D3 & D4 & D5). subst new.
    assert (Hj : justified P (FDeliverS off d fin)) by (cbn [justified]; eauto).
    pose proof (flow_step_inv _ _ _ _ _ _ _ HFI Hj Es) as HFI1. pose proof (flow_step_LI _ _ _ _ _ _ _ HFI HLI Hj Es) as HLI1.
    rewrite app_nil_r in *.
    assert (Hnr1 : ~ is_reset (fl_snd fl1)) by (rewrite D2; exact Hnr).
    destruct (IH fl1 P HFI1 HLI1 Hnr1 HinL) as (fl' & E1 & E2 & E3 & E4 & E5 & E6).
    exists fl'. split; [exact E1|]. split; [congruence|]. split; [exact E3|]. split; [exact E4|].
    split; [intro Hd; pose proof (D4 Hd) as Q; rewrite Q in E5; apply E5; exact Hd|].
    destruct E6 as [E6|(O1 & O2 & O3)]; [left; exact E6|].
    destruct (no_reset_rcv _ _ _ HFI Hnr) as [Ho|Hd].
    + destruct (D5 Ho) as (C1 & C2 & C3). right. split; [exact O1|]. split.
      * intros i [H|(o & l & fn & d0 & [Hq|Hq] & Hr)].
        -- apply O2. left. apply C1. now left.
        -- injection Hq as <- <- <- <-. apply O2. left. apply C1. now right.
        -- apply O2. right. exists o, l, fn, d0. split; assumption.
      * intros [(o & l & d0 & [Hq|Hq])|H].
        -- injection Hq as _ _ Hfin _. apply O3. right. apply C2. exact Hfin.
        -- apply O3. left. exists o, l, d0. exact Hq.
        -- apply O3. right. apply C3. exact H.
    + left. pose proof (D4 Hd) as Q. rewrite Q in E5. rewrite (E5 Hd). exact Hd.
Qed.

Lemma rcv_complete c r W (pf sc : Prop) P :
  RI c r W pf sc P -> (forall i, i < W -> RB.covered (rc_buf r) i) -> nread (rc_buf r) + available (rc_buf r) = W.
Proof.
  intros (R1 & R2 & _) Hc. destruct (RB.available_spec _ _ R1) as (A1 & A2). pose proof R1 as (_ & I2 & _).
  destruct (N.lt_trichotomy (nread (rc_buf r) + available (rc_buf r)) W) as [H|[H|H]]; [|exact H|]; exfalso.
  - apply A2. apply Hc. exact H.
  - assert (Hq : RB.covered (rc_buf r) W) by (apply A1; lia).
    pose proof (RB.Inv_covered_lt _ _ _ R1 Hq). lia.
Qed.

(* ---- acknowledging *)
Definition all_FR (s : sender) : Prop :=
  forall i, i < size (st (sn_buf s)) -> colr (st (sn_buf s)) i = Flighting \/ colr (st (sn_buf s)) i = Recved.

Lemma ack_some' b off len : sb_ok b -> off + len <= sent b -> exists b', on_data_acked b off (off + len) = Some b'.
Proof. intros Hok _. apply ack_some; exact Hok. Qed.

Definition in_rng (off len i : N) : bool := (off <=? i) && (i <? off + len).

Lemma ack_step c fl P off len fin d fl' new out :
  FI c fl P -> LI fl P -> ~ is_reset (fl_snd fl) -> In (FrS off len fin d) P ->
  flow_step c fl (FAck off len fin) = (fl', new, out) ->
  new = [] /\ fl_rcv fl' = fl_rcv fl /\ ~ is_reset (fl_snd fl') /\
  (sn_st (fl_snd fl) = SDataRcvd -> fl' = fl) /\
  (sn_st (fl_snd fl) = SSending \/ sn_st (fl_snd fl) = SDataSent ->
   sn_st (fl_snd fl') = SDataRcvd \/
   (sn_st (fl_snd fl') = sn_st (fl_snd fl) /\ size (st (sn_buf (fl_snd fl'))) = size (st (sn_buf (fl_snd fl))) /\
    (forall i, i < size (st (sn_buf (fl_snd fl))) ->
       colr (st (sn_buf (fl_snd fl'))) i = if in_rng off len i then Recved else colr (st (sn_buf (fl_snd fl))) i) /\
    sn_shutcalled (fl_snd fl') = sn_shutcalled (fl_snd fl) /\
    sn_fin (fl_snd fl') = (match sn_st (fl_snd fl) with SDataSent => if fin then FinRcvd else sn_fin (fl_snd fl) | _ => sn_fin (fl_snd fl) end))).
Proof.
  intros HFI HLI Hnr Hin E. pose proof HFI as [HS _]. pose proof HLI as (HL & _). pose proof HS as (Hok & _).
  pose proof HL as (L1 & _ & _ & _ & _ & _ & L7). specialize (L1 _ _ _ _ Hin). unfold live_st in L7.
  unfold flow_step in E. cbv zeta in E.
  destruct (sn_st (fl_snd fl)) eqn:Est.
  - exfalso. destruct HL as (_ & _ & _ & L4 & _). eapply L4; eauto.
  - rewrite (L7 (or_intror (or_introl eq_refl))) in E. unfold snd_on_acked in E. rewrite Est in E.
    destruct (ack_some' _ off len Hok L1) as [b Eb]. rewrite Eb in E.
    destruct (sbx_ack _ _ _ _ Hok Eb) as (_ & _ & X3 & X4). specialize (X4 L1).
    destruct (is_all_rcvd b && sn_flushw (fl_snd fl)); injection E as <- <- <-; cbn [fl_snd fl_rcv]; sn_simpl; rewrite ?Est;
      (split; [reflexivity|split; [reflexivity|split; [unfold is_reset; sn_simpl; rewrite ?Est; intros [Hq|Hq]; discriminate|split; [intro Hq; discriminate Hq|]]]]);
      intros _; right; (split; [reflexivity|split; [exact X3|split; [exact X4|split; reflexivity]]]).
  - rewrite (L7 (or_intror (or_intror eq_refl))) in E. unfold snd_on_acked in E. rewrite Est in E.
    destruct (ack_some' _ off len Hok L1) as [b Eb]. rewrite Eb in E.
    destruct (sbx_ack _ _ _ _ Hok Eb) as (_ & _ & X3 & X4). specialize (X4 L1).
    destruct (is_all_rcvd b && _); injection E as <- <- <-; cbn [fl_snd fl_rcv]; sn_simpl; rewrite ?Est;
      (split; [reflexivity|split; [reflexivity|split; [unfold is_reset; sn_simpl; rewrite ?Est; intros [Hq|Hq]; discriminate|split; [intro Hq; discriminate Hq|]]]]);
      intros _; [left; reflexivity|right; (split; [reflexivity|split; [exact X3|split; [exact X4|split; reflexivity]]])].
  - assert (Hq : fl' = fl /\ new = []).
    { destruct (sn_inset (fl_snd fl)).
      - unfold snd_on_acked in E. rewrite Est in E. injection E as <- <- _. split; [destruct fl; reflexivity|reflexivity].
      - injection E as <- <- _. auto. }
    destruct Hq as [-> ->]. split; [reflexivity|]. split; [reflexivity|]. split; [exact Hnr|]. split; [auto|].
    intros [Hq|Hq]; discriminate.
  - exfalso. apply Hnr. left. exact Est.
  - exfalso. apply Hnr. right. exact Est.
Qed.

Definition snd_live (s : sender) : Prop := sn_st s = SSending \/ sn_st s = SDataSent \/ sn_st s = SDataRcvd.

Lemma ack_phase c : forall L fl P,
  FI c fl P -> LI fl P -> ~ is_reset (fl_snd fl) -> snd_live (fl_snd fl) -> all_FR (fl_snd fl) -> incl L P ->
  exists fl', run c fl P (flat_map ack_op L) = (fl', P) /\ fl_rcv fl' = fl_rcv fl /\ FI c fl' P /\ LI fl' P /\
    ~ is_reset (fl_snd fl') /\
    (sn_st (fl_snd fl') = SDataRcvd \/
     (sn_st (fl_snd fl') = sn_st (fl_snd fl) /\
      size (st (sn_buf (fl_snd fl'))) = size (st (sn_buf (fl_snd fl))) /\
      (forall i, i < size (st (sn_buf (fl_snd fl))) ->
         colr (st (sn_buf (fl_snd fl))) i = Recved \/ covers L i -> colr (st (sn_buf (fl_snd fl'))) i = Recved) /\
      sn_shutcalled (fl_snd fl') = sn_shutcalled (fl_snd fl) /\
      (sn_st (fl_snd fl) = SDataSent -> sn_fin (fl_snd fl) = FinRcvd \/ has_fin L -> sn_fin (fl_snd fl') = FinRcvd))).
Proof.
  induction L as [|f L IH]; intros fl P HFI HLI Hnr Hlv Hfr Hin.
  - exists fl. cbn [flat_map run]. split; [reflexivity|]. split; [reflexivity|]. split; [exact HFI|]. split; [exact HLI|].
    split; [exact Hnr|]. right. split; [reflexivity|]. split; [reflexivity|]. split.
    + intros i Hi [H|(o & l & fn & d & [] & _)]. exact H.
    + split; [reflexivity|]. intros _ [H|(o & l & d & [])]. exact H.
  - assert (HinL : incl L P) by (intros x Hx; apply Hin; now right).
    assert (HfP : In f P) by (apply Hin; now left).
    destruct f as [off len fin d|err final|err].
    2,3: (destruct (IH fl P HFI HLI Hnr Hlv Hfr HinL) as (fl' & E1 & E2 & E3 & E4 & E5 & E6); exists fl'; cbn [flat_map ack_op app];
          split; [exact E1|split; [exact E2|split; [exact E3|split; [exact E4|split; [exact E5|]]]]];
          destruct E6 as [E6|(O1 & O2 & O3 & O4 & O5)]; [left; exact E6|right; split; [exact O1|split; [exact O2|split; [|split; [exact O4|]]]]];
          [intros i Hi [H|H]; apply O3; [exact Hi|left; exact H|exact Hi|right; apply covers_cons_other in H; [exact H|intros; discriminate]]
          |intros Hd [H|(o & l & d & [Hq|Hq])]; apply O5; [exact Hd|left; exact H|exact Hd|discriminate|exact Hd|right; exists o, l, d; exact Hq]]).
    cbn [flat_map ack_op app run].
    destruct (flow_step c fl (FAck off len fin)) as [[fl1 new] out] eqn:Es.
    destruct (ack_step _ _ _ _ _ _ _ _ _ _ HFI HLI Hnr HfP Es) as (D1 & D2 & D3 & D4 & D5). subst new.
    assert (Hj : justified P (FAck off len fin)) by (cbn [justified]; eauto).
    pose proof (flow_step_inv _ _ _ _ _ _ _ HFI Hj Es) as HFI1. pose proof (flow_step_LI _ _ _ _ _ _ _ HFI HLI Hj Es) as HLI1.
    rewrite app_nil_r in *.
    destruct Hlv as [Hlv|[Hlv|Hlv]].
    3:{ (* already DataRcvd *)
        pose proof (D4 Hlv) as Q. subst fl1.
        destruct (IH fl P HFI HLI Hnr (or_intror (or_intror Hlv)) Hfr HinL) as (fl' & E1 & E2 & E3 & E4 & E5 & E6).
        exists fl'. split; [exact E1|]. split; [exact E2|]. split; [exact E3|]. split; [exact E4|]. split; [exact E5|].
        left. destruct E6 as [E6|(O1 & _)]; [exact E6|congruence]. }
    all: (destruct (D5 ltac:(tauto)) as [C|(C1 & C2 & C3 & C4 & C5)];
      [ (* moved to DataRcvd *)
        assert (Hfr1 : all_FR (fl_snd fl1))
          by (destruct HLI1 as ((_ & _ & _ & _ & _ & L6 & _) & _); destruct (L6 C) as (_ & B1 & B2 & _);
              destruct HFI1 as [(Hok1 & _) _]; destruct Hok1 as [[_ Hsz1 _] (T1 & T2 & T3)];
              intros i Hi; right; apply T2; unfold written in *; lia);
        destruct (IH fl1 P HFI1 HLI1 D3 (or_intror (or_intror C)) Hfr1 HinL) as (fl' & E1 & E2 & E3 & E4 & E5 & E6);
        exists fl'; split; [exact E1|split; [congruence|split; [exact E3|split; [exact E4|split; [exact E5|]]]]];
        left; destruct E6 as [E6|(O1 & _)]; [exact E6|congruence]
      | ]).
    all: assert (Hfr1 : all_FR (fl_snd fl1))
        by (intros i Hi; rewrite C2 in Hi; rewrite (C3 i Hi); destruct (in_rng off len i); [right; reflexivity|apply Hfr; exact Hi]).
    all: assert (Hlv1 : snd_live (fl_snd fl1)) by (unfold snd_live; rewrite C1; tauto).
    all: destruct (IH fl1 P HFI1 HLI1 D3 Hlv1 Hfr1 HinL) as (fl' & E1 & E2 & E3 & E4 & E5 & E6).
    all: exists fl'; split; [exact E1|split; [congruence|split; [exact E3|split; [exact E4|split; [exact E5|]]]]].
    all: destruct E6 as [E6|(O1 & O2 & O3 & O4 & O5)]; [left; exact E6|right].
    all: split; [congruence|split; [congruence|split; [|split; [congruence|]]]].
    all: try (intros i Hi Hc; apply O3; [rewrite C2; exact Hi|]; rewrite (C3 i Hi);
              destruct Hc as [Hc|(o & l & fn & d0 & [Hq|Hq] & Hr)];
              [left; destruct (in_rng off len i); [reflexivity|exact Hc]
              |injection Hq as <- <- <- <-; left; unfold in_rng; destruct (N.leb_spec off i); destruct (N.ltb_spec i (off + len)); cbn [andb]; try reflexivity; lia
              |right; exists o, l, fn, d0; split; assumption]).
    + intros Hd. rewrite Hlv in Hd. discriminate.
    + intros _ Hc. apply O5; [congruence|]. rewrite C5, Hlv.
      destruct Hc as [Hc|(o & l & d0 & [Hq|Hq])].
      * left. destruct fin; [reflexivity|exact Hc].
      * injection Hq as _ _ Hf _. left. rewrite Hf. reflexivity.
      * right. exists o, l, d0. exact Hq.
Qed.

(* ---- what the loss reports and the emissions of the round leave untouched *)
Lemma try_keeps c s pred credit s' p : sb_ok (sn_buf s) -> pred_pos pred -> snd_try_load c s pred credit = (s', p) ->
  wr s' = wr s /\ (~ is_reset s -> ~ is_reset s').
Proof.
  intros Hok Hp Et. unfold wr, is_reset. unfold snd_try_load in Et.
  assert (Pk : forall b' st e fr d, pick_up c (sn_buf s) pred credit = UpOk b' st e fr d -> written b' = written (sn_buf s)).
  { intros b' st e fr d Ep. destruct (sb_pick _ _ _ _ _ _ _ _ _ Hok Hp Ep) as (_ & X & _). exact X. }
  destruct (sn_st s) eqn:Est; try (injection Et as <- _; rewrite Est; auto).
  - destruct (pick_up c (sn_buf s) pred credit) as [b' st e fr d|w f g|] eqn:Ep.
    + specialize (Pk _ _ _ _ _ eq_refl). destruct (sn_shutw s && (e =? written (sn_buf s))); injection Et as <- _; sn_simpl;
        (split; [exact Pk|intros _ [Hq|Hq]; discriminate]).
    + destruct (sn_shutw s && (written (sn_buf s) =? sent (sn_buf s))); [destruct (pred (sent (sn_buf s)))|]; injection Et as <- _; sn_simpl;
        (split; [reflexivity|intros _ [Hq|Hq]; discriminate]).
    + injection Et as <- _; sn_simpl; (split; [reflexivity|intros _ [Hq|Hq]; discriminate]).
  - destruct (pick_up c (sn_buf s) pred credit) as [b' st e fr d|w f g|] eqn:Ep.
    + specialize (Pk _ _ _ _ _ eq_refl). destruct (sn_shutw s && (e =? written (sn_buf s))); injection Et as <- _; sn_simpl;
        (split; [exact Pk|intros _ [Hq|Hq]; discriminate]).
    + destruct (sn_shutw s && (written (sn_buf s) =? sent (sn_buf s))); [destruct (pred (sent (sn_buf s)))|]; injection Et as <- _; sn_simpl;
        (split; [reflexivity|intros _ [Hq|Hq]; discriminate]).
    + injection Et as <- _; sn_simpl; (split; [reflexivity|intros _ [Hq|Hq]; discriminate]).
  - destruct (pick_up c (sn_buf s) pred credit) as [b' st e fr d|w f g|] eqn:Ep.
    + specialize (Pk _ _ _ _ _ eq_refl). injection Et as <- _; sn_simpl; rewrite Est; (split; [exact Pk|auto]).
    + destruct (sn_fin s); injection Et as <- _; sn_simpl; rewrite ?Est; (split; [reflexivity|auto]).
    + injection Et as <- _; rewrite Est; auto.
Qed.

Lemma lost_keeps s off len fin s' ok : sb_ok (sn_buf s) -> snd_may_loss s off len fin = (s', ok) ->
  wr s' = wr s /\ (~ is_reset s -> ~ is_reset s').
Proof.
  intros Hok Ea. unfold wr, is_reset. unfold snd_may_loss in Ea.
  destruct (sn_st s) eqn:Est; try (injection Ea as <- _; rewrite Est; auto).
  - destruct (may_loss_data (sn_buf s) off (off + len)) as [b|] eqn:Eb; injection Ea as <- _; sn_simpl; rewrite ?Est; [|auto].
    destruct (sb_loss _ _ _ _ Hok Eb) as (_ & X). split; [exact X|auto].
  - destruct (may_loss_data (sn_buf s) off (off + len)) as [b|] eqn:Eb; injection Ea as <- _; sn_simpl; rewrite ?Est; [|auto].
    destruct (sb_loss _ _ _ _ Hok Eb) as (_ & X). split; [exact X|auto].
Qed.

(* the state a round starts from, and what every step of its first two phases preserves *)
Definition round_ok (c : N -> Z) (fl : flow) (P : list fframe) : Prop :=
  flow_reach c fl P /\ ~ is_reset (fl_snd fl) /\ wr (fl_snd fl) <= md (fl_snd fl).

Lemma lose_phase c : forall L fl P, round_ok c fl P -> incl L P ->
  exists fl', run c fl P (flat_map lose_op L) = (fl', P) /\ round_ok c fl' P.
Proof.
  induction L as [|f L IH]; intros fl P Hr Hin; [exists fl; split; [reflexivity|exact Hr]|].
  assert (HinL : incl L P) by (intros x Hx; apply Hin; now right).
  assert (HfP : In f P) by (apply Hin; now left).
  destruct f as [off len fin d|err final|err]; cbn [flat_map lose_op app]; try (apply IH; assumption).
  cbn [run]. destruct (flow_step c fl (FLose off len fin)) as [[fl1 new] out] eqn:Es.
  destruct Hr as (Hre & Hnr & Hw). pose proof (reach_FI _ _ _ Hre) as [(Hok & _) _].
  assert (Hj : justified P (FLose off len fin)) by (cbn [justified]; eauto).
  pose proof (fr_step _ _ _ _ _ _ _ Hre Hj Es) as Hre1.
  assert (Hk : new = [] /\ wr (fl_snd fl1) = wr (fl_snd fl) /\ md (fl_snd fl1) = md (fl_snd fl) /\ ~ is_reset (fl_snd fl1)).
  { unfold flow_step in Es. cbv zeta in Es. destruct (sn_inset (fl_snd fl)).
    - destruct (snd_may_loss (fl_snd fl) off len fin) as [s' ok] eqn:El. injection Es as <- <- _. cbn [fl_snd].
      destruct (lost_keeps _ _ _ _ _ _ Hok El) as [K1 K2]. split; [reflexivity|]. split; [exact K1|]. split; [eapply md_lost; eauto|auto].
    - injection Es as <- <- _. auto. }
  destruct Hk as (-> & K1 & K2 & K3). rewrite app_nil_r in *.
  apply IH; [|exact HinL]. split; [exact Hre1|]. split; [exact K3|]. rewrite K1, K2. exact Hw.
Qed.

(* emit until nothing more is emitted; the boolean says the loop ended that way (fuel not exhausted) *)
Fixpoint emit_loop (fuel : nat) (c : N -> Z) (fl : flow) (P : list fframe) (pred : N -> option N) (credit : N)
  : flow * list fframe * bool :=
  match fuel with
  | O => (fl, P, false)
  | S k =>
    let '(fl', new, out) := flow_step c fl (FTry pred credit) in
    match fo_pick out with
    | Some _ => emit_loop k c fl' (P ++ new) pred credit
    | None => (fl', P ++ new, true)
    end
  end.

Lemma emit_phase c pred credit : good_pred pred -> credit <> 0 -> forall fuel fl P fl' P',
  round_ok c fl P -> emit_loop fuel c fl P pred credit = (fl', P', true) ->
  round_ok c fl' P' /\ snd_drained (fl_snd fl').
Proof.
  intros Hg Hc. induction fuel as [|k IH]; intros fl P fl' P' Hr E; cbn [emit_loop] in E; [discriminate|].
  destruct (flow_step c fl (FTry pred credit)) as [[fl1 new] out] eqn:Es.
  destruct Hr as (Hre & Hnr & Hw). pose proof (reach_FI _ _ _ Hre) as HFI. pose proof (reach_LI _ _ _ Hre) as HLI.
  pose proof HFI as [(Hok & _) _].
  assert (Hj : justified P (FTry pred credit)) by (cbn [justified]; apply good_pred_pos; exact Hg).
  pose proof (fr_step _ _ _ _ _ _ _ Hre Hj Es) as Hre1.
  destruct (fo_pick out) eqn:Ep.
  - apply (IH fl1 (P ++ new)); [|exact E]. split; [exact Hre1|].
    unfold flow_step in Es. cbv zeta in Es. destruct (snd_try_load c (fl_snd fl) pred credit) as [s' p0] eqn:Et.
    injection Es as <- _ _. cbn [fl_snd].
    destruct (try_keeps _ _ _ _ _ _ Hok (good_pred_pos _ Hg) Et) as [K1 K2].
    split; [auto|]. rewrite K1, (md_try _ _ _ _ _ _ Hok (good_pred_pos _ Hg) Et). exact Hw.
  - injection E as <- <- . 
    destruct (try_none_drained _ _ _ _ _ _ _ _ HFI HLI Hnr Hg Hc Hw Es Ep) as (D1 & D2 & D3 & D4 & D5).
    split; [|exact D3]. split; [exact Hre1|]. split; [exact D4|]. rewrite D5.
    unfold flow_step in Es. cbv zeta in Es. destruct (snd_try_load c (fl_snd fl) pred credit) as [s' p0] eqn:Et.
    injection Es as <- _ _. cbn [fl_snd]. rewrite (md_try _ _ _ _ _ _ Hok (good_pred_pos _ Hg) Et). exact Hw.
Qed.

Lemma acked_keeps s off len fin s' ok : sb_ok (sn_buf s) -> snd_on_acked s off len fin = (s', ok) -> wr s' = wr s.
Proof.
  intros Hok Ea. unfold wr. unfold snd_on_acked in Ea.
  destruct (sn_st s); try (injection Ea as <- _; reflexivity);
    (destruct (on_data_acked (sn_buf s) off (off + len)) as [b|] eqn:Eb; [|injection Ea as <- _; reflexivity]);
    destruct (sb_ack _ _ _ _ Hok Eb) as (_ & X).
  - destruct (is_all_rcvd b && sn_flushw s); injection Ea as <- _; exact X.
  - destruct (is_all_rcvd b && _); injection Ea as <- _; exact X.
Qed.

Lemma ack_phase_wr c : forall L fl P fl' P',
  FI c fl P -> incl L P -> run c fl P (flat_map ack_op L) = (fl', P') -> wr (fl_snd fl') = wr (fl_snd fl).
Proof.
  induction L as [|f L IH]; intros fl P fl' P' HFI Hin E; [cbn in E; injection E as <- _; reflexivity|].
  assert (HinL : incl L P) by (intros x Hx; apply Hin; now right).
  assert (HfP : In f P) by (apply Hin; now left).
  destruct f as [off len fin d|err final|err]; cbn [flat_map ack_op app] in E; try (solve [eapply IH; eauto]).
  cbn [run] in E. destruct (flow_step c fl (FAck off len fin)) as [[fl1 new] out] eqn:Es.
  assert (Hj : justified P (FAck off len fin)) by (cbn [justified]; eauto).
  pose proof (flow_step_inv _ _ _ _ _ _ _ HFI Hj Es) as HFI1. pose proof HFI as [(Hok & _) _].
  assert (Hk : new = [] /\ wr (fl_snd fl1) = wr (fl_snd fl)).
  { unfold flow_step in Es. cbv zeta in Es. destruct (sn_inset (fl_snd fl)).
    - destruct (snd_on_acked (fl_snd fl) off len fin) as [s' ok] eqn:El. injection Es as <- <- _. cbn [fl_snd].
      split; [reflexivity|eapply acked_keeps; eauto].
    - injection Es as <- <- _. auto. }
  destruct Hk as [-> K]. rewrite app_nil_r in *. transitivity (wr (fl_snd fl1)); [eapply IH; eauto|exact K].
Qed.

Lemma all_R_retained b : sb_ok b -> (forall i, i < size (st b) -> colr (st b) i = Recved) -> written b <= max_data b ->
  retained b = 0.
Proof.
  intros [[_ Hsz _] (T1 & T2 & T3)] Hall Hw. unfold written in *.
  destruct (N.lt_ge_cases (base b) (size (st b))) as [Hlt|Hge]; [exfalso; apply (T3 Hlt); apply Hall; exact Hlt|]. lia.
Qed.

(* the outcome of a round *)
Definition flow_done (fl : flow) : Prop :=
  nread (rc_buf (fl_rcv fl)) + available (rc_buf (fl_rcv fl)) = wr (fl_snd fl) /\
  (sn_shutcalled (fl_snd fl) = true -> done_r (fl_rcv fl) /\ sn_st (fl_snd fl) = SDataRcvd) /\
  snd (snd_poll_flush (fl_snd fl)) = 1%Z /\
  (sn_shutcalled (fl_snd fl) = true -> snd (snd_poll_shutdown (fl_snd fl)) = 1%Z).

Lemma finish c fl P :
  round_ok c fl P -> snd_drained (fl_snd fl) ->
  exists fl3 fl4, run c fl P (flat_map deliver_op P) = (fl3, P) /\ run c fl3 P (flat_map ack_op P) = (fl4, P) /\
                  flow_done fl4 /\ FI c fl4 P /\ ~ is_reset (fl_snd fl4).
Proof.
  intros (Hre & Hnr & Hw) [Hfr Hdst]. pose proof (reach_FI _ _ _ Hre) as HFI. pose proof (reach_LI _ _ _ Hre) as HLI.
  pose proof HFI as [(Hok & _) _]. pose proof HLI as ((_ & L2 & _) & _).
  pose proof Hok as [[_ Hsz _] _].
  assert (Hsent : sent (sn_buf (fl_snd fl)) = wr (fl_snd fl)).
  { rewrite (all_FR_sent _ Hok Hfr). unfold wr, md in *. lia. }
  assert (Hcov : forall i, i < wr (fl_snd fl) -> covers P i) by (intros i Hi; apply L2; lia).
  destruct (deliver_phase c P fl P HFI HLI Hnr (incl_refl P)) as (fl3 & E1 & E2 & HFI3 & HLI3 & _ & E6).
  exists fl3.
  (* recver *)
  assert (Hrcv : nread (rc_buf (fl_rcv fl3)) + available (rc_buf (fl_rcv fl3)) = wr (fl_snd fl) /\
                 (has_fin P -> done_r (fl_rcv fl3))).
  { pose proof HFI3 as [_ HR3]. rewrite E2 in HR3. pose proof HR3 as (R1 & R2 & R3 & R4 & _).
    destruct E6 as [Hd|(Ho & Hc & Hf)].
    - split; [|auto]. destruct Hd as [[f Hd]|Hd]; rewrite Hd in R4.
      + destruct R4 as (A1 & _ & _ & A4). lia.
      + destruct R4 as (A1 & _). eapply rcv_complete; [exact HR3|]. intros i Hi. left. lia.
    - assert (Hsum : nread (rc_buf (fl_rcv fl3)) + available (rc_buf (fl_rcv fl3)) = wr (fl_snd fl)).
      { eapply rcv_complete; [exact HR3|]. intros i Hi. apply Hc. right. apply Hcov. exact Hi. }
      split; [exact Hsum|]. intros Hfin. exfalso.
      destruct HLI3 as (_ & [Hrs|[K1 _]] & _).
      + eapply (no_reset_frames c fl3 P); [exact HFI3|rewrite E2; exact Hnr|exact Hrs].
      + destruct Ho as [Ho|[f Ho]].
        * apply (Hf (or_introl Hfin)). exact Ho.
        * apply (K1 f Ho). rewrite Ho in R4. destruct R4 as (A1 & _). lia. }
  destruct Hrcv as [Hsum Hfin].
  (* sender *)
  assert (Hlv : snd_live (fl_snd fl3)).
  { rewrite E2. unfold snd_live. destruct (sn_st (fl_snd fl)); try contradiction; tauto. }
  assert (Hnr3 : ~ is_reset (fl_snd fl3)) by (rewrite E2; exact Hnr).
  assert (Hfr3 : all_FR (fl_snd fl3)) by (rewrite E2; exact Hfr).
  destruct (ack_phase c P fl3 P HFI3 HLI3 Hnr3 Hlv Hfr3 (incl_refl P)) as (fl4 & F1 & F2 & HFI4 & HLI4 & Hnr4 & F6).
  exists fl4. split; [exact E1|]. split; [exact F1|]. split; [|split; [exact HFI4|exact Hnr4]].
  pose proof (ack_phase_wr c P fl3 P fl4 P HFI3 (incl_refl P) F1) as Hwr. rewrite E2 in Hwr.
  pose proof HLI4 as ((_ & _ & _ & _ & L5 & L6 & _) & _). pose proof HFI4 as [(Hok4 & _) _].
  unfold flow_done. rewrite F2, Hwr.
  destruct F6 as [Hdr|(O1 & O2 & O3 & O4 & O5)].
  - destruct (L6 Hdr) as (B1 & _ & _ & B4).
    split; [exact Hsum|]. split; [intros _; split; [auto|exact Hdr]|].
    unfold snd_poll_flush, snd_poll_shutdown. rewrite Hdr. split; [reflexivity|auto].
  - (* the sender kept its state: every byte is acknowledged now *)
    rewrite E2 in O1, O2, O3, O4, O5.
    assert (Hall : forall i, i < size (st (sn_buf (fl_snd fl4))) -> colr (st (sn_buf (fl_snd fl4))) i = Recved).
    { intros i Hi. rewrite O2 in Hi. apply O3; [exact Hi|]. right. apply Hcov.
      rewrite <- Hsent. rewrite (all_FR_sent _ Hok Hfr). exact Hi. }
    assert (Hw4 : written (sn_buf (fl_snd fl4)) <= max_data (sn_buf (fl_snd fl4))).
    { destruct Hok4 as [[_ Hsz4 _] _]. unfold wr, md in *. rewrite O2 in Hsz4. lia. }
    pose proof (all_R_retained _ Hok4 Hall Hw4) as Hret.
    destruct (sn_st (fl_snd fl)) eqn:Est; try contradiction.
    + (* Sending, shutdown never called *)
      split; [exact Hsum|]. split; [intro Hq; congruence|].
      unfold snd_poll_flush, snd_poll_shutdown. rewrite O1. unfold is_all_rcvd. rewrite Hret. cbn.
      split; [reflexivity|intro Hq; congruence].
    + (* DataSent cannot remain *)
      exfalso. destruct (L5 O1) as (B1 & _ & B3 & _). apply B3. split; [exact Hret|].
      apply O5; [reflexivity|]. right. destruct HLI3 as ((_ & _ & _ & _ & L5' & _) & _).
      rewrite E2 in L5'. destruct (L5' Est) as (C1 & _). exact C1.
    + destruct (L6 O1) as (B1 & _ & _ & B4).
      split; [exact Hsum|]. split; [intros _; split; [auto|exact O1]|].
      unfold snd_poll_flush, snd_poll_shutdown. rewrite O1. split; [reflexivity|auto].
Qed.

(* ---- reading what the round made readable *)
Lemma not_readable_avail b : is_readable b = false -> available b = 0.
Proof.
  unfold is_readable, available. destruct (segs b) as [|s rest]; cbn [contig_end]; [lia|].
  intros ->. lia.
Qed.

Lemma read_all c r W (pf sc : Prop) P room r' z out :
  RI c r W pf sc P -> nread (rc_buf r) + available (rc_buf r) = W -> W < room ->
  rc_st r <> RResetRcvd -> rc_st r <> RResetRead ->
  rc_poll_read r room = (r', z, out) ->
  nread (rc_buf r') = W /\ (done_r r -> rc_st r' = RDataRead).
Proof.
  intros HR Hsum Hroom N1 N2 E. pose proof HR as (R1 & R2 & _). unfold rc_poll_read in E. unfold done_r.
  assert (Rd : forall b' o, try_read (rc_buf r) room = (b', o) -> nread b' = W /\ segs b' = []).
  { intros b' o Et. destruct (read_keeps_sum _ _ _ _ _ R1 Et) as (T1 & T2 & T3 & T4 & T5 & T6).
    pose proof (RB.try_read_spec _ _ _ _ _ R1 Et) as HS. cbv zeta in HS. destruct HS as (_ & S2 & _).
    assert (nread b' = W) by lia. split; [assumption|]. apply (drained c); [exact T1|lia]. }
  destruct (rc_st r) eqn:Est; try congruence.
  - destruct (is_readable (rc_buf r)) eqn:Erd.
    + destruct (try_read (rc_buf r) room) as [b' o] eqn:Et. injection E as <- _ _. rc_simpl.
      split; [exact (proj1 (Rd _ _ eq_refl))|intros [[f Hq]|Hq]; discriminate].
    + injection E as <- _ _. rc_simpl. pose proof (not_readable_avail _ Erd). split; [lia|intros [[f Hq]|Hq]; discriminate].
  - destruct (is_readable (rc_buf r)) eqn:Erd.
    + destruct (try_read (rc_buf r) room) as [b' o] eqn:Et. injection E as <- _ _. rc_simpl.
      split; [exact (proj1 (Rd _ _ eq_refl))|intros [[f Hq]|Hq]; discriminate].
    + injection E as <- _ _. rc_simpl. pose proof (not_readable_avail _ Erd). split; [lia|intros [[f Hq]|Hq]; discriminate].
  - destruct (try_read (rc_buf r) room) as [b' o] eqn:Et. injection E as <- _ _. rc_simpl.
    destruct (Rd _ _ eq_refl) as [A B]. split; [exact A|]. intros _. rewrite B. reflexivity.
  - injection E as <- _ _. rc_simpl. destruct HR as (_ & _ & _ & R4 & _). rewrite Est in R4. split; [tauto|auto].
Qed.

Lemma reads_finish c fl P room fl' P' :
  FI c fl P -> ~ is_reset (fl_snd fl) -> flow_done fl -> wr (fl_snd fl) < room ->
  run c fl P [FRead room; FRead room] = (fl', P') ->
  rc_got (fl_rcv fl') = written_bytes c fl' /\ (sn_shutcalled (fl_snd fl') = true -> rc_eos (fl_rcv fl') = true).
Proof.
  intros HFI Hnr (D1 & D2 & _) Hroom E. cbn [run flow_step] in E.
  destruct (rc_poll_read (fl_rcv fl) room) as [[r1 z1] o1] eqn:E1. cbn [fl_snd fl_rcv] in E.
  destruct (rc_poll_read r1 room) as [[r2 z2] o2] eqn:E2. injection E as <- _. cbn [fl_snd fl_rcv].
  pose proof HFI as [HS HR].
  assert (Nr : rc_st (fl_rcv fl) <> RResetRcvd /\ rc_st (fl_rcv fl) <> RResetRead).
  { destruct (no_reset_rcv _ _ _ HFI Hnr) as [[H|[f H]]|[[f H]|H]]; rewrite H; split; discriminate. }
  destruct (read_all _ _ _ _ _ _ _ _ _ _ HR D1 Hroom (proj1 Nr) (proj2 Nr) E1) as [A1 A2].
  pose proof (step_read _ _ _ _ _ _ _ _ _ _ HR E1) as HR1.
  pose proof (step_read _ _ _ _ _ _ _ _ _ _ HR1 E2) as HR2.
  (* the second read *)
  assert (B : nread (rc_buf r2) = wr (fl_snd fl) /\ (rc_st r1 = RDataRead -> rc_eos r2 = true)).
  { pose proof HR1 as (Q1 & Q2 & _). unfold rc_poll_read in E2.
    assert (Keep : forall b' o, try_read (rc_buf r1) room = (b', o) -> nread b' = wr (fl_snd fl)).
    { intros b' o Et. destruct (read_keeps_sum _ _ _ _ _ Q1 Et) as (T1 & _ & _ & T4 & T5 & _).
      destruct T1 as (_ & I2 & _). lia. }
    destruct (rc_st r1) eqn:Est.
    - destruct (is_readable (rc_buf r1)); [destruct (try_read (rc_buf r1) room) as [b' o] eqn:Et|]; injection E2 as <- _ _; rc_simpl;
        (split; [eauto|discriminate]).
    - destruct (is_readable (rc_buf r1)); [destruct (try_read (rc_buf r1) room) as [b' o] eqn:Et|]; injection E2 as <- _ _; rc_simpl;
        (split; [eauto|discriminate]).
    - destruct (try_read (rc_buf r1) room) as [b' o] eqn:Et. injection E2 as <- _ _; rc_simpl. split; [eauto|discriminate].
    - injection E2 as <- _ _; rc_simpl. split; [exact A1|]. intros _.
      destruct (N.eqb_spec room 0); [lia|]. cbn. apply orb_true_r.
    - injection E2 as <- _ _; rc_simpl. split; [exact A1|discriminate].
    - injection E2 as <- _ _. split; [exact A1|discriminate]. }
  destruct B as [B1 B2]. destruct HR2 as (_ & _ & G3 & _). split.
  - rewrite G3, B1. reflexivity.
  - intro Hs. apply B2. apply A2. exact (proj1 (D2 Hs)).
Qed.

(* ---- the round and the theorem *)
Definition good_round (fuel : nat) (c : N -> Z) (fl : flow) (P : list fframe) (pred : N -> option N) (credit : N)
  : flow * list fframe * bool :=
  let '(fl1, P1) := run c fl P (flat_map lose_op P) in
  let '(fl2, P2, ok) := emit_loop fuel c fl1 P1 pred credit in
  let '(fl3, P3) := run c fl2 P2 (flat_map deliver_op P2) in
  let '(fl4, P4) := run c fl3 P3 (flat_map ack_op P3) in
  (fl4, P4, ok).

Lemma p_c01_progress_flow : forall c fl P pred credit fuel fl' P',
  flow_reach c fl P -> ~ is_reset (fl_snd fl) -> wr (fl_snd fl) <= md (fl_snd fl) ->
  good_pred pred -> credit <> 0 ->
  good_round fuel c fl P pred credit = (fl', P', true) ->
  flow_done fl' /\
  forall room fl'' P'', wr (fl_snd fl') < room -> run c fl' P' [FRead room; FRead room] = (fl'', P'') ->
    rc_got (fl_rcv fl'') = written_bytes c fl'' /\ (sn_shutcalled (fl_snd fl'') = true -> rc_eos (fl_rcv fl'') = true).
Proof.
  intros c fl P pred credit fuel fl' P' Hre Hnr Hw Hg Hc E. unfold good_round in E.
  destruct (lose_phase c P fl P (conj Hre (conj Hnr Hw)) (incl_refl P)) as (fl1 & E1 & Hr1). rewrite E1 in E.
  destruct (emit_loop fuel c fl1 P pred credit) as [[fl2 P2] ok] eqn:E2.
  destruct (run c fl2 P2 (flat_map deliver_op P2)) as [fl3 P3] eqn:E3.
  destruct (run c fl3 P3 (flat_map ack_op P3)) as [fl4 P4] eqn:E4. injection E as <- <- ->.
  destruct (emit_phase c pred credit Hg Hc fuel fl1 P fl2 P2 Hr1 E2) as [Hr2 Hd2].
  destruct (finish c fl2 P2 Hr2 Hd2) as (g3 & g4 & G1 & G2 & G3 & G4 & G5).
  rewrite G1 in E3. injection E3 as <- <-. rewrite G2 in E4. injection E4 as <- <-.
  split; [exact G3|]. intros room fl'' P'' Hroom Er. eapply reads_finish; eauto.
Qed.
